"""Per-property configuration of the check: required theorems (the proof obligations), the rule by
which correspondence cases are generated, trusted base, assumptions."""

COMMON_TRUSTED = [
    "Lean 4.33 kernel; Mathlib v4.33 as a library of kernel-checked proofs; axioms allowed: propext, Classical.choice, Quot.sound (audited per theorem on every run; no sorry/admit/native_decide/bv_decide/own axioms)",
    "Lean compiler: the driver executes the same model definitions the theorems are about",
    "correspondence harness (/verif/harness): scripted RNG, dlog book, wire assembly, token comparison — differential testing of the hand-written model against /repo's working tree on this run's inputs",
    "modelled, not verified: bls12_381 (a field F and F-modules G1, G2, GT with a bilinear non-degenerate pairing; canonical encodings; samplers), sha3, serde/bincode framing, arrayvec, rand, rustc",
]

PROPS = {
    "C09": {
        "theorems": ["commit_is_pedersen_map", "verify_opening_iff", "open_original", "reject_single_coord",
                     "reject_bf", "commit_add", "commit_smul", "open_sum", "two_openings_relation"],
        "rule": "for G1 and G2, N in {1,2,3,5,8,13}: parameters from from_generators (random dlogs, occasionally an identity generator) or from PedersenParameters::new under the scripted RNG; message / blinding-factor entries from {0,1,q-1,small,random}; ops: commit, verify_opening on the original, on every single-coordinate change, on a changed blinding factor, on a changed commitment, on the sum of two commitments. A case is counted distinct when its request line (all inputs) is new; every request has non-constant inputs, so all are non-trivial.",
        "explanation": "Theorems: the model's commit is r*h + sum m_i*g_i for every field, module and length; verify_opening accepts iff equal; single-coordinate / blinding-factor changes are rejected (generator not the identity); homomorphism; two openings give a linear relation. Correspondence: real Commitment::new / verify_opening vs the model in exponent space, compared exactly via known discrete logs; independent oracle: naive accumulation.",
        "level_text": "Proof: the Pedersen model's laws (exact map, accept-iff-equal, single-coordinate and blinding-factor rejection, homomorphism, two-openings relation) are Lean theorems for every field, module, length and input; the model is tied to the Rust code by an exact exponent-space differential run on every check.",
        "level_note": "Trusted: Lean kernel + Mathlib, axioms propext/Classical.choice/Quot.sound; the correspondence harness (finite sample per run); bls12_381 group laws; binding is a reduction to discrete log, not an unconditional statement.",
        "assumptions": ["G1, G2 are modules over the scalar field (bls12_381 group laws)", "binding itself is computational (discrete log); the theorem delivers the reduction"],
    },
}

PROPS["C07"] = {
    "theorems": ["verify_iff", "identity_sig_never_verifies", "verify_honest_iff", "sign_verifies",
                 "randomize_verifies_iff", "randomize_zero_rejected", "blind_randomize_unblind",
                 "blind_randomize_unblind_verifies", "blindsign_unblind_verifies_iff", "blindsign_unblind_verifies",
                 "blindsign_zero_rejected", "single_coord_change_rejects", "single_coord_change_rejects_anykey",
                 "verify_other_key_iff", "chain_verifies"],
    "rule": "N in {1,2,3,5,8,13}; keys from KeyPair::new under the scripted RNG (sometimes with leading zero scalar draws) compared element by element with the model's keygen, or decoded from bytes with chosen dlogs; messages over {0,1,q-1,small,random}; signature from sign, then a random chain (depth 0..6) of randomize (re-randomiser forced to 0 in 1/12), blind_and_randomize+unblind, blind-sign (via a signature-request proof) + unblind with right / wrong blinding factor (blind-signing scalar forced to 0 in 1/10), re-encode; after each step verify is compared with the model, with the two-pairing oracle and with the verdict the theorems predict; every single-coordinate change and an independent key on valid signatures; raw (sigma1, sigma2) pairs, matching and non-matching, under arbitrary (not keygen-shaped) public keys. Distinct = new request line.",
    "explanation": "Theorems: verify is true iff sigma1 != 1 and e(sigma1, X~ prod Y~i^mi) = e(sigma2, g~) for every public key; under keygen-shaped keys valid iff sigma2 = sigma1^(x + sum yi mi); sign / randomize (r != 0) / blind_and_randomize+unblind / blind-sign+unblind(bf' = bf exactly) / any chain of these verify; single-coordinate change rejects (also for arbitrary keys with Y~i != 1); other key accepts iff a linear coincidence; identity signature, r = 0 and u = 0 rejected. Correspondence: every real operation vs the model in exponent space (exact), independent oracle = bls12_381::pairing on the real elements.",
    "level_text": "Proof: exact characterisation of PS verification and of every derivation path as Lean theorems for all fields, modules, pairings, lengths, keys, messages, signatures and chains (induction over the chain); model tied to the Rust code by an exact exponent-space differential run plus a two-pairing oracle.",
    "level_note": "Trusted: Lean kernel + Mathlib (axioms propext/Classical.choice/Quot.sound); correspondence harness (finite sample per run); bls12_381 pairing bilinear and non-degenerate over prime-order groups.",
    "assumptions": ["bls12_381::pairing is bilinear and non-degenerate; G1, G2, GT have prime order q", "'fails for an independent key' is a probability-(1-1/q) statement: the theorem gives the exact linear condition, the harness samples it"],
}

PROPS["C08"] = {
    "theorems": ["srpVerify_some_iff", "srpVerify_none_iff", "honest_request_accepted", "request_sign_unblind_verifies",
                 "unblind_verifies_iff_opening", "request_signature_rejects_changed_coord", "tampered_request_rejected"],
    "rule": "N in {1,2,3,5,8,13}; keys generated under the scripted RNG or decoded; messages over edge and random scalars; a random subset of slots with caller-chosen commitment scalars; the honest request goes through the real builder (witness recovered from accessors and response scalars, all atoms compared with the model's prover), is verified (must yield a value), the value is blind-signed (sigma2 = u(x1 + v) pins v to the proof's commitment), unblinded with the right / a wrong blinding factor and verified on the original and on every single-coordinate change; then every single-atom tampering (C, T, z_bf, each z_i by +1/-1/random/0, C and T swapped, challenge changed) must yield no value. Distinct = new request line.",
    "explanation": "Theorems: srpVerify returns some v iff the Schnorr equation holds and then v is the proof's commitment; honest requests are accepted for every challenge; blind-sign + unblind verifies on (m', r') iff (m', r') opens the blind-signed value; hence on no tuple differing in a coordinate. Correspondence: real SignatureRequestProof / blind_sign / unblind / verify vs the model (exact), oracle = Schnorr equation evaluated in the real group.",
    "level_text": "Proof: the only source of blind-signable values and what their signatures verify on are characterised exactly by Lean theorems for all fields, modules, pairings, lengths and inputs; tied to the Rust code by exponent-space differential runs including exhaustive single-atom tampering of every request.",
    "level_note": "Trusted: Lean kernel + Mathlib (three standard axioms); correspondence harness; bls12_381. That VerifiedBlindedMessage cannot be constructed outside the crate is Rust visibility (pub(crate) field), mirrored in the model by srpVerify being the only producer.",
    "assumptions": ["Rust privacy of VerifiedBlindedMessage's field", "bls12_381 group / pairing laws"],
}

PROPS["C17"] = {
    "theorems": ["consts", "try_new_exact", "try_new_ok_iff", "pay_merchant_exact", "pay_customer_exact", "pay_merchant_in_range",
                 "pay_customer_in_range", "customer_apply_exact", "merchant_apply_exact", "apply_payment_exact",
                 "apply_payment_no_panic", "apply_payment_ok", "try_add_exact", "amount_to_scalar_total", "balance_to_scalar",
                 "enc_sub", "enc_add", "enc_consistent", "balance_enc_injective", "Legacy.to_scalar_min_panics", "Legacy.to_scalar_agrees"],
    "rule": "constructors, scalar encodings and try_add over the boundary lattice {0,1,2,2^31,2^32,2^62,2^63-2,2^63-1,2^63,2^63+1,2^64-1} plus random 64-bit values (random bit lengths); the amount encoding is exercised for the i64 with the same 8 wire bytes (so i64::MIN and every decodable amount is covered); payment application over lattice x lattice x signed lattice (incl. i64::MIN, +-balance, +-(balance+-1)) and random triples, through State::new + apply_payment (customer side evaluated first); balances above 2^63-1 are attempted through the decoder (rejected since the D3 repair); panics are caught per call (release profile with overflow-checks = true). Oracle: 128-bit reference arithmetic. Distinct = new request line.",
    "explanation": "Theorems: exact characterisation (never panic, never wrap, exact error variant, customer side first) of try_new, pay_merchant, pay_customer, apply, apply_payment, try_add for all 64-bit inputs satisfying the type invariant; the scalar encoding is the ring map Z -> F, total on i64, with enc(b) -/+ enc(a) = enc(b -/+ a), injective on 64-bit values when char F > 2^64; the pinned to_scalar panics at i64::MIN (D5). Correspondence: every real function vs the model on the lattice and random values, exact.",
    "level_text": "Proof: the arithmetic model (checked 64/128-bit operations with explicit panic outcome) is proved total and exact for all 64-bit inputs by omega / case analysis; tied to the Rust code by a dense differential run with overflow checks enabled.",
    "level_note": "Trusted: Lean kernel + Mathlib (three standard axioms); the correspondence harness; rustc's overflow-check semantics as modelled (panic on +, unary -, abs overflow; `as` truncates).",
    "assumptions": ["balances reaching apply/try_add satisfy the type invariant (guaranteed by constructors and, since the D3 repair, by the decoder)"],
}

PROPS["C11"] = {
    "theorems": ["cpVerify_iff", "srpVerify_iff", "spVerify_true", "spVerify_iff", "change_T_rejects", "change_C_accepts_iff", "change_C_rejects",
                 "change_z_rejects", "change_zbf_rejects", "other_challenge_accepts_iff", "other_challenge_rejects",
                 "other_params_accepts_iff", "simulated_accepts", "simulated_rejects_other_challenge",
                 "identity_blinded_sig_rejects", "change_sigma2_rejects", "change_sigma1_rejects", "sp_extract", "srp_extract"],
    "extra_lemma_theorems": ["ZkVerif.cp_complete", "ZkVerif.cp_extract"],
    "rule": "commitment proofs in G1 and G2 and signature proofs, N in {1,2,3,5,8,13}; parameters explicit (random dlogs) or generated under the scripted RNG; keys generated or decoded; messages with edge entries and zero patterns; random subsets of caller-chosen commitment scalars (incl. 0 on a zero entry); challenge derived from the builder, or fixed to 0 / 1 through the hook; honest proof (all atoms compared with the model's prover on the recovered witness), then every single-atom perturbation (each group element and each scalar by +1/-1/random/0, C and T swapped, challenge changed), each generator and h replaced, simulated transcripts under their own and under another challenge, signature proofs with sigma1'/sigma2' altered, under another key, around the identity signature (re-randomiser forced to 0 through the API) and for a signature on another message. Each verdict is compared with the model, with an independent evaluation of the relations in the real groups (two pairings for signature proofs) and with the verdict the theorems' exact side conditions predict. Distinct = new request line.",
    "explanation": "Theorems: the three verifiers accept iff the Schnorr equation (and for signature proofs sigma1' != 1 and the pairing equation) holds; single-field changes with exact side conditions (T always; C iff c(C'-C) != 0; z_i iff g_i != 1; z_bf iff h != 1; challenge iff (c-c')C != 0; generator iff z_i(g'-g_i) != 0; sigma' via non-degeneracy); simulated transcripts; special-soundness extractors for commitment, signature-request and signature proofs (the latter yields a valid PS signature on the extracted message). Correspondence as described in 'rule'.",
    "level_text": "Proof: exact acceptance conditions, exact perturbation side conditions and special soundness are Lean theorems for all fields, modules, pairings, lengths and inputs; tied to the Rust verifiers by exhaustive single-atom perturbation runs compared exactly in exponent space and against an independent oracle.",
    "level_note": "Trusted: Lean kernel + Mathlib (three standard axioms); correspondence harness; bls12_381 pairing laws. 'Never accepted without knowing an opening' is delivered as special soundness (knowledge extractor); the step to Fiat-Shamir soundness is the standard forking argument, not re-proved.",
    "assumptions": ["bilinear non-degenerate pairing", "forking lemma / random oracle for the passage from special soundness to soundness"],
}

NOT_APPLICABLE = {}
