"""Per-property configuration of the check: required theorems (the proof obligations), the rule by
which correspondence cases are generated, trusted base, assumptions."""

COMMON_TRUSTED = [
    "Lean 4.33 kernel; Mathlib v4.33 as a library of kernel-checked proofs; axioms allowed: propext, Classical.choice, Quot.sound (audited per theorem on every run; no sorry/admit/native_decide/bv_decide/own axioms)",
    "Lean compiler: the driver executes the same model definitions the theorems are about",
    "correspondence harness (/verif/harness): scripted RNG, dlog book, wire assembly, token comparison — differential testing of the hand-written model against /repo's working tree on this run's inputs",
    "modelled, not verified: bls12_381 (a field F and F-modules G1, G2, GT with a bilinear non-degenerate pairing; canonical encodings; samplers), sha3, serde/bincode framing, arrayvec, rand, rustc",
]

PROPS = {
    "C09": {
        "theorems": ["commit_is_pedersen_map", "verify_opening_iff", "open_original", "reject_single_coord",
                     "reject_bf", "commit_add", "commit_smul", "open_sum", "two_openings_relation"],
        "rule": "for G1 and G2, N in {1,2,3,5,8,13}: parameters from from_generators (random dlogs, occasionally an identity generator) or from PedersenParameters::new under the scripted RNG; message / blinding-factor entries from {0,1,q-1,small,random}; ops: commit, verify_opening on the original, on every single-coordinate change, on a changed blinding factor, on a changed commitment, on the sum of two commitments. A case is counted distinct when its request line (all inputs) is new; every request has non-constant inputs, so all are non-trivial.",
        "explanation": "Theorems: the model's commit is r*h + sum m_i*g_i for every field, module and length; verify_opening accepts iff equal; single-coordinate / blinding-factor changes are rejected (generator not the identity); homomorphism; two openings give a linear relation. Correspondence: real Commitment::new / verify_opening vs the model in exponent space, compared exactly via known discrete logs; independent oracle: naive accumulation.",
        "level_text": "Proof: the Pedersen model's laws (exact map, accept-iff-equal, single-coordinate and blinding-factor rejection, homomorphism, two-openings relation) are Lean theorems for every field, module, length and input; the model is tied to the Rust code by an exact exponent-space differential run on every check.",
        "level_note": "Trusted: Lean kernel + Mathlib, axioms propext/Classical.choice/Quot.sound; the correspondence harness (finite sample per run); bls12_381 group laws; binding is a reduction to discrete log, not an unconditional statement.",
        "assumptions": ["G1, G2 are modules over the scalar field (bls12_381 group laws)", "binding itself is computational (discrete log); the theorem delivers the reduction"],
    },
}

PROPS["C07"] = {
    "theorems": ["verify_iff", "identity_sig_never_verifies", "verify_honest_iff", "sign_verifies",
                 "randomize_verifies_iff", "randomize_zero_rejected", "blind_randomize_unblind",
                 "blind_randomize_unblind_verifies", "blindsign_unblind_verifies_iff", "blindsign_unblind_verifies",
                 "blindsign_zero_rejected", "single_coord_change_rejects", "single_coord_change_rejects_anykey",
                 "verify_other_key_iff", "chain_verifies"],
    "rule": "N in {1,2,3,5,8,13}; keys from KeyPair::new under the scripted RNG (sometimes with leading zero scalar draws) compared element by element with the model's keygen, or decoded from bytes with chosen dlogs; messages over {0,1,q-1,small,random}; signature from sign, then a random chain (depth 0..6) of randomize (re-randomiser forced to 0 in 1/12), blind_and_randomize+unblind, blind-sign (via a signature-request proof) + unblind with right / wrong blinding factor (blind-signing scalar forced to 0 in 1/10), re-encode; after each step verify is compared with the model, with the two-pairing oracle and with the verdict the theorems predict; every single-coordinate change and an independent key on valid signatures; raw (sigma1, sigma2) pairs, matching and non-matching, under arbitrary (not keygen-shaped) public keys. Distinct = new request line.",
    "explanation": "Theorems: verify is true iff sigma1 != 1 and e(sigma1, X~ prod Y~i^mi) = e(sigma2, g~) for every public key; under keygen-shaped keys valid iff sigma2 = sigma1^(x + sum yi mi); sign / randomize (r != 0) / blind_and_randomize+unblind / blind-sign+unblind(bf' = bf exactly) / any chain of these verify; single-coordinate change rejects (also for arbitrary keys with Y~i != 1); other key accepts iff a linear coincidence; identity signature, r = 0 and u = 0 rejected. Correspondence: every real operation vs the model in exponent space (exact), independent oracle = bls12_381::pairing on the real elements.",
    "level_text": "Proof: exact characterisation of PS verification and of every derivation path as Lean theorems for all fields, modules, pairings, lengths, keys, messages, signatures and chains (induction over the chain); model tied to the Rust code by an exact exponent-space differential run plus a two-pairing oracle.",
    "level_note": "Trusted: Lean kernel + Mathlib (axioms propext/Classical.choice/Quot.sound); correspondence harness (finite sample per run); bls12_381 pairing bilinear and non-degenerate over prime-order groups.",
    "assumptions": ["bls12_381::pairing is bilinear and non-degenerate; G1, G2, GT have prime order q", "'fails for an independent key' is a probability-(1-1/q) statement: the theorem gives the exact linear condition, the harness samples it"],
}

PROPS["C08"] = {
    "theorems": ["srpVerify_some_iff", "srpVerify_none_iff", "honest_request_accepted", "request_sign_unblind_verifies",
                 "unblind_verifies_iff_opening", "request_signature_rejects_changed_coord", "tampered_request_rejected"],
    "rule": "N in {1,2,3,5,8,13}; keys generated under the scripted RNG or decoded; messages over edge and random scalars; a random subset of slots with caller-chosen commitment scalars; the honest request goes through the real builder (witness recovered from accessors and response scalars, all atoms compared with the model's prover), is verified (must yield a value), the value is blind-signed (sigma2 = u(x1 + v) pins v to the proof's commitment), unblinded with the right / a wrong blinding factor and verified on the original and on every single-coordinate change; then every single-atom tampering (C, T, z_bf, each z_i by +1/-1/random/0, C and T swapped, challenge changed) must yield no value. Distinct = new request line.",
    "explanation": "Theorems: srpVerify returns some v iff the Schnorr equation holds and then v is the proof's commitment; honest requests are accepted for every challenge; blind-sign + unblind verifies on (m', r') iff (m', r') opens the blind-signed value; hence on no tuple differing in a coordinate. Correspondence: real SignatureRequestProof / blind_sign / unblind / verify vs the model (exact), oracle = Schnorr equation evaluated in the real group.",
    "level_text": "Proof: the only source of blind-signable values and what their signatures verify on are characterised exactly by Lean theorems for all fields, modules, pairings, lengths and inputs; tied to the Rust code by exponent-space differential runs including exhaustive single-atom tampering of every request.",
    "level_note": "Trusted: Lean kernel + Mathlib (three standard axioms); correspondence harness; bls12_381. That VerifiedBlindedMessage cannot be constructed outside the crate is Rust visibility (pub(crate) field), mirrored in the model by srpVerify being the only producer.",
    "assumptions": ["Rust privacy of VerifiedBlindedMessage's field", "bls12_381 group / pairing laws"],
}

NOT_APPLICABLE = {}
