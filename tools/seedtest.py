#!/usr/bin/env python3
"""seedtest.py <seed-id> <property> [more properties...]
Applies /verif/seeded/<seed-id>/patch.diff to /repo, runs the quick checks, reverts, records the
outcome in /verif/seeded/<seed-id>/meta.json (key "checks")."""
import json, os, subprocess, sys
sid = sys.argv[1]; props = sys.argv[2:]
d = f"/verif/seeded/{sid}"
meta_p = f"{d}/meta.json"
meta = json.load(open(meta_p)) if os.path.exists(meta_p) else {}
assert subprocess.run(["git", "-C", "/repo", "status", "--porcelain", "--untracked-files=no"], capture_output=True, text=True).stdout.strip() == "", "/repo not clean"
subprocess.run(["git", "-C", "/repo", "apply", f"{d}/patch.diff"], check=True)
res = {}
try:
    for p in props:
        r = subprocess.run(["./check", p, "quick"], cwd="/verif", capture_output=True, text=True)
        lines = r.stdout.strip().splitlines()
        res[p] = {"exit": r.returncode, "violation_lines": [l for l in lines if l.startswith("VIOLATION")][:3], "summary": lines[-1] if lines else ""}
        print(p, r.returncode, lines[-1] if lines else "")
        for l in lines:
            if l.startswith("VIOLATION"):
                print("  ", l); break
finally:
    subprocess.run(["git", "-C", "/repo", "checkout", "--", "."], check=True)
meta = json.load(open(meta_p)) if os.path.exists(meta_p) else meta
meta.setdefault("checks", {}).update(res)
meta["detected_by"] = sorted(p for p, v in meta["checks"].items() if v["exit"] != 0)
json.dump(meta, open(meta_p, "w"), indent=1)
# restore evidence of the unchanged tree
for p in props:
    subprocess.run(["./check", p, "quick"], cwd="/verif", capture_output=True, text=True)
