#!/usr/bin/env python3
"""harmless.py: apply each harmless rewrite under /verif/seeded/H-*/patch.diff to /repo, run the listed quick checks,
revert; every check must stay quiet.  Results -> seeded/<id>/meta.json"""
import json, os, subprocess, sys
PLAN = {
 "H-agent-h1": ["C07", "C08", "C11", "C03"],
 "H-agent-h2": ["C11", "C02", "C13"],
 "H-agent-h3": ["C10", "C11", "C08", "C01", "C02", "C13", "C14", "C12"],
 "H-agent-h4": ["C02", "C12", "C06"],
 "H-agent-h5": ["C17", "C13", "C02"],
 "H-agent-h6": ["C05", "C20", "C15"],
 "H-agent-h7": ["C04", "C17", "C03"],
 "H-agent-h8": ["C19", "C09", "C15"],
}
only = sys.argv[1:]
for hid, props in PLAN.items():
    if only and hid not in only: continue
    d = f"/verif/seeded/{hid}"
    assert subprocess.run(["git", "-C", "/repo", "status", "--porcelain", "--untracked-files=no"], capture_output=True, text=True).stdout.strip() == "", "/repo not clean"
    subprocess.run(["git", "-C", "/repo", "apply", f"{d}/patch.diff"], check=True)
    res = {}
    try:
        for p in props:
            r = subprocess.run(["./check", p, "quick"], cwd="/verif", capture_output=True, text=True)
            lines = r.stdout.strip().splitlines()
            res[p] = {"exit": r.returncode, "violation_lines": [l for l in lines if l.startswith("VIOLATION")][:3], "summary": lines[-1] if lines else ""}
            print(hid, p, r.returncode, lines[-1] if lines else "", flush=True)
    finally:
        subprocess.run(["git", "-C", "/repo", "checkout", "--", "."], check=True)
    mp = f"{d}/meta.json"
    meta = json.load(open(mp)) if os.path.exists(mp) else {"id": hid, "harmless": True, "breaks_property": None}
    meta.setdefault("checks", {}).update(res)
    meta["false_alarms"] = sorted(p for p, v in meta["checks"].items() if v["exit"] != 0)
    json.dump(meta, open(mp, "w"), indent=1)
