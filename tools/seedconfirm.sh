#!/bin/sh
# seedconfirm.sh <seed-id> <worktree> <property>: confirm a sub-agent's seeded change in its scratch worktree
# (suite passes with the change, demo fails with it and passes without), keep it under /verif/seeded/<id>/.
set -u
ID=$1; WT=$2; PROP=$3; EXTRA="${4:-}"
OUT=/verif/seeded/$ID
mkdir -p $OUT
cp $WT/SEEDED/patch.diff $WT/SEEDED/demo.rs $WT/SEEDED/notes.md $WT/SEEDED/demo_path.txt $OUT/ 2>/dev/null
cd $WT
export CARGO_NET_OFFLINE=true
cp $WT/SEEDED/demo_cargo_toml.diff $OUT/ 2>/dev/null
DEMO=$(git status --porcelain --untracked-files=all | grep '^??' | grep -v SEEDED | grep '\.rs$' | awk '{print $2}' | head -1)
TESTNAME=$(basename "$DEMO" .rs)
PKG=$(echo "$DEMO" | cut -d/ -f1)
# 1. suite with the change, demo moved aside
mv "$DEMO" /tmp/$ID-demo.rs
cargo test --workspace --no-fail-fast --offline > /tmp/$ID-suite.log 2>&1
SUITE_RC=$?
PASSED=$(grep -E '^test result' /tmp/$ID-suite.log | awk '{s+=$4} END {print s}')
FAILED=$(grep -E '^test result' /tmp/$ID-suite.log | awk '{s+=$6} END {print s}')
mv /tmp/$ID-demo.rs "$DEMO"
# 2. demo with the change
cargo test -p $PKG --test $TESTNAME --offline $EXTRA > /tmp/$ID-demo-with.log 2>&1
WITH_RC=$?
# 3. demo without
git apply -R SEEDED/patch.diff
cargo test -p $PKG --test $TESTNAME --offline $EXTRA > /tmp/$ID-demo-without.log 2>&1
WITHOUT_RC=$?
git apply SEEDED/patch.diff
python3 - <<PY
import json,os
p="$OUT/meta.json"
m=json.load(open(p)) if os.path.exists(p) else {}
m.update({"id":"$ID","breaks_property":"$PROP","demo_location":"$DEMO",
 "needs_to_manifest": open("$OUT/notes.md").read()[:1500],
 "confirmed":{"suite_with_change":{"rc":$SUITE_RC,"passed":int("${PASSED:-0}"),"failed":int("${FAILED:-0}"),"cmd":"cargo test --workspace --no-fail-fast --offline (demo moved aside)"},
   "demo_with_change_rc":$WITH_RC,"demo_without_change_rc":$WITHOUT_RC,
   "ok": ($SUITE_RC==0 and int("${FAILED:-0}")==0 and $WITH_RC!=0 and $WITHOUT_RC==0)}})
json.dump(m,open(p,"w"),indent=1)
print("$ID confirmed:", m["confirmed"])
PY
