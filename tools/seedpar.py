#!/usr/bin/env python3
"""seedpar.py <seed-id> <worktree-with-the-change-applied> <property> [more properties...]
Runs the quick checks against a scratch worktree of /repo that has a seeded change applied, WITHOUT touching /repo:
a scratch copy of /verif (outside /verif and /repo) is made whose harness depends on the worktree's crates by path; the
checks run there; the outcome is recorded in /verif/seeded/<seed-id>/meta.json (key "checks"); the scratch copy is removed.
Several of these can run side by side (one scratch copy each).  The registered checks themselves always run against /repo."""
import json, os, re, shutil, subprocess, sys
sid, wt, props = sys.argv[1], os.path.abspath(sys.argv[2]), sys.argv[3:]
d = f"/verif/seeded/{sid}"
os.makedirs(d, exist_ok=True)
meta_p = f"{d}/meta.json"
scratch = f"/var/tmp/seedpar/{sid}"
if os.path.exists(scratch):
    print(sid, "already running elsewhere, skipped"); sys.exit(0)
if os.path.exists(meta_p) and all(p in json.load(open(meta_p)).get("checks", {}) for p in props):
    print(sid, "already tested, skipped"); sys.exit(0)
shutil.rmtree(scratch, ignore_errors=True)
os.makedirs(os.path.dirname(scratch), exist_ok=True)
r = subprocess.run(["rsync", "-a", "--exclude", ".git", "--exclude", "seeded", "--exclude", "replays", "--exclude", "incremental", os.environ.get("SEEDPAR_SRC", "/verif") + "/", scratch + "/"])
assert r.returncode in (0, 24), r.returncode
for f in ["harness/Cargo.toml", "harness/probes/Cargo.toml", "harness/.cargo/config.toml"]:
    p = os.path.join(scratch, f)
    s = open(p).read().replace('path = "/repo/', f'path = "{wt}/').replace('"/verif/.build/', f'"{scratch}/.build/')
    open(p, "w").write(s)
res = {}
try:
    for p in props:
        r = subprocess.run(["./check", p, "quick"], cwd=scratch, capture_output=True, text=True)
        lines = r.stdout.strip().splitlines()
        viol = [l for l in lines if l.startswith("VIOLATION")]
        res[p] = {"exit": r.returncode, "violation_lines": [l.replace(scratch, "/verif") for l in viol[:3]],
                  "summary": lines[-1] if lines else "", "ran_against": wt}
        # keep the first replay file as a sample of the concrete failing input
        for l in viol[:1]:
            m = re.search(r"replay=(\S+)", l)
            if m and os.path.exists(m.group(1)):
                shutil.copy(m.group(1), f"{d}/replay-{p}.json")
        print(sid, p, r.returncode, lines[-1] if lines else "", flush=True)
        for l in viol[:1]:
            print("   ", l, flush=True)
finally:
    shutil.rmtree(scratch, ignore_errors=True)
meta = json.load(open(meta_p)) if os.path.exists(meta_p) else {}
meta.setdefault("checks", {}).update(res)
meta["detected_by"] = sorted(p for p, v in meta["checks"].items() if v["exit"] != 0)
json.dump(meta, open(meta_p, "w"), indent=1)
