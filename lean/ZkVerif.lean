import ZkVerif.Model.Pedersen
import ZkVerif.Model.Rng
import ZkVerif.Model.PS
import ZkVerif.Model.Schnorr
import ZkVerif.Model.Arith
import ZkVerif.Exec.Fq
import ZkVerif.Exec.Proto
import ZkVerif.Exec.Ops
