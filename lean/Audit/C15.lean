import ZkVerif.Audit
import ZkVerif.Props.C15
#audit_ns ZkVerif.C15
