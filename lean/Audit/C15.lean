import ZkVerif.Audit
import ZkVerif.Props.C15
import ZkVerif.Props.C15Text
#audit_ns ZkVerif.C15
