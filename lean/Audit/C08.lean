import ZkVerif.Audit
import ZkVerif.Props.C08
#audit_ns ZkVerif.C08
