import ZkVerif.Audit
import ZkVerif.Props.C04
#audit_ns ZkVerif.C04
