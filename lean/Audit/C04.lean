import ZkVerif.Audit
import ZkVerif.Props.C04System
#audit_ns ZkVerif.C04
