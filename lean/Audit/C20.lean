import ZkVerif.Audit
import ZkVerif.Props.C20
#audit_ns ZkVerif.C20
