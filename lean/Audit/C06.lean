import ZkVerif.Audit
import ZkVerif.Props.C06
#audit_ns ZkVerif.C06
