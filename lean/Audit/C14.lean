import ZkVerif.Audit
import ZkVerif.Props.C14
#audit_ns ZkVerif.C14
