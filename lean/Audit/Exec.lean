import ZkVerif.Audit
import ZkVerif.Props.ExecInstance
import ZkVerif.Props.Sha3
#audit_ns ZkVerif.ExecInstance
#audit_ns ZkVerif.q_prime
#audit_ns ZkVerif.q_pred_factorisation
#audit_ns ZkVerif.powMod_eq
#audit_ns ZkVerif.Sha3
