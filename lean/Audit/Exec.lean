import ZkVerif.Audit
import ZkVerif.Props.ExecInstance
#audit_ns ZkVerif.ExecInstance
#audit_ns ZkVerif.q_prime
#audit_ns ZkVerif.q_pred_factorisation
#audit_ns ZkVerif.powMod_eq
