import ZkVerif.Audit
import ZkVerif.Props.C10
#audit_ns ZkVerif.C10
