import ZkVerif.Audit
import ZkVerif.Props.C19
#audit_ns ZkVerif.C19
