import ZkVerif.Audit
import ZkVerif.Props.C03
#audit_ns ZkVerif.C03
