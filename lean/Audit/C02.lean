import ZkVerif.Audit
import ZkVerif.Props.C02
#audit_ns ZkVerif.C02
