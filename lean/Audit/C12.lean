import ZkVerif.Audit
import ZkVerif.Props.C12
#audit_ns ZkVerif.C12
