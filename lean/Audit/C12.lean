import ZkVerif.Audit
import ZkVerif.Props.C12
import ZkVerif.Props.Finish
#audit_ns ZkVerif.C12
#audit_ns ZkVerif.Finish
