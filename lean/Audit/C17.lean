import ZkVerif.Audit
import ZkVerif.Props.C17
#audit_ns ZkVerif.C17
