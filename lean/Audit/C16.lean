import ZkVerif.Audit
import ZkVerif.Props.C16
import ZkVerif.Props.C15Text
#audit_ns ZkVerif.C16
