import ZkVerif.Audit
import ZkVerif.Props.C16
#audit_ns ZkVerif.C16
