import ZkVerif.Audit
import ZkVerif.Props.C07
#audit_ns ZkVerif.C07
