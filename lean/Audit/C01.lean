import ZkVerif.Audit
import ZkVerif.Props.C01
#audit_ns ZkVerif.C01
