import ZkVerif.Audit
import ZkVerif.Props.C05
#audit_ns ZkVerif.C05
