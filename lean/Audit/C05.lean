import ZkVerif.Audit
import ZkVerif.Props.C05
import ZkVerif.Props.Sha3Inst
#audit_ns ZkVerif.C05
#audit_ns ZkVerif.Sha3
