import ZkVerif.Audit
import ZkVerif.Props.C09
#audit_ns ZkVerif.C09
