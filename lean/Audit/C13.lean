import ZkVerif.Audit
import ZkVerif.Props.C13
#audit_ns ZkVerif.C13
