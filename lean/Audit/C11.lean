import ZkVerif.Audit
import ZkVerif.Props.C11
#audit_ns ZkVerif.C11
