import ZkVerif.Audit
import ZkVerif.Props.C18
#audit_ns ZkVerif.C18
