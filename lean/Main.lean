import ZkVerif.Exec.Ops
open ZkVerif

partial def loop (hin hout : IO.FS.Stream) : IO Unit := do
  let line ← hin.getLine
  if line.isEmpty then return ()
  let args := (line.trimAscii.toString.splitOn " ").filter (· ≠ "")
  let out := match Ops.dispatch args with
    | some s => s
    | none => "v:bad-op"
  hout.putStrLn out
  hout.flush
  loop hin hout

def main : IO Unit := do
  loop (← IO.getStdin) (← IO.getStdout)
