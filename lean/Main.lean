import ZkVerif.Exec.Ops
import ZkVerif.Exec.CodecOps
open ZkVerif

partial def loop (hin hout : IO.FS.Stream) (st : CodecOps.DState) : IO Unit := do
  let line ← hin.getLine
  if line.isEmpty then return ()
  let args := (line.trimAscii.toString.splitOn " ").filter (· ≠ "")
  let (st', out) := match CodecOps.dispatchSt st args with
    | (s, some r) => (s, r)
    | (s, none) => match Ops.dispatch args with
      | some r => (s, r)
      | none => (s, "v:bad-op")
  hout.putStrLn out
  hout.flush
  loop hin hout st'

def main : IO Unit := do
  loop (← IO.getStdin) (← IO.getStdout) {}
