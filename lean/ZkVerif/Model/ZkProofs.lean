/-
Model of `zkabacus-crypto/src/proofs.rs`: `EstablishProof::{new, verify}`, `PayProof::{new, verify}`.

Public values are given as the scalars the code feeds to the proofs (`ChannelId::to_scalar`,
`Balance::to_scalar`, `Nonce::as_scalar`, `PaymentAmount::to_scalar`, `CLOSE_SCALAR`); the context is
the 32-byte digest `Context::as_bytes()`.

Two transcript layouts are modelled:
* `Legacy.*` — the pinned commit, where the revealed commitment scalars of the proofs are *not* hashed;
* the current one — after the repairs D1/D2, where they are appended before the context.
-/
import ZkVerif.Model.Transcript

namespace ZkVerif
universe u
variable {F G1 G2 GT : Type u}

/-! ## Establish -/

structure EstProof (F G1 : Type u) where
  kCid : F
  kClose : F
  kCb : F
  kMb : F
  st : CProof F G1
  cl : CProof F G1
deriving DecidableEq, Repr

/-- `EstablishProofPublicValues`, as scalars. -/
structure EstPub (F : Type u) where
  cid : F
  cb : F
  mb : F
deriving DecidableEq, Repr

/-- what the pinned `EstablishProof::verify` hashes -/
def Legacy.estTranscript (pk : PubKey G1 G2) (close : F) (pub : EstPub F) (p : EstProof F G1)
    (ctx : List UInt8) : Transcript F G1 G2 :=
  pk.atoms ++ [.s pub.cid, .s close, .s pub.cb, .s pub.mb] ++ p.st.atoms1 ++ p.cl.atoms1 ++ [.bytes ctx]

/-- what `EstablishProof::verify` hashes (revealed commitment scalars included) -/
def estTranscript (pk : PubKey G1 G2) (close : F) (pub : EstPub F) (p : EstProof F G1)
    (ctx : List UInt8) : Transcript F G1 G2 :=
  pk.atoms ++ [.s pub.cid, .s close, .s pub.cb, .s pub.mb] ++ p.st.atoms1 ++ p.cl.atoms1 ++
    [.s p.kCid, .s p.kClose, .s p.kCb, .s p.kMb] ++ [.bytes ctx]

section est
variable [Add F] [Mul F] [Zero F] [SMul F G1] [Add G1] [Zero G1]

/-- The relations `EstablishProof::verify` checks for a challenge `c` (slots: 0 channel id,
1 nonce / close tag, 2 revocation lock, 3 customer balance, 4 merchant balance). -/
def EstAccept (pk : PubKey G1 G2) (close : F) (pub : EstPub F) (p : EstProof F G1) (c : F) : Prop :=
  SrpAccept pk p.st c ∧ SrpAccept pk p.cl c ∧
  p.st.zs.getD 0 0 = c * pub.cid + p.kCid ∧ p.cl.zs.getD 0 0 = c * pub.cid + p.kCid ∧
  p.cl.zs.getD 1 0 = c * close + p.kClose ∧
  p.st.zs.getD 2 0 = p.cl.zs.getD 2 0 ∧
  p.st.zs.getD 3 0 = c * pub.cb + p.kCb ∧ p.cl.zs.getD 3 0 = c * pub.cb + p.kCb ∧
  p.st.zs.getD 4 0 = c * pub.mb + p.kMb ∧ p.cl.zs.getD 4 0 = c * pub.mb + p.kMb

instance [DecidableEq F] [DecidableEq G1] (pk : PubKey G1 G2) (close : F) (pub : EstPub F)
    (p : EstProof F G1) (c : F) : Decidable (EstAccept pk close pub p c) := by
  unfold EstAccept; infer_instance

/-- `EstablishProof::verify` for a given challenge: `Some((VerifiedBlindedState, VerifiedBlindedCloseState))`. -/
def estVerifyWith [DecidableEq F] [DecidableEq G1] (pk : PubKey G1 G2) (close : F) (pub : EstPub F)
    (p : EstProof F G1) (c : F) : Option (G1 × G1) :=
  if EstAccept pk close pub p c then some (p.st.C, p.cl.C) else none

/-- `EstablishProof::verify`: derive the challenge, then check. -/
def estVerify [DecidableEq F] [DecidableEq G1] (cd : Codecs F G1 G2) (H : List UInt8 → F)
    (pk : PubKey G1 G2) (close : F) (pub : EstPub F) (p : EstProof F G1) (ctx : List UInt8) :
    Option (G1 × G1) :=
  estVerifyWith pk close pub p (challengeOf cd H (estTranscript pk close pub p ctx))

def Legacy.estVerify [DecidableEq F] [DecidableEq G1] (cd : Codecs F G1 G2) (H : List UInt8 → F)
    (pk : PubKey G1 G2) (close : F) (pub : EstPub F) (p : EstProof F G1) (ctx : List UInt8) :
    Option (G1 × G1) :=
  estVerifyWith pk close pub p (challengeOf cd H (Legacy.estTranscript pk close pub p ctx))

/-- the customer's draws in `EstablishProof::new` -/
structure EstDraws (F : Type u) where
  bfS : F
  tbfS : F
  tsS : List F      -- five commitment scalars of the state proof
  bfC : F
  tbfC : F
  t1C : F           -- the only free commitment scalar of the close-state proof (close-tag slot)

/-- builders of `EstablishProof::new` for state message `ms` (the close state message is `ms` with
slot 1 replaced by the close tag) -/
def estBuilders (pk : PubKey G1 G2) (close : F) (ms : List F) (d : EstDraws F) :
    CBuilder F G1 × CBuilder F G1 :=
  (srpBuilder pk ms d.bfS d.tbfS d.tsS,
   srpBuilder pk (ms.set 1 close) d.bfC d.tbfC (d.tsS.set 1 d.t1C))

/-- `EstablishProof::new` given the challenge -/
def estProveWith (pk : PubKey G1 G2) (close : F) (ms : List F) (d : EstDraws F) (c : F) : EstProof F G1 :=
  let b := estBuilders pk close ms d
  let ts := b.2.ts
  { kCid := ts.getD 0 0, kClose := ts.getD 1 0, kCb := ts.getD 3 0, kMb := ts.getD 4 0,
    st := b.1.respond c, cl := b.2.respond c }

/-- the transcript the customer hashes in `EstablishProof::new` (layout after the repair) -/
def estProverTranscript (pk : PubKey G1 G2) (close : F) (ms : List F) (d : EstDraws F)
    (ctx : List UInt8) : Transcript F G1 G2 :=
  let b := estBuilders pk close ms d
  let ts := b.2.ts
  pk.atoms ++ [.s (ms.getD 0 0), .s close, .s (ms.getD 3 0), .s (ms.getD 4 0)] ++ b.1.atoms1 ++ b.2.atoms1 ++
    [.s (ts.getD 0 0), .s (ts.getD 1 0), .s (ts.getD 3 0), .s (ts.getD 4 0)] ++ [.bytes ctx]

def estProve (cd : Codecs F G1 G2) (H : List UInt8 → F) (pk : PubKey G1 G2) (close : F) (ms : List F)
    (d : EstDraws F) (ctx : List UInt8) : EstProof F G1 :=
  estProveWith pk close ms d (challengeOf cd H (estProverTranscript pk close ms d ctx))

end est

/-! ## Pay -/

structure PayProofM (F G1 G2 : Type u) where
  kNonce : F
  kClose : F
  tok : SProof F G1 G2
  rl : CProof F G1
  st : CProof F G1
  cl : CProof F G1
  cbR : List (SProof F G1 G2)
  mbR : List (SProof F G1 G2)
deriving DecidableEq, Repr

/-- `PayProofPublicValues`, as scalars (`amount` through `PaymentAmount::to_scalar`). -/
structure PayPub (F : Type u) where
  nonce : F
  amount : F
deriving DecidableEq, Repr

/-- the merchant's parameters relevant to pay proofs -/
structure PayParams (G1 G2 : Type u) where
  pk : PubKey G1 G2
  rp : RangeParams G1 G2
  rev : PedParams G1

def Legacy.payTranscript (pm : PayParams G1 G2) (close : F) (pub : PayPub F) (p : PayProofM F G1 G2)
    (ctx : List UInt8) : Transcript F G1 G2 :=
  pm.pk.atoms ++ pm.rp.atoms ++ [.s pub.nonce, .s close] ++ p.rl.atoms1 ++ p.st.atoms1 ++ p.cl.atoms1 ++
    p.tok.atoms ++ rangeAtoms p.cbR ++ rangeAtoms p.mbR ++ [.bytes ctx]

def payTranscript (pm : PayParams G1 G2) (close : F) (pub : PayPub F) (p : PayProofM F G1 G2)
    (ctx : List UInt8) : Transcript F G1 G2 :=
  pm.pk.atoms ++ pm.rp.atoms ++ [.s pub.nonce, .s close] ++ p.rl.atoms1 ++ p.st.atoms1 ++ p.cl.atoms1 ++
    p.tok.atoms ++ rangeAtoms p.cbR ++ rangeAtoms p.mbR ++ [.s p.kNonce, .s p.kClose] ++ [.bytes ctx]

section pay
variable [Add F] [Sub F] [Mul F] [Zero F] [One F] [NatCast F] [DecidableEq F]
variable [SMul F G1] [Add G1] [Zero G1] [SMul F G2] [Add G2] [Zero G2] [Neg G2] [Add GT] [Zero GT]
variable [DecidableEq G1] [DecidableEq G2] [DecidableEq GT]

/-- The fifteen checks of `PayProof::verify` for a challenge `c`. -/
def PayAccept (e : G1 → G2 → GT) (pm : PayParams G1 G2) (close : F) (pub : PayPub F)
    (p : PayProofM F G1 G2) (c : F) : Prop :=
  SrpAccept pm.pk p.st c ∧ SrpAccept pm.pk p.cl c ∧
  SpAccept e pm.pk p.tok c ∧ CpAccept pm.rev p.rl c ∧
  rangeVerify e pm.rp p.cbR c (p.st.zs.getD 3 0) = true ∧
  rangeVerify e pm.rp p.mbR c (p.st.zs.getD 4 0) = true ∧
  (p.st.zs.getD 0 0 = p.cl.zs.getD 0 0 ∧ p.cl.zs.getD 0 0 = p.tok.cp.zs.getD 0 0) ∧
  p.cl.zs.getD 1 0 = c * close + p.kClose ∧
  p.rl.zs.getD 0 0 = p.tok.cp.zs.getD 2 0 ∧
  p.st.zs.getD 2 0 = p.cl.zs.getD 2 0 ∧
  p.tok.cp.zs.getD 1 0 = c * pub.nonce + p.kNonce ∧
  p.st.zs.getD 3 0 = p.cl.zs.getD 3 0 ∧
  p.st.zs.getD 4 0 = p.cl.zs.getD 4 0 ∧
  p.st.zs.getD 3 0 = p.tok.cp.zs.getD 3 0 - c * pub.amount ∧
  p.st.zs.getD 4 0 = p.tok.cp.zs.getD 4 0 + c * pub.amount

instance (e : G1 → G2 → GT) (pm : PayParams G1 G2) (close : F) (pub : PayPub F)
    (p : PayProofM F G1 G2) (c : F) : Decidable (PayAccept e pm close pub p c) := by
  unfold PayAccept; infer_instance

/-- `PayProof::verify` for a given challenge: `Some((state commitment, close-state commitment,
revocation-lock commitment))`. -/
def payVerifyWith (e : G1 → G2 → GT) (pm : PayParams G1 G2) (close : F) (pub : PayPub F)
    (p : PayProofM F G1 G2) (c : F) : Option (G1 × G1 × G1) :=
  if PayAccept e pm close pub p c then some (p.st.C, p.cl.C, p.rl.C) else none

def payVerify (e : G1 → G2 → GT) (cd : Codecs F G1 G2) (H : List UInt8 → F) (pm : PayParams G1 G2)
    (close : F) (pub : PayPub F) (p : PayProofM F G1 G2) (ctx : List UInt8) : Option (G1 × G1 × G1) :=
  payVerifyWith e pm close pub p (challengeOf cd H (payTranscript pm close pub p ctx))

def Legacy.payVerify (e : G1 → G2 → GT) (cd : Codecs F G1 G2) (H : List UInt8 → F) (pm : PayParams G1 G2)
    (close : F) (pub : PayPub F) (p : PayProofM F G1 G2) (ctx : List UInt8) : Option (G1 × G1 × G1) :=
  payVerifyWith e pm close pub p (challengeOf cd H (Legacy.payTranscript pm close pub p ctx))

/-- the customer's draws in `PayProof::new` -/
structure PayDraws (F : Type u) where
  cbW : List (DigitDraws F)     -- range builder, customer balance
  mbW : List (DigitDraws F)     -- range builder, merchant balance
  bfR : F                       -- revocation-lock commitment proof
  tbfR : F
  tR : F
  bfT : F                       -- pay-token signature proof
  tbfT : F
  t0T : F
  t1T : F
  rT : F
  bfS : F                       -- new state
  tbfS : F
  t1S : F
  t2S : F
  bfC : F                       -- new close state
  tbfC : F
  t1C : F

structure PayBuilders (F G1 G2 : Type u) where
  cbB : RangeBuilder F G1 G2
  mbB : RangeBuilder F G1 G2
  rlB : CBuilder F G1
  tokB : SBuilder F G1 G2
  stB : CBuilder F G1
  clB : CBuilder F G1

/-- the builders of `PayProof::new`: `old` / `new` are the old and new state messages, `tok` the
pay token; `cbv`, `mbv` the new balances as integers (for the range builders). `none` when a range
builder refuses (the Rust code `unwrap()`s: a panic). -/
def payBuilders (pm : PayParams G1 G2) (close : F) (old new : List F) (tok : Sig G1) (cbv mbv : Int)
    (d : PayDraws F) : Option (PayBuilders F G1 G2) :=
  match RangeBuilder.mk' pm.rp cbv d.cbW, RangeBuilder.mk' pm.rp mbv d.mbW with
  | some cbB, some mbB =>
    let rlB := CBuilder.mk' pm.rev [old.getD 2 0] d.bfR d.tbfR [d.tR]
    let tokB := SBuilder.mk' pm.pk old tok d.bfT d.tbfT [d.t0T, d.t1T, d.tR, cbB.commitmentScalar, mbB.commitmentScalar] d.rT
    let stB := srpBuilder pm.pk new d.bfS d.tbfS [d.t0T, d.t1S, d.t2S, cbB.commitmentScalar, mbB.commitmentScalar]
    let clB := srpBuilder pm.pk (new.set 1 close) d.bfC d.tbfC [d.t0T, d.t1C, d.t2S, cbB.commitmentScalar, mbB.commitmentScalar]
    some ⟨cbB, mbB, rlB, tokB, stB, clB⟩
  | _, _ => none

def PayBuilders.respond (b : PayBuilders F G1 G2) (c : F) : PayProofM F G1 G2 :=
  { kNonce := b.tokB.cb.ts.getD 1 0, kClose := b.clB.ts.getD 1 0,
    tok := b.tokB.respond c, rl := b.rlB.respond c, st := b.stB.respond c, cl := b.clB.respond c,
    cbR := b.cbB.respond c, mbR := b.mbB.respond c }

/-- the transcript the customer hashes in `PayProof::new` (layout after the repair) -/
def PayBuilders.transcript (b : PayBuilders F G1 G2) (pm : PayParams G1 G2) (close nonce : F)
    (ctx : List UInt8) : Transcript F G1 G2 :=
  pm.pk.atoms ++ pm.rp.atoms ++ [.s nonce, .s close] ++ b.rlB.atoms1 ++ b.stB.atoms1 ++ b.clB.atoms1 ++
    b.tokB.atoms ++ b.cbB.atoms ++ b.mbB.atoms ++
    [.s (b.tokB.cb.ts.getD 1 0), .s (b.clB.ts.getD 1 0)] ++ [.bytes ctx]

end pay

end ZkVerif
