/-
Model of `zkchannels-crypto/src/lib.rs` (`inner_product`, `Message`, `BlindingFactor`) and
`zkchannels-crypto/src/pedersen.rs` (`Commitment::new`, `Commitment::verify_opening`,
`PedersenParameters::{new, from_generators, try_from}`).

Core Lean only (no Mathlib): these definitions are compiled into the driver executable and the
very same terms are what the theorems in `ZkVerif/Props` speak about.  Scalars `F` and groups `G`
are abstract; groups are written additively (`a • g` is the Rust `g * a`).
-/
namespace ZkVerif

universe u v
variable {F : Type u} {G : Type v}

/-- `inner_product(ts, us) = Σ tᵢ * uᵢ` (Rust zips, so surplus entries are ignored; the Rust types
force equal lengths `N`). -/
def inner [SMul F G] [Add G] [Zero G] : List F → List G → G
  | m :: ms, g :: gs => m • g + inner ms gs
  | _, _ => 0

/-- Pedersen parameters `(h, g₁ … g_N)`. -/
structure PedParams (G : Type v) where
  h : G
  gs : List G
deriving DecidableEq, Repr

/-- `Commitment::new`: `h * bf + inner_product(gs, msg)`. -/
def commit [SMul F G] [Add G] [Zero G] (pp : PedParams G) (bf : F) (ms : List F) : G :=
  bf • pp.h + inner ms pp.gs

/-- Acceptance predicate of `Commitment::verify_opening`. -/
def OpensTo [SMul F G] [Add G] [Zero G] (pp : PedParams G) (c : G) (bf : F) (ms : List F) : Prop :=
  commit pp bf ms = c

instance [SMul F G] [Add G] [Zero G] [DecidableEq G] (pp : PedParams G) (c : G) (bf : F)
    (ms : List F) : Decidable (OpensTo pp c bf ms) := by unfold OpensTo; infer_instance

/-- `Commitment::verify_opening`: `msg.commit(params, bf) == *self`. -/
def verifyOpening [SMul F G] [Add G] [Zero G] [DecidableEq G] (pp : PedParams G) (c : G) (bf : F)
    (ms : List F) : Bool :=
  decide (OpensTo pp c bf ms)

/-- `TryFrom<UncheckedPedersenParameters>`: rejects an identity `h` or `gᵢ`. -/
def PedParams.Valid [Zero G] (pp : PedParams G) : Prop :=
  pp.h ≠ 0 ∧ ∀ g ∈ pp.gs, g ≠ 0

instance [Zero G] [DecidableEq G] (pp : PedParams G) : Decidable pp.Valid := by
  unfold PedParams.Valid; infer_instance

def PedParams.validate [Zero G] [DecidableEq G] (pp : PedParams G) : Bool := decide pp.Valid

end ZkVerif
