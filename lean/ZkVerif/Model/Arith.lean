/-
Model of `zkabacus-crypto/src/lib.rs` (`Balance`, `PaymentAmount`, `Error`) and the balance
arithmetic of `zkabacus-crypto/src/states.rs` (`CustomerBalance::apply`, `MerchantBalance::apply`,
`MerchantBalance::try_add`, `State::apply_payment`'s evaluation order).

Machine integers are modelled as mathematical integers with explicit ranges; every Rust operator
is mapped to a checked operation that yields `panic` exactly where rustc's overflow check would
fire (the baseline builds with overflow checks), and `as` casts are truncations.
-/
namespace ZkVerif

def u64Max : Nat := 2 ^ 64 - 1
def i64Max : Nat := 2 ^ 63 - 1
def i64MinI : Int := -(2 ^ 63)

inductive Err where
  | amountTooLarge (v : Nat)
  | insufficientFunds
deriving DecidableEq, Repr

inductive Res (α : Type) where
  | ok (a : α)
  | err (e : Err)
  | panic
deriving DecidableEq, Repr

def IsU64 (v : Nat) : Prop := v ≤ u64Max
def IsI64 (a : Int) : Prop := i64MinI ≤ a ∧ a ≤ (i64Max : Int)

/-- Reinterpret the 8 wire bytes of an `i64` (two's complement). -/
def i64OfU64 (n : Nat) : Int := if n < 2 ^ 63 then (n : Int) else (n : Int) - 2 ^ 64

/-- `x as u64` for an `i128`/`i64` value. -/
def asU64 (x : Int) : Nat := (x % (2 ^ 64 : Int)).toNat

/-- `Balance::try_new`. -/
def balanceTryNew (v : Nat) : Res Nat :=
  if v > i64Max then .err (.amountTooLarge v) else .ok v

/-- `PaymentAmount::pay_merchant` (`i64::try_from(amount)`). -/
def payMerchant (a : Nat) : Res Int :=
  if a ≤ i64Max then .ok (a : Int) else .err (.amountTooLarge a)

/-- `PaymentAmount::pay_customer` (`Self(-i)`; `-i` cannot overflow for `0 ≤ i ≤ i64::MAX`). -/
def payCustomer (a : Nat) : Res Int :=
  if a ≤ i64Max then .ok (-(a : Int)) else .err (.amountTooLarge a)

/-- `MerchantBalance::apply`: `self as i128 + amt as i128`, negative ⇒ `InsufficientFunds`,
else `try_new(new_value as u64)`. (`i128` cannot overflow for 64-bit operands.) -/
def merchantApply (b : Nat) (amt : Int) : Res Nat :=
  let nv : Int := (b : Int) + amt
  if nv < 0 then .err .insufficientFunds else balanceTryNew (asU64 nv)

/-- `CustomerBalance::apply`: the customer subtracts. -/
def customerApply (b : Nat) (amt : Int) : Res Nat :=
  let nv : Int := (b : Int) - amt
  if nv < 0 then .err .insufficientFunds else balanceTryNew (asU64 nv)

/-- The balance part of `State::apply_payment`: `customer_balance.apply(amt)?` is evaluated before
`merchant_balance.apply(amt)?`. Returns `(customer, merchant)`. -/
def applyPayment (cb mb : Nat) (amt : Int) : Res (Nat × Nat) :=
  match customerApply cb amt with
  | .err e => .err e
  | .panic => .panic
  | .ok cb' =>
    match merchantApply mb amt with
    | .err e => .err e
    | .panic => .panic
    | .ok mb' => .ok (cb', mb')

/-- `MerchantBalance::try_add`: `u64 + u64` (overflow-checked), then `try_new`. -/
def tryAdd (mb cb : Nat) : Res Nat :=
  if mb + cb > u64Max then .panic else balanceTryNew (mb + cb)

section scalar
variable {F : Type} [NatCast F] [Zero F] [Sub F]

/-- `Balance::to_scalar`: `Scalar::from(u64)`. -/
def balanceToScalar (v : Nat) : F := (v : F)

/-- `PaymentAmount::to_scalar` after the repair (`unsigned_abs`):
negative ⇒ `0 - Scalar::from(|a|)`, else `Scalar::from(a)`. Total on `i64`. -/
def amountToScalar (a : Int) : Res F :=
  if a < 0 then .ok (0 - (a.natAbs : F)) else .ok (a.natAbs : F)

/-- The pinned code: `self.0.abs() as u64` — `i64::abs` overflows (panics under overflow checks)
for `i64::MIN`. -/
def Legacy.amountToScalar (a : Int) : Res F :=
  if a < 0 then (if a = i64MinI then .panic else .ok (0 - (a.natAbs : F))) else .ok (a.natAbs : F)

end scalar

end ZkVerif
