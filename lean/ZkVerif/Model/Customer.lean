/-
Model of `zkabacus-crypto/src/customer.rs`: the five customer stages `Requested / Inactive / Ready /
Started / Locked` with `complete / activate / start / lock / unlock / close`, and `ClosingMessage::new`.

The customer's zero-knowledge proofs are modelled in `ZkProofs.lean`; here a stage carries the state,
the blinding factors of the commitments it sent, and the signatures it stored.  Merchant replies are
*arbitrary* signature values (the fault alphabet of C03 is a subset).
-/
import ZkVerif.Model.Arith
import ZkVerif.Model.Abacus
import ZkVerif.Model.PS

namespace ZkVerif
universe u
variable {F G1 G2 GT : Type}

/-- `State`: channel id (as scalar), nonce, revocation pair, balances (as `u64` values). -/
structure CState (F : Type) where
  cid : F
  nonce : F
  lock : F
  secret : F
  index : Nat
  cb : Nat
  mb : Nat
deriving DecidableEq, Repr

section
variable [NatCast F]

/-- `State::to_message`. -/
def CState.msg (s : CState F) : List F := [s.cid, s.nonce, s.lock, (s.cb : F), (s.mb : F)]
/-- `State::close_state().to_message()`. -/
def CState.closeMsg (close : F) (s : CState F) : List F := [s.cid, close, s.lock, (s.cb : F), (s.mb : F)]
end

inductive Customer (F G1 : Type) where
  | requested (st : CState F) (bfClose bfToken : F)
  | inactive (st : CState F) (bfToken : F) (closeSig : Sig G1)
  | ready (st : CState F) (token closeSig : Sig G1)
  | started (new old : CState F) (bfRl bfToken bfClose : F) (oldCloseSig : Sig G1)
  | locked (st : CState F) (bfToken : F) (closeSig : Sig G1)
deriving DecidableEq, Repr

/-- `LockMessage`: the old revocation pair and the blinding factor of the revocation-lock commitment. -/
structure LockMsg (F : Type) where
  lock : F
  secret : F
  index : Nat
  bf : F
deriving DecidableEq, Repr

/-- `ClosingMessage`: randomized closing signature and close state (as the message the merchant checks). -/
structure ClosingMsg (F G1 : Type) where
  sig : Sig G1
  cid : F
  lock : F
  cb : Nat
  mb : Nat
deriving DecidableEq, Repr

/-- outcome of presenting a merchant reply -/
inductive Reply (F : Type) where
  | accepted
  | acceptedLock (m : LockMsg F)
  | refused
  | wrongStage
deriving DecidableEq, Repr

section ops
variable [NatCast F] [Add F] [Mul F] [Zero F] [Sub G1] [Add G1] [Zero G1] [SMul F G1]
variable [Add G2] [Zero G2] [Neg G2] [SMul F G2] [Add GT] [Zero GT] [DecidableEq G1] [DecidableEq GT]

/-- `Requested::complete`. -/
def Customer.complete (e : G1 → G2 → GT) (pk : PubKey G1 G2) (close : F) (c : Customer F G1) (reply : Sig G1) :
    Customer F G1 × Reply F :=
  match c with
  | .requested st bfC bfT =>
    let σ := reply.unblind bfC
    if psVerify e pk σ (st.closeMsg close) then (.inactive st bfT σ, .accepted) else (c, .refused)
  | _ => (c, .wrongStage)

/-- `Inactive::activate`. -/
def Customer.activate (e : G1 → G2 → GT) (pk : PubKey G1 G2) (c : Customer F G1) (reply : Sig G1) :
    Customer F G1 × Reply F :=
  match c with
  | .inactive st bfT cs =>
    let σ := reply.unblind bfT
    if psVerify e pk σ st.msg then (.ready st σ cs, .accepted) else (c, .refused)
  | _ => (c, .wrongStage)

/-- the customer's fresh values in `Ready::start` (nonce, revocation pair, the three blinding factors) -/
structure StartDraws (F : Type) where
  nonce : F
  lock : F
  secret : F
  index : Nat
  bfRl : F
  bfToken : F
  bfClose : F

/-- `Ready::start`: apply the payment (customer side first); on an error the same `Ready` is returned. -/
def Customer.start (c : Customer F G1) (amount : Int) (d : StartDraws F) : Customer F G1 × Res Unit :=
  match c with
  | .ready st _ cs =>
    match applyPayment st.cb st.mb amount with
    | .ok (cb', mb') =>
      (.started ⟨st.cid, d.nonce, d.lock, d.secret, d.index, cb', mb'⟩ st d.bfRl d.bfToken d.bfClose cs, .ok ())
    | .err er => (c, .err er)
    | .panic => (c, .panic)
  | _ => (c, .panic)

/-- `Started::lock`. -/
def Customer.lock (e : G1 → G2 → GT) (pk : PubKey G1 G2) (close : F) (c : Customer F G1) (reply : Sig G1) :
    Customer F G1 × Reply F :=
  match c with
  | .started new old bfRl bfT bfC _ =>
    let σ := reply.unblind bfC
    if psVerify e pk σ (new.closeMsg close) then
      (.locked new bfT σ, .acceptedLock ⟨old.lock, old.secret, old.index, bfRl⟩)
    else (c, .refused)
  | _ => (c, .wrongStage)

/-- `Locked::unlock`. -/
def Customer.unlock (e : G1 → G2 → GT) (pk : PubKey G1 G2) (c : Customer F G1) (reply : Sig G1) :
    Customer F G1 × Reply F :=
  match c with
  | .locked st bfT cs =>
    let σ := reply.unblind bfT
    if psVerify e pk σ st.msg then (.ready st σ cs, .accepted) else (c, .refused)
  | _ => (c, .wrongStage)

/-- `close()` at the four stages that have it (with the drawn re-randomiser `r`):
`Started` closes on the *old* state, everything else on the current one. -/
def Customer.close (c : Customer F G1) (r : F) : Option (ClosingMsg F G1) :=
  match c with
  | .requested _ _ _ => none
  | .inactive st _ cs => some ⟨cs.randomize r, st.cid, st.lock, st.cb, st.mb⟩
  | .ready st _ cs => some ⟨cs.randomize r, st.cid, st.lock, st.cb, st.mb⟩
  | .started _ old _ _ _ cs => some ⟨cs.randomize r, old.cid, old.lock, old.cb, old.mb⟩
  | .locked st _ cs => some ⟨cs.randomize r, st.cid, st.lock, st.cb, st.mb⟩

/-- the message the merchant's close check verifies for a closing message -/
def ClosingMsg.msg (close : F) (m : ClosingMsg F G1) : List F := [m.cid, close, m.lock, (m.cb : F), (m.mb : F)]

/-- the balances a stage reports (`customer_balance()` / `merchant_balance()`): old ones while started -/
def Customer.balances : Customer F G1 → Nat × Nat
  | .requested st _ _ => (st.cb, st.mb)
  | .inactive st _ _ => (st.cb, st.mb)
  | .ready st _ _ => (st.cb, st.mb)
  | .started _ old _ _ _ _ => (old.cb, old.mb)
  | .locked st _ _ => (st.cb, st.mb)

end ops

end ZkVerif
