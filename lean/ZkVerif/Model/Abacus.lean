/-
Model of `zkabacus-crypto/src/{nonce,revlock,states}.rs`: `Nonce::{new, try_from}`,
`RevocationPair::{new, try_from}`, `State::to_message`, `CloseState::to_message`,
`ChannelId::new` (hashed byte string).

Hashes are parameters: `Hb : bytes → 32 bytes` is SHA3-256; `decF : 32 bytes → Option F` is
`Scalar::from_bytes` (canonical little-endian decoding, `none` for values `≥ q`).
-/
import ZkVerif.Model.Rng
import ZkVerif.Model.Transcript

namespace ZkVerif
universe u
variable {F G1 G2 : Type u}

/-! ### Nonce -/

/-- `TryFrom<UncheckedNonce>`: everything but the close tag. -/
def nonceOk [DecidableEq F] (close n : F) : Bool := decide (n ≠ close)

/-- `Nonce::new`: `loop { if let Ok(n) = Nonce::try_from(Scalar::random(rng)) { return n } }`. -/
def nonceNew [DecidableEq F] (close : F) : Stream F G1 G2 → Option (F × Stream F G1 G2)
  | .s x :: r => if x = close then nonceNew close r else some (x, r)
  | _ => none

/-! ### Revocation pairs -/

structure RevPair (F : Type u) where
  lock : F
  secret : F
  index : Nat
deriving DecidableEq, Repr

inductive RevErr where
  | invalidSecret
  | mismatchedPair
deriving DecidableEq, Repr

/-- `TryFrom<UncheckedRevocationSecret>`: lock := canonical scalar of `SHA3(secret_bytes ‖ index)`. -/
def revPairOfSecret (Hb : List UInt8 → List UInt8) (decF : List UInt8 → Option F) (encF : F → List UInt8)
    (secret : F) (index : Nat) : Option (RevPair F) :=
  match decF (Hb (encF secret ++ [UInt8.ofNat index])) with
  | some l => some ⟨l, secret, index⟩
  | none => none

/-- `TryFrom<UncheckedRevocationPair>` (decoding): recompute, compare the lock. -/
def revPairDecode [DecidableEq F] (Hb : List UInt8 → List UInt8) (decF : List UInt8 → Option F)
    (encF : F → List UInt8) (lock secret : F) (index : Nat) : Except RevErr (RevPair F) :=
  match revPairOfSecret Hb decF encF secret index with
  | none => .error .invalidSecret
  | some p => if lock = p.lock then .ok p else .error .mismatchedPair

/-- the index loop of `RevocationPair::new` (`index: u8`, `index += 1`): `fuel` = remaining indices;
running out of the 256 values is the `u8` overflow panic (`none`). -/
def revIndexLoop (Hb : List UInt8 → List UInt8) (decF : List UInt8 → Option F) (encF : F → List UInt8)
    (secret : F) : Nat → Nat → Option (RevPair F)
  | 0, _ => none
  | fuel + 1, index =>
    match revPairOfSecret Hb decF encF secret index with
    | some p => some p
    | none => revIndexLoop Hb decF encF secret fuel (index + 1)

/-- `RevocationPair::new`: draw the secret, then the first index whose digest is canonical. -/
def revPairNew (Hb : List UInt8 → List UInt8) (decF : List UInt8 → Option F) (encF : F → List UInt8) :
    Stream F G1 G2 → Option (RevPair F × Stream F G1 G2)
  | .s x :: r =>
    match revIndexLoop Hb decF encF x 256 0 with
    | some p => some (p, r)
    | none => none
  | _ => none

/-! ### State messages -/

structure StateM (F : Type u) where
  cid : F
  nonce : F
  lock : F
  cb : F
  mb : F
deriving DecidableEq, Repr

/-- `State::to_message`. -/
def StateM.msg (s : StateM F) : List F := [s.cid, s.nonce, s.lock, s.cb, s.mb]
/-- `State::close_state().to_message()`. -/
def StateM.closeMsg (close : F) (s : StateM F) : List F := [s.cid, close, s.lock, s.cb, s.mb]

/-! ### Channel id -/

/-- the byte string hashed by `ChannelId::new` -/
def channelIdPreimage (mr cr pkBytes mAcct cAcct : List UInt8) : List UInt8 :=
  mr ++ cr ++ pkBytes ++ mAcct ++ cAcct

def channelIdNew (Hb : List UInt8 → List UInt8) (mr cr pkBytes mAcct cAcct : List UInt8) : List UInt8 :=
  Hb (channelIdPreimage mr cr pkBytes mAcct cAcct)

end ZkVerif
