/-
Model of `zkchannels-crypto/src/pointcheval_sanders.rs`:
`SecretKey::{new, try_from}`, `PublicKey::{from_secret_key, try_from, to_pedersen_parameters}`,
`KeyPair::new`, `Signature::{new, randomize, blind_and_randomize, is_well_formed, verify, try_from}`,
`BlindedMessage::new`, `BlindedSignature::{new, unblind}`.

The pairing `e : G1 → G2 → GT` is a parameter; `multi_miller_loop([(a, b), (c, d)]).final_exponentiation() == Gt::identity()`
is `e a b + e c d = 0` in additive notation.
-/
import ZkVerif.Model.Pedersen
import ZkVerif.Model.Rng

namespace ZkVerif

universe u
variable {F G1 G2 GT : Type u}

structure SecKey (F G1 : Type u) where
  x : F
  ys : List F
  x1 : G1
deriving DecidableEq, Repr

structure PubKey (G1 G2 : Type u) where
  g1 : G1
  y1s : List G1
  g2 : G2
  x2 : G2
  y2s : List G2
deriving DecidableEq, Repr

structure KeyPair (F G1 G2 : Type u) where
  sk : SecKey F G1
  pk : PubKey G1 G2
deriving DecidableEq, Repr

structure Sig (G1 : Type u) where
  s1 : G1
  s2 : G1
deriving DecidableEq, Repr

/-- `TryFrom<UncheckedSecretKey>`. -/
def SecKey.Valid [Zero F] [Zero G1] (sk : SecKey F G1) : Prop :=
  sk.x ≠ 0 ∧ sk.x1 ≠ 0 ∧ ∀ y ∈ sk.ys, y ≠ 0

instance [Zero F] [Zero G1] [DecidableEq F] [DecidableEq G1] (sk : SecKey F G1) :
    Decidable sk.Valid := by unfold SecKey.Valid; infer_instance

/-- `TryFrom<UncheckedPublicKey>`: the Rust loop zips `y1s` with `y2s`. -/
def PubKey.Valid [Zero G1] [Zero G2] (pk : PubKey G1 G2) : Prop :=
  pk.g1 ≠ 0 ∧ pk.g2 ≠ 0 ∧ pk.x2 ≠ 0 ∧ ∀ p ∈ List.zip pk.y1s pk.y2s, p.1 ≠ 0 ∧ p.2 ≠ 0

instance [Zero G1] [Zero G2] [DecidableEq G1] [DecidableEq G2] (pk : PubKey G1 G2) :
    Decidable pk.Valid := by unfold PubKey.Valid; infer_instance

/-- `TryFrom<UncheckedSignature>` and `Signature::is_well_formed`. -/
def Sig.WellFormed [Zero G1] (σ : Sig G1) : Prop := σ.s1 ≠ 0

instance [Zero G1] [DecidableEq G1] (σ : Sig G1) : Decidable σ.WellFormed := by
  unfold Sig.WellFormed; infer_instance

/-- `impl ToPedersenParameters<G1Projective, N> for PublicKey<N>`. -/
def PubKey.ped1 (pk : PubKey G1 G2) : PedParams G1 := ⟨pk.g1, pk.y1s⟩
/-- `impl ToPedersenParameters<G2Projective, N> for PublicKey<N>`. -/
def PubKey.ped2 (pk : PubKey G1 G2) : PedParams G2 := ⟨pk.g2, pk.y2s⟩

section keygen
variable [Zero F] [DecidableEq F] [Zero G1] [DecidableEq G1] [Zero G2] [DecidableEq G2]
variable [SMul F G1] [SMul F G2]

/-- `SecretKey::new(rng, g1)` (the `assert!(!g1.is_identity())` is the `none`/panic branch). -/
def SecKey.gen (n : Nat) (g1 : G1) (s : Stream F G1 G2) : Option (SecKey F G1 × Stream F G1 G2) :=
  if g1 = 0 then none else
  match nonzeroScalar s with
  | none => none
  | some (x, s) =>
    match nonzeroScalars n s with
    | none => none
    | some (ys, s) => some (⟨x, ys, x • g1⟩, s)

/-- `PublicKey::from_secret_key(rng, sk, g1)`. -/
def PubKey.gen (sk : SecKey F G1) (g1 : G1) (s : Stream F G1 G2) : Option (PubKey G1 G2 × Stream F G1 G2) :=
  if g1 = 0 then none else
  match nonIdG2 s with
  | none => none
  | some (g2, s) =>
    some (⟨g1, sk.ys.map (· • g1), g2, sk.x • g2, sk.ys.map (· • g2)⟩, s)

/-- `KeyPair::new(rng)`. -/
def KeyPair.gen (n : Nat) (s : Stream F G1 G2) : Option (KeyPair F G1 G2 × Stream F G1 G2) :=
  match nonIdG1 s with
  | none => none
  | some (g1, s) =>
    match SecKey.gen n g1 s with
    | none => none
    | some (sk, s) =>
      match PubKey.gen sk g1 s with
      | none => none
      | some (pk, s) => some (⟨sk, pk⟩, s)

/-- `PedersenParameters::<G1Projective, N>::new(rng)`: `h`, then `N` generators, all through
`random_non_identity`. -/
def PedParams.gen1 (n : Nat) (s : Stream F G1 G2) : Option (PedParams G1 × Stream F G1 G2) :=
  match nonIdG1 s with
  | none => none
  | some (h, s) =>
    match nonIdG1s n s with
    | none => none
    | some (gs, s) => some (⟨h, gs⟩, s)

/-- `PedersenParameters::<G2Projective, N>::new(rng)`. -/
def PedParams.gen2 (n : Nat) (s : Stream F G1 G2) : Option (PedParams G2 × Stream F G1 G2) :=
  match nonIdG2 s with
  | none => none
  | some (h, s) =>
    match nonIdG2s n s with
    | none => none
    | some (gs, s) => some (⟨h, gs⟩, s)

end keygen

section sign
variable [Add F] [Mul F] [Zero F] [Add G1] [Sub G1] [Zero G1] [SMul F G1]

/-- `inner_product(sk.ys, msg)` on scalars. -/
def dot : List F → List F → F
  | y :: ys, m :: ms => y * m + dot ys ms
  | _, _ => 0

/-- `Signature::new` with the drawn `h` made explicit: `(h, h * (x + Σ yᵢ mᵢ))`. -/
def Sig.sign (sk : SecKey F G1) (h : G1) (ms : List F) : Sig G1 :=
  ⟨h, (sk.x + dot sk.ys ms) • h⟩

/-- `Signature::randomize` with the drawn `r` explicit. -/
def Sig.randomize (σ : Sig G1) (r : F) : Sig G1 := ⟨r • σ.s1, r • σ.s2⟩

/-- `Signature::blind_and_randomize`: `σ₂ += σ₁ * bf`, then `randomize`. -/
def Sig.blindAndRandomize (σ : Sig G1) (r bf : F) : Sig G1 :=
  Sig.randomize ⟨σ.s1, σ.s2 + bf • σ.s1⟩ r

/-- `BlindedSignature::new(kp, rng, msg)` with the drawn `u` explicit:
`(g1 * u, (x1 + msg) * u)`. -/
def Sig.blindSign (kp : KeyPair F G1 G2) (u : F) (c : G1) : Sig G1 :=
  ⟨u • kp.pk.g1, u • (kp.sk.x1 + c)⟩

/-- `BlindedSignature::unblind`: `σ₂ - σ₁ * bf`. -/
def Sig.unblind (σ : Sig G1) (bf : F) : Sig G1 := ⟨σ.s1, σ.s2 - bf • σ.s1⟩

/-- `BlindedMessage::new`. -/
def blindMessage (pk : PubKey G1 G2) (ms : List F) (bf : F) : G1 := commit pk.ped1 bf ms

end sign

section verify
variable [Zero G1] [Add G2] [Zero G2] [Neg G2] [SMul F G2] [Add GT] [Zero GT]

/-- Acceptance predicate of `Signature::verify`. -/
def PsAccept (e : G1 → G2 → GT) (pk : PubKey G1 G2) (σ : Sig G1) (ms : List F) : Prop :=
  σ.s1 ≠ 0 ∧ e σ.s1 (pk.x2 + inner ms pk.y2s) + e σ.s2 (-pk.g2) = 0

instance [DecidableEq G1] [DecidableEq GT] (e : G1 → G2 → GT) (pk : PubKey G1 G2) (σ : Sig G1)
    (ms : List F) : Decidable (PsAccept e pk σ ms) := by unfold PsAccept; infer_instance

/-- `Signature::verify`. -/
def psVerify [DecidableEq G1] [DecidableEq GT] (e : G1 → G2 → GT) (pk : PubKey G1 G2) (σ : Sig G1)
    (ms : List F) : Bool :=
  decide (PsAccept e pk σ ms)

end verify

end ZkVerif
