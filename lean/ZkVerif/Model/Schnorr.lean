/-
Model of `zkchannels-crypto/src/proofs/{commitment,signature,signaturerequest}.rs`.

A prover's random draws are explicit arguments (`bf`, `tbf`, the commitment scalars `ts`,
the re-randomiser `r`), so the functions are deterministic and total.
-/
import ZkVerif.Model.PS

namespace ZkVerif

universe u
variable {F G G1 G2 GT : Type u}

/-- `CommitmentProof<G, N>`: `(commitment, scalar_commitment, blinding_factor_response_scalar,
message_response_scalars)`. -/
structure CProof (F G : Type u) where
  C : G
  T : G
  zbf : F
  zs : List F
deriving DecidableEq, Repr

/-- `CommitmentProofBuilder<G, N>`. -/
structure CBuilder (F G : Type u) where
  ms : List F
  C : G
  bf : F
  T : G
  tbf : F
  ts : List F
deriving DecidableEq, Repr

section cproof
variable [Add F] [Mul F] [SMul F G] [Add G] [Zero G]

/-- Fill in the caller-chosen commitment scalars (`Some`) and the drawn ones (`None`), in order:
`conjunction_commitment_scalars.iter().map(|s| s.unwrap_or_else(|| Scalar::random(rng)))`.
Returns `none` when the supply of drawn scalars is exhausted. -/
def fillScalars : List (Option F) → List F → Option (List F × List F)
  | [], rest => some ([], rest)
  | some t :: os, ds =>
    match fillScalars os ds with
    | none => none
    | some (ts, r) => some (t :: ts, r)
  | none :: os, d :: ds =>
    match fillScalars os ds with
    | none => none
    | some (ts, r) => some (d :: ts, r)
  | none :: _, [] => none

/-- `CommitmentProofBuilder::generate_proof_commitments`, with the drawn blinding factor `bf`,
the blinding-factor commitment scalar `tbf` and the full list of commitment scalars `ts` explicit. -/
def CBuilder.mk' (pp : PedParams G) (ms : List F) (bf tbf : F) (ts : List F) : CBuilder F G :=
  { ms := ms, C := commit pp bf ms, bf := bf, T := commit pp tbf ts, tbf := tbf, ts := ts }

/-- `generate_proof_response`: `z_bf = c * bf + t_bf`, `zᵢ = c * mᵢ + tᵢ`. -/
def CBuilder.respond (b : CBuilder F G) (c : F) : CProof F G :=
  { C := b.C, T := b.T, zbf := c * b.bf + b.tbf,
    zs := List.zipWith (fun m t => c * m + t) b.ms b.ts }

/-- Acceptance predicate of `CommitmentProof::verify_knowledge_of_opening`:
`commit(params, z_bf, zs) == T + C * c`. -/
def CpAccept (pp : PedParams G) (p : CProof F G) (c : F) : Prop :=
  commit pp p.zbf p.zs = p.T + c • p.C

instance [DecidableEq G] (pp : PedParams G) (p : CProof F G) (c : F) :
    Decidable (CpAccept pp p c) := by unfold CpAccept; infer_instance

def cpVerify [DecidableEq G] (pp : PedParams G) (p : CProof F G) (c : F) : Bool :=
  decide (CpAccept pp p c)

end cproof

/-! ### Signature-request proofs (`SignatureRequestProof<N>` wraps a `CommitmentProof<G1, N>`) -/
section srp
variable [Add F] [Mul F] [SMul F G1] [Add G1] [Zero G1]

def srpBuilder (pk : PubKey G1 G2) (ms : List F) (bf tbf : F) (ts : List F) : CBuilder F G1 :=
  CBuilder.mk' pk.ped1 ms bf tbf ts

def SrpAccept (pk : PubKey G1 G2) (p : CProof F G1) (c : F) : Prop := CpAccept pk.ped1 p c

instance [DecidableEq G1] (pk : PubKey G1 G2) (p : CProof F G1) (c : F) :
    Decidable (SrpAccept pk p c) := by unfold SrpAccept; infer_instance

/-- `SignatureRequestProof::verify_knowledge_of_opening`: `Some(VerifiedBlindedMessage(commitment))`
iff the commitment proof verifies.  The returned value is the proof's *commitment* `C`. -/
def srpVerify [DecidableEq G1] (pk : PubKey G1 G2) (p : CProof F G1) (c : F) : Option G1 :=
  if SrpAccept pk p c then some p.C else none

end srp

/-! ### Signature proofs -/

/-- `SignatureProof<N>`: a blinded, randomised signature and a commitment proof in `G2`. -/
structure SProof (F G1 G2 : Type u) where
  sig : Sig G1
  cp : CProof F G2
deriving DecidableEq, Repr

structure SBuilder (F G1 G2 : Type u) where
  sig : Sig G1
  cb : CBuilder F G2
deriving DecidableEq, Repr

section sproof
variable [Add F] [Mul F] [SMul F G1] [Add G1] [Zero G1] [SMul F G2] [Add G2] [Zero G2] [Neg G2]
variable [Add GT] [Zero GT]

/-- `SignatureProofBuilder::generate_proof_commitments`: commitment-proof builder under the G2
parameters `(g̃, Ỹ)`, then `signature.blind_and_randomize(rng, message_blinding_factor)`. -/
def SBuilder.mk' (pk : PubKey G1 G2) (ms : List F) (σ : Sig G1) (bf tbf : F) (ts : List F) (r : F) :
    SBuilder F G1 G2 :=
  { sig := σ.blindAndRandomize r bf, cb := CBuilder.mk' pk.ped2 ms bf tbf ts }

def SBuilder.respond (b : SBuilder F G1 G2) (c : F) : SProof F G1 G2 :=
  { sig := b.sig, cp := b.cb.respond c }

/-- Acceptance predicate of `SignatureProof::verify_knowledge_of_signature`. -/
def SpAccept (e : G1 → G2 → GT) (pk : PubKey G1 G2) (p : SProof F G1 G2) (c : F) : Prop :=
  p.sig.s1 ≠ 0 ∧ CpAccept pk.ped2 p.cp c ∧ e p.sig.s1 (pk.x2 + p.cp.C) + e p.sig.s2 (-pk.g2) = 0

instance [DecidableEq G1] [DecidableEq G2] [DecidableEq GT] (e : G1 → G2 → GT) (pk : PubKey G1 G2)
    (p : SProof F G1 G2) (c : F) : Decidable (SpAccept e pk p c) := by
  unfold SpAccept; infer_instance

def spVerify [DecidableEq G1] [DecidableEq G2] [DecidableEq GT] (e : G1 → G2 → GT)
    (pk : PubKey G1 G2) (p : SProof F G1 G2) (c : F) : Bool :=
  decide (SpAccept e pk p c)

end sproof

end ZkVerif
