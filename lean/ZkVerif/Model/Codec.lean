/-
Model of the wire decoders: `zkchannels-crypto/src/serde.rs` (element, scalar, `[G; N]`, `Vec<G>`,
boxed big array codecs), the `#[serde(try_from = …)]` validators of both crates, and the framing
bincode (fixed-int, little-endian) gives to derived structs / tuples / arrays.

A wire type is described by a `Ty`; decoding consumes a prefix of the byte string and yields a parse
tree, or an error, or — in the `legacy` (pinned) variant — a panic / an oversized allocation request.
Element decompression (bls12_381 `from_compressed`) is opaque: a parameter `el` classifying a
48 / 96-byte chunk as invalid, the identity, or a valid non-identity element.
-/
namespace ZkVerif.Codec

/-- classification of a compressed-point chunk by the opaque element decoder -/
inductive El where
  | invalid
  | identity
  | valid
deriving DecidableEq, Repr

/-- decode-time validators (`TryFrom<Unchecked…>`), applied after the wrapped type has been parsed -/
inductive Validator where
  | allNonIdentity      -- PedersenParameters, PublicKey: no element is the identity
  | secretKey           -- SecretKey: x ≠ 0, every y ≠ 0, x1 not the identity
  | signature           -- Signature: σ₁ not the identity
  | nonce               -- Nonce: not the close tag
  | balance             -- Balance: ≤ i64::MAX
  | revPair             -- RevocationPair: lock = canonical(SHA3(secret ‖ index))
deriving DecidableEq, Repr

inductive Ty where
  | scalar                      -- 32 bytes, little-endian, canonical (< q)
  | g1                          -- 48 bytes
  | g2                          -- 96 bytes
  | u8
  | u64
  | i64
  | raw (n : Nat)               -- `[u8; n]`
  | arr (n : Nat) (t : Ty)      -- `[T; N]` written by serde.rs: u64 length prefix, then elements
  | vec (t : Ty)                -- `Vec<T>` written by serde.rs
  | rep (n : Nat) (t : Ty)      -- derived fixed array / serde-big-array: no prefix
  | tup (ts : List Ty)          -- struct / tuple: fields in order
  | chk (v : Validator) (t : Ty)
deriving Repr

/-- parse trees -/
inductive PT where
  | sc (n : Nat)
  | el (bytes : List UInt8) (e : El)
  | num (n : Nat)
  | rawb (bs : List UInt8)
  | node (cs : List PT)
deriving Repr

inductive Out (α : Type) where
  | ok (a : α) (rest : List UInt8)
  | err
  | panic
deriving Repr

structure Env where
  q : Nat                                   -- scalar field order
  close : Nat                               -- the close tag as a number
  elG1 : List UInt8 → El
  elG2 : List UInt8 → El
  revOk : Nat → Nat → Nat → Bool            -- lock, secret, index ↦ lock = canonical(SHA3(secret ‖ index))
  legacy : Bool                             -- the pinned serde.rs visitors

def decLE : List UInt8 → Nat
  | [] => 0
  | b :: bs => b.toNat + 256 * decLE bs

def encLE : Nat → Nat → List UInt8
  | 0, _ => []
  | k + 1, n => UInt8.ofNat (n % 256) :: encLE k (n / 256)

/-- all element leaves of a tree -/
def PT.els : PT → List El
  | .el _ e => [e]
  | .node cs => elsList cs
  | _ => []
where elsList : List PT → List El
  | [] => []
  | c :: cs => PT.els c ++ elsList cs

def PT.scalars : PT → List Nat
  | .sc n => [n]
  | .node cs => scList cs
  | _ => []
where scList : List PT → List Nat
  | [] => []
  | c :: cs => PT.scalars c ++ scList cs

def validate (env : Env) : Validator → PT → Bool
  | .allNonIdentity, v => v.els.all (· ≠ .identity)
  | .secretKey, v => v.scalars.all (· ≠ 0) && v.els.all (· ≠ .identity)
  | .signature, v => match v.els with
    | e :: _ => e ≠ .identity
    | [] => true
  | .nonce, v => v.scalars.all (· ≠ env.close)
  | .balance, .num n => n ≤ 2 ^ 63 - 1
  | .balance, .node [.num n] => n ≤ 2 ^ 63 - 1
  | .balance, _ => false
  | .revPair, .node [.sc l, .node [.sc s, .num i]] => env.revOk l s i
  | .revPair, .node [.node [.sc l], .node [.sc s, .num i]] => env.revOk l s i
  | .revPair, _ => false

/-- allocation requests (in elements) made while decoding; the largest one is reported -/
abbrev Alloc := Nat

mutual
/-- decode one value of type `t`; returns the outcome and the largest allocation request so far -/
def decode (env : Env) : Ty → List UInt8 → Alloc → Out PT × Alloc
  | .scalar, bs, a =>
    if bs.length < 32 then (.err, a) else
    let n := decLE (bs.take 32)
    if n < env.q then (.ok (.sc n) (bs.drop 32), a) else (.err, a)
  | .g1, bs, a =>
    if bs.length < 48 then (.err, a) else
    match env.elG1 (bs.take 48) with
    | .invalid => (.err, a)
    | e => (.ok (.el (bs.take 48) e) (bs.drop 48), a)
  | .g2, bs, a =>
    if bs.length < 96 then (.err, a) else
    match env.elG2 (bs.take 96) with
    | .invalid => (.err, a)
    | e => (.ok (.el (bs.take 96) e) (bs.drop 96), a)
  | .u8, bs, a =>
    match bs with
    | b :: r => (.ok (.num b.toNat) r, a)
    | [] => (.err, a)
  | .u64, bs, a => if bs.length < 8 then (.err, a) else (.ok (.num (decLE (bs.take 8))) (bs.drop 8), a)
  | .i64, bs, a => if bs.length < 8 then (.err, a) else (.ok (.num (decLE (bs.take 8))) (bs.drop 8), a)
  | .raw n, bs, a => if bs.length < n then (.err, a) else (.ok (.rawb (bs.take n)) (bs.drop n), a)
  | .rep n t, bs, a =>
    match decodeN env t n bs a with
    | (.ok vs r, a) => (.ok (.node vs) r, a)
    | (.err, a) => (.err, a)
    | (.panic, a) => (.panic, a)
  | .tup ts, bs, a =>
    match decodeAll env ts bs a with
    | (.ok vs r, a) => (.ok (.node vs) r, a)
    | (.err, a) => (.err, a)
    | (.panic, a) => (.panic, a)
  | .chk v t, bs, a =>
    match decode env t bs a with
    | (.ok x r, a) => if validate env v x then (.ok x r, a) else (.err, a)
    | (.err, a) => (.err, a)
    | (.panic, a) => (.panic, a)
  | .arr n t, bs, a =>
    -- `[T; N]` visitor: read the u64 length, then `while let Some(e) = next_element()? { push }`
    if bs.length < 8 then (.err, a) else
    let len := decLE (bs.take 8)
    if len ≤ n then
      match decodeN env t len (bs.drop 8) a with
      | (.ok vs r, a) => if len = n then (.ok (.node vs) r, a) else (.err, a)   -- `into_inner` fails: wrong number of elements
      | (.err, a) => (.err, a)
      | (.panic, a) => (.panic, a)
    else
      -- more than N announced: the first N+1 elements are decoded; pushing the (N+1)-th into the full
      -- ArrayVec panics in the pinned code, and is an error after the repair (`try_push`)
      match decodeN env t (n + 1) (bs.drop 8) a with
      | (.ok _ _, a) => if env.legacy then (.panic, a) else (.err, a)
      | (.err, a) => (.err, a)
      | (.panic, a) => (.panic, a)
  | .vec t, bs, a =>
    -- `Vec<T>` visitor: `Vec::with_capacity(size_hint)` — the pinned code requests the claimed length,
    -- the repaired one at most 4096 elements up front
    if bs.length < 8 then (.err, a) else
    let len := decLE (bs.take 8)
    let req := if env.legacy then len else min len 4096
    match decodeN env t len (bs.drop 8) (max a req) with
    | (.ok vs r, a) => (.ok (.node vs) r, a)
    | (.err, a) => (.err, a)
    | (.panic, a) => (.panic, a)

/-- `n` consecutive values of type `t` (stops at the first failure: a huge `n` costs at most one
failing read per remaining byte) -/
def decodeN (env : Env) (t : Ty) : Nat → List UInt8 → Alloc → Out (List PT) × Alloc
  | 0, bs, a => (.ok [] bs, a)
  | n + 1, bs, a =>
    match decode env t bs a with
    | (.ok v r, a) =>
      match decodeN env t n r a with
      | (.ok vs r', a) => (.ok (v :: vs) r', a)
      | (.err, a) => (.err, a)
      | (.panic, a) => (.panic, a)
    | (.err, a) => (.err, a)
    | (.panic, a) => (.panic, a)

def decodeAll (env : Env) : List Ty → List UInt8 → Alloc → Out (List PT) × Alloc
  | [], bs, a => (.ok [] bs, a)
  | t :: ts, bs, a =>
    match decode env t bs a with
    | (.ok v r, a) =>
      match decodeAll env ts r a with
      | (.ok vs r', a) => (.ok (v :: vs) r', a)
      | (.err, a) => (.err, a)
      | (.panic, a) => (.panic, a)
    | (.err, a) => (.err, a)
    | (.panic, a) => (.panic, a)
end

end ZkVerif.Codec

namespace ZkVerif.Codec

mutual
/-- the encoder (`Serialize`): inverse of `decode` on well-formed trees -/
def encode : Ty → PT → List UInt8
  | .scalar, .sc n => encLE 32 n
  | .g1, .el bs _ => bs
  | .g2, .el bs _ => bs
  | .u8, .num n => [UInt8.ofNat n]
  | .u64, .num n => encLE 8 n
  | .i64, .num n => encLE 8 n
  | .raw _, .rawb bs => bs
  | .rep _ t, .node vs => encodeN t vs
  | .tup ts, .node vs => encodeAll ts vs
  | .chk _ t, v => encode t v
  | .arr _ t, .node vs => encLE 8 vs.length ++ encodeN t vs
  | .vec t, .node vs => encLE 8 vs.length ++ encodeN t vs
  | _, _ => []

def encodeN (t : Ty) : List PT → List UInt8
  | [] => []
  | v :: vs => encode t v ++ encodeN t vs

def encodeAll : List Ty → List PT → List UInt8
  | t :: ts, v :: vs => encode t v ++ encodeAll ts vs
  | _, _ => []
end

mutual
/-- the type invariant: shape, canonical scalars, valid (and where required non-identity) elements,
validators -/
def wf (env : Env) : Ty → PT → Bool
  | .scalar, .sc n => decide (n < env.q)
  | .g1, .el bs e => decide (bs.length = 48) && decide (env.elG1 bs = e) && decide (e ≠ .invalid)
  | .g2, .el bs e => decide (bs.length = 96) && decide (env.elG2 bs = e) && decide (e ≠ .invalid)
  | .u8, .num n => decide (n < 256)
  | .u64, .num n => decide (n < 2 ^ 64)
  | .i64, .num n => decide (n < 2 ^ 64)
  | .raw k, .rawb bs => decide (bs.length = k)
  | .rep k t, .node vs => decide (vs.length = k) && wfN env t vs
  | .tup ts, .node vs => wfAll env ts vs
  | .chk v t, x => wf env t x && validate env v x
  | .arr k t, .node vs => decide (vs.length = k) && decide (k < 2 ^ 64) && wfN env t vs
  | .vec t, .node vs => decide (vs.length < 2 ^ 64) && wfN env t vs
  | _, _ => false

def wfN (env : Env) (t : Ty) : List PT → Bool
  | [] => true
  | v :: vs => wf env t v && wfN env t vs

def wfAll (env : Env) : List Ty → List PT → Bool
  | [], [] => true
  | t :: ts, v :: vs => wf env t v && wfAll env ts vs
  | _, _ => false
end

end ZkVerif.Codec
