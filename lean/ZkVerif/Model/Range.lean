/-
Model of `zkchannels-crypto/src/proofs/range.rs`: `RP_PARAMETER_U = 128`, `RP_PARAMETER_L = 9`,
`RangeConstraintParameters::{new, validate}`, `RangeConstraintBuilder::{generate_constraint_commitments,
generate_constraint_response, commitment_scalar}`, `RangeConstraint::verify_range_constraint`.
-/
import ZkVerif.Model.Schnorr

namespace ZkVerif

universe u
variable {F G1 G2 GT : Type u}

def rpU : Nat := 128
def rpL : Nat := 9

/-- The digit loop: `for digit in &mut digits { *digit = v % U; v /= U; }` (least significant first). -/
def digitsLoop : Nat → Nat → List Nat
  | 0, _ => []
  | k + 1, v => (v % rpU) :: digitsLoop k (v / rpU)

/-- `Σ u^j · xⱼ` computed as the Rust loops do (`acc += u_pow * x; u_pow *= U`). -/
def weightedFrom [Add F] [Mul F] [Zero F] [NatCast F] (upow : F) : List F → F
  | [] => 0
  | x :: xs => upow * x + weightedFrom (upow * (rpU : F)) xs

def weighted [Add F] [Mul F] [Zero F] [One F] [NatCast F] (xs : List F) : F := weightedFrom 1 xs

structure RangeParams (G1 G2 : Type u) where
  sigs : List (Sig G1)
  pk : PubKey G1 G2
deriving DecidableEq, Repr

section gen
variable [Add F] [Mul F] [Zero F] [NatCast F] [DecidableEq F] [Zero G1] [DecidableEq G1] [Zero G2] [DecidableEq G2]
variable [Add G1] [Sub G1] [SMul F G1] [SMul F G2]

/-- the 128 `Signature::new(rng, &keypair, &Scalar::from(i).into())` calls -/
def signDigits (sk : SecKey F G1) : Nat → Nat → Stream F G1 G2 → Option (List (Sig G1) × Stream F G1 G2)
  | 0, _, s => some ([], s)
  | n + 1, i, s =>
    match nonIdG1 s with
    | none => none
    | some (h, s) =>
      match signDigits sk n (i + 1) s with
      | none => none
      | some (σs, s) => some (Sig.sign sk h [(i : F)] :: σs, s)

/-- `RangeConstraintParameters::new`. -/
def RangeParams.gen (s : Stream F G1 G2) : Option (RangeParams G1 G2 × Stream F G1 G2) :=
  match KeyPair.gen 1 s with
  | none => none
  | some (kp, s) =>
    match signDigits kp.sk rpU 0 s with
    | none => none
    | some (σs, s) => some (⟨σs, kp.pk⟩, s)
end gen

section validate
variable [NatCast F] [Zero G1] [Add G2] [Zero G2] [Neg G2] [SMul F G2] [Add GT] [Zero GT]
variable [DecidableEq G1] [DecidableEq GT]

/-- `for (i, sig) in sigs.iter().enumerate() { if !sig.verify(pk, [i]) { return Err } }` -/
def validateFrom (e : G1 → G2 → GT) (pk : PubKey G1 G2) : Nat → List (Sig G1) → Bool
  | _, [] => true
  | i, σ :: σs => psVerify e pk σ [(i : F)] && validateFrom e pk (i + 1) σs

/-- `RangeConstraintParameters::validate` (`true` = `Ok(())`). -/
def RangeParams.validate (F : Type u) [NatCast F] [SMul F G2] (e : G1 → G2 → GT) (rp : RangeParams G1 G2) : Bool :=
  validateFrom (F := F) e rp.pk 0 rp.sigs
end validate

/-- `RangeConstraintBuilder`. -/
structure RangeBuilder (F G1 G2 : Type u) where
  digitBuilders : List (SBuilder F G1 G2)
  commitmentScalar : F
deriving Repr

/-- the four scalars drawn per digit: blinding factor, its commitment scalar, the digit's commitment
scalar, the re-randomiser of the digit signature -/
structure DigitDraws (F : Type u) where
  bf : F
  tbf : F
  t : F
  r : F

section builder
variable [Add F] [Mul F] [Zero F] [One F] [NatCast F] [SMul F G1] [Add G1] [Zero G1] [SMul F G2] [Add G2] [Zero G2]

def mkDigitBuilders (rp : RangeParams G1 G2) : List Nat → List (DigitDraws F) → Option (List (SBuilder F G1 G2))
  | [], _ => some []
  | _ :: _, [] => none
  | d :: ds, w :: ws =>
    match rp.sigs[d]? with
    | none => none      -- index out of bounds (a panic in Rust; unreachable: d < 128 = sigs.length)
    | some σ =>
      match mkDigitBuilders rp ds ws with
      | none => none
      | some bs => some (SBuilder.mk' rp.pk [(d : F)] σ w.bf w.tbf [w.t] w.r :: bs)

/-- `RangeConstraintBuilder::generate_constraint_commitments(value, params, rng)`:
`none` = `Err(ValueOutsideRange)` for negative `value` (or the stream of draws ran dry). -/
def RangeBuilder.mk' (rp : RangeParams G1 G2) (value : Int) (ws : List (DigitDraws F)) :
    Option (RangeBuilder F G1 G2) :=
  if value < 0 then none else
  match mkDigitBuilders rp (digitsLoop rpL value.toNat) ws with
  | none => none
  | some bs => some ⟨bs, weighted (bs.map fun b => b.cb.ts.headD 0)⟩

/-- `generate_constraint_response`. -/
def RangeBuilder.respond (b : RangeBuilder F G1 G2) (c : F) : List (SProof F G1 G2) :=
  b.digitBuilders.map (·.respond c)
end builder

section verify
variable [Add F] [Mul F] [Zero F] [One F] [NatCast F] [DecidableEq F]
variable [SMul F G1] [Add G1] [Zero G1] [SMul F G2] [Add G2] [Zero G2] [Neg G2] [Add GT] [Zero GT]
variable [DecidableEq G1] [DecidableEq G2] [DecidableEq GT]

/-- `verify_range_constraint_digits`. -/
def digitsVerify (e : G1 → G2 → GT) (rp : RangeParams G1 G2) (ps : List (SProof F G1 G2)) (c : F) : Bool :=
  ps.all fun p => spVerify e rp.pk p c

/-- `RangeConstraint::verify_range_constraint(params, challenge, expected_response_scalar)`. -/
def rangeVerify (e : G1 → G2 → GT) (rp : RangeParams G1 G2) (ps : List (SProof F G1 G2)) (c : F)
    (expected : F) : Bool :=
  digitsVerify e rp ps c && decide (weighted (ps.map fun p => p.cp.zs.headD 0) = expected)
end verify

end ZkVerif
