/-
Model of `zkchannels-crypto/src/proofs/challenge.rs` and of every `ChallengeInput::consume`:
what a `ChallengeBuilder` hashes is modelled as the list of *atoms* it consumes, in order.  The
byte string is the concatenation of the atoms' fixed-width encodings (scalar 32, G1 48, G2 96
bytes; raw bytes as given); the challenge is `H(bytes)` for an arbitrary function `H` (SHA3-256
followed by `Scalar::from_raw`).
-/
import ZkVerif.Model.Range

namespace ZkVerif
universe u

inductive Atom (F G1 G2 : Type u) where
  | s (x : F)
  | g1 (x : G1)
  | g2 (x : G2)
  | bytes (b : List UInt8)
deriving DecidableEq, Repr

variable {F G1 G2 : Type u}

abbrev Transcript (F G1 G2 : Type u) := List (Atom F G1 G2)

/-- `impl ChallengeInput for Commitment<G>` / `CommitmentProof` / `CommitmentProofBuilder`:
commitment, then scalar commitment. -/
def CProof.atoms1 (p : CProof F G1) : Transcript F G1 G2 := [.g1 p.C, .g1 p.T]
def CProof.atoms2 (p : CProof F G2) : Transcript F G1 G2 := [.g2 p.C, .g2 p.T]
def CBuilder.atoms1 (b : CBuilder F G1) : Transcript F G1 G2 := [.g1 b.C, .g1 b.T]
def CBuilder.atoms2 (b : CBuilder F G2) : Transcript F G1 G2 := [.g2 b.C, .g2 b.T]

/-- `impl ChallengeInput for Signature` (σ₁, σ₂), `BlindedSignature`. -/
def Sig.atoms (σ : Sig G1) : Transcript F G1 G2 := [.g1 σ.s1, .g1 σ.s2]

/-- `SignatureProof` / `SignatureProofBuilder`: blinded signature, then the commitment proof. -/
def SProof.atoms (p : SProof F G1 G2) : Transcript F G1 G2 := p.sig.atoms ++ p.cp.atoms2
def SBuilder.atoms (b : SBuilder F G1 G2) : Transcript F G1 G2 := b.sig.atoms ++ b.cb.atoms2

/-- `RangeConstraint` / `RangeConstraintBuilder`: the digit proofs in order. -/
def rangeAtoms (ps : List (SProof F G1 G2)) : Transcript F G1 G2 := ps.flatMap SProof.atoms
def RangeBuilder.atoms (b : RangeBuilder F G1 G2) : Transcript F G1 G2 :=
  b.digitBuilders.flatMap SBuilder.atoms

/-- `impl ChallengeInput for PublicKey<N>`: g1, g2, x2, y1s…, y2s…. -/
def PubKey.atoms (pk : PubKey G1 G2) : Transcript F G1 G2 :=
  [.g1 pk.g1, .g2 pk.g2, .g2 pk.x2] ++ pk.y1s.map .g1 ++ pk.y2s.map .g2

/-- `impl ChallengeInput for PedersenParameters<G, N>`: h, then the generators. -/
def PedParams.atoms1 (pp : PedParams G1) : Transcript F G1 G2 := .g1 pp.h :: pp.gs.map .g1
def PedParams.atoms2 (pp : PedParams G2) : Transcript F G1 G2 := .g2 pp.h :: pp.gs.map .g2

/-- `impl ChallengeInput for RangeConstraintParameters`: the 128 digit signatures, then the key. -/
def RangeParams.atoms (rp : RangeParams G1 G2) : Transcript F G1 G2 :=
  rp.sigs.flatMap Sig.atoms ++ rp.pk.atoms

/-- Fixed-width element codecs (opaque: point compression of bls12_381; the scalar codec is
little-endian canonical). -/
structure Codecs (F G1 G2 : Type u) where
  encF : F → List UInt8
  encG1 : G1 → List UInt8
  encG2 : G2 → List UInt8

def Atom.enc (cd : Codecs F G1 G2) : Atom F G1 G2 → List UInt8
  | .s x => cd.encF x
  | .g1 x => cd.encG1 x
  | .g2 x => cd.encG2 x
  | .bytes b => b

/-- The byte string fed to SHA3. -/
def Transcript.bytes (cd : Codecs F G1 G2) (t : Transcript F G1 G2) : List UInt8 :=
  (t.map (Atom.enc cd)).flatten

/-- A *layout*: the order in which the items are fed to the `ChallengeBuilder` (`L[j]` is the index,
in the model's default order, of the `j`-th item hashed).  Re-ordering the `.with(…)` calls
consistently on the prover's and the verifier's side changes the layout, not the set of items. -/
def Transcript.layout (L : List Nat) (t : Transcript F G1 G2) : Transcript F G1 G2 :=
  L.map (fun i => t.getD i (.bytes []))

/-- the layout feeds every one of the `n` items (and nothing else) -/
def layoutCovers (L : List Nat) (n : Nat) : Bool :=
  (List.range n).all (fun i => L.contains i) && L.all (· < n)

/-- `ChallengeBuilder::finish`. -/
def challengeOf (cd : Codecs F G1 G2) (H : List UInt8 → F) (t : Transcript F G1 G2) : F :=
  H (t.bytes cd)

end ZkVerif

namespace ZkVerif

/-! ### `ChallengeBuilder::finish` after hashing, and `ChannelId::to_scalar`

Both read 32 bytes as four `u64::from_le_bytes` limbs and call `Scalar::from_raw`, which reduces the
256-bit little-endian integer modulo the field order. -/

/-- `u64::from_le_bytes` (any number of bytes) -/
def leNat : List UInt8 → Nat
  | [] => 0
  | b :: bs => b.toNat + 256 * leNat bs

/-- the integer `Scalar::from_raw([l0, l1, l2, l3])` stands for before reduction -/
def fromLimbs : List Nat → Nat
  | [] => 0
  | l :: ls => l + 2 ^ 64 * fromLimbs ls

/-- the four limbs the code cuts out of a digest: bytes 0..8, 8..16, 16..24, 24..32 -/
def limbsOf (d : List UInt8) : List Nat :=
  [leNat (d.take 8), leNat ((d.drop 8).take 8), leNat ((d.drop 16).take 8), leNat ((d.drop 24).take 8)]

/-- `finish` / `to_scalar` as a natural number below `modulus` -/
def rawScalar (modulus : Nat) (d : List UInt8) : Nat := fromLimbs (limbsOf d) % modulus

end ZkVerif
