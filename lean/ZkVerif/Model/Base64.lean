/-
The text form of a channel id: standard base64 (RFC 4648 alphabet, `=` padding) as `ChannelId`'s `Display` writes it
and as `FromStr` reads it through `base64::decode` (crate base64 0.13, `STANDARD` config):

* writing: three bytes -> four characters, a final group of one / two bytes -> two / three characters and `==` / `=`;
* reading (what the crate accepts, established by reading its `decode_helper` and validated by the harness on every run):
  only alphabet characters, except for at most two `=` at the very end, and those only in the third / fourth position
  of the final group of four; padding may be missing or incomplete; a final group of one character is an error; the
  unused low bits of the last character must be zero.

Bytes and characters are natural numbers (`< 256`, ASCII codes).  Core Lean only.
-/
namespace ZkVerif.Base64

/-- ASCII code of the character for a six-bit value -/
def charOf (n : Nat) : Nat :=
  if n < 26 then n + 65 else if n < 52 then n + 71 else if n < 62 then n - 4 else if n = 62 then 43 else 47

/-- six-bit value of an ASCII code, `none` outside the alphabet (`=` included) -/
def sextetOf (c : Nat) : Option Nat :=
  if 65 ≤ c ∧ c ≤ 90 then some (c - 65)
  else if 97 ≤ c ∧ c ≤ 122 then some (c - 71)
  else if 48 ≤ c ∧ c ≤ 57 then some (c + 4)
  else if c = 43 then some 62
  else if c = 47 then some 63
  else none

@[reducible] def pad : Nat := 61

def encode : List Nat → List Nat
  | [] => []
  | [a] => [charOf (a / 4), charOf (a % 4 * 16), pad, pad]
  | [a, b] => [charOf (a / 4), charOf (a % 4 * 16 + b / 16), charOf (b % 16 * 4), pad]
  | a :: b :: c :: rest =>
    charOf (a / 4) :: charOf (a % 4 * 16 + b / 16) :: charOf (b % 16 * 4 + c / 64) :: charOf (c % 64) :: encode rest

/-- a final group of two characters: one byte, the low four bits of the second character must be zero -/
def last2 (c0 c1 : Nat) : Option (List Nat) :=
  match sextetOf c0, sextetOf c1 with
  | some s0, some s1 => if s1 % 16 = 0 then some [s0 * 4 + s1 / 16] else none
  | _, _ => none

/-- a final group of three characters: two bytes, the low two bits of the third character must be zero -/
def last3 (c0 c1 c2 : Nat) : Option (List Nat) :=
  match sextetOf c0, sextetOf c1, sextetOf c2 with
  | some s0, some s1, some s2 => if s2 % 4 = 0 then some [s0 * 4 + s1 / 16, s1 % 16 * 16 + s2 / 4] else none
  | _, _, _ => none

def quad (c0 c1 c2 c3 : Nat) : Option (List Nat) :=
  match sextetOf c0, sextetOf c1, sextetOf c2, sextetOf c3 with
  | some s0, some s1, some s2, some s3 => some [s0 * 4 + s1 / 16, s1 % 16 * 16 + s2 / 4, s2 % 4 * 64 + s3]
  | _, _, _, _ => none

def decode : List Nat → Option (List Nat)
  | [] => some []
  | [_] => none
  | [c0, c1] => last2 c0 c1
  | [c0, c1, c2] => if c2 = pad then last2 c0 c1 else last3 c0 c1 c2
  | [c0, c1, c2, c3] =>
    if c3 = pad then (if c2 = pad then last2 c0 c1 else last3 c0 c1 c2) else quad c0 c1 c2 c3
  | c0 :: c1 :: c2 :: c3 :: rest =>
    match quad c0 c1 c2 c3, decode rest with
    | some h, some t => some (h ++ t)
    | _, _ => none

/-- `ChannelId::from_str`: base64 text of exactly 32 bytes -/
def idOfText (t : List Nat) : Option (List Nat) :=
  match decode t with
  | some bs => if bs.length = 32 then some bs else none
  | none => none

/-- `Display for ChannelId` -/
def textOfId (id : List Nat) : List Nat := encode id

/-- the characters of a text that are not padding -/
def body (t : List Nat) : List Nat := t.filter (fun c => c != 61)

end ZkVerif.Base64
