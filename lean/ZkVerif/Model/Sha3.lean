/-
SHA3-256 (FIPS 202): Keccak-f[1600] on 25 lanes of 64 bits, rate 136 bytes, domain suffix `01`, pad10*1, 32-byte digest.

Every hash in the two crates is `sha3::Sha3_256`: `ChallengeBuilder::finish` (the Fiat–Shamir challenge), `ChannelId::new`,
`Context::new`, `RevocationPair::new` / `RevocationLock` validation.  Everywhere else in the model the hash is a parameter
(the theorems hold for every function); this file is the *executed* hash: the driver computes digests and challenges from
the hashed bytes itself, and the harness compares them with what the real code recorded (and with a second, independent
SHA3 implementation).  Core Lean only.
-/
namespace ZkVerif.Sha3

/-- round constants of ι -/
def rc : List UInt64 :=
  [0x0000000000000001, 0x0000000000008082, 0x800000000000808A, 0x8000000080008000,
   0x000000000000808B, 0x0000000080000001, 0x8000000080008081, 0x8000000000008009,
   0x000000000000008A, 0x0000000000000088, 0x0000000080008009, 0x000000008000000A,
   0x000000008000808B, 0x800000000000008B, 0x8000000000008089, 0x8000000000008003,
   0x8000000000008002, 0x8000000000000080, 0x000000000000800A, 0x800000008000000A,
   0x8000000080008081, 0x8000000000008080, 0x0000000080000001, 0x8000000080008008]

/-- rotation offsets of ρ, lane `(x, y)` at index `x + 5 y` -/
def rotc : Array Nat :=
  #[0, 1, 62, 28, 27,  36, 44, 6, 55, 20,  3, 10, 43, 25, 39,  41, 45, 15, 21, 8,  18, 2, 61, 56, 14]

def rotl (w : UInt64) (n : Nat) : UInt64 :=
  if n % 64 = 0 then w else (w <<< (n % 64).toUInt64) ||| (w >>> (64 - n % 64).toUInt64)

/-- the state: 25 lanes, lane `(x, y)` at index `x + 5 y` -/
abbrev St := Array UInt64

def St.zero : St := Array.replicate 25 0

def lane (a : St) (x y : Nat) : UInt64 := a.getD ((x % 5) + 5 * (y % 5)) 0

def theta (a : St) : St :=
  let c : Array UInt64 := Array.ofFn (n := 5) fun x =>
    lane a x 0 ^^^ lane a x 1 ^^^ lane a x 2 ^^^ lane a x 3 ^^^ lane a x 4
  let d : Array UInt64 := Array.ofFn (n := 5) fun x =>
    c.getD ((x.val + 4) % 5) 0 ^^^ rotl (c.getD ((x.val + 1) % 5) 0) 1
  Array.ofFn (n := 25) fun i => a.getD i.val 0 ^^^ d.getD (i.val % 5) 0

/-- ρ and π in one step: `B[y, 2x + 3y] = rot(A[x, y], r[x, y])`, i.e. `B[X, Y]` comes from `x = X + 3Y`, `y = X` -/
def rhoPi (a : St) : St :=
  Array.ofFn (n := 25) fun i =>
    let X := i.val % 5
    let Y := i.val / 5
    let x := (X + 3 * Y) % 5
    let y := X
    rotl (lane a x y) (rotc.getD (x + 5 * y) 0)

def chi (b : St) : St :=
  Array.ofFn (n := 25) fun i =>
    let x := i.val % 5
    let y := i.val / 5
    lane b x y ^^^ ((~~~ lane b (x + 1) y) &&& lane b (x + 2) y)

def iota (a : St) (k : UInt64) : St := a.setIfInBounds 0 (a.getD 0 0 ^^^ k)

def round (a : St) (k : UInt64) : St := iota (chi (rhoPi (theta a))) k

/-- Keccak-f[1600]: the 24 rounds -/
def keccakF (a : St) : St := rc.foldl round a

/-- eight bytes, little-endian, as one lane (missing bytes count as zero) -/
def le64 (bs : List UInt8) : UInt64 := bs.foldr (fun b acc => (acc <<< 8) ||| b.toUInt64) 0

def laneBytes (w : UInt64) : List UInt8 :=
  (List.range 8).map fun i => (w >>> (8 * i).toUInt64).toUInt8

/-- rate of SHA3-256 in bytes -/
def rate : Nat := 136

/-- XOR one block of `rate` bytes into the first 17 lanes -/
def xorBlock (a : St) (blk : List UInt8) : St :=
  Array.ofFn (n := 25) fun i =>
    if i.val < 17 then a.getD i.val 0 ^^^ le64 ((blk.drop (8 * i.val)).take 8) else a.getD i.val 0

/-- domain suffix `01` followed by pad10*1, byte-aligned: `06 00 … 00 80`, or the single byte `86` -/
def pad (bs : List UInt8) : List UInt8 :=
  let k := rate - bs.length % rate
  if k = 1 then bs ++ [0x86] else bs ++ (0x06 :: (List.replicate (k - 2) 0 ++ [0x80]))

def absorb : Nat → St → List UInt8 → St
  | 0, a, _ => a
  | f + 1, a, bs => if bs.isEmpty then a else absorb f (keccakF (xorBlock a (bs.take rate))) (bs.drop rate)

def squeeze (a : St) : List UInt8 :=
  laneBytes (a.getD 0 0) ++ laneBytes (a.getD 1 0) ++ laneBytes (a.getD 2 0) ++ laneBytes (a.getD 3 0)

def sha3_256 (bs : List UInt8) : List UInt8 :=
  let p := pad bs
  squeeze (absorb (p.length / rate + 1) St.zero p)

end ZkVerif.Sha3
