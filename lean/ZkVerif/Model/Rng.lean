/-
Model of the randomness-consuming loops: the code draws from a `rand` generator; the model draws
from an explicit finite stream of typed draws.  "The function returns" = the stream was long enough;
`none` = stream exhausted (or a draw of another type came up, which the harness reports as a
desynchronisation rather than as a verdict).

* `Scalar::random`                       → `Draw.s`
* `G1Projective::random`/`G2…::random`   → `Draw.g1` / `Draw.g2`  (bls12_381's sampler; opaque)
* `fill_bytes(&mut [u8; 32])`            → `Draw.raw`
-/
namespace ZkVerif

universe u
inductive Draw (F G1 G2 : Type u) where
  | s (x : F)
  | g1 (g : G1)
  | g2 (g : G2)
  | raw (bs : List UInt8)
deriving Repr

variable {F G1 G2 : Type u}

abbrev Stream (F G1 G2 : Type u) := List (Draw F G1 G2)

def drawS : Stream F G1 G2 → Option (F × Stream F G1 G2)
  | .s x :: r => some (x, r)
  | _ => none

def drawG1 : Stream F G1 G2 → Option (G1 × Stream F G1 G2)
  | .g1 x :: r => some (x, r)
  | _ => none

def drawG2 : Stream F G1 G2 → Option (G2 × Stream F G1 G2)
  | .g2 x :: r => some (x, r)
  | _ => none

def drawRaw : Stream F G1 G2 → Option (List UInt8 × Stream F G1 G2)
  | .raw x :: r => some (x, r)
  | _ => none

/-- `get_nonzero_scalar` in `SecretKey::new`: `loop { let r = Scalar::random(rng); if !r.is_zero() { return r } }`. -/
def nonzeroScalar [Zero F] [DecidableEq F] : Stream F G1 G2 → Option (F × Stream F G1 G2)
  | .s x :: r => if x = 0 then nonzeroScalar r else some (x, r)
  | _ => none

/-- `n` successive `get_nonzero_scalar` calls. -/
def nonzeroScalars [Zero F] [DecidableEq F] : Nat → Stream F G1 G2 → Option (List F × Stream F G1 G2)
  | 0, s => some ([], s)
  | n + 1, s =>
    match nonzeroScalar s with
    | none => none
    | some (x, r) =>
      match nonzeroScalars n r with
      | none => none
      | some (xs, r') => some (x :: xs, r')

/-- `random_non_identity::<G1Projective>`. -/
def nonIdG1 [Zero G1] [DecidableEq G1] : Stream F G1 G2 → Option (G1 × Stream F G1 G2)
  | .g1 x :: r => if x = 0 then nonIdG1 r else some (x, r)
  | _ => none

/-- `random_non_identity::<G2Projective>`. -/
def nonIdG2 [Zero G2] [DecidableEq G2] : Stream F G1 G2 → Option (G2 × Stream F G1 G2)
  | .g2 x :: r => if x = 0 then nonIdG2 r else some (x, r)
  | _ => none

def nonIdG1s [Zero G1] [DecidableEq G1] : Nat → Stream F G1 G2 → Option (List G1 × Stream F G1 G2)
  | 0, s => some ([], s)
  | n + 1, s =>
    match nonIdG1 s with
    | none => none
    | some (x, r) =>
      match nonIdG1s n r with
      | none => none
      | some (xs, r') => some (x :: xs, r')

def nonIdG2s [Zero G2] [DecidableEq G2] : Nat → Stream F G1 G2 → Option (List G2 × Stream F G1 G2)
  | 0, s => some ([], s)
  | n + 1, s =>
    match nonIdG2 s with
    | none => none
    | some (x, r) =>
      match nonIdG2s n r with
      | none => none
      | some (xs, r') => some (x :: xs, r')

end ZkVerif
