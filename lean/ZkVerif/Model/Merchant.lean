/-
Model of `zkabacus-crypto/src/merchant.rs`: `Config::{initialize, activate, allow_payment,
check_close_signature}`, `Unrevoked::complete_payment` (blind-signing scalars `u` explicit).
-/
import ZkVerif.Model.ZkProofs

namespace ZkVerif
universe u
variable {F G1 G2 GT : Type u}

structure MerchantCfg (F G1 G2 : Type u) where
  kp : KeyPair F G1 G2
  rev : PedParams G1
  rp : RangeParams G1 G2

def MerchantCfg.payParams (m : MerchantCfg F G1 G2) : PayParams G1 G2 := ⟨m.kp.pk, m.rp, m.rev⟩

/-- `Unrevoked`: the revocation-lock commitment and the verified blinded state of an accepted payment. -/
structure Unrevoked (G1 : Type u) where
  rlCom : G1
  state : G1
deriving DecidableEq, Repr

section
variable [Add F] [Sub F] [Mul F] [Zero F] [One F] [NatCast F] [DecidableEq F]
variable [SMul F G1] [Add G1] [Sub G1] [Zero G1] [SMul F G2] [Add G2] [Zero G2] [Neg G2] [Add GT] [Zero GT]
variable [DecidableEq G1] [DecidableEq G2] [DecidableEq GT]

/-- `Config::initialize`: verify the establish proof, blind-sign the close-state commitment,
hand back the verified state commitment. -/
def MerchantCfg.initialize (cd : Codecs F G1 G2) (H : List UInt8 → F) (m : MerchantCfg F G1 G2)
    (close : F) (pub : EstPub F) (p : EstProof F G1) (ctx : List UInt8) (u : F) : Option (Sig G1 × G1) :=
  match estVerify cd H m.kp.pk close pub p ctx with
  | some (s, cl) => some (Sig.blindSign m.kp u cl, s)
  | none => none

/-- `Config::activate`: blind-sign the verified state commitment (the pay token). -/
def MerchantCfg.activate (m : MerchantCfg F G1 G2) (u : F) (v : G1) : Sig G1 := Sig.blindSign m.kp u v

/-- `Config::allow_payment`. -/
def MerchantCfg.allowPayment (e : G1 → G2 → GT) (cd : Codecs F G1 G2) (H : List UInt8 → F)
    (m : MerchantCfg F G1 G2) (close : F) (pub : PayPub F) (p : PayProofM F G1 G2) (ctx : List UInt8)
    (u : F) : Option (Unrevoked G1 × Sig G1) :=
  match payVerify e cd H m.payParams close pub p ctx with
  | some (s, cl, rl) => some (⟨rl, s⟩, Sig.blindSign m.kp u cl)
  | none => none

/-- `Unrevoked::complete_payment`: `Ok(pay token)` iff the pair's lock and the blinding factor open
the stored commitment; otherwise the same `Unrevoked` is handed back. -/
def MerchantCfg.completePayment (m : MerchantCfg F G1 G2) (un : Unrevoked G1) (lock bf u : F) :
    Except (Unrevoked G1) (Sig G1) :=
  if verifyOpening m.rev un.rlCom bf [lock] then .ok (Sig.blindSign m.kp u un.state) else .error un

/-- `Config::check_close_signature`. -/
def MerchantCfg.checkCloseSignature (e : G1 → G2 → GT) (m : MerchantCfg F G1 G2) (σ : Sig G1)
    (closeMsg : List F) : Bool := psVerify e m.kp.pk σ closeMsg
end

end ZkVerif
