/-
The executed hash (`Model/Sha3.lean`) and the executed challenge derivation `bytes ↦ from_raw(SHA3-256(bytes))`.

* `sha3_256_length`: every digest has 32 bytes (so `Finish.limbs_eq_le` / `rawScalar_collision` apply to it);
* `pad_length_mod`, `pad_injective`: the padded message is a whole number of blocks and determines the message —
  the sponge absorbs an injective image of the hashed bytes (no two transcripts are *padded* to the same block string);
* `absorb_append`: absorbing is a left fold over 136-byte blocks (the sponge structure of the executed definition);
* `execChallenge_lt`, `execChallenge_collision`: the challenge the driver computes is a canonical scalar, and two
  byte strings with the same challenge have digests that are equal or differ by `q` / `2q` as integers;
* `exec_challenge_changes_or_collision`: C12's binding theorem at the executed hash — nothing is transferred, the
  theorem quantifies over every `H` and this is one.
* known answers (`decide +kernel`): the digests of the empty string and of `abc` (FIPS 202 test vectors), evaluated by
  the kernel on the very definition the driver runs.
-/
import ZkVerif.Model.Sha3
import ZkVerif.Props.Finish
import ZkVerif.Props.C12

namespace ZkVerif.Sha3
open ZkVerif

theorem laneBytes_length (w : UInt64) : (laneBytes w).length = 8 := by simp [laneBytes]

theorem sha3_256_length (bs : List UInt8) : (sha3_256 bs).length = 32 := by
  simp [sha3_256, squeeze, laneBytes_length]

/-- the pad suffix as a function of the message length -/
def suffix (n : Nat) : List UInt8 :=
  if rate - n % rate = 1 then [0x86] else 0x06 :: (List.replicate (rate - n % rate - 2) 0 ++ [0x80])

theorem pad_eq (bs : List UInt8) : pad bs = bs ++ suffix bs.length := by
  simp only [pad, suffix]; split <;> simp

theorem pad_length_mod (bs : List UInt8) : (pad bs).length % rate = 0 := by
  rw [pad_eq]; unfold suffix rate
  split <;> simp <;> omega

theorem pad_longer (bs : List UInt8) : bs.length < (pad bs).length := by
  rw [pad_eq]; unfold suffix
  split <;> simp

private theorem zeros_then (j j' : Nat) (xs ys : List UInt8)
    (h : List.replicate j (0 : UInt8) ++ (0x06 :: xs) = List.replicate j' 0 ++ (0x06 :: ys)) : xs = ys := by
  induction j generalizing j' with
  | zero =>
    cases j' with
    | zero => simpa using h
    | succ k => simp [List.replicate_succ] at h
  | succ k ih =>
    cases j' with
    | zero => simp [List.replicate_succ] at h
    | succ k' =>
      simp only [List.replicate_succ, List.cons_append, List.cons.injEq, true_and] at h
      exact ih k' h

private theorem suffix_rev (n : Nat) :
    (suffix n).reverse = [0x86] ∨ ∃ j, (suffix n).reverse = 0x80 :: (List.replicate j 0 ++ [0x06]) := by
  unfold suffix; split
  · left; rfl
  · right; exact ⟨rate - n % rate - 2, by simp⟩

/-- pad10*1 with the SHA3 domain suffix is injective -/
theorem pad_injective (a b : List UInt8) (h : pad a = pad b) : a = b := by
  rw [pad_eq, pad_eq] at h
  have hr := congrArg List.reverse h
  simp only [List.reverse_append] at hr
  have fin : a.reverse = b.reverse → a = b := fun e => by simpa using congrArg List.reverse e
  rcases suffix_rev a.length with ha | ⟨j, ha⟩ <;> rcases suffix_rev b.length with hb | ⟨j', hb⟩
  · rw [ha, hb] at hr; exact fin (by simpa using hr)
  · rw [ha, hb] at hr; simp at hr
  · rw [ha, hb] at hr; simp at hr
  · rw [ha, hb] at hr
    simp only [List.cons_append, List.cons.injEq, true_and, List.append_assoc] at hr
    exact fin (zeros_then j j' _ _ hr)

/-- one absorption step; `absorb` is the left fold of it over the blocks -/
def absorbBlock (a : St) (blk : List UInt8) : St := keccakF (xorBlock a blk)

theorem absorb_block (f : Nat) (a : St) (blk rest : List UInt8) (h : blk.length = rate) :
    absorb (f + 1) a (blk ++ rest) = absorb f (absorbBlock a blk) rest := by
  have hne : (blk ++ rest).isEmpty = false := by
    cases blk with
    | nil => simp [rate] at h
    | cons x xs => rfl
  simp only [absorb, hne, Bool.false_eq_true, ↓reduceIte, absorbBlock]
  rw [List.take_left' h, List.drop_left' h]

theorem absorb_nil (f : Nat) (a : St) : absorb f a [] = a := by
  cases f <;> simp [absorb]

/-- the executed challenge derivation: `Scalar::from_raw` of the SHA3-256 digest of the hashed bytes -/
def execChallenge (bs : List UInt8) : Fq := Fq.ofNat (rawScalar q (sha3_256 bs))

theorem execChallenge_val (bs : List UInt8) : (execChallenge bs).v = leNat (sha3_256 bs) % q :=
  Finish.exec_raw_scalar _ (sha3_256_length bs)

theorem execChallenge_lt (bs : List UInt8) : (execChallenge bs).v < q := (execChallenge bs).h

/-- equal executed challenges: the two digests are equal, or differ by `q` or `2q` as little-endian integers -/
theorem execChallenge_collision (a b : List UInt8) (h : execChallenge a = execChallenge b) :
    sha3_256 a = sha3_256 b ∨ leNat (sha3_256 a) = leNat (sha3_256 b) + q ∨
      leNat (sha3_256 a) = leNat (sha3_256 b) + 2 * q ∨ leNat (sha3_256 b) = leNat (sha3_256 a) + q ∨
      leNat (sha3_256 b) = leNat (sha3_256 a) + 2 * q := by
  apply Finish.rawScalar_collision _ _ (sha3_256_length a) (sha3_256_length b)
  have hv := congrArg Fq.v h
  have e1 : (execChallenge a).v = rawScalar q (sha3_256 a) :=
    Nat.mod_eq_of_lt (Finish.rawScalar_lt _)
  have e2 : (execChallenge b).v = rawScalar q (sha3_256 b) :=
    Nat.mod_eq_of_lt (Finish.rawScalar_lt _)
  rw [e1, e2] at hv; exact hv

/-- C12's binding statement at the executed hash -/
theorem exec_challenge_changes_or_collision {G1 G2 : Type} (cd : Codecs Fq G1 G2) (hcd : cd.Lawful)
    (t1 t2 : Transcript Fq G1 G2) (hs : t1.map Atom.shape = t2.map Atom.shape) (hne : t1 ≠ t2) :
    challengeOf cd execChallenge t1 ≠ challengeOf cd execChallenge t2 ∨
      (t1.bytes cd ≠ t2.bytes cd ∧ execChallenge (t1.bytes cd) = execChallenge (t2.bytes cd)) :=
  C12.challenge_changes_or_collision cd hcd execChallenge t1 t2 hs hne

def hexDigest (bs : List UInt8) : List Nat := bs.map UInt8.toNat

/-- FIPS 202 test vector: SHA3-256 of the empty string, evaluated by the kernel -/
theorem kat_empty : hexDigest (sha3_256 []) =
    [0xa7, 0xff, 0xc6, 0xf8, 0xbf, 0x1e, 0xd7, 0x66, 0x51, 0xc1, 0x47, 0x56, 0xa0, 0x61, 0xd6, 0x62,
     0xf5, 0x80, 0xff, 0x4d, 0xe4, 0x3b, 0x49, 0xfa, 0x82, 0xd8, 0x0a, 0x4b, 0x80, 0xf8, 0x43, 0x4a] := by
  decide +kernel

/-- FIPS 202 test vector: SHA3-256 of `abc` -/
theorem kat_abc : hexDigest (sha3_256 [0x61, 0x62, 0x63]) =
    [0x3a, 0x98, 0x5d, 0xa7, 0x4f, 0xe2, 0x25, 0xb2, 0x04, 0x5c, 0x17, 0x2d, 0x6b, 0xd3, 0x90, 0xbd,
     0x85, 0x5f, 0x08, 0x6e, 0x3e, 0x9d, 0x52, 0x5b, 0x46, 0xbf, 0xe2, 0x45, 0x11, 0x43, 0x15, 0x32] := by
  decide +kernel

end ZkVerif.Sha3
