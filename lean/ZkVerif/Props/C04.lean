/-
C04 — Honest runs always complete and track the ideal ledger exactly.

The honest merchant's replies are the blind signatures it issues on the commitments of accepted
proofs (`C01.initialize_signs_proven`, `C02.allow_payment_signs_proven`; that the honest proofs are
accepted is `C01.establish_complete` / `C02.pay_complete`): the closing signature is
`blindSign(Com(close-state message; bf_close))`, the pay token `blindSign(Com(state message; bf_token))`.
-/
import ZkVerif.Props.C03
import ZkVerif.Props.C08
import ZkVerif.Props.C17

set_option linter.unusedSectionVars false

namespace ZkVerif.C04
open ZkVerif
variable {F G1 G2 GT : Type} [Field F] [AddCommGroup G1] [Module F G1] [AddCommGroup G2]
  [Module F G2] [AddCommGroup GT] [Module F GT] [DecidableEq F] [DecidableEq G1] [DecidableEq GT]
variable {e : G1 → G2 → GT}

/-- the honest merchant's closing signature for a state -/
def closingReply (kp : KeyPair F G1 G2) (close : F) (st : CState F) (bf u : F) : Sig G1 :=
  Sig.blindSign kp u (commit kp.pk.ped1 bf (st.closeMsg close))
/-- the honest merchant's pay token for a state -/
def tokenReply (kp : KeyPair F G1 G2) (st : CState F) (bf u : F) : Sig G1 :=
  Sig.blindSign kp u (commit kp.pk.ped1 bf st.msg)

theorem honest_closing_verifies (he : IsPairing F e) (kp : KeyPair F G1 G2) (hk : kp.Honest)
    (hg1 : kp.pk.g1 ≠ 0) (hg2 : kp.pk.g2 ≠ 0) (close : F) (st : CState F) (bf u : F) (hu : u ≠ 0) :
    psVerify e kp.pk ((closingReply kp close st bf u).unblind bf) (st.closeMsg close) = true :=
  (C08.unblind_verifies_iff_opening he kp hk hg1 hg2 u hu _ bf _).mpr rfl

theorem honest_token_verifies (he : IsPairing F e) (kp : KeyPair F G1 G2) (hk : kp.Honest)
    (hg1 : kp.pk.g1 ≠ 0) (hg2 : kp.pk.g2 ≠ 0) (st : CState F) (bf u : F) (hu : u ≠ 0) :
    psVerify e kp.pk ((tokenReply kp st bf u).unblind bf) st.msg = true :=
  (C08.unblind_verifies_iff_opening he kp hk hg1 hg2 u hu _ bf _).mpr rfl

/-- Establishment completes: `complete` and `activate` accept the honest replies. -/
theorem honest_establish (he : IsPairing F e) (kp : KeyPair F G1 G2) (hk : kp.Honest)
    (hg1 : kp.pk.g1 ≠ 0) (hg2 : kp.pk.g2 ≠ 0) (close : F) (st : CState F) (bfC bfT u u' : F)
    (hu : u ≠ 0) (hu' : u' ≠ 0) :
    ∃ tok cs,
      ((Customer.requested st bfC bfT).complete e kp.pk close (closingReply kp close st bfC u)) =
        (.inactive st bfT cs, .accepted) ∧
      ((Customer.inactive st bfT cs).activate e kp.pk (tokenReply kp st bfT u')) =
        (.ready st tok cs, .accepted) := by
  refine ⟨(tokenReply kp st bfT u').unblind bfT, (closingReply kp close st bfC u).unblind bfC, ?_, ?_⟩
  · simp [Customer.complete, honest_closing_verifies he kp hk hg1 hg2 close st bfC u hu]
  · simp [Customer.activate, honest_token_verifies he kp hk hg1 hg2 st bfT u' hu']

/-- the state after a payment of `amount` (fresh nonce and revocation pair from the customer's draws) -/
def nextState (st : CState F) (d : StartDraws F) (cb' mb' : Nat) : CState F :=
  ⟨st.cid, d.nonce, d.lock, d.secret, d.index, cb', mb'⟩

/-- A payment whose resulting balances stay in range completes: `start`, `lock` and `unlock` all
accept, and the customer ends in `Ready` on exactly the integer-arithmetic balances. -/
theorem honest_payment (he : IsPairing F e) (kp : KeyPair F G1 G2) (hk : kp.Honest)
    (hg1 : kp.pk.g1 ≠ 0) (hg2 : kp.pk.g2 ≠ 0) (close : F) (st : CState F) (tok cs : Sig G1)
    (amount : Int) (d : StartDraws F) (u u' : F) (hu : u ≠ 0) (hu' : u' ≠ 0) (cb' mb' : Nat)
    (hp : applyPayment st.cb st.mb amount = .ok (cb', mb')) :
    let new := nextState st d cb' mb'
    ∃ tok' cs',
      (Customer.ready st tok cs).start amount d = (.started new st d.bfRl d.bfToken d.bfClose cs, .ok ()) ∧
      (Customer.started new st d.bfRl d.bfToken d.bfClose cs).lock e kp.pk close (closingReply kp close new d.bfClose u) =
        (.locked new d.bfToken cs', .acceptedLock ⟨st.lock, st.secret, st.index, d.bfRl⟩) ∧
      (Customer.locked new d.bfToken cs').unlock e kp.pk (tokenReply kp new d.bfToken u') =
        (.ready new tok' cs', .accepted) := by
  intro new
  refine ⟨(tokenReply kp new d.bfToken u').unblind d.bfToken, (closingReply kp close new d.bfClose u).unblind d.bfClose, ?_, ?_, ?_⟩
  · simp [Customer.start, hp, new, nextState]
  · simp [Customer.lock, honest_closing_verifies he kp hk hg1 hg2 close new d.bfClose u hu]
  · simp [Customer.unlock, honest_token_verifies he kp hk hg1 hg2 new d.bfToken u' hu']

/-- A payment that would leave the range is refused with the documented error before any message is
produced, and the customer continues from the unchanged state. -/
theorem out_of_range_refused (st : CState F) (tok cs : Sig G1) (amount : Int) (d : StartDraws F)
    (er : Err) (hp : applyPayment st.cb st.mb amount = .err er) :
    (Customer.ready st tok cs).start amount d = (.ready st tok cs, .err er) := by
  simp [Customer.start, hp]

/-- which error: exactly the integer-arithmetic classification (customer side first) — from C17. -/
theorem refusal_is_exact (cb mb : Nat) (amount : Int) (hc : cb ≤ 2 ^ 63 - 1) (hm : mb ≤ 2 ^ 63 - 1)
    (ha : IsI64 amount) :
    applyPayment cb mb amount =
      match C17.exact ((cb : Int) - amount) with
      | .err e => .err e
      | .panic => .panic
      | .ok c' => match C17.exact ((mb : Int) + amount) with
        | .err e => .err e
        | .panic => .panic
        | .ok m' => .ok (c', m') :=
  C17.apply_payment_exact cb mb amount hc hm ha

/-! ### The ledger over a whole run -/

/-- the ideal ledger: plain integer arithmetic, a payment applies iff both results stay in `[0, 2^63-1]` -/
def ledger (cb mb : Int) : List Int → Int × Int
  | [] => (cb, mb)
  | a :: as =>
    if 0 ≤ cb - a ∧ cb - a ≤ 2 ^ 63 - 1 ∧ 0 ≤ mb + a ∧ mb + a ≤ 2 ^ 63 - 1 then ledger (cb - a) (mb + a) as
    else ledger cb mb as

/-- the balances the model's `applyPayment` produces over a sequence of amounts (refused payments skipped) -/
def runBalances (cb mb : Nat) : List Int → Nat × Nat
  | [] => (cb, mb)
  | a :: as =>
    match applyPayment cb mb a with
    | .ok (cb', mb') => runBalances cb' mb' as
    | _ => runBalances cb mb as

/-- For every initial pair of balances in range and every sequence of `i64` amounts, the balances
after the run equal the ideal ledger, stay in range, and their sum is conserved. -/
theorem run_tracks_ledger (cb mb : Nat) (as : List Int) (hc : cb ≤ 2 ^ 63 - 1) (hm : mb ≤ 2 ^ 63 - 1)
    (ha : ∀ a ∈ as, IsI64 a) :
    let r := runBalances cb mb as
    ((r.1 : Int), (r.2 : Int)) = ledger cb mb as ∧ r.1 ≤ 2 ^ 63 - 1 ∧ r.2 ≤ 2 ^ 63 - 1 ∧ r.1 + r.2 = cb + mb := by
  induction as generalizing cb mb with
  | nil => exact ⟨rfl, hc, hm, rfl⟩
  | cons a as ih =>
    have hia := ha a (List.mem_cons_self)
    have hrest : ∀ x ∈ as, IsI64 x := fun x hx => ha x (List.mem_cons_of_mem _ hx)
    simp only [runBalances, ledger]
    cases hp : applyPayment cb mb a with
    | ok p =>
      obtain ⟨cb', mb'⟩ := p
      obtain ⟨h1, h2, h3, h4, h5⟩ := C17.apply_payment_ok cb mb a hc hm hia cb' mb' hp
      have hcond : 0 ≤ (cb : Int) - a ∧ (cb : Int) - a ≤ 2 ^ 63 - 1 ∧ 0 ≤ (mb : Int) + a ∧ (mb : Int) + a ≤ 2 ^ 63 - 1 := by
        omega
      simp only [hcond, and_self, if_true]
      have := ih cb' mb' h3 h4 hrest
      simp only at this
      rw [← h1, ← h2]
      obtain ⟨g1, g2, g3, g4⟩ := this
      exact ⟨g1, g2, g3, by omega⟩
    | err er =>
      have hex := C17.apply_payment_exact cb mb a hc hm hia
      rw [hp] at hex
      have hcond : ¬ (0 ≤ (cb : Int) - a ∧ (cb : Int) - a ≤ 2 ^ 63 - 1 ∧ 0 ≤ (mb : Int) + a ∧ (mb : Int) + a ≤ 2 ^ 63 - 1) := by
        intro hc4
        unfold C17.exact at hex
        rw [if_neg (by omega), if_neg (by omega)] at hex
        simp only at hex
        rw [if_neg (by omega), if_neg (by omega)] at hex
        cases hex
      simp only [hcond, if_false]
      exact ih cb mb hc hm hrest
    | panic => exact absurd hp (C17.apply_payment_no_panic cb mb a hc hm hia)

end ZkVerif.C04
