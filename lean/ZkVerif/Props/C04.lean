/-
C04 — Honest runs always complete and track the ideal ledger exactly.

The honest merchant's replies are the blind signatures it issues on the commitments of accepted
proofs (`C01.initialize_signs_proven`, `C02.allow_payment_signs_proven`; that the honest proofs are
accepted is `C01.establish_complete` / `C02.pay_complete`): the closing signature is
`blindSign(Com(close-state message; bf_close))`, the pay token `blindSign(Com(state message; bf_token))`.
-/
import ZkVerif.Props.C03
import ZkVerif.Props.C08
import ZkVerif.Props.C17
import ZkVerif.Props.C01
import ZkVerif.Props.C02
import ZkVerif.Props.C05

set_option linter.unusedSectionVars false

namespace ZkVerif.C04
open ZkVerif
variable {F G1 G2 GT : Type} [Field F] [AddCommGroup G1] [Module F G1] [AddCommGroup G2]
  [Module F G2] [AddCommGroup GT] [Module F GT] [DecidableEq F] [DecidableEq G1] [DecidableEq GT]
variable {e : G1 → G2 → GT}

/-- the honest merchant's closing signature for a state -/
def closingReply (kp : KeyPair F G1 G2) (close : F) (st : CState F) (bf u : F) : Sig G1 :=
  Sig.blindSign kp u (commit kp.pk.ped1 bf (st.closeMsg close))
/-- the honest merchant's pay token for a state -/
def tokenReply (kp : KeyPair F G1 G2) (st : CState F) (bf u : F) : Sig G1 :=
  Sig.blindSign kp u (commit kp.pk.ped1 bf st.msg)

theorem honest_closing_verifies (he : IsPairing F e) (kp : KeyPair F G1 G2) (hk : kp.Honest)
    (hg1 : kp.pk.g1 ≠ 0) (hg2 : kp.pk.g2 ≠ 0) (close : F) (st : CState F) (bf u : F) (hu : u ≠ 0) :
    psVerify e kp.pk ((closingReply kp close st bf u).unblind bf) (st.closeMsg close) = true :=
  (C08.unblind_verifies_iff_opening he kp hk hg1 hg2 u hu _ bf _).mpr rfl

theorem honest_token_verifies (he : IsPairing F e) (kp : KeyPair F G1 G2) (hk : kp.Honest)
    (hg1 : kp.pk.g1 ≠ 0) (hg2 : kp.pk.g2 ≠ 0) (st : CState F) (bf u : F) (hu : u ≠ 0) :
    psVerify e kp.pk ((tokenReply kp st bf u).unblind bf) st.msg = true :=
  (C08.unblind_verifies_iff_opening he kp hk hg1 hg2 u hu _ bf _).mpr rfl

/-- Establishment completes: `complete` and `activate` accept the honest replies. -/
theorem honest_establish (he : IsPairing F e) (kp : KeyPair F G1 G2) (hk : kp.Honest)
    (hg1 : kp.pk.g1 ≠ 0) (hg2 : kp.pk.g2 ≠ 0) (close : F) (st : CState F) (bfC bfT u u' : F)
    (hu : u ≠ 0) (hu' : u' ≠ 0) :
    ∃ tok cs,
      ((Customer.requested st bfC bfT).complete e kp.pk close (closingReply kp close st bfC u)) =
        (.inactive st bfT cs, .accepted) ∧
      ((Customer.inactive st bfT cs).activate e kp.pk (tokenReply kp st bfT u')) =
        (.ready st tok cs, .accepted) := by
  refine ⟨(tokenReply kp st bfT u').unblind bfT, (closingReply kp close st bfC u).unblind bfC, ?_, ?_⟩
  · simp [Customer.complete, honest_closing_verifies he kp hk hg1 hg2 close st bfC u hu]
  · simp [Customer.activate, honest_token_verifies he kp hk hg1 hg2 st bfT u' hu']

/-- the state after a payment of `amount` (fresh nonce and revocation pair from the customer's draws) -/
def nextState (st : CState F) (d : StartDraws F) (cb' mb' : Nat) : CState F :=
  ⟨st.cid, d.nonce, d.lock, d.secret, d.index, cb', mb'⟩

/-- A payment whose resulting balances stay in range completes: `start`, `lock` and `unlock` all
accept, and the customer ends in `Ready` on exactly the integer-arithmetic balances. -/
theorem honest_payment (he : IsPairing F e) (kp : KeyPair F G1 G2) (hk : kp.Honest)
    (hg1 : kp.pk.g1 ≠ 0) (hg2 : kp.pk.g2 ≠ 0) (close : F) (st : CState F) (tok cs : Sig G1)
    (amount : Int) (d : StartDraws F) (u u' : F) (hu : u ≠ 0) (hu' : u' ≠ 0) (cb' mb' : Nat)
    (hp : applyPayment st.cb st.mb amount = .ok (cb', mb')) :
    let new := nextState st d cb' mb'
    ∃ tok' cs',
      (Customer.ready st tok cs).start amount d = (.started new st d.bfRl d.bfToken d.bfClose cs, .ok ()) ∧
      (Customer.started new st d.bfRl d.bfToken d.bfClose cs).lock e kp.pk close (closingReply kp close new d.bfClose u) =
        (.locked new d.bfToken cs', .acceptedLock ⟨st.lock, st.secret, st.index, d.bfRl⟩) ∧
      (Customer.locked new d.bfToken cs').unlock e kp.pk (tokenReply kp new d.bfToken u') =
        (.ready new tok' cs', .accepted) := by
  intro new
  refine ⟨(tokenReply kp new d.bfToken u').unblind d.bfToken, (closingReply kp close new d.bfClose u).unblind d.bfClose, ?_, ?_, ?_⟩
  · simp [Customer.start, hp, new, nextState]
  · simp [Customer.lock, honest_closing_verifies he kp hk hg1 hg2 close new d.bfClose u hu]
  · simp [Customer.unlock, honest_token_verifies he kp hk hg1 hg2 new d.bfToken u' hu']

/-! ### The whole protocol: customer, both zero-knowledge proofs and merchant composed -/

variable [DecidableEq G2]

/-- **Establishment completes end to end.**  For every hash function, context, state and customer
randomness: the honest customer's establish proof is accepted by `initialize`, the closing signature
the merchant returns is accepted by `complete`, and the pay token `activate` returns is accepted by
the customer's `activate` — the customer ends `Ready` on the state it started from. -/
theorem full_establish (he : IsPairing F e) (cd : Codecs F G1 G2) (H : List UInt8 → F)
    (m : MerchantCfg F G1 G2) (hk : m.kp.Honest) (hg1 : m.kp.pk.g1 ≠ 0) (hg2 : m.kp.pk.g2 ≠ 0)
    (close : F) (st : CState F) (d : EstDraws F) (ctx : List UInt8) (u u' : F) (hu : u ≠ 0) (hu' : u' ≠ 0)
    (ht : d.tsS.length = 5) :
    ∃ σ v tok cs,
      m.initialize cd H close ⟨st.cid, (st.cb : F), (st.mb : F)⟩
        (estProve cd H m.kp.pk close st.msg d ctx) ctx u = some (σ, v) ∧
      (Customer.requested st d.bfC d.bfS).complete e m.kp.pk close σ = (.inactive st d.bfS cs, .accepted) ∧
      (Customer.inactive st d.bfS cs).activate e m.kp.pk (m.activate u' v) = (.ready st tok cs, .accepted) := by
  have hc := C01.establish_complete cd H m.kp.pk close st.msg d ctx rfl ht
  obtain ⟨tok, cs, h1, h2⟩ := honest_establish he m.kp hk hg1 hg2 close st d.bfC d.bfS u u' hu hu'
  refine ⟨closingReply m.kp close st d.bfC u, commit m.kp.pk.ped1 d.bfS st.msg, tok, cs, ?_, h1, h2⟩
  unfold MerchantCfg.initialize
  have hpub : (⟨st.cid, (st.cb : F), (st.mb : F)⟩ : EstPub F) =
      ⟨st.msg.getD 0 0, st.msg.getD 3 0, st.msg.getD 4 0⟩ := rfl
  rw [hpub, hc]
  rfl

/-- the scalar a 64-bit balance is encoded as, after an in-range payment -/
theorem balance_after (cb mb : Nat) (amount : Int) (hc : cb ≤ 2 ^ 63 - 1) (hm : mb ≤ 2 ^ 63 - 1)
    (ha : IsI64 amount) (cb' mb' : Nat) (hp : applyPayment cb mb amount = .ok (cb', mb')) :
    ((cb' : Nat) : F) = (cb : F) - ((amount : Int) : F) ∧ ((mb' : Nat) : F) = (mb : F) + ((amount : Int) : F) := by
  obtain ⟨h1, h2, _⟩ := C17.apply_payment_ok cb mb amount hc hm ha cb' mb' hp
  constructor
  · have : ((cb' : Nat) : F) = (((cb' : Nat) : Int) : F) := (Int.cast_natCast _).symm
    rw [this, h1]; push_cast; ring
  · have : ((mb' : Nat) : F) = (((mb' : Nat) : Int) : F) := (Int.cast_natCast _).symm
    rw [this, h2]; push_cast; ring

/-- **A payment completes end to end.**  For every hash function, context and randomness: from a
`Ready` customer holding a valid pay token, a payment whose result stays in range runs
`start` → pay proof accepted by `allow_payment` → closing signature accepted by `lock` → lock message
accepted by `complete_payment` → pay token accepted by `unlock`, ending `Ready` on the new state. -/
theorem full_payment (he : IsPairing F e) (cd : Codecs F G1 G2) (H : List UInt8 → F)
    (m : MerchantCfg F G1 G2) (hk : m.kp.Honest) (hg1 : m.kp.pk.g1 ≠ 0) (hg2 : m.kp.pk.g2 ≠ 0)
    (close : F) (st : CState F) (tok cs : Sig G1) (amount : Int) (sd : StartDraws F) (d : PayDraws F)
    (ctx : List UInt8) (u u' : F) (hu : u ≠ 0) (hu' : u' ≠ 0)
    (hcb : st.cb ≤ 2 ^ 63 - 1) (hmb : st.mb ≤ 2 ^ 63 - 1) (ha : IsI64 amount)
    (cb' mb' : Nat) (hp : applyPayment st.cb st.mb amount = .ok (cb', mb'))
    (htok : psVerify e m.kp.pk tok st.msg = true)
    -- the proof is built with the blinding factors the customer keeps
    (hb1 : sd.bfRl = d.bfR) (hb2 : sd.bfToken = d.bfS) (hb3 : sd.bfClose = d.bfC)
    (hrT : d.rT ≠ 0) (hs : m.rp.sigs.length = 128)
    (hvalid : ∀ k (h : k < m.rp.sigs.length), psVerify e m.rp.pk m.rp.sigs[k] [(k : F)] = true)
    (hwc : d.cbW.length = 9) (hwm : d.mbW.length = 9)
    (hrc : ∀ w ∈ d.cbW, w.r ≠ 0) (hrm : ∀ w ∈ d.mbW, w.r ≠ 0) :
    let new := nextState st sd cb' mb'
    ∃ b un σ cs' lm τ tok',
      (Customer.ready st tok cs).start amount sd = (.started new st sd.bfRl sd.bfToken sd.bfClose cs, .ok ()) ∧
      payBuilders m.payParams close st.msg new.msg tok cb' mb' d = some b ∧
      m.allowPayment e cd H close ⟨st.nonce, ((amount : Int) : F)⟩
        (b.respond (challengeOf cd H (b.transcript m.payParams close st.nonce ctx))) ctx u = some (un, σ) ∧
      (Customer.started new st sd.bfRl sd.bfToken sd.bfClose cs).lock e m.kp.pk close σ =
        (.locked new sd.bfToken cs', .acceptedLock lm) ∧
      lm = ⟨st.lock, st.secret, st.index, sd.bfRl⟩ ∧
      m.completePayment un lm.lock lm.bf u' = .ok τ ∧
      (Customer.locked new sd.bfToken cs').unlock e m.kp.pk τ = (.ready new tok' cs', .accepted) ∧
      new.cb = cb' ∧ new.mb = mb' := by
  intro new
  obtain ⟨hbc, hbm⟩ := balance_after (F := F) st.cb st.mb amount hcb hmb ha cb' mb' hp
  obtain ⟨_, _, hc', hm', _⟩ := C17.apply_payment_ok st.cb st.mb amount hcb hmb ha cb' mb' hp
  obtain ⟨b, hb, hv⟩ := C02.pay_complete he cd H m.payParams close st.msg new.msg tok (cb' : Int) (mb' : Int)
    ((amount : Int) : F) d ctx rfl rfl rfl (by simp [new, nextState, CState.msg]) (by simp [new, nextState, CState.msg])
    (by simpa [new, nextState, CState.msg] using hbc) (by simpa [new, nextState, CState.msg] using hbm)
    htok hrT hs hvalid (by omega) (by omega) (by omega) (by omega) hwc hwm hrc hrm
  obtain ⟨tok', cs', h1, h2, h3⟩ := honest_payment he m.kp hk hg1 hg2 close st tok cs amount sd u u' hu hu' cb' mb' hp
  -- the builders' commitments are the customer's commitments to the new state
  have hC : b.stB.C = commit m.kp.pk.ped1 d.bfS new.msg ∧ b.clB.C = commit m.kp.pk.ped1 d.bfC (new.closeMsg close) ∧
      b.rlB.C = commit m.rev d.bfR [st.lock] := by
    unfold payBuilders at hb
    split at hb
    · cases hb; exact ⟨rfl, rfl, rfl⟩
    · cases hb
  refine ⟨b, ⟨b.rlB.C, b.stB.C⟩, Sig.blindSign m.kp u b.clB.C, cs', _, Sig.blindSign m.kp u' b.stB.C, tok', h1, hb, ?_, ?_, rfl, ?_, ?_, rfl, rfl⟩
  · unfold MerchantCfg.allowPayment
    have hn : st.msg.getD 1 0 = st.nonce := rfl
    rw [hn] at hv
    rw [hv]
  · rw [hC.2.1, ← hb3]; exact h2
  · rw [C05.complete_payment_iff]
    exact ⟨by rw [hC.2.2, hb1], rfl⟩
  · rw [hC.1, ← hb2]; exact h3

/-- A payment that would leave the range is refused with the documented error before any message is
produced, and the customer continues from the unchanged state. -/
theorem out_of_range_refused (st : CState F) (tok cs : Sig G1) (amount : Int) (d : StartDraws F)
    (er : Err) (hp : applyPayment st.cb st.mb amount = .err er) :
    (Customer.ready st tok cs).start amount d = (.ready st tok cs, .err er) := by
  simp [Customer.start, hp]

/-- which error: exactly the integer-arithmetic classification (customer side first) — from C17. -/
theorem refusal_is_exact (cb mb : Nat) (amount : Int) (hc : cb ≤ 2 ^ 63 - 1) (hm : mb ≤ 2 ^ 63 - 1)
    (ha : IsI64 amount) :
    applyPayment cb mb amount =
      match C17.exact ((cb : Int) - amount) with
      | .err e => .err e
      | .panic => .panic
      | .ok c' => match C17.exact ((mb : Int) + amount) with
        | .err e => .err e
        | .panic => .panic
        | .ok m' => .ok (c', m') :=
  C17.apply_payment_exact cb mb amount hc hm ha

/-! ### The ledger over a whole run -/

/-- the ideal ledger: plain integer arithmetic, a payment applies iff both results stay in `[0, 2^63-1]` -/
def ledger (cb mb : Int) : List Int → Int × Int
  | [] => (cb, mb)
  | a :: as =>
    if 0 ≤ cb - a ∧ cb - a ≤ 2 ^ 63 - 1 ∧ 0 ≤ mb + a ∧ mb + a ≤ 2 ^ 63 - 1 then ledger (cb - a) (mb + a) as
    else ledger cb mb as

/-- the balances the model's `applyPayment` produces over a sequence of amounts (refused payments skipped) -/
def runBalances (cb mb : Nat) : List Int → Nat × Nat
  | [] => (cb, mb)
  | a :: as =>
    match applyPayment cb mb a with
    | .ok (cb', mb') => runBalances cb' mb' as
    | _ => runBalances cb mb as

/-- For every initial pair of balances in range and every sequence of `i64` amounts, the balances
after the run equal the ideal ledger, stay in range, and their sum is conserved. -/
theorem run_tracks_ledger (cb mb : Nat) (as : List Int) (hc : cb ≤ 2 ^ 63 - 1) (hm : mb ≤ 2 ^ 63 - 1)
    (ha : ∀ a ∈ as, IsI64 a) :
    let r := runBalances cb mb as
    ((r.1 : Int), (r.2 : Int)) = ledger cb mb as ∧ r.1 ≤ 2 ^ 63 - 1 ∧ r.2 ≤ 2 ^ 63 - 1 ∧ r.1 + r.2 = cb + mb := by
  induction as generalizing cb mb with
  | nil => exact ⟨rfl, hc, hm, rfl⟩
  | cons a as ih =>
    have hia := ha a (List.mem_cons_self)
    have hrest : ∀ x ∈ as, IsI64 x := fun x hx => ha x (List.mem_cons_of_mem _ hx)
    simp only [runBalances, ledger]
    cases hp : applyPayment cb mb a with
    | ok p =>
      obtain ⟨cb', mb'⟩ := p
      obtain ⟨h1, h2, h3, h4, h5⟩ := C17.apply_payment_ok cb mb a hc hm hia cb' mb' hp
      have hcond : 0 ≤ (cb : Int) - a ∧ (cb : Int) - a ≤ 2 ^ 63 - 1 ∧ 0 ≤ (mb : Int) + a ∧ (mb : Int) + a ≤ 2 ^ 63 - 1 := by
        omega
      simp only [hcond, and_self, if_true]
      have := ih cb' mb' h3 h4 hrest
      simp only at this
      rw [← h1, ← h2]
      obtain ⟨g1, g2, g3, g4⟩ := this
      exact ⟨g1, g2, g3, by omega⟩
    | err er =>
      have hex := C17.apply_payment_exact cb mb a hc hm hia
      rw [hp] at hex
      have hcond : ¬ (0 ≤ (cb : Int) - a ∧ (cb : Int) - a ≤ 2 ^ 63 - 1 ∧ 0 ≤ (mb : Int) + a ∧ (mb : Int) + a ≤ 2 ^ 63 - 1) := by
        intro hc4
        unfold C17.exact at hex
        rw [if_neg (by omega), if_neg (by omega)] at hex
        simp only at hex
        rw [if_neg (by omega), if_neg (by omega)] at hex
        cases hex
      simp only [hcond, if_false]
      exact ih cb mb hc hm hrest
    | panic => exact absurd hp (C17.apply_payment_no_panic cb mb a hc hm hia)

end ZkVerif.C04
