/-
C15 — Wire round-trips are lossless and decoded values satisfy every type invariant.

For every wire type description, every behaviour of the opaque element decoders and every byte string.
`decode_canonical`: a successful decode consumed exactly the canonical encoding of the returned value,
and that value satisfies the type's invariant (canonical scalars, valid elements, every validator).
`decode_encode`: every value satisfying the invariant round-trips.
Caveat (stated, not hidden): "canonical" is about the bytes the decoder consumes; whether trailing
bytes are rejected is a bincode option of the caller (`bincode::deserialize` allows them).
-/
import ZkVerif.Lemmas.Codec

namespace ZkVerif.C15
open ZkVerif.Codec

mutual
theorem decode_canonical (env : Env) :
    ∀ (t : Ty) (bs : List UInt8) (a : Alloc) (v : PT) (rest : List UInt8) (a' : Alloc),
      decode env t bs a = (.ok v rest, a') → wf env t v = true ∧ bs = encode t v ++ rest
  | .scalar, bs, a, v, rest, a', h => by
      unfold decode at h
      split at h
      · simp at h
      · rename_i hl
        simp only at h
        split at h
        · rename_i hq
          simp only [Prod.mk.injEq, Out.ok.injEq] at h
          obtain ⟨⟨rfl, rfl⟩, _⟩ := h
          refine ⟨by simp [wf, hq], ?_⟩
          have hlen : (bs.take 32).length = 32 := by simp; omega
          have := encLE_decLE (bs.take 32)
          rw [hlen] at this
          simp only [encode, this]
          exact take_append_drop_eq 32 bs
        · simp at h
  | .g1, bs, a, v, rest, a', h => by
      unfold decode at h
      split at h
      · simp at h
      · rename_i hl
        have hlen : (bs.take 48).length = 48 := by simp; omega
        cases he : env.elG1 (bs.take 48) with
        | invalid => simp [he] at h
        | identity =>
          simp only [he, Prod.mk.injEq, Out.ok.injEq] at h
          obtain ⟨⟨rfl, rfl⟩, _⟩ := h
          exact ⟨by simp [wf, hlen, he], by simp only [encode]; exact take_append_drop_eq 48 bs⟩
        | valid =>
          simp only [he, Prod.mk.injEq, Out.ok.injEq] at h
          obtain ⟨⟨rfl, rfl⟩, _⟩ := h
          exact ⟨by simp [wf, hlen, he], by simp only [encode]; exact take_append_drop_eq 48 bs⟩
  | .g2, bs, a, v, rest, a', h => by
      unfold decode at h
      split at h
      · simp at h
      · rename_i hl
        have hlen : (bs.take 96).length = 96 := by simp; omega
        cases he : env.elG2 (bs.take 96) with
        | invalid => simp [he] at h
        | identity =>
          simp only [he, Prod.mk.injEq, Out.ok.injEq] at h
          obtain ⟨⟨rfl, rfl⟩, _⟩ := h
          exact ⟨by simp [wf, hlen, he], by simp only [encode]; exact take_append_drop_eq 96 bs⟩
        | valid =>
          simp only [he, Prod.mk.injEq, Out.ok.injEq] at h
          obtain ⟨⟨rfl, rfl⟩, _⟩ := h
          exact ⟨by simp [wf, hlen, he], by simp only [encode]; exact take_append_drop_eq 96 bs⟩
  | .u8, bs, a, v, rest, a', h => by
      cases bs with
      | nil => simp [decode] at h
      | cons b r =>
        simp only [decode, Prod.mk.injEq, Out.ok.injEq] at h
        obtain ⟨⟨rfl, rfl⟩, _⟩ := h
        have hb : b.toNat < 256 := UInt8.toNat_lt b
        exact ⟨by simp [wf, hb], by simp [encode]⟩
  | .u64, bs, a, v, rest, a', h => by
      unfold decode at h
      split at h
      · simp at h
      · rename_i hl
        simp only [Prod.mk.injEq, Out.ok.injEq] at h
        obtain ⟨⟨rfl, rfl⟩, _⟩ := h
        have hlen : (bs.take 8).length = 8 := by simp; omega
        have h1 := decLE_lt (bs.take 8)
        rw [hlen] at h1
        have h2 := encLE_decLE (bs.take 8)
        rw [hlen] at h2
        refine ⟨by simp [wf]; omega, ?_⟩
        simp only [encode, h2]
        exact take_append_drop_eq 8 bs
  | .i64, bs, a, v, rest, a', h => by
      unfold decode at h
      split at h
      · simp at h
      · rename_i hl
        simp only [Prod.mk.injEq, Out.ok.injEq] at h
        obtain ⟨⟨rfl, rfl⟩, _⟩ := h
        have hlen : (bs.take 8).length = 8 := by simp; omega
        have h1 := decLE_lt (bs.take 8)
        rw [hlen] at h1
        have h2 := encLE_decLE (bs.take 8)
        rw [hlen] at h2
        refine ⟨by simp [wf]; omega, ?_⟩
        simp only [encode, h2]
        exact take_append_drop_eq 8 bs
  | .raw n, bs, a, v, rest, a', h => by
      unfold decode at h
      split at h
      · simp at h
      · rename_i hl
        simp only [Prod.mk.injEq, Out.ok.injEq] at h
        obtain ⟨⟨rfl, rfl⟩, _⟩ := h
        refine ⟨by simp [wf]; omega, ?_⟩
        simp only [encode]
        exact take_append_drop_eq n bs
  | .rep n t, bs, a, v, rest, a', h => by
      unfold decode at h
      split at h
      · rename_i vs r a2 heq
        simp only [Prod.mk.injEq, Out.ok.injEq] at h
        obtain ⟨⟨rfl, rfl⟩, _⟩ := h
        obtain ⟨h1, h2, h3⟩ := decodeN_canonical env t n bs a vs r a2 heq
        exact ⟨by simp [wf, h1, h2], by simp only [encode]; exact h3⟩
      · simp at h
      · simp at h
  | .tup ts, bs, a, v, rest, a', h => by
      unfold decode at h
      split at h
      · rename_i vs r a2 heq
        simp only [Prod.mk.injEq, Out.ok.injEq] at h
        obtain ⟨⟨rfl, rfl⟩, _⟩ := h
        obtain ⟨h2, h3⟩ := decodeAll_canonical env ts bs a vs r a2 heq
        exact ⟨by simp [wf, h2], by simp only [encode]; exact h3⟩
      · simp at h
      · simp at h
  | .chk va t, bs, a, v, rest, a', h => by
      unfold decode at h
      split at h
      · rename_i x r a2 heq
        split at h
        · rename_i hv
          simp only [Prod.mk.injEq, Out.ok.injEq] at h
          obtain ⟨⟨rfl, rfl⟩, _⟩ := h
          obtain ⟨h1, h2⟩ := decode_canonical env t bs a x r a2 heq
          exact ⟨by simp [wf, h1, hv], by simp only [encode]; exact h2⟩
        · simp at h
      · simp at h
      · simp at h
  | .arr n t, bs, a, v, rest, a', h => by
      unfold decode at h
      split at h
      · simp at h
      · rename_i hl
        simp only at h
        split at h
        · rename_i hle
          split at h
          · rename_i vs r a2 heq
            split at h
            · rename_i hn
              simp only [Prod.mk.injEq, Out.ok.injEq] at h
              obtain ⟨⟨rfl, rfl⟩, _⟩ := h
              obtain ⟨h1, h2, h3⟩ := decodeN_canonical env t _ (bs.drop 8) a vs r a2 heq
              have hlen : (bs.take 8).length = 8 := by simp; omega
              have hlt := decLE_lt (bs.take 8)
              rw [hlen] at hlt
              have henc := encLE_decLE (bs.take 8)
              rw [hlen] at henc
              refine ⟨by simp [wf, h2]; omega, ?_⟩
              simp only [encode, h1, henc, List.append_assoc, ← h3]
              exact take_append_drop_eq 8 bs
            · simp at h
          · simp at h
          · simp at h
        · split at h
          · split at h <;> simp at h
          · simp at h
          · simp at h
  | .vec t, bs, a, v, rest, a', h => by
      unfold decode at h
      split at h
      · simp at h
      · rename_i hl
        simp only at h
        split at h
        · rename_i vs r a2 heq
          simp only [Prod.mk.injEq, Out.ok.injEq] at h
          obtain ⟨⟨rfl, rfl⟩, _⟩ := h
          obtain ⟨h1, h2, h3⟩ := decodeN_canonical env t _ (bs.drop 8) _ vs r a2 heq
          have hlen : (bs.take 8).length = 8 := by simp; omega
          have hlt := decLE_lt (bs.take 8)
          rw [hlen] at hlt
          have henc := encLE_decLE (bs.take 8)
          rw [hlen] at henc
          refine ⟨by simp [wf, h2]; omega, ?_⟩
          simp only [encode, h1, henc, List.append_assoc, ← h3]
          exact take_append_drop_eq 8 bs
        · simp at h
        · simp at h

theorem decodeN_canonical (env : Env) (t : Ty) :
    ∀ (n : Nat) (bs : List UInt8) (a : Alloc) (vs : List PT) (rest : List UInt8) (a' : Alloc),
      decodeN env t n bs a = (.ok vs rest, a') →
        vs.length = n ∧ wfN env t vs = true ∧ bs = encodeN t vs ++ rest
  | 0, bs, a, vs, rest, a', h => by
      unfold decodeN at h
      simp only [Prod.mk.injEq, Out.ok.injEq] at h
      obtain ⟨⟨rfl, rfl⟩, _⟩ := h
      simp [wfN, encodeN]
  | n + 1, bs, a, vs, rest, a', h => by
      unfold decodeN at h
      split at h
      · rename_i v r a2 heq
        split at h
        · rename_i ws r' a3 heq2
          simp only [Prod.mk.injEq, Out.ok.injEq] at h
          obtain ⟨⟨rfl, rfl⟩, _⟩ := h
          obtain ⟨h1, h2⟩ := decode_canonical env t bs a v r a2 heq
          obtain ⟨g1, g2, g3⟩ := decodeN_canonical env t n r a2 ws r' a3 heq2
          refine ⟨by simp [g1], by simp [wfN, h1, g2], ?_⟩
          simp only [encodeN, List.append_assoc]
          rw [← g3]; exact h2
        · simp at h
        · simp at h
      · simp at h
      · simp at h

theorem decodeAll_canonical (env : Env) :
    ∀ (ts : List Ty) (bs : List UInt8) (a : Alloc) (vs : List PT) (rest : List UInt8) (a' : Alloc),
      decodeAll env ts bs a = (.ok vs rest, a') → wfAll env ts vs = true ∧ bs = encodeAll ts vs ++ rest
  | [], bs, a, vs, rest, a', h => by
      unfold decodeAll at h
      simp only [Prod.mk.injEq, Out.ok.injEq] at h
      obtain ⟨⟨rfl, rfl⟩, _⟩ := h
      simp [wfAll, encodeAll]
  | t :: ts, bs, a, vs, rest, a', h => by
      unfold decodeAll at h
      split at h
      · rename_i v r a2 heq
        split at h
        · rename_i ws r' a3 heq2
          simp only [Prod.mk.injEq, Out.ok.injEq] at h
          obtain ⟨⟨rfl, rfl⟩, _⟩ := h
          obtain ⟨h1, h2⟩ := decode_canonical env t bs a v r a2 heq
          obtain ⟨g2, g3⟩ := decodeAll_canonical env ts r a2 ws r' a3 heq2
          refine ⟨by simp [wfAll, h1, g2], ?_⟩
          simp only [encodeAll, List.append_assoc]
          rw [← g3]; exact h2
        · simp at h
        · simp at h
      · simp at h
      · simp at h
end


theorem take_enc (k n : Nat) (rest : List UInt8) : (encLE k n ++ rest).take k = encLE k n := by
  have := encLE_length k n
  rw [List.take_append_of_le_length (by omega), List.take_of_length_le (by omega)]

theorem drop_enc (k n : Nat) (rest : List UInt8) : (encLE k n ++ rest).drop k = rest := by
  have := encLE_length k n
  rw [List.drop_append_of_le_length (by omega), List.drop_of_length_le (by omega), List.nil_append]

theorem take_pre (bs rest : List UInt8) (k : Nat) (h : bs.length = k) : (bs ++ rest).take k = bs := by
  rw [List.take_append_of_le_length (by omega), List.take_of_length_le (by omega)]

theorem drop_pre (bs rest : List UInt8) (k : Nat) (h : bs.length = k) : (bs ++ rest).drop k = rest := by
  rw [List.drop_append_of_le_length (by omega), List.drop_of_length_le (by omega), List.nil_append]

mutual
/-- Round trip: every value satisfying its type's invariant decodes from its encoding (followed by
anything) to itself, consuming exactly the encoding. -/
theorem decode_encode (env : Env) (hq : env.q ≤ 256 ^ 32) :
    ∀ (t : Ty) (v : PT) (rest : List UInt8) (a : Alloc), wf env t v = true →
      ∃ a', decode env t (encode t v ++ rest) a = (.ok v rest, a')
  | .scalar, .sc n, rest, a, h => by
      simp only [wf, decide_eq_true_eq] at h
      refine ⟨a, ?_⟩
      unfold decode
      have hl : ¬ (encode .scalar (.sc n) ++ rest).length < 32 := by simp [encode, encLE_length]
      rw [if_neg hl]
      simp only [encode, take_enc, drop_enc, decLE_encLE 32 n (by omega), if_pos h]
  | .g1, .el bs e, rest, a, h => by
      simp only [wf, Bool.and_eq_true, decide_eq_true_eq] at h
      obtain ⟨⟨h1, h2⟩, h3⟩ := h
      refine ⟨a, ?_⟩
      unfold decode
      have hl : ¬ (encode .g1 (.el bs e) ++ rest).length < 48 := by simp [encode, h1]
      rw [if_neg hl]
      simp only [encode, take_pre bs rest 48 h1, drop_pre bs rest 48 h1, h2]
  | .g2, .el bs e, rest, a, h => by
      simp only [wf, Bool.and_eq_true, decide_eq_true_eq] at h
      obtain ⟨⟨h1, h2⟩, h3⟩ := h
      refine ⟨a, ?_⟩
      unfold decode
      have hl : ¬ (encode .g2 (.el bs e) ++ rest).length < 96 := by simp [encode, h1]
      rw [if_neg hl]
      simp only [encode, take_pre bs rest 96 h1, drop_pre bs rest 96 h1, h2]
  | .u8, .num n, rest, a, h => by
      simp only [wf, decide_eq_true_eq] at h
      refine ⟨a, ?_⟩
      simp only [encode, List.cons_append, List.nil_append, decode]
      have : (UInt8.ofNat n).toNat = n := by simp [UInt8.toNat_ofNat]; omega
      rw [this]
  | .u64, .num n, rest, a, h => by
      simp only [wf, decide_eq_true_eq] at h
      refine ⟨a, ?_⟩
      unfold decode
      have hl : ¬ (encode .u64 (.num n) ++ rest).length < 8 := by simp [encode, encLE_length]
      rw [if_neg hl]
      simp only [encode, take_enc, drop_enc, decLE_encLE 8 n (by omega)]
  | .i64, .num n, rest, a, h => by
      simp only [wf, decide_eq_true_eq] at h
      refine ⟨a, ?_⟩
      unfold decode
      have hl : ¬ (encode .i64 (.num n) ++ rest).length < 8 := by simp [encode, encLE_length]
      rw [if_neg hl]
      simp only [encode, take_enc, drop_enc, decLE_encLE 8 n (by omega)]
  | .raw k, .rawb bs, rest, a, h => by
      simp only [wf, decide_eq_true_eq] at h
      refine ⟨a, ?_⟩
      unfold decode
      have hl : ¬ (encode (.raw k) (.rawb bs) ++ rest).length < k := by simp [encode, h]
      rw [if_neg hl]
      simp only [encode, take_pre bs rest k h, drop_pre bs rest k h]
  | .rep k t, .node vs, rest, a, h => by
      simp only [wf, Bool.and_eq_true, decide_eq_true_eq] at h
      obtain ⟨h1, h2⟩ := h
      obtain ⟨a', ha⟩ := decodeN_encode env hq t vs rest a h2
      refine ⟨a', ?_⟩
      unfold decode
      simp only [encode]
      rw [← h1, ha]
  | .tup ts, .node vs, rest, a, h => by
      simp only [wf] at h
      obtain ⟨a', ha⟩ := decodeAll_encode env hq ts vs rest a h
      refine ⟨a', ?_⟩
      unfold decode
      simp only [encode]
      rw [ha]
  | .chk va t, v, rest, a, h => by
      simp only [wf, Bool.and_eq_true] at h
      obtain ⟨h1, h2⟩ := h
      obtain ⟨a', ha⟩ := decode_encode env hq t v rest a h1
      refine ⟨a', ?_⟩
      unfold decode
      simp only [encode]
      rw [ha]
      simp [h2]
  | .arr k t, .node vs, rest, a, h => by
      simp only [wf, Bool.and_eq_true, decide_eq_true_eq] at h
      obtain ⟨⟨h1, h2⟩, h3⟩ := h
      obtain ⟨a', ha⟩ := decodeN_encode env hq t vs rest a h3
      refine ⟨a', ?_⟩
      unfold decode
      have hl : ¬ (encode (.arr k t) (.node vs) ++ rest).length < 8 := by simp [encode, encLE_length]
      rw [if_neg hl]
      simp only [encode, List.append_assoc, take_enc, drop_enc, decLE_encLE 8 vs.length (by omega)]
      rw [h1] at *
      simp only [Nat.le_refl, if_true]
      rw [← h1, ha]
  | .vec t, .node vs, rest, a, h => by
      simp only [wf, Bool.and_eq_true, decide_eq_true_eq] at h
      obtain ⟨h1, h3⟩ := h
      obtain ⟨a', ha⟩ := decodeN_encode env hq t vs rest
        (max a (if env.legacy then vs.length else min vs.length 4096)) h3
      refine ⟨a', ?_⟩
      unfold decode
      have hl : ¬ (encode (.vec t) (.node vs) ++ rest).length < 8 := by simp [encode, encLE_length]
      rw [if_neg hl]
      simp only [encode, List.append_assoc, take_enc, drop_enc, decLE_encLE 8 vs.length (by omega)]
      rw [ha]
  | .scalar, .el _ _, _, _, h => by simp [wf] at h
  | .scalar, .num _, _, _, h => by simp [wf] at h
  | .scalar, .rawb _, _, _, h => by simp [wf] at h
  | .scalar, .node _, _, _, h => by simp [wf] at h
  | .g1, .sc _, _, _, h => by simp [wf] at h
  | .g1, .num _, _, _, h => by simp [wf] at h
  | .g1, .rawb _, _, _, h => by simp [wf] at h
  | .g1, .node _, _, _, h => by simp [wf] at h
  | .g2, .sc _, _, _, h => by simp [wf] at h
  | .g2, .num _, _, _, h => by simp [wf] at h
  | .g2, .rawb _, _, _, h => by simp [wf] at h
  | .g2, .node _, _, _, h => by simp [wf] at h
  | .u8, .sc _, _, _, h => by simp [wf] at h
  | .u8, .el _ _, _, _, h => by simp [wf] at h
  | .u8, .rawb _, _, _, h => by simp [wf] at h
  | .u8, .node _, _, _, h => by simp [wf] at h
  | .u64, .sc _, _, _, h => by simp [wf] at h
  | .u64, .el _ _, _, _, h => by simp [wf] at h
  | .u64, .rawb _, _, _, h => by simp [wf] at h
  | .u64, .node _, _, _, h => by simp [wf] at h
  | .i64, .sc _, _, _, h => by simp [wf] at h
  | .i64, .el _ _, _, _, h => by simp [wf] at h
  | .i64, .rawb _, _, _, h => by simp [wf] at h
  | .i64, .node _, _, _, h => by simp [wf] at h
  | .raw _, .sc _, _, _, h => by simp [wf] at h
  | .raw _, .el _ _, _, _, h => by simp [wf] at h
  | .raw _, .num _, _, _, h => by simp [wf] at h
  | .raw _, .node _, _, _, h => by simp [wf] at h
  | .rep _ _, .sc _, _, _, h => by simp [wf] at h
  | .rep _ _, .el _ _, _, _, h => by simp [wf] at h
  | .rep _ _, .num _, _, _, h => by simp [wf] at h
  | .rep _ _, .rawb _, _, _, h => by simp [wf] at h
  | .tup _, .sc _, _, _, h => by simp [wf] at h
  | .tup _, .el _ _, _, _, h => by simp [wf] at h
  | .tup _, .num _, _, _, h => by simp [wf] at h
  | .tup _, .rawb _, _, _, h => by simp [wf] at h
  | .arr _ _, .sc _, _, _, h => by simp [wf] at h
  | .arr _ _, .el _ _, _, _, h => by simp [wf] at h
  | .arr _ _, .num _, _, _, h => by simp [wf] at h
  | .arr _ _, .rawb _, _, _, h => by simp [wf] at h
  | .vec _, .sc _, _, _, h => by simp [wf] at h
  | .vec _, .el _ _, _, _, h => by simp [wf] at h
  | .vec _, .num _, _, _, h => by simp [wf] at h
  | .vec _, .rawb _, _, _, h => by simp [wf] at h

theorem decodeN_encode (env : Env) (hq : env.q ≤ 256 ^ 32) (t : Ty) :
    ∀ (vs : List PT) (rest : List UInt8) (a : Alloc), wfN env t vs = true →
      ∃ a', decodeN env t vs.length (encodeN t vs ++ rest) a = (.ok vs rest, a')
  | [], rest, a, _ => ⟨a, by simp [decodeN, encodeN]⟩
  | v :: vs, rest, a, h => by
      simp only [wfN, Bool.and_eq_true] at h
      obtain ⟨h1, h2⟩ := h
      obtain ⟨a1, ha1⟩ := decode_encode env hq t v (encodeN t vs ++ rest) a h1
      obtain ⟨a2, ha2⟩ := decodeN_encode env hq t vs rest a1 h2
      refine ⟨a2, ?_⟩
      simp only [List.length_cons, decodeN, encodeN, List.append_assoc, ha1, ha2]

theorem decodeAll_encode (env : Env) (hq : env.q ≤ 256 ^ 32) :
    ∀ (ts : List Ty) (vs : List PT) (rest : List UInt8) (a : Alloc), wfAll env ts vs = true →
      ∃ a', decodeAll env ts (encodeAll ts vs ++ rest) a = (.ok vs rest, a')
  | [], [], rest, a, _ => ⟨a, by simp [decodeAll, encodeAll]⟩
  | t :: ts, v :: vs, rest, a, h => by
      simp only [wfAll, Bool.and_eq_true] at h
      obtain ⟨h1, h2⟩ := h
      obtain ⟨a1, ha1⟩ := decode_encode env hq t v (encodeAll ts vs ++ rest) a h1
      obtain ⟨a2, ha2⟩ := decodeAll_encode env hq ts vs rest a1 h2
      refine ⟨a2, ?_⟩
      simp only [decodeAll, encodeAll, List.append_assoc, ha1, ha2]
  | [], _ :: _, _, _, h => by simp [wfAll] at h
  | _ :: _, [], _, _, h => by simp [wfAll] at h
end

/-- Decoded values re-encode to the bytes that were consumed and decode again to themselves. -/
theorem decode_reencode_stable (env : Env) (hq : env.q ≤ 256 ^ 32) (t : Ty) (bs : List UInt8) (a : Alloc)
    (v : PT) (rest : List UInt8) (a' : Alloc) (h : decode env t bs a = (.ok v rest, a')) :
    ∃ a'', decode env t (encode t v ++ rest) a = (.ok v rest, a'') :=
  decode_encode env hq t v rest a (decode_canonical env t bs a v rest a' h).1

/-- The invariants named in the property, as consequences of `decode_canonical` for the concrete
validators: a decoded balance is `≤ 2^63 - 1`, a decoded nonce is not the close tag, a decoded
signature / key / parameter set contains no identity element where one is forbidden, a decoded
scalar is canonical. -/
theorem decoded_balance_in_range (env : Env) (bs : List UInt8) (a : Alloc) (n : Nat) (rest : List UInt8)
    (a' : Alloc) (h : decode env (.chk .balance .u64) bs a = (.ok (.num n) rest, a')) : n ≤ 2 ^ 63 - 1 := by
  have := (decode_canonical env _ bs a _ rest a' h).1
  simp only [wf, validate, Bool.and_eq_true, decide_eq_true_eq] at this
  exact this.2

theorem decoded_nonce_not_close (env : Env) (bs : List UInt8) (a : Alloc) (n : Nat) (rest : List UInt8)
    (a' : Alloc) (h : decode env (.chk .nonce .scalar) bs a = (.ok (.sc n) rest, a')) :
    n ≠ env.close ∧ n < env.q := by
  have := (decode_canonical env _ bs a _ rest a' h).1
  simp only [wf, validate, PT.scalars, List.all_cons, List.all_nil, Bool.and_true, Bool.and_eq_true,
    decide_eq_true_eq] at this
  exact ⟨this.2, this.1⟩

theorem decoded_signature_wellformed (env : Env) (bs : List UInt8) (a : Alloc) (b1 b2 : List UInt8)
    (e1 e2 : El) (rest : List UInt8) (a' : Alloc)
    (h : decode env (.chk .signature (.tup [.g1, .g1])) bs a = (.ok (.node [.el b1 e1, .el b2 e2]) rest, a')) :
    e1 = .valid ∧ e2 ≠ .invalid := by
  have := (decode_canonical env _ bs a _ rest a' h).1
  simp only [wf, wfAll, validate, PT.els, PT.els.elsList, List.cons_append, List.nil_append,
    Bool.and_eq_true, decide_eq_true_eq, Bool.and_true] at this
  obtain ⟨⟨⟨⟨_, _⟩, h1⟩, ⟨⟨_, _⟩, h2⟩⟩, h3⟩ := this
  refine ⟨?_, h2⟩
  cases e1 <;> simp_all

end ZkVerif.C15
