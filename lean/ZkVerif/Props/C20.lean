/-
C20 — A customer restored from storage at any step continues exactly as the original.

The stored form of a customer stage is the byte string the codec model (`Model/Codec.lean`) assigns
to its wire type (`stageTy`; the same type expressions the codec lab of C15 checks against the real
`Requested / Inactive / Ready / Started / Locked` decoders).  Restoring is decoding — *with* all the
decode-time validators (nonce ≠ close tag, revocation pair, balance ≤ 2^63-1, σ₁ ≠ 1, canonical
scalars) — followed by reading the model customer off the parse tree.

Theorems: (1) the validators' conditions are an invariant of the customer state machine under
*every* operation sequence with *arbitrary* merchant replies (`storable_step`, `reachable_storable`);
(2) a state satisfying them is restored to *itself* (`restore_store`); hence (3) everything the
restored customer does afterwards — replies accepted / refused, closing messages, next messages
under the same randomness — is what the original does (`restored_continues`).
-/
import ZkVerif.Props.C03
import ZkVerif.Props.C15
import ZkVerif.Props.C17

set_option linter.unusedSectionVars false

namespace ZkVerif.C20
open ZkVerif ZkVerif.Codec ZkVerif.C03
variable {F G1 G2 GT : Type} [Field F] [AddCommGroup G1] [Module F G1] [AddCommGroup G2]
  [Module F G2] [AddCommGroup GT] [Module F GT] [DecidableEq F] [DecidableEq G1] [DecidableEq GT]
variable {e : G1 → G2 → GT}

/-! ### Wire types of the five stages -/

/-- `State`: channel id (32 raw bytes), nonce, revocation pair, merchant balance, customer balance -/
def stateTy : Ty :=
  .tup [.raw 32, .chk .nonce .scalar, .chk .revPair (.tup [.scalar, .tup [.scalar, .u8]]),
    .chk .balance .u64, .chk .balance .u64]

def sigTy : Ty := .chk .signature (.tup [.g1, .g1])

inductive StageTag where
  | requested | inactive | ready | started | locked
deriving DecidableEq, Repr

def stageTy : StageTag → Ty
  | .requested => .tup [stateTy, .scalar, .scalar]
  | .inactive => .tup [stateTy, .scalar, sigTy]
  | .ready => .tup [stateTy, sigTy, sigTy]
  | .started => .tup [stateTy, stateTy, .tup [.scalar, .scalar, .scalar], sigTy]
  | .locked => .tup [stateTy, .scalar, sigTy]

def tagOf : Customer F G1 → StageTag
  | .requested .. => .requested
  | .inactive .. => .inactive
  | .ready .. => .ready
  | .started .. => .started
  | .locked .. => .locked

/-! ### Representation of scalars and group elements -/

/-- canonical encodings: scalars as numbers `< q`, elements as 48-byte strings; `cidOf` is
`ChannelId::to_scalar` -/
structure Rep (F G1 : Type) where
  encF : F → Nat
  decF : Nat → F
  encG : G1 → List UInt8
  decG : List UInt8 → G1
  cidOf : List UInt8 → F

/-- how the element decoder classifies the encoding of `g` -/
def cls (g : G1) : El := if g = 0 then .identity else .valid

structure Rep.Laws (R : Rep F G1) (env : Env) : Prop where
  decF_encF : ∀ x, R.decF (R.encF x) = x
  encF_lt : ∀ x, R.encF x < env.q
  decG_encG : ∀ g, R.decG (R.encG g) = g
  encG_len : ∀ g, (R.encG g).length = 48
  el_encG : ∀ g, env.elG1 (R.encG g) = cls g
  q_le : env.q ≤ 256 ^ 32

/-! ### Stored form -/

def embState (R : Rep F G1) (raw : List UInt8) (s : CState F) : PT :=
  .node [.rawb raw, .sc (R.encF s.nonce),
    .node [.sc (R.encF s.lock), .node [.sc (R.encF s.secret), .num s.index]], .num s.mb, .num s.cb]

def embSig (R : Rep F G1) (σ : Sig G1) : PT :=
  .node [.el (R.encG σ.s1) (cls σ.s1), .el (R.encG σ.s2) (cls σ.s2)]

def emb (R : Rep F G1) (raw : List UInt8) : Customer F G1 → PT
  | .requested st a b => .node [embState R raw st, .sc (R.encF a), .sc (R.encF b)]
  | .inactive st b cs => .node [embState R raw st, .sc (R.encF b), embSig R cs]
  | .ready st t cs => .node [embState R raw st, embSig R t, embSig R cs]
  | .started n o a b c cs =>
    .node [embState R raw n, embState R raw o, .node [.sc (R.encF a), .sc (R.encF b), .sc (R.encF c)], embSig R cs]
  | .locked st b cs => .node [embState R raw st, .sc (R.encF b), embSig R cs]

def unState (R : Rep F G1) : PT → Option (CState F)
  | .node [.rawb raw, .sc n, .node [.sc l, .node [.sc s, .num i]], .num mb, .num cb] =>
    some ⟨R.cidOf raw, R.decF n, R.decF l, R.decF s, i, cb, mb⟩
  | _ => none

def unSig (R : Rep F G1) : PT → Option (Sig G1)
  | .node [.el b1 _, .el b2 _] => some ⟨R.decG b1, R.decG b2⟩
  | _ => none

def unemb (R : Rep F G1) : StageTag → PT → Option (Customer F G1)
  | .requested, .node [s, .sc a, .sc b] =>
    (unState R s).map fun st => .requested st (R.decF a) (R.decF b)
  | .inactive, .node [s, .sc b, c] =>
    (unState R s).bind fun st => (unSig R c).map fun cs => .inactive st (R.decF b) cs
  | .ready, .node [s, t, c] =>
    (unState R s).bind fun st => (unSig R t).bind fun tok => (unSig R c).map fun cs => .ready st tok cs
  | .started, .node [n, o, .node [.sc a, .sc b, .sc c], cs] =>
    (unState R n).bind fun new => (unState R o).bind fun old => (unSig R cs).map fun s =>
      .started new old (R.decF a) (R.decF b) (R.decF c) s
  | .locked, .node [s, .sc b, c] =>
    (unState R s).bind fun st => (unSig R c).map fun cs => .locked st (R.decF b) cs
  | _, _ => none

/-- write the customer out -/
def store (R : Rep F G1) (raw : List UInt8) (c : Customer F G1) : List UInt8 :=
  encode (stageTy (tagOf c)) (emb R raw c)

/-- read a customer of the given stage back: the validating decoder, then the parse tree's content -/
def restore (R : Rep F G1) (env : Env) (tag : StageTag) (bs : List UInt8) : Option (Customer F G1) :=
  match (decode env (stageTy tag) bs 0).1 with
  | .ok v _ => unemb R tag v
  | _ => none

/-! ### The conditions the decoder checks are invariants of the state machine -/

def StateOk (R : Rep F G1) (env : Env) (raw : List UInt8) (s : CState F) : Prop :=
  s.cid = R.cidOf raw ∧ R.encF s.nonce ≠ env.close ∧
    env.revOk (R.encF s.lock) (R.encF s.secret) s.index = true ∧ s.index < 256 ∧
    s.cb ≤ 2 ^ 63 - 1 ∧ s.mb ≤ 2 ^ 63 - 1

def Storable (R : Rep F G1) (env : Env) (raw : List UInt8) : Customer F G1 → Prop
  | .requested st _ _ => StateOk R env raw st
  | .inactive st _ cs => StateOk R env raw st ∧ cs.s1 ≠ 0
  | .ready st t cs => StateOk R env raw st ∧ t.s1 ≠ 0 ∧ cs.s1 ≠ 0
  | .started n o _ _ _ cs => StateOk R env raw n ∧ StateOk R env raw o ∧ cs.s1 ≠ 0
  | .locked st _ cs => StateOk R env raw st ∧ cs.s1 ≠ 0

/-- what `Nonce::new` and `RevocationPair::new` guarantee about the fresh values of `start`
(C18, C05), and the amount being an `i64` -/
def OpOk (R : Rep F G1) (env : Env) : Op F G1 → Prop
  | .start a d => IsI64 a ∧ R.encF d.nonce ≠ env.close ∧
      env.revOk (R.encF d.lock) (R.encF d.secret) d.index = true ∧ d.index < 256
  | _ => True

theorem verified_wellformed (pk : PubKey G1 G2) (σ : Sig G1) (ms : List F)
    (h : psVerify e pk σ ms = true) : σ.s1 ≠ 0 :=
  ((psVerify_true e pk σ ms).1 h).1

/-- `Storable` is preserved by every operation with every reply. -/
theorem storable_step (R : Rep F G1) (env : Env) (raw : List UInt8) (pk : PubKey G1 G2) (close : F)
    (h : Hist F G1) (op : Op F G1) (hs : Storable R env raw h.c) (ho : OpOk R env op) :
    Storable R env raw (step e pk close h op).1.c := by
  obtain ⟨c, disc⟩ := h
  cases op with
  | complete r =>
    cases c <;> simp only [step, Customer.complete] <;> try exact hs
    rename_i st bfC bfT
    by_cases hv : psVerify e pk (r.unblind bfC) (st.closeMsg close) = true
    · simp only [hv, if_true, Storable]; exact ⟨hs, verified_wellformed pk _ _ hv⟩
    · simp only [hv]; exact hs
  | activate r =>
    cases c <;> simp only [step, Customer.activate] <;> try exact hs
    rename_i st bfT cs
    by_cases hv : psVerify e pk (r.unblind bfT) st.msg = true
    · simp only [hv, if_true, Storable]; exact ⟨hs.1, verified_wellformed pk _ _ hv, hs.2⟩
    · simp only [hv]; exact hs
  | start a d =>
    cases c <;> simp only [step, Customer.start] <;> try exact hs
    rename_i st tok cs
    obtain ⟨ha, hn, hr, hi⟩ := ho
    obtain ⟨⟨hcid, h2, h3, h4, hcb, hmb⟩, ht, hc⟩ := hs
    cases hp : applyPayment st.cb st.mb a with
    | ok p =>
      obtain ⟨cb', mb'⟩ := p
      have := C17.apply_payment_ok st.cb st.mb a hcb hmb ha cb' mb' hp
      simp only [Storable, StateOk]
      exact ⟨⟨hcid, hn, hr, hi, this.2.2.1, this.2.2.2.1⟩, ⟨hcid, h2, h3, h4, hcb, hmb⟩, hc⟩
    | err er => exact ⟨⟨hcid, h2, h3, h4, hcb, hmb⟩, ht, hc⟩
    | panic => exact ⟨⟨hcid, h2, h3, h4, hcb, hmb⟩, ht, hc⟩
  | lock r =>
    cases c <;> simp only [step, Customer.lock] <;> try exact hs
    rename_i new old bfRl bfT bfC ocs
    by_cases hv : psVerify e pk (r.unblind bfC) (new.closeMsg close) = true
    · simp only [hv, if_true, Storable]; exact ⟨hs.1, verified_wellformed pk _ _ hv⟩
    · simp only [hv]; exact hs
  | unlock r =>
    cases c <;> simp only [step, Customer.unlock] <;> try exact hs
    rename_i st bfT cs
    by_cases hv : psVerify e pk (r.unblind bfT) st.msg = true
    · simp only [hv, if_true, Storable]; exact ⟨hs.1, verified_wellformed pk _ _ hv, hs.2⟩
    · simp only [hv]; exact hs

/-- run an operation sequence -/
def run (e : G1 → G2 → GT) (pk : PubKey G1 G2) (close : F) (ops : List (Op F G1)) (h : Hist F G1) : Hist F G1 :=
  ops.foldl (fun h op => (step e pk close h op).1) h

/-- every state of every history (any replies, any refusals, any aborts) satisfies what the
validating decoder will check -/
theorem reachable_storable (R : Rep F G1) (env : Env) (raw : List UInt8) (pk : PubKey G1 G2) (close : F)
    (ops : List (Op F G1)) (h : Hist F G1) (hs : Storable R env raw h.c) (ho : ∀ op ∈ ops, OpOk R env op) :
    Storable R env raw (run e pk close ops h).c := by
  induction ops generalizing h with
  | nil => exact hs
  | cons op ops ih =>
    exact ih _ (storable_step R env raw pk close h op hs (ho op List.mem_cons_self))
      (fun o hm => ho o (List.mem_cons_of_mem _ hm))

/-! ### A storable state is restored to itself -/

theorem cls_ne_invalid (g : G1) : cls g ≠ .invalid := by unfold cls; split <;> simp

theorem cls_valid (g : G1) (h : g ≠ 0) : cls g = .valid := by unfold cls; rw [if_neg h]

theorem wf_state (R : Rep F G1) (env : Env) (hl : R.Laws env) (raw : List UInt8) (hraw : raw.length = 32)
    (s : CState F) (hs : StateOk R env raw s) : wf env stateTy (embState R raw s) = true := by
  obtain ⟨_, h2, h3, h4, h5, h6⟩ := hs
  have := hl.encF_lt
  simp only [stateTy, embState, wf, wfAll, validate, PT.scalars, List.all_cons, List.all_nil,
    Bool.and_true, Bool.and_eq_true, decide_eq_true_eq, hraw, h3, this, true_and]
  refine ⟨?_, h4, ⟨by omega, h6⟩, by omega, h5⟩
  simpa using h2

theorem wf_sig (R : Rep F G1) (env : Env) (hl : R.Laws env) (σ : Sig G1) (h : σ.s1 ≠ 0) :
    wf env sigTy (embSig R σ) = true := by
  simp only [sigTy, embSig, wf, wfAll, validate, PT.els, PT.els.elsList, List.cons_append,
    List.nil_append, Bool.and_true, Bool.and_eq_true, decide_eq_true_eq, hl.encG_len, hl.el_encG,
    cls_valid σ.s1 h, true_and, and_true]
  exact ⟨⟨by simp, cls_ne_invalid _⟩, by simp⟩

theorem wf_emb (R : Rep F G1) (env : Env) (hl : R.Laws env) (raw : List UInt8) (hraw : raw.length = 32)
    (c : Customer F G1) (hs : Storable R env raw c) : wf env (stageTy (tagOf c)) (emb R raw c) = true := by
  have hF := hl.encF_lt
  cases c with
  | requested st a b =>
    simp only [tagOf, stageTy, emb, wf, wfAll, Bool.and_eq_true, decide_eq_true_eq, hF, and_true]
    exact wf_state R env hl raw hraw st hs
  | inactive st b cs =>
    simp only [tagOf, stageTy, emb, wf, wfAll, Bool.and_eq_true, decide_eq_true_eq, hF, and_true, true_and]
    exact ⟨wf_state R env hl raw hraw st hs.1, wf_sig R env hl cs hs.2⟩
  | ready st t cs =>
    simp only [tagOf, stageTy, emb, wf, wfAll, Bool.and_eq_true, and_true]
    exact ⟨wf_state R env hl raw hraw st hs.1, wf_sig R env hl t hs.2.1, wf_sig R env hl cs hs.2.2⟩
  | started n o a b c cs =>
    simp only [tagOf, stageTy, emb, wf, wfAll, Bool.and_eq_true, decide_eq_true_eq, hF, and_true, true_and]
    exact ⟨wf_state R env hl raw hraw n hs.1, wf_state R env hl raw hraw o hs.2.1, wf_sig R env hl cs hs.2.2⟩
  | locked st b cs =>
    simp only [tagOf, stageTy, emb, wf, wfAll, Bool.and_eq_true, decide_eq_true_eq, hF, and_true, true_and]
    exact ⟨wf_state R env hl raw hraw st hs.1, wf_sig R env hl cs hs.2⟩

theorem unState_emb (R : Rep F G1) (env : Env) (hl : R.Laws env) (raw : List UInt8) (s : CState F)
    (hc : s.cid = R.cidOf raw) : unState R (embState R raw s) = some s := by
  cases s
  simp only [embState, unState, hl.decF_encF] at hc ⊢
  rw [← hc]

theorem unSig_emb (R : Rep F G1) (env : Env) (hl : R.Laws env) (σ : Sig G1) : unSig R (embSig R σ) = some σ := by
  cases σ
  simp only [embSig, unSig, hl.decG_encG]

theorem unemb_emb (R : Rep F G1) (env : Env) (hl : R.Laws env) (raw : List UInt8) (c : Customer F G1)
    (hs : Storable R env raw c) : unemb R (tagOf c) (emb R raw c) = some c := by
  cases c with
  | requested st a b =>
    simp only [tagOf, emb, unemb, unState_emb R env hl raw st hs.1, Option.map_some, hl.decF_encF]
  | inactive st b cs =>
    simp only [tagOf, emb, unemb, unState_emb R env hl raw st hs.1.1, unSig_emb R env hl, Option.bind_some,
      Option.map_some, hl.decF_encF]
  | ready st t cs =>
    simp only [tagOf, emb, unemb, unState_emb R env hl raw st hs.1.1, unSig_emb R env hl, Option.bind_some,
      Option.map_some]
  | started n o a b c cs =>
    simp only [tagOf, emb, unemb, unState_emb R env hl raw n hs.1.1, unState_emb R env hl raw o hs.2.1.1,
      unSig_emb R env hl, Option.bind_some, Option.map_some, hl.decF_encF]
  | locked st b cs =>
    simp only [tagOf, emb, unemb, unState_emb R env hl raw st hs.1.1, unSig_emb R env hl, Option.bind_some,
      Option.map_some, hl.decF_encF]

/-- Writing a storable customer out and reading it back (through the validating decoder) yields the
same customer — also when other bytes follow the stored form. -/
theorem restore_store (R : Rep F G1) (env : Env) (hl : R.Laws env) (raw : List UInt8) (hraw : raw.length = 32)
    (c : Customer F G1) (hs : Storable R env raw c) (trailing : List UInt8) :
    restore R env (tagOf c) (store R raw c ++ trailing) = some c := by
  obtain ⟨a', hd⟩ := C15.decode_encode env hl.q_le (stageTy (tagOf c)) (emb R raw c) trailing 0
    (wf_emb R env hl raw hraw c hs)
  unfold restore store
  rw [hd]
  exact unemb_emb R env hl raw c hs

/-! ### The restored customer continues as the original -/

/-- At every step of every history — any operation sequence, any merchant replies, including right
after a refused reply — the customer written out and read back is the customer that was never
stored.  Consequently (functions of equal arguments): it accepts and refuses the same replies,
releases the same lock messages, produces the same closing messages under the same re-randomiser,
starts the same payments under the same fresh values, and every continuation of the history runs
identically. -/
theorem restored_continues (R : Rep F G1) (env : Env) (hl : R.Laws env) (raw : List UInt8)
    (hraw : raw.length = 32) (pk : PubKey G1 G2) (close : F) (ops : List (Op F G1)) (h0 : Hist F G1)
    (hs : Storable R env raw h0.c) (ho : ∀ op ∈ ops, OpOk R env op) :
    let h := run e pk close ops h0
    ∃ c', restore R env (tagOf h.c) (store R raw h.c) = some c' ∧
      (∀ more : List (Op F G1), run e pk close more ⟨c', h.disclosed⟩ = run e pk close more h) ∧
      (∀ op, step e pk close ⟨c', h.disclosed⟩ op = step e pk close h op) ∧
      (∀ r, c'.close r = h.c.close r) ∧ c'.balances = h.c.balances := by
  intro h
  have hst := reachable_storable (e := e) R env raw pk close ops h0 hs ho
  have hr := restore_store R env hl raw hraw h.c hst []
  rw [List.append_nil] at hr
  exact ⟨h.c, hr, fun _ => rfl, fun _ => rfl, fun _ => rfl, rfl⟩

/-- The decoder's checks are all needed states away from rejecting a *legitimate* stored state:
the balance bound it enforces is exactly the one the state machine maintains (`2^63 - 1` itself is
storable). -/
theorem max_balance_storable (R : Rep F G1) (env : Env) (hl : R.Laws env) (raw : List UInt8)
    (hraw : raw.length = 32) (st : CState F) (a b : F) (hs : StateOk R env raw st)
    (_hcb : st.cb = 2 ^ 63 - 1) :
    restore R env .requested (store R raw (.requested st a b)) = some (.requested st a b) := by
  have := restore_store R env hl raw hraw (.requested st a b) hs []
  rwa [List.append_nil] at this

end ZkVerif.C20
