/-
C18 — Pay tokens and closing signatures can never stand in for each other.
-/
import ZkVerif.Model.Abacus
import ZkVerif.Props.C07

set_option linter.unusedSectionVars false

namespace ZkVerif.C18
open ZkVerif
universe u
variable {F G1 G2 GT : Type u} [DecidableEq F]

/-- For every randomness stream: if `Nonce::new` returns, its result is not the close tag, it is an
element of the stream, and every draw skipped before it *was* the close tag. -/
theorem nonce_new_ne_close (close : F) (s : Stream F G1 G2) (n : F) (rest : Stream F G1 G2)
    (h : nonceNew close s = some (n, rest)) :
    n ≠ close ∧ ∃ k : Nat, s = List.replicate k (Draw.s close) ++ Draw.s n :: rest := by
  induction s with
  | nil => simp [nonceNew] at h
  | cons d s ih =>
    cases d with
    | s x =>
      simp only [nonceNew] at h
      by_cases hx : x = close
      · rw [if_pos hx] at h
        obtain ⟨h1, k, hk⟩ := ih h
        exact ⟨h1, k + 1, by rw [hk, hx]; rfl⟩
      · rw [if_neg hx] at h
        simp only [Option.some.injEq, Prod.mk.injEq] at h
        obtain ⟨rfl, rfl⟩ := h
        exact ⟨hx, 0, rfl⟩
    | g1 _ => simp [nonceNew] at h
    | g2 _ => simp [nonceNew] at h
    | raw _ => simp [nonceNew] at h

/-- … and it returns as soon as the stream contains a scalar draw other than the close tag
(after only close-tag draws). -/
theorem nonce_new_returns (close n : F) (k : Nat) (rest : Stream F G1 G2) (hn : n ≠ close) :
    nonceNew close (List.replicate k (Draw.s close) ++ Draw.s n :: rest) = some (n, rest) := by
  induction k with
  | zero => simp [nonceNew, hn]
  | succ k ih => simp only [List.replicate_succ, List.cons_append, nonceNew, if_true]; exact ih

/-- A decoded nonce is never the close tag. -/
theorem nonce_decode_ne_close (close n : F) (h : nonceOk close n = true) : n ≠ close := by
  unfold nonceOk at h; exact of_decide_eq_true h

/-- The message signed for a state and the one signed for its close state differ (in slot 1). -/
theorem state_msg_ne_close_msg (close : F) (s : StateM F) (h : s.nonce ≠ close) :
    s.msg ≠ s.closeMsg close := by
  intro he
  simp only [StateM.msg, StateM.closeMsg, List.cons.injEq, and_true, true_and] at he
  exact h he

theorem close_msg_is_msg_set (close : F) (s : StateM F) : s.closeMsg close = s.msg.set 1 close := rfl

variable [Field F] [AddCommGroup G1] [Module F G1] [AddCommGroup G2] [Module F G2]
  [AddCommGroup GT] [Module F GT] [DecidableEq G1] [DecidableEq GT]
variable {e : G1 → G2 → GT}

/-- A valid pay token (signature on the state message) never verifies as a closing signature for the
close state sharing its other fields … -/
theorem pay_token_not_closing_sig (he : IsPairing F e) (kp : KeyPair F G1 G2) (hk : kp.Honest)
    (hg2 : kp.pk.g2 ≠ 0) (hy : 1 < kp.sk.ys.length) (hy1 : kp.sk.ys[1] ≠ 0) (close : F) (s : StateM F)
    (hn : s.nonce ≠ close) (σ : Sig G1) (hv : psVerify e kp.pk σ s.msg = true) :
    psVerify e kp.pk σ (s.closeMsg close) = false := by
  rw [close_msg_is_msg_set]
  exact C07.single_coord_change_rejects he kp hk hg2 σ s.msg 1 close (by simp [StateM.msg]) hy hy1
    (by simpa [StateM.msg] using hn.symm) hv

/-- … nor a valid closing signature as a pay token. -/
theorem closing_sig_not_pay_token (he : IsPairing F e) (kp : KeyPair F G1 G2) (hk : kp.Honest)
    (hg2 : kp.pk.g2 ≠ 0) (hy : 1 < kp.sk.ys.length) (hy1 : kp.sk.ys[1] ≠ 0) (close : F) (s : StateM F)
    (hn : s.nonce ≠ close) (σ : Sig G1) (hv : psVerify e kp.pk σ (s.closeMsg close) = true) :
    psVerify e kp.pk σ s.msg = false := by
  have hm : s.msg = (s.closeMsg close).set 1 s.nonce := rfl
  rw [hm]
  exact C07.single_coord_change_rejects he kp hk hg2 σ (s.closeMsg close) 1 s.nonce
    (by simp [StateM.closeMsg]) hy hy1 (by simpa [StateM.closeMsg] using hn) hv

/-! ### Channel id: the hashed byte string is injective in each input separately -/

theorem preimage_inj_merchant_randomness (mr mr' cr pk ma ca : List UInt8) (hl : mr.length = mr'.length)
    (h : channelIdPreimage mr cr pk ma ca = channelIdPreimage mr' cr pk ma ca) : mr = mr' := by
  unfold channelIdPreimage at h
  simp only [List.append_assoc] at h
  exact (List.append_inj h hl).1

theorem preimage_inj_customer_randomness (mr cr cr' pk ma ca : List UInt8)
    (h : channelIdPreimage mr cr pk ma ca = channelIdPreimage mr cr' pk ma ca) : cr = cr' := by
  unfold channelIdPreimage at h
  simp only [List.append_assoc, List.append_cancel_left_eq] at h
  simpa using h

theorem preimage_inj_public_key (mr cr pk pk' ma ca : List UInt8)
    (h : channelIdPreimage mr cr pk ma ca = channelIdPreimage mr cr pk' ma ca) : pk = pk' := by
  unfold channelIdPreimage at h
  simp only [List.append_assoc, List.append_cancel_left_eq] at h
  simpa using h

theorem preimage_inj_merchant_account (mr cr pk ma ma' ca : List UInt8)
    (h : channelIdPreimage mr cr pk ma ca = channelIdPreimage mr cr pk ma' ca) : ma = ma' := by
  unfold channelIdPreimage at h
  simp only [List.append_assoc, List.append_cancel_left_eq] at h
  simpa using h

theorem preimage_inj_customer_account (mr cr pk ma ca ca' : List UInt8)
    (h : channelIdPreimage mr cr pk ma ca = channelIdPreimage mr cr pk ma ca') : ca = ca' := by
  unfold channelIdPreimage at h
  simpa using h

/-- The channel id is a deterministic function of its five inputs, and a change to any single input
changes the hashed byte string (so the id, unless a SHA3 collision is exhibited). Recorded
observation: the two trailing account strings are concatenated without framing, so the preimage is
not *jointly* injective in them. -/
theorem channel_id_deterministic (Hb : List UInt8 → List UInt8) (mr cr pk ma ca : List UInt8) :
    channelIdNew Hb mr cr pk ma ca = Hb (mr ++ cr ++ pk ++ ma ++ ca) := rfl

example : channelIdPreimage [1] [2] [3] [4, 5] [6] = channelIdPreimage [1] [2] [3] [4] [5, 6] := by decide

end ZkVerif.C18
