/-
C07 — Signature verification accepts exactly the Pointcheval–Sanders relation.

For every field `F`, `F`-modules `G1 G2 GT`, bilinear non-degenerate `e`, tuple length, key,
message and signature value.
-/
import ZkVerif.Lemmas.Pairing
import ZkVerif.Lemmas.Z13

set_option linter.unusedSectionVars false

namespace ZkVerif.C07
open ZkVerif
universe u
variable {F G1 G2 GT : Type u} [Field F] [AddCommGroup G1] [Module F G1] [AddCommGroup G2]
  [Module F G2] [AddCommGroup GT] [Module F GT] [DecidableEq G1] [DecidableEq GT]
variable {e : G1 → G2 → GT}

/-- Verification returns true iff `σ₁ ≠ 1` and `e(σ₁, X̃ · ∏ Ỹᵢ^mᵢ) = e(σ₂, g̃)` — for *every* public
key (no assumption on how it was generated), message and signature. -/
theorem verify_iff (he : IsPairing F e) (pk : PubKey G1 G2) (σ : Sig G1) (ms : List F) :
    psVerify e pk σ ms = true ↔
      σ.s1 ≠ 0 ∧ e σ.s1 (pk.x2 + (List.zipWith (· • ·) ms pk.y2s).sum) = e σ.s2 pk.g2 := by
  rw [psVerify_true, psAccept_iff he, inner_eq_sum]

/-- The all-identity signature (indeed any signature with `σ₁ = 1`) never verifies. -/
theorem identity_sig_never_verifies (pk : PubKey G1 G2) (s2 : G1) (ms : List F) :
    psVerify e pk ⟨0, s2⟩ ms = false := by
  rw [psVerify_false]; intro h; exact h.1 rfl

/-- Characterisation under a keygen-shaped key: valid iff `σ₁ ≠ 1 ∧ σ₂ = σ₁^(x + Σ yᵢ mᵢ)`. -/
theorem verify_honest_iff (he : IsPairing F e) (kp : KeyPair F G1 G2) (hk : kp.Honest)
    (hg2 : kp.pk.g2 ≠ 0) (σ : Sig G1) (ms : List F) :
    psVerify e kp.pk σ ms = true ↔ σ.s1 ≠ 0 ∧ σ.s2 = (kp.sk.x + dot kp.sk.ys ms) • σ.s1 := by
  rw [psVerify_true, psAccept_honest_iff he kp hk hg2]

/-- Signing produces a signature that verifies (for the drawn `h ≠ 1`). -/
theorem sign_verifies (he : IsPairing F e) (kp : KeyPair F G1 G2) (hk : kp.Honest)
    (hg2 : kp.pk.g2 ≠ 0) (h : G1) (hh : h ≠ 0) (ms : List F) :
    psVerify e kp.pk (Sig.sign kp.sk h ms) ms = true := by
  rw [verify_honest_iff he kp hk hg2]; exact ⟨hh, rfl⟩

/-- Re-randomising with `r ≠ 0` preserves validity and invalidity. -/
theorem randomize_verifies_iff (he : IsPairing F e) (kp : KeyPair F G1 G2) (hk : kp.Honest)
    (hg2 : kp.pk.g2 ≠ 0) (σ : Sig G1) (r : F) (hr : r ≠ 0) (ms : List F) :
    psVerify e kp.pk (σ.randomize r) ms = true ↔ psVerify e kp.pk σ ms = true := by
  rw [verify_honest_iff he kp hk hg2, verify_honest_iff he kp hk hg2]
  simp only [Sig.randomize]
  constructor
  · rintro ⟨h0, h⟩
    refine ⟨fun h1 => h0 (by rw [h1, smul_zero]), ?_⟩
    have : r • σ.s2 = r • ((kp.sk.x + dot kp.sk.ys ms) • σ.s1) := by rw [h]; module
    exact smul_right_injective G1 hr this
  · rintro ⟨h0, h⟩
    refine ⟨fun h1 => h0 ((smul_eq_zero.mp h1).resolve_left hr), ?_⟩
    rw [h]; module

/-- Re-randomiser `0` gives the all-identity signature, which is rejected (the excluded point). -/
theorem randomize_zero_rejected (pk : PubKey G1 G2) (σ : Sig G1) (ms : List F) :
    psVerify e pk (σ.randomize (0 : F)) ms = false := by
  rw [psVerify_false]; intro h; exact h.1 (by simp [Sig.randomize])

/-- `blind_and_randomize` followed by `unblind` with the same blinding factor is `randomize`. -/
theorem blind_randomize_unblind (σ : Sig G1) (r bf : F) :
    (σ.blindAndRandomize r bf).unblind bf = σ.randomize r := by
  simp only [Sig.blindAndRandomize, Sig.randomize, Sig.unblind, Sig.mk.injEq, true_and]
  module

theorem blind_randomize_unblind_verifies (he : IsPairing F e) (kp : KeyPair F G1 G2)
    (hk : kp.Honest) (hg2 : kp.pk.g2 ≠ 0) (σ : Sig G1) (r bf : F) (hr : r ≠ 0) (ms : List F)
    (hv : psVerify e kp.pk σ ms = true) :
    psVerify e kp.pk ((σ.blindAndRandomize r bf).unblind bf) ms = true := by
  rw [blind_randomize_unblind, randomize_verifies_iff he kp hk hg2 σ r hr]; exact hv

/-- Blind-signing the commitment `Com_{g,Y}(m; bf)` and unblinding with `bf'` verifies on `m` iff
`bf' = bf` (for `u ≠ 0`, `g ≠ 1`). -/
theorem blindsign_unblind_verifies_iff (he : IsPairing F e) (kp : KeyPair F G1 G2)
    (hk : kp.Honest) (hg1 : kp.pk.g1 ≠ 0) (hg2 : kp.pk.g2 ≠ 0) (u bf bf' : F) (hu : u ≠ 0)
    (ms : List F) :
    psVerify e kp.pk ((Sig.blindSign kp u (blindMessage kp.pk ms bf)).unblind bf') ms = true
      ↔ bf' = bf := by
  rw [verify_honest_iff he kp hk hg2]
  simp only [Sig.blindSign, Sig.unblind, blindMessage, commit, PubKey.ped1]
  rw [hk.x1, hk.y1s, inner_map_smul]
  have hne : u • kp.pk.g1 ≠ 0 := fun h => hg1 ((smul_eq_zero.mp h).resolve_left hu)
  constructor
  · rintro ⟨_, h⟩
    have h2 : (u * (bf - bf')) • kp.pk.g1 = 0 := by
      have := congrArg (fun z => z - (kp.sk.x + dot kp.sk.ys ms) • u • kp.pk.g1) h
      simp only [sub_self] at this
      rw [← this]; module
    rcases smul_eq_zero.mp h2 with h3 | h3
    · rcases mul_eq_zero.mp h3 with h4 | h4
      · exact absurd h4 hu
      · exact (sub_eq_zero.mp h4).symm
    · exact absurd h3 hg1
  · rintro rfl
    exact ⟨hne, by module⟩

theorem blindsign_unblind_verifies (he : IsPairing F e) (kp : KeyPair F G1 G2)
    (hk : kp.Honest) (hg1 : kp.pk.g1 ≠ 0) (hg2 : kp.pk.g2 ≠ 0) (u bf : F) (hu : u ≠ 0)
    (ms : List F) :
    psVerify e kp.pk ((Sig.blindSign kp u (blindMessage kp.pk ms bf)).unblind bf) ms = true :=
  (blindsign_unblind_verifies_iff he kp hk hg1 hg2 u bf bf hu ms).mpr rfl

/-- Blind-signing scalar `u = 0` gives the identity signature: rejected (the excluded point). -/
theorem blindsign_zero_rejected (kp : KeyPair F G1 G2) (c : G1) (bf : F) (ms : List F) :
    psVerify e kp.pk ((Sig.blindSign kp (0 : F) c).unblind bf) ms = false := by
  rw [psVerify_false]; intro h; exact h.1 (by simp [Sig.blindSign, Sig.unblind])

/-- A valid signature does not verify once a single message coordinate is changed
(`yᵢ ≠ 0` is what key generation and key decoding guarantee). -/
theorem single_coord_change_rejects (he : IsPairing F e) (kp : KeyPair F G1 G2) (hk : kp.Honest)
    (hg2 : kp.pk.g2 ≠ 0) (σ : Sig G1) (ms : List F) (i : Nat) (m' : F) (hi : i < ms.length)
    (hy : i < kp.sk.ys.length) (hyi : kp.sk.ys[i] ≠ 0) (hm : m' ≠ ms[i])
    (hv : psVerify e kp.pk σ ms = true) :
    psVerify e kp.pk σ (ms.set i m') = false := by
  rw [psVerify_false, psAccept_honest_iff he kp hk hg2]
  rw [verify_honest_iff he kp hk hg2] at hv
  rintro ⟨h0, h⟩
  rw [hv.2, dot_set _ _ _ _ hi hy] at h
  have h2 : (kp.sk.ys[i] * (m' - ms[i])) • σ.s1 = 0 := by
    have := congrArg (fun z => z - (kp.sk.x + dot kp.sk.ys ms) • σ.s1) h
    simp only [sub_self] at this
    rw [this]; module
  rcases smul_eq_zero.mp h2 with h3 | h3
  · rcases mul_eq_zero.mp h3 with h4 | h4
    · exact hyi h4
    · exact hm (sub_eq_zero.mp h4)
  · exact h0 h3

/-- The same statement for *any* public key (not necessarily keygen-shaped): changing coordinate
`i` flips the verdict as soon as `Ỹᵢ ≠ 1`. -/
theorem single_coord_change_rejects_anykey (he : IsPairing F e) (pk : PubKey G1 G2) (σ : Sig G1)
    (ms : List F) (i : Nat) (m' : F) (hi : i < ms.length) (hy : i < pk.y2s.length)
    (hyi : pk.y2s[i] ≠ 0) (hm : m' ≠ ms[i]) (hv : psVerify e pk σ ms = true) :
    psVerify e pk σ (ms.set i m') = false := by
  rw [psVerify_false, psAccept_iff he]
  rw [psVerify_true, psAccept_iff he] at hv
  rintro ⟨h0, h⟩
  rw [inner_set _ _ _ _ hi hy, ← add_assoc, he.add_right, hv.2, he.smul_right] at h
  have h2 : (m' - ms[i]) • e σ.s1 pk.y2s[i] = 0 := by
    have := congrArg (fun z => z - e σ.s2 pk.g2) h
    simpa using this
  rcases smul_eq_zero.mp h2 with h3 | h3
  · exact hm (sub_eq_zero.mp h3)
  · rcases he.nondeg _ _ h3 with h4 | h4
    · exact h0 h4
    · exact hyi h4

/-- Verification of one signature under two keygen-shaped keys: both accept iff the two secret
keys evaluate to the same exponent on the message — a single linear condition (probability 1/q for
an independent key). -/
theorem verify_other_key_iff (he : IsPairing F e) (kp kp' : KeyPair F G1 G2) (hk : kp.Honest)
    (hk' : kp'.Honest) (hg2 : kp.pk.g2 ≠ 0) (hg2' : kp'.pk.g2 ≠ 0) (σ : Sig G1) (ms : List F)
    (hv : psVerify e kp.pk σ ms = true) :
    psVerify e kp'.pk σ ms = true ↔
      kp'.sk.x + dot kp'.sk.ys ms = kp.sk.x + dot kp.sk.ys ms := by
  rw [verify_honest_iff he kp hk hg2] at hv
  rw [verify_honest_iff he kp' hk' hg2']
  constructor
  · rintro ⟨h0, h⟩
    rw [hv.2] at h
    have h2 : ((kp.sk.x + dot kp.sk.ys ms) - (kp'.sk.x + dot kp'.sk.ys ms)) • σ.s1 = 0 := by
      rw [sub_smul, h, sub_self]
    rcases smul_eq_zero.mp h2 with h3 | h3
    · exact (sub_eq_zero.mp h3).symm
    · exact absurd h3 h0
  · intro h
    exact ⟨hv.1, by rw [h]; exact hv.2⟩

/-! ### Chains of sign / randomize / blind_and_randomize+unblind -/

/-- One derivation step available through the API (with its drawn randomness explicit). -/
inductive Step (F : Type u) where
  | randomize (r : F)
  | blindRandomizeUnblind (r bf : F)

def Step.apply (σ : Sig G1) : Step F → Sig G1
  | .randomize r => σ.randomize r
  | .blindRandomizeUnblind r bf => (σ.blindAndRandomize r bf).unblind bf

def Step.NonDegenerate : Step F → Prop
  | .randomize r => r ≠ 0
  | .blindRandomizeUnblind r _ => r ≠ 0

/-- Every signature derived from a valid one through any chain of non-degenerate steps verifies on
the same message. -/
theorem chain_verifies (he : IsPairing F e) (kp : KeyPair F G1 G2) (hk : kp.Honest)
    (hg2 : kp.pk.g2 ≠ 0) (ms : List F) (steps : List (Step F)) (σ : Sig G1)
    (hs : ∀ s ∈ steps, s.NonDegenerate) (hv : psVerify e kp.pk σ ms = true) :
    psVerify e kp.pk (steps.foldl Step.apply σ) ms = true := by
  induction steps generalizing σ with
  | nil => simpa
  | cons s steps ih =>
    simp only [List.foldl_cons]
    apply ih
    · intro s' hs'; exact hs s' (List.mem_cons_of_mem _ hs')
    · have hnd := hs s (List.mem_cons_self)
      cases s with
      | randomize r =>
        exact (randomize_verifies_iff he kp hk hg2 σ r hnd ms).mpr hv
      | blindRandomizeUnblind r bf =>
        exact blind_randomize_unblind_verifies he kp hk hg2 σ r bf hnd ms hv

/-! ### Non-vacuity: a concrete key, message and signature over `ZMod 13` (pairing = multiplication) -/
section examples
private def e13 : Z13 → Z13 → Z13 := fun a b => a * b
private theorem e13_pairing : IsPairing Z13 e13 where
  add_left a b c := by simp [e13, add_mul]
  add_right a b c := by simp [e13, mul_add]
  smul_left k a b := by simp [e13, mul_assoc]
  smul_right k a b := by simp [e13, mul_left_comm]
  nondeg a b h := by simpa [e13] using h
private def kp13 : KeyPair Z13 Z13 Z13 :=
  ⟨⟨3, [2, 5], 3 * 4⟩, ⟨4, [2 * 4, 5 * 4], 6, 3 * 6, [2 * 6, 5 * 6]⟩⟩
private theorem kp13_honest : kp13.Honest := ⟨by decide, by decide, by decide, by decide⟩
example : psVerify e13 kp13.pk (Sig.sign kp13.sk (7 : Z13) [1, 9]) [1, 9] = true :=
  sign_verifies e13_pairing kp13 kp13_honest (by decide) 7 (by decide) [1, 9]
example : psVerify e13 kp13.pk (Sig.sign kp13.sk (7 : Z13) [1, 9]) ([1, 9].set 1 10) = false :=
  single_coord_change_rejects e13_pairing kp13 kp13_honest (by decide) _ [1, 9] 1 10 (by decide)
    (by decide) (by decide) (by decide)
    (sign_verifies e13_pairing kp13 kp13_honest (by decide) 7 (by decide) [1, 9])
example : psVerify e13 kp13.pk (Sig.sign kp13.sk (7 : Z13) [1, 9]) [1, 10] = false := by decide
end examples

end ZkVerif.C07
