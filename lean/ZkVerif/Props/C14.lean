/-
C14 — Customer messages reuse no value the merchant has seen and expose no secret (PARTIAL).

The property is a statement about what happens *except with negligible probability* over the
customer's random draws.  What a theorem about the (deterministic, draws-explicit) model can carry —
and what is proved here for all fields, modules and inputs — is the algebraic half:

  every group element and scalar of every customer message is, for fixed other inputs, an
  *injective* function of a draw made fresh for that message,

so for any value `v` fixed before the draw (an atom of an earlier message in either direction, a
public parameter, a secret held in the state) the event "atom = v" is the event "draw = one specific
value".  Summed over the atoms this is the union bound `#atoms · #earlier values / q`.  In particular
a shown signature equals the stored one exactly when the re-randomiser is `1`, and a response scalar
equals a given secret for exactly one commitment scalar.

Not carried by a theorem: the probability statement itself (no probability theory is developed
here), independence of the RNG's outputs, and zero knowledge.  The harness scans the atoms of every
message of multi-channel histories of the real code for exact reuse and for the secrets held in
the customer state at the time of sending.
-/
import ZkVerif.Model.Customer
import ZkVerif.Model.Schnorr
import ZkVerif.Props.C03
import ZkVerif.Model.ZkProofs
import ZkVerif.Lemmas.Establish

set_option linter.unusedSectionVars false

namespace ZkVerif.C14
open ZkVerif
variable {F G G1 G2 GT : Type} [Field F] [AddCommGroup G] [Module F G] [AddCommGroup G1] [Module F G1]
  [AddCommGroup G2] [Module F G2] [AddCommGroup GT] [Module F GT] [DecidableEq F] [DecidableEq G1] [DecidableEq GT]

/-! ### Commitments and commitment-proof atoms -/

/-- `C = commit(bf, m)` determines the fresh blinding factor: for any target value at most one
blinding factor hits it. -/
theorem commitment_hits_once (pp : PedParams G) (hh : pp.h ≠ 0) (ms : List F) (v : G) (bf bf' : F)
    (h1 : commit pp bf ms = v) (h2 : commit pp bf' ms = v) : bf = bf' := by
  unfold commit at h1 h2
  have h3 : (bf - bf') • pp.h = 0 := by
    have : bf • pp.h + inner ms pp.gs = bf' • pp.h + inner ms pp.gs := h1.trans h2.symm
    have := add_right_cancel this
    rw [sub_smul, this, sub_self]
  rcases smul_eq_zero.mp h3 with h | h
  · exact sub_eq_zero.mp h
  · exact absurd h hh

/-- the scalar commitment `T = commit(tbf, ts)` likewise determines `tbf` -/
theorem scalar_commitment_hits_once (pp : PedParams G) (hh : pp.h ≠ 0) (ms ts : List F) (bf : F) (v : G)
    (tbf tbf' : F) (h1 : (CBuilder.mk' pp ms bf tbf ts).T = v) (h2 : (CBuilder.mk' pp ms bf tbf' ts).T = v) :
    tbf = tbf' :=
  commitment_hits_once pp hh ts v tbf tbf' h1 h2

/-- the blinding-factor response `z_bf = c·bf + tbf` hits a given value (an earlier atom, or a secret
such as `bf` itself) for exactly one `tbf` -/
theorem zbf_hits_iff (pp : PedParams G) (ms ts : List F) (bf tbf c v : F) :
    ((CBuilder.mk' pp ms bf tbf ts).respond c).zbf = v ↔ tbf = v - c * bf := by
  simp only [CBuilder.mk', CBuilder.respond]
  constructor
  · intro h; rw [← h]; ring
  · intro h; rw [h]; ring

/-- every message response `zᵢ = c·mᵢ + tᵢ` hits a given value for exactly one `tᵢ` -/
theorem z_hits_iff (c m t v : F) : c * m + t = v ↔ t = v - c * m := by
  constructor
  · intro h; rw [← h]; ring
  · intro h; rw [h]; ring

/-- the whole vector of message responses determines the vector of commitment scalars -/
theorem responses_determine_scalars (c : F) : ∀ (ms ts ts' : List F), ts.length = ms.length →
    ts'.length = ms.length →
    List.zipWith (fun m t => c * m + t) ms ts = List.zipWith (fun m t => c * m + t) ms ts' → ts = ts'
  | [], [], [], _, _, _ => rfl
  | [], _ :: _, _, h, _, _ => by simp at h
  | [], [], _ :: _, _, h, _ => by simp at h
  | _ :: _, [], _, h, _, _ => by simp at h
  | _ :: _, _ :: _, [], _, h, _ => by simp at h
  | m :: ms, t :: ts, t' :: ts', h1, h2, h => by
    simp only [List.zipWith_cons_cons, List.cons.injEq] at h
    have ht : t = t' := add_left_cancel h.1
    rw [ht, responses_determine_scalars c ms ts ts' (by simpa using h1) (by simpa using h2) h.2]

/-- A commitment proof determines all of the prover's draws: two different draw vectors never give
the same proof (so a proof is repeated only if *all* draws repeat). -/
theorem cproof_determines_draws (pp : PedParams G) (hh : pp.h ≠ 0) (ms : List F) (c : F)
    (bf tbf bf' tbf' : F) (ts ts' : List F) (hl : ts.length = ms.length) (hl' : ts'.length = ms.length)
    (h : (CBuilder.mk' pp ms bf tbf ts).respond c = (CBuilder.mk' pp ms bf' tbf' ts').respond c) :
    bf = bf' ∧ tbf = tbf' ∧ ts = ts' := by
  simp only [CBuilder.mk', CBuilder.respond, CProof.mk.injEq] at h
  obtain ⟨hC, _, hz, hzs⟩ := h
  have hb := commitment_hits_once pp hh ms _ bf bf' hC rfl
  subst hb
  exact ⟨rfl, add_left_cancel hz, responses_determine_scalars c ms ts ts' hl hl' hzs⟩

/-! ### Shown signatures -/

/-- A re-randomised signature shows the stored `σ₁` again exactly when the re-randomiser is 1;
in general `σ₁' = r·σ₁` hits any given element for at most one `r`. -/
theorem randomized_s1_hits_once (σ : Sig G1) (h0 : σ.s1 ≠ 0) (v : G1) (r r' : F)
    (h1 : (σ.randomize r).s1 = v) (h2 : (σ.randomize r').s1 = v) : r = r' := by
  simp only [Sig.randomize] at h1 h2
  have h3 : (r - r') • σ.s1 = 0 := by rw [sub_smul, h1, h2, sub_self]
  rcases smul_eq_zero.mp h3 with h | h
  · exact sub_eq_zero.mp h
  · exact absurd h h0

theorem randomized_shows_stored_iff (σ : Sig G1) (h0 : σ.s1 ≠ 0) (r : F) :
    (σ.randomize r).s1 = σ.s1 ↔ r = 1 := by
  constructor
  · intro h
    exact randomized_s1_hits_once σ h0 σ.s1 r 1 h (by simp [Sig.randomize])
  · intro h; simp [Sig.randomize, h]

/-- the same for the signature inside a signature proof (`blind_and_randomize`): `σ₁'` hits a given
element for at most one re-randomiser, and equals the stored `σ₁` iff `r = 1` -/
theorem proof_sig_s1_hits_once (σ : Sig G1) (h0 : σ.s1 ≠ 0) (v : G1) (bf bf' r r' : F)
    (h1 : (σ.blindAndRandomize r bf).s1 = v) (h2 : (σ.blindAndRandomize r' bf').s1 = v) : r = r' := by
  simp only [Sig.blindAndRandomize, Sig.randomize] at h1 h2
  have h3 : (r - r') • σ.s1 = 0 := by rw [sub_smul, h1, h2, sub_self]
  rcases smul_eq_zero.mp h3 with h | h
  · exact sub_eq_zero.mp h
  · exact absurd h h0

theorem proof_sig_shows_stored_iff (σ : Sig G1) (h0 : σ.s1 ≠ 0) (bf r : F) :
    (σ.blindAndRandomize r bf).s1 = σ.s1 ↔ r = 1 := by
  constructor
  · intro h
    exact proof_sig_s1_hits_once σ h0 σ.s1 bf bf r 1 h (by simp [Sig.blindAndRandomize, Sig.randomize])
  · intro h; simp [Sig.blindAndRandomize, Sig.randomize, h]

/-- `σ₂' = r·(σ₂ + bf·σ₁)` hits a given element for at most one blinding factor (for `r ≠ 0`) -/
theorem proof_sig_s2_hits_once (σ : Sig G1) (h0 : σ.s1 ≠ 0) (v : G1) (r : F) (hr : r ≠ 0) (bf bf' : F)
    (h1 : (σ.blindAndRandomize r bf).s2 = v) (h2 : (σ.blindAndRandomize r bf').s2 = v) : bf = bf' := by
  simp only [Sig.blindAndRandomize, Sig.randomize] at h1 h2
  have h3 : r • (σ.s2 + bf • σ.s1) = r • (σ.s2 + bf' • σ.s1) := h1.trans h2.symm
  have h4 := add_left_cancel (smul_right_injective G1 hr h3)
  have h5 : (bf - bf') • σ.s1 = 0 := by rw [sub_smul, h4, sub_self]
  rcases smul_eq_zero.mp h5 with h | h
  · exact sub_eq_zero.mp h
  · exact absurd h h0

/-! ### What the atoms do not depend on: hiding and simulation in bijection form

The theorems above say that each atom is an injective function of a fresh draw.  The ones below say that the atoms
carry no information about the hidden values: changing the hidden value can be absorbed by re-indexing the draw
(a translation or a dilation of the scalar field, hence a bijection), so under a uniform draw the atom has the same
distribution whatever is hidden.  No probability theory is needed to state this. -/

/-- **Perfect hiding of a commitment.**  If `h` generates the group, then for any two message tuples the commitments
coincide after shifting the blinding factor by a constant: `bf ↦ bf + d` is a bijection of the scalar field, so the
commitment to `ms` under a uniform blinding factor is distributed exactly like the commitment to `ms'`. -/
theorem commitment_independent_of_message (pp : PedParams G) (hgen : ∀ v : G, ∃ x : F, x • pp.h = v)
    (ms ms' : List F) : ∃ d : F, ∀ bf : F, commit pp bf ms = commit pp (bf + d) ms' := by
  obtain ⟨d, hd⟩ := hgen (inner ms pp.gs - inner ms' pp.gs)
  refine ⟨d, fun bf => ?_⟩
  unfold commit
  rw [add_smul, hd]
  module

private theorem responses_reindexed (c : F) : ∀ (ms ms' ts : List F), ms'.length = ms.length → ts.length = ms.length →
    List.zipWith (fun m t => c * m + t) ms'
      (List.zipWith (fun t d => 1 * t + c * d) ts (List.zipWith (fun m m' => 1 * m + (-1) * m') ms ms'))
    = List.zipWith (fun m t => c * m + t) ms ts
  | [], [], [], _, _ => rfl
  | [], _ :: _, _, h, _ => by simp at h
  | [], [], _ :: _, _, h => by simp at h
  | _ :: _, [], _, h, _ => by simp at h
  | _ :: _, _ :: _, [], _, h => by simp at h
  | m :: ms, m' :: ms', t :: ts, h1, h2 => by
    simp only [List.zipWith_cons_cons, List.cons.injEq]
    exact ⟨by ring, responses_reindexed c ms ms' ts (by simpa using h1) (by simpa using h2)⟩

/-- **Witness independence of a commitment proof (perfect honest-verifier simulation).**  Let `(ms, bf)` and
`(ms', bf')` open the same commitment.  Then for every challenge and every choice of the prover's commitment scalars
under the first opening there is a choice under the second that yields the *identical* proof, field for field (the
commitment scalars are translated by `c·(witness − witness')`; by `cproof_determines_draws` the choice is unique, so
the correspondence is a bijection between the two spaces of draws).  A proof therefore carries no information about
which opening — which balance, nonce, revocation lock, blinding factor — the prover holds. -/
theorem cproof_independent_of_witness (pp : PedParams G) (ms ms' : List F) (bf bf' : F)
    (hlen : ms'.length = ms.length) (hC : commit pp bf ms = commit pp bf' ms') (c tbf : F) (ts : List F)
    (hl : ts.length = ms.length) :
    ∃ (tbf' : F) (ts' : List F), ts'.length = ms'.length ∧
      (CBuilder.mk' pp ms bf tbf ts).respond c = (CBuilder.mk' pp ms' bf' tbf' ts').respond c := by
  let ds := List.zipWith (fun m m' => 1 * m + (-1) * m') ms ms'
  refine ⟨1 * tbf + c * (1 * bf + (-1) * bf'), List.zipWith (fun t d => 1 * t + c * d) ts ds, ?_, ?_⟩
  · simp [ds, hl, hlen]
  · have hds : ds.length = ms.length := by simp [ds, hlen]
    have hT : commit pp (1 * tbf + c * (1 * bf + (-1) * bf')) (List.zipWith (fun t d => 1 * t + c * d) ts ds)
        = commit pp tbf ts := by
      rw [commit_lin pp 1 c tbf (1 * bf + (-1) * bf') ts ds (by rw [hl, hds]),
        commit_lin pp 1 (-1) bf bf' ms ms' hlen.symm, hC]
      module
    simp only [CBuilder.mk', CBuilder.respond, CProof.mk.injEq]
    refine ⟨hC, hT.symm, by ring, ?_⟩
    exact (responses_reindexed c ms ms' ts hlen hl).symm

/-- **The shown signature does not depend on which valid signature is stored.**  If `σ'` is a re-randomisation of `σ`
by `ρ` (which any two signatures on one message under one key are, `valid_signatures_are_rerandomizations` below), then
showing `σ'` with re-randomiser `r` is showing `σ` with re-randomiser `r·ρ`: for `ρ ≠ 0` the map `r ↦ r·ρ` is a
bijection of the non-zero scalars, so what the merchant sees in a signature proof or a closing message is distributed
independently of the signature it issued. -/
theorem shown_signature_independent_of_stored (σ σ' : Sig G1) (ρ : F) (h1 : σ'.s1 = ρ • σ.s1) (h2 : σ'.s2 = ρ • σ.s2)
    (r bf : F) :
    σ'.blindAndRandomize r bf = σ.blindAndRandomize (r * ρ) bf ∧ σ'.randomize r = σ.randomize (r * ρ) := by
  simp only [Sig.blindAndRandomize, Sig.randomize, h1, h2, Sig.mk.injEq]
  refine ⟨⟨?_, ?_⟩, ?_, ?_⟩ <;> module

/-- Two signatures that verify on the same messages under a key of the shape key generation produces, with
`σ'₁ = ρ·σ₁`, are re-randomisations of one another in both components. -/
theorem valid_signatures_are_rerandomizations {e : G1 → G2 → GT} (he : IsPairing F e) (kp : KeyPair F G1 G2) (hk : kp.Honest)
    (hg2 : kp.pk.g2 ≠ 0) (σ σ' : Sig G1) (ms : List F) (hv : PsAccept e kp.pk σ ms) (hv' : PsAccept e kp.pk σ' ms)
    (ρ : F) (h1 : σ'.s1 = ρ • σ.s1) : σ'.s2 = ρ • σ.s2 := by
  have a := ((psAccept_honest_iff he kp hk hg2 σ ms).1 hv).2
  have a' := ((psAccept_honest_iff he kp hk hg2 σ' ms).1 hv').2
  rw [a', a, h1]
  module

/-! ### Closing messages -/

/-- At every stage, the signature in a closing message is the stored closing signature
re-randomised by the fresh `r`: its `σ₁` equals the stored one — the one the merchant saw when it
issued it — iff `r = 1`, and equals any other fixed element for at most one `r`. -/
theorem closing_shows_stored_iff (c : Customer F G1) (r : F) (m : ClosingMsg F G1)
    (hc : c.close r = some m) :
    ∃ cs : Sig G1, (∀ r', ∃ m', c.close r' = some m' ∧ m'.sig = cs.randomize r') ∧
      (cs.s1 ≠ 0 → (m.sig.s1 = cs.s1 ↔ r = 1)) := by
  cases c with
  | requested st a b => simp [Customer.close] at hc
  | inactive st b cs =>
    simp only [Customer.close, Option.some.injEq] at hc; subst hc
    exact ⟨cs, fun r' => ⟨_, rfl, rfl⟩, fun h0 => randomized_shows_stored_iff cs h0 r⟩
  | ready st t cs =>
    simp only [Customer.close, Option.some.injEq] at hc; subst hc
    exact ⟨cs, fun r' => ⟨_, rfl, rfl⟩, fun h0 => randomized_shows_stored_iff cs h0 r⟩
  | started n o a b c' cs =>
    simp only [Customer.close, Option.some.injEq] at hc; subst hc
    exact ⟨cs, fun r' => ⟨_, rfl, rfl⟩, fun h0 => randomized_shows_stored_iff cs h0 r⟩
  | locked st b cs =>
    simp only [Customer.close, Option.some.injEq] at hc; subst hc
    exact ⟨cs, fun r' => ⟨_, rfl, rfl⟩, fun h0 => randomized_shows_stored_iff cs h0 r⟩

/-- two closing messages from the same state carry the same signature element only if the two
re-randomisers coincide (the stored signature has `σ₁ ≠ 1` in every reachable state: C03.Good) -/
theorem closing_sigs_distinct (e : G1 → G2 → GT) (pk : PubKey G1 G2) (close : F) (c : Customer F G1)
    (hg : C03.Good e pk close c) (r r' : F) (m m' : ClosingMsg F G1)
    (h1 : c.close r = some m) (h2 : c.close r' = some m') (hs : m.sig.s1 = m'.sig.s1) : r = r' := by
  have wfd : ∀ (σ : Sig G1) (ms : List F), psVerify e pk σ ms = true → σ.s1 ≠ 0 :=
    fun σ ms h => ((psVerify_true e pk σ ms).1 h).1
  cases c with
  | requested st a b => simp [Customer.close] at h1
  | inactive st b cs =>
    simp only [Customer.close, Option.some.injEq] at h1 h2; subst h1; subst h2
    exact randomized_s1_hits_once cs (wfd _ _ hg) _ r r' hs rfl
  | ready st t cs =>
    simp only [Customer.close, Option.some.injEq] at h1 h2; subst h1; subst h2
    exact randomized_s1_hits_once cs (wfd _ _ hg.1) _ r r' hs rfl
  | started n o a b c' cs =>
    simp only [Customer.close, Option.some.injEq] at h1 h2; subst h1; subst h2
    exact randomized_s1_hits_once cs (wfd _ _ hg) _ r r' hs rfl
  | locked st b cs =>
    simp only [Customer.close, Option.some.injEq] at h1 h2; subst h1; subst h2
    exact randomized_s1_hits_once cs (wfd _ _ hg) _ r r' hs rfl

/-! ### A whole establish message determines every draw behind it -/

/-- Two establish messages (same key, state, challenge) coincide only if *all* of the customer's
draws coincide: the message is an injective function of the randomness, so with fresh independent
draws no establish message repeats, field for field, except on the diagonal. -/
theorem establish_message_determines_draws (pk : PubKey G1 G2) (hg : pk.g1 ≠ 0) (close : F) (ms : List F)
    (hm : ms.length = 5) (d d' : EstDraws F) (ht : d.tsS.length = 5) (ht' : d'.tsS.length = 5) (c : F)
    (h : estProveWith pk close ms d c = estProveWith pk close ms d' c) :
    d.bfS = d'.bfS ∧ d.tbfS = d'.tbfS ∧ d.tsS = d'.tsS ∧ d.bfC = d'.bfC ∧ d.tbfC = d'.tbfC ∧ d.t1C = d'.t1C := by
  simp only [estProveWith, estBuilders, srpBuilder, EstProof.mk.injEq] at h
  obtain ⟨_, hk1, _, _, hst, hcl⟩ := h
  have h1 := cproof_determines_draws pk.ped1 hg ms c d.bfS d.tbfS d'.bfS d'.tbfS d.tsS d'.tsS
    (by rw [ht, hm]) (by rw [ht', hm]) hst
  have h2 := cproof_determines_draws pk.ped1 hg (ms.set 1 close) c d.bfC d.tbfC d'.bfC d'.tbfC
    (d.tsS.set 1 d.t1C) (d'.tsS.set 1 d'.t1C) (by simp [ht, hm]) (by simp [ht', hm]) hcl
  refine ⟨h1.1, h1.2.1, h1.2.2, h2.1, h2.2.1, ?_⟩
  simp only [CBuilder.mk'] at hk1
  obtain ⟨a0, a1, a2, a3, a4, ha⟩ := list_len5 d.tsS ht
  obtain ⟨b0, b1, b2, b3, b4, hb⟩ := list_len5 d'.tsS ht'
  rw [ha, hb] at hk1
  simpa using hk1

end ZkVerif.C14
