/-
`ChallengeBuilder::finish` (and `ChannelId::to_scalar`): from 32 digest bytes to a scalar.

* `limbs_eq_le`: cutting the digest into four little-endian `u64` limbs and handing them to
  `Scalar::from_raw` denotes the digest read as one little-endian 256-bit integer;
* `rawScalar_lt`: the result is a canonical scalar;
* `rawScalar_collision`: two 32-byte digests give the same challenge iff their integers differ by
  `0`, `q` or `2q` — the digest-to-challenge map is at most 3-to-1 (`2^256 < 3q`), so binding of the
  challenge to the hashed bytes (C12) loses at most a factor 3 against SHA3 collision resistance, and the
  bias of the challenge is bounded;
* `leNat_injective`: equal integers, equal digests (fixed length).
-/
import ZkVerif.Model.Transcript
import ZkVerif.Exec.Fq
import Mathlib.Tactic.Ring

namespace ZkVerif.Finish
open ZkVerif

theorem leNat_append (a b : List UInt8) : leNat (a ++ b) = leNat a + 256 ^ a.length * leNat b := by
  induction a with
  | nil => simp [leNat]
  | cons x xs ih =>
    simp only [List.cons_append, leNat, ih, List.length_cons, Nat.pow_succ]
    ring

theorem leNat_lt (bs : List UInt8) : leNat bs < 256 ^ bs.length := by
  induction bs with
  | nil => simp [leNat]
  | cons b bs ih =>
    have hb : b.toNat < 256 := UInt8.toNat_lt b
    simp only [leNat, List.length_cons, Nat.pow_succ]
    omega

theorem leNat_injective : ∀ (a b : List UInt8), a.length = b.length → leNat a = leNat b → a = b
  | [], [], _, _ => rfl
  | [], _ :: _, h, _ => by simp at h
  | _ :: _, [], h, _ => by simp at h
  | x :: xs, y :: ys, h, e => by
    have hx : x.toNat < 256 := UInt8.toNat_lt x
    have hy : y.toNat < 256 := UInt8.toNat_lt y
    simp only [leNat] at e
    have h1 : x.toNat = y.toNat := by omega
    have h2 : leNat xs = leNat ys := by omega
    have := leNat_injective xs ys (by simpa using h) h2
    rw [this, UInt8.toNat_inj.mp h1]

private theorem split8 (d : List UInt8) (n : Nat) (h : n + 8 ≤ d.length) :
    leNat (d.drop n) = leNat ((d.drop n).take 8) + 256 ^ 8 * leNat (d.drop (n + 8)) := by
  have : d.drop n = (d.drop n).take 8 ++ d.drop (n + 8) := by
    rw [← List.drop_drop, List.take_append_drop]
  have hl : ((d.drop n).take 8).length = 8 := by
    simp only [List.length_take, List.length_drop]; omega
  have e := leNat_append ((d.drop n).take 8) (d.drop (n + 8))
  rw [← this, hl] at e
  exact e

/-- the limbs denote the digest as one little-endian integer -/
theorem limbs_eq_le (d : List UInt8) (h : d.length = 32) : fromLimbs (limbsOf d) = leNat d := by
  have e0 := split8 d 0 (by omega)
  have e1 := split8 d 8 (by omega)
  have e2 := split8 d 16 (by omega)
  have e3 := split8 d 24 (by omega)
  have e4 : leNat (d.drop 32) = 0 := by
    have : d.drop 32 = [] := List.drop_eq_nil_iff.mpr (by omega)
    rw [this]; rfl
  simp only [List.drop_zero, Nat.zero_add] at e0
  have e1' : leNat (d.drop 8) = leNat ((d.drop 8).take 8) + 256 ^ 8 * leNat (d.drop 16) := e1
  have e2' : leNat (d.drop 16) = leNat ((d.drop 16).take 8) + 256 ^ 8 * leNat (d.drop 24) := e2
  have e3' : leNat (d.drop 24) = leNat ((d.drop 24).take 8) + 256 ^ 8 * leNat (d.drop 32) := e3
  simp only [limbsOf, fromLimbs]
  rw [e0, e1', e2', e3', e4]
  have : (256 : Nat) ^ 8 = 2 ^ 64 := by decide
  rw [this]

theorem rawScalar_lt (d : List UInt8) : rawScalar q d < q := Nat.mod_lt _ q_pos

theorem rawScalar_eq (d : List UInt8) (h : d.length = 32) : rawScalar q d = leNat d % q := by
  rw [rawScalar, limbs_eq_le d h]

/-- at most three digests per challenge: equal challenges ⇒ the digests, as integers, differ by 0, q or 2q -/
theorem rawScalar_collision (d d' : List UInt8) (h : d.length = 32) (h' : d'.length = 32)
    (e : rawScalar q d = rawScalar q d') :
    d = d' ∨ leNat d = leNat d' + q ∨ leNat d = leNat d' + 2 * q ∨ leNat d' = leNat d + q ∨
      leNat d' = leNat d + 2 * q := by
  rw [rawScalar_eq d h, rawScalar_eq d' h'] at e
  have b := leNat_lt d; have b' := leNat_lt d'
  rw [h] at b; rw [h'] at b'
  have hq : (256 : Nat) ^ 32 < 3 * q := by decide
  by_cases heq : leNat d = leNat d'
  · exact Or.inl (leNat_injective d d' (by rw [h, h']) heq)
  · right
    have k1 := Nat.div_add_mod (leNat d) q
    have k2 := Nat.div_add_mod (leNat d') q
    have hd : leNat d / q < 3 := by
      rw [Nat.div_lt_iff_lt_mul q_pos]; omega
    have hd' : leNat d' / q < 3 := by
      rw [Nat.div_lt_iff_lt_mul q_pos]; omega
    generalize leNat d / q = a at *
    generalize leNat d' / q = a' at *
    have : a = 0 ∨ a = 1 ∨ a = 2 := by omega
    have : a' = 0 ∨ a' = 1 ∨ a' = 2 := by omega
    rcases ‹a = 0 ∨ a = 1 ∨ a = 2› with rfl | rfl | rfl <;>
      rcases ‹a' = 0 ∨ a' = 1 ∨ a' = 2› with rfl | rfl | rfl <;> omega

/-- what the driver answers to a `raw-scalar` request is that canonical scalar -/
theorem exec_raw_scalar (d : List UInt8) (h : d.length = 32) :
    (Fq.ofNat (rawScalar q d)).v = leNat d % q := by
  show rawScalar q d % q = _
  rw [Nat.mod_eq_of_lt (rawScalar_lt d), rawScalar_eq d h]

end ZkVerif.Finish
