/-
C19 — Generated keys and parameters are well-formed for every randomness stream.

Streams are arbitrary finite lists of typed draws (including streams that first yield zero scalars
or — hypothetically — identity group elements); "returns" means the stream was long enough.
-/
import ZkVerif.Props.C13

set_option linter.unusedSectionVars false

namespace ZkVerif.C19
open ZkVerif
universe u
variable {F G1 G2 GT : Type u} [Field F] [AddCommGroup G1] [Module F G1] [AddCommGroup G2]
  [Module F G2] [AddCommGroup GT] [Module F GT] [DecidableEq F] [DecidableEq G1] [DecidableEq G2]
  [DecidableEq GT]
variable {e : G1 → G2 → GT}

theorem nonzeroScalar_spec (s : Stream F G1 G2) (x : F) (r : Stream F G1 G2)
    (h : nonzeroScalar s = some (x, r)) :
    x ≠ 0 ∧ ∃ k : Nat, s = List.replicate k (Draw.s 0) ++ Draw.s x :: r := by
  induction s with
  | nil => simp [nonzeroScalar] at h
  | cons d s ih =>
    cases d with
    | s y =>
      simp only [nonzeroScalar] at h
      by_cases hy : y = 0
      · rw [if_pos hy] at h
        obtain ⟨h1, k, hk⟩ := ih h
        exact ⟨h1, k + 1, by rw [hk, hy]; rfl⟩
      · rw [if_neg hy] at h
        simp only [Option.some.injEq, Prod.mk.injEq] at h
        obtain ⟨rfl, rfl⟩ := h
        exact ⟨hy, 0, rfl⟩
    | g1 _ => simp [nonzeroScalar] at h
    | g2 _ => simp [nonzeroScalar] at h
    | raw _ => simp [nonzeroScalar] at h

/-- zero draws are skipped at *every* position, not only before the first scalar -/
theorem nonzeroScalar_skips (k : Nat) (x : F) (hx : x ≠ 0) (r : Stream F G1 G2) :
    nonzeroScalar (List.replicate k (Draw.s 0) ++ Draw.s x :: r) = some (x, r) := by
  induction k with
  | zero => simp [nonzeroScalar, hx]
  | succ k ih => simp only [List.replicate_succ, List.cons_append, nonzeroScalar, if_true]; exact ih

theorem nonzeroScalars_spec (n : Nat) (s : Stream F G1 G2) (xs : List F) (r : Stream F G1 G2)
    (h : nonzeroScalars n s = some (xs, r)) : xs.length = n ∧ ∀ x ∈ xs, x ≠ 0 := by
  induction n generalizing s xs r with
  | zero => simp [nonzeroScalars] at h; obtain ⟨rfl, _⟩ := h; simp
  | succ n ih =>
    simp only [nonzeroScalars] at h
    cases h1 : nonzeroScalar s with
    | none => simp [h1] at h
    | some p =>
      obtain ⟨x, s'⟩ := p
      simp only [h1] at h
      cases h2 : nonzeroScalars n s' with
      | none => simp [h2] at h
      | some q =>
        obtain ⟨ys, r'⟩ := q
        simp only [h2, Option.some.injEq, Prod.mk.injEq] at h
        obtain ⟨rfl, rfl⟩ := h
        obtain ⟨hl, hne⟩ := ih s' ys r' h2
        refine ⟨by simp [hl], ?_⟩
        intro y hy
        rcases List.mem_cons.mp hy with rfl | hy
        · exact (nonzeroScalar_spec s y s' h1).1
        · exact hne y hy

theorem nonIdG1_spec (s : Stream F G1 G2) (g : G1) (r : Stream F G1 G2) (h : nonIdG1 s = some (g, r)) :
    g ≠ 0 := by
  induction s with
  | nil => simp [nonIdG1] at h
  | cons d s ih =>
    cases d with
    | g1 y =>
      simp only [nonIdG1] at h
      by_cases hy : y = 0
      · rw [if_pos hy] at h; exact ih h
      · rw [if_neg hy] at h
        simp only [Option.some.injEq, Prod.mk.injEq] at h
        obtain ⟨rfl, rfl⟩ := h; exact hy
    | s _ => simp [nonIdG1] at h
    | g2 _ => simp [nonIdG1] at h
    | raw _ => simp [nonIdG1] at h

theorem nonIdG2_spec (s : Stream F G1 G2) (g : G2) (r : Stream F G1 G2) (h : nonIdG2 s = some (g, r)) :
    g ≠ 0 := by
  induction s with
  | nil => simp [nonIdG2] at h
  | cons d s ih =>
    cases d with
    | g2 y =>
      simp only [nonIdG2] at h
      by_cases hy : y = 0
      · rw [if_pos hy] at h; exact ih h
      · rw [if_neg hy] at h
        simp only [Option.some.injEq, Prod.mk.injEq] at h
        obtain ⟨rfl, rfl⟩ := h; exact hy
    | s _ => simp [nonIdG2] at h
    | g1 _ => simp [nonIdG2] at h
    | raw _ => simp [nonIdG2] at h

theorem nonIdG1s_spec (n : Nat) (s : Stream F G1 G2) (gs : List G1) (r : Stream F G1 G2)
    (h : nonIdG1s n s = some (gs, r)) : gs.length = n ∧ ∀ g ∈ gs, g ≠ 0 := by
  induction n generalizing s gs r with
  | zero => simp [nonIdG1s] at h; obtain ⟨rfl, _⟩ := h; simp
  | succ n ih =>
    simp only [nonIdG1s] at h
    cases h1 : nonIdG1 s with
    | none => simp [h1] at h
    | some p =>
      obtain ⟨x, s'⟩ := p
      simp only [h1] at h
      cases h2 : nonIdG1s n s' with
      | none => simp [h2] at h
      | some q =>
        obtain ⟨ys, r'⟩ := q
        simp only [h2, Option.some.injEq, Prod.mk.injEq] at h
        obtain ⟨rfl, rfl⟩ := h
        obtain ⟨hl, hne⟩ := ih s' ys r' h2
        refine ⟨by simp [hl], ?_⟩
        intro y hy
        rcases List.mem_cons.mp hy with rfl | hy
        · exact nonIdG1_spec s y s' h1
        · exact hne y hy

theorem nonIdG2s_spec (n : Nat) (s : Stream F G1 G2) (gs : List G2) (r : Stream F G1 G2)
    (h : nonIdG2s n s = some (gs, r)) : gs.length = n ∧ ∀ g ∈ gs, g ≠ 0 := by
  induction n generalizing s gs r with
  | zero => simp [nonIdG2s] at h; obtain ⟨rfl, _⟩ := h; simp
  | succ n ih =>
    simp only [nonIdG2s] at h
    cases h1 : nonIdG2 s with
    | none => simp [h1] at h
    | some p =>
      obtain ⟨x, s'⟩ := p
      simp only [h1] at h
      cases h2 : nonIdG2s n s' with
      | none => simp [h2] at h
      | some q =>
        obtain ⟨ys, r'⟩ := q
        simp only [h2, Option.some.injEq, Prod.mk.injEq] at h
        obtain ⟨rfl, rfl⟩ := h
        obtain ⟨hl, hne⟩ := ih s' ys r' h2
        refine ⟨by simp [hl], ?_⟩
        intro y hy
        rcases List.mem_cons.mp hy with rfl | hy
        · exact nonIdG2_spec s y s' h1
        · exact hne y hy

/-- Pedersen parameter generation returns only non-identity generators (both groups), and the
result passes the decode-time validation. -/
theorem pedersen_new_nonidentity1 (n : Nat) (s : Stream F G1 G2) (pp : PedParams G1) (r : Stream F G1 G2)
    (h : PedParams.gen1 n s = some (pp, r)) : pp.Valid ∧ pp.gs.length = n := by
  unfold PedParams.gen1 at h
  cases h1 : nonIdG1 s with
  | none => simp [h1] at h
  | some p =>
    obtain ⟨g, s'⟩ := p
    simp only [h1] at h
    cases h2 : nonIdG1s n s' with
    | none => simp [h2] at h
    | some q =>
      obtain ⟨gs, r'⟩ := q
      simp only [h2, Option.some.injEq, Prod.mk.injEq] at h
      obtain ⟨rfl, rfl⟩ := h
      obtain ⟨hl, hne⟩ := nonIdG1s_spec n s' gs r' h2
      exact ⟨⟨nonIdG1_spec s g s' h1, hne⟩, hl⟩

theorem pedersen_new_nonidentity2 (n : Nat) (s : Stream F G1 G2) (pp : PedParams G2) (r : Stream F G1 G2)
    (h : PedParams.gen2 n s = some (pp, r)) : pp.Valid ∧ pp.gs.length = n := by
  unfold PedParams.gen2 at h
  cases h1 : nonIdG2 s with
  | none => simp [h1] at h
  | some p =>
    obtain ⟨g, s'⟩ := p
    simp only [h1] at h
    cases h2 : nonIdG2s n s' with
    | none => simp [h2] at h
    | some q =>
      obtain ⟨gs, r'⟩ := q
      simp only [h2, Option.some.injEq, Prod.mk.injEq] at h
      obtain ⟨rfl, rfl⟩ := h
      obtain ⟨hl, hne⟩ := nonIdG2s_spec n s' gs r' h2
      exact ⟨⟨nonIdG2_spec s g s' h1, hne⟩, hl⟩

/-- Key generation, for every stream on which it returns: non-zero secret scalars, non-identity
public elements, G1 and G2 parts sharing their discrete logarithms (`Honest`), and the key passes
the library's own decode-time validation. -/
theorem keygen_wellformed (n : Nat) (s : Stream F G1 G2) (kp : KeyPair F G1 G2) (r : Stream F G1 G2)
    (h : KeyPair.gen n s = some (kp, r)) :
    kp.sk.Valid ∧ kp.pk.Valid ∧ kp.Honest ∧ kp.sk.ys.length = n ∧ kp.pk.y1s.length = n ∧
      kp.pk.y2s.length = n := by
  unfold KeyPair.gen at h
  cases h1 : nonIdG1 s with
  | none => simp [h1] at h
  | some p1 =>
    obtain ⟨g1, s1⟩ := p1
    simp only [h1] at h
    have hg1 := nonIdG1_spec s g1 s1 h1
    unfold SecKey.gen at h
    rw [if_neg hg1] at h
    cases h2 : nonzeroScalar s1 with
    | none => simp [h2] at h
    | some p2 =>
      obtain ⟨x, s2⟩ := p2
      simp only [h2] at h
      have hx := (nonzeroScalar_spec s1 x s2 h2).1
      cases h3 : nonzeroScalars n s2 with
      | none => simp [h3] at h
      | some p3 =>
        obtain ⟨ys, s3⟩ := p3
        simp only [h3] at h
        obtain ⟨hyl, hyn⟩ := nonzeroScalars_spec n s2 ys s3 h3
        unfold PubKey.gen at h
        rw [if_neg hg1] at h
        cases h4 : nonIdG2 s3 with
        | none => simp [h4] at h
        | some p4 =>
          obtain ⟨g2, s4⟩ := p4
          simp only [h4, Option.some.injEq, Prod.mk.injEq] at h
          obtain ⟨rfl, rfl⟩ := h
          have hg2 := nonIdG2_spec s3 g2 s4 h4
          refine ⟨⟨hx, ?_, hyn⟩, ⟨hg1, hg2, ?_, ?_⟩, ⟨rfl, rfl, rfl, rfl⟩, hyl, by simp [hyl], by simp [hyl]⟩
          · exact fun hz => hg1 ((smul_eq_zero.mp hz).resolve_left hx)
          · exact fun hz => hg2 ((smul_eq_zero.mp hz).resolve_left hx)
          · intro p hp
            simp only at hp
            rw [List.zip_map, List.mem_map] at hp
            obtain ⟨⟨a, b⟩, hab, rfl⟩ := hp
            have ha : a ∈ ys := (List.of_mem_zip hab).1
            have hb : b ∈ ys := (List.of_mem_zip hab).2
            exact ⟨fun hz => hg1 ((smul_eq_zero.mp hz).resolve_left (hyn a ha)),
              fun hz => hg2 ((smul_eq_zero.mp hz).resolve_left (hyn b hb))⟩

/-- G1 and G2 parts share their discrete logarithms: the pairing identities. -/
theorem keygen_pairing_identities (he : IsPairing F e) (kp : KeyPair F G1 G2) (hk : kp.Honest) (i : Nat)
    (h1 : i < kp.pk.y1s.length) (h2 : i < kp.pk.y2s.length) :
    e kp.pk.y1s[i] kp.pk.g2 = e kp.pk.g1 kp.pk.y2s[i] := by
  have e1 : kp.pk.y1s[i] = (kp.sk.ys.map (· • kp.pk.g1))[i]'(by rw [← hk.y1s]; exact h1) := by
    simp only [hk.y1s]
  have e2 : kp.pk.y2s[i] = (kp.sk.ys.map (· • kp.pk.g2))[i]'(by rw [← hk.y2s]; exact h2) := by
    simp only [hk.y2s]
  rw [e1, e2]
  simp only [List.getElem_map]
  rw [he.smul_left, he.smul_right]

/-- Signatures made with a generated key verify (for the drawn `h ≠ 1`). -/
theorem generated_sign_verifies (he : IsPairing F e) (n : Nat) (s : Stream F G1 G2)
    (kp : KeyPair F G1 G2) (r : Stream F G1 G2) (h : KeyPair.gen n s = some (kp, r)) (hh : G1)
    (hne : hh ≠ 0) (ms : List F) : psVerify e kp.pk (Sig.sign kp.sk hh ms) ms = true := by
  obtain ⟨_, hpk, hk, _⟩ := keygen_wellformed n s kp r h
  exact C07.sign_verifies he kp hk hpk.2.1 hh hne ms

private theorem signDigits_spec (he : IsPairing F e) (kp : KeyPair F G1 G2) (hk : kp.Honest)
    (hg2 : kp.pk.g2 ≠ 0) (n i : Nat) (s : Stream F G1 G2) (σs : List (Sig G1)) (r : Stream F G1 G2)
    (h : signDigits kp.sk n i s = some (σs, r)) :
    σs.length = n ∧ validateFrom (F := F) e kp.pk i σs = true := by
  induction n generalizing i s σs r with
  | zero => simp [signDigits] at h; obtain ⟨rfl, _⟩ := h; simp [validateFrom]
  | succ n ih =>
    simp only [signDigits] at h
    cases h1 : nonIdG1 s with
    | none => simp [h1] at h
    | some p =>
      obtain ⟨hh, s'⟩ := p
      simp only [h1] at h
      cases h2 : signDigits kp.sk n (i + 1) s' with
      | none => simp [h2] at h
      | some q =>
        obtain ⟨τs, r'⟩ := q
        simp only [h2, Option.some.injEq, Prod.mk.injEq] at h
        obtain ⟨rfl, rfl⟩ := h
        obtain ⟨hl, hv⟩ := ih (i + 1) s' τs r' h2
        refine ⟨by simp [hl], ?_⟩
        simp only [validateFrom, Bool.and_eq_true]
        exact ⟨C07.sign_verifies he kp hk hg2 hh (nonIdG1_spec s hh s' h1) _, hv⟩

/-- Range parameters carry a valid signature on each digit `0 … 127` under their own key: generated
parameters pass `validate`, for every stream on which generation returns. -/
theorem range_params_validate (he : IsPairing F e) (s : Stream F G1 G2) (rp : RangeParams G1 G2)
    (r : Stream F G1 G2) (h : RangeParams.gen s = some (rp, r)) :
    rp.validate F e = true ∧ rp.sigs.length = 128 ∧ rp.pk.Valid := by
  unfold RangeParams.gen at h
  cases h1 : KeyPair.gen (F := F) 1 s with
  | none => simp [h1] at h
  | some p =>
    obtain ⟨kp, s'⟩ := p
    simp only [h1] at h
    obtain ⟨_, hpk, hk, _⟩ := keygen_wellformed 1 s kp s' h1
    cases h2 : signDigits kp.sk rpU 0 s' with
    | none => simp [h2] at h
    | some q =>
      obtain ⟨σs, r'⟩ := q
      simp only [h2, Option.some.injEq, Prod.mk.injEq] at h
      obtain ⟨rfl, rfl⟩ := h
      obtain ⟨hl, hv⟩ := signDigits_spec he kp hk hpk.2.1 rpU 0 s' σs r' h2
      exact ⟨hv, hl, hpk⟩

end ZkVerif.C19
