/-
C05 — New pay token is issued only against a valid revocation of the previous state.
-/
import ZkVerif.Model.Abacus
import ZkVerif.Model.Merchant
import ZkVerif.Props.C09
import ZkVerif.Props.C02

set_option linter.unusedSectionVars false

namespace ZkVerif.C05
open ZkVerif
universe u
variable {F G1 G2 GT : Type u} [Field F] [AddCommGroup G1] [Module F G1] [AddCommGroup G2]
  [Module F G2] [AddCommGroup GT] [Module F GT] [DecidableEq F] [DecidableEq G1] [DecidableEq G2]
  [DecidableEq GT]

/-- `complete_payment` issues a pay token iff the pair's lock and the blinding factor open the stored
revocation-lock commitment; the token is then the blind signature on the pending state. -/
theorem complete_payment_iff (m : MerchantCfg F G1 G2) (un : Unrevoked G1) (lock bf u : F) (σ : Sig G1) :
    m.completePayment un lock bf u = .ok σ ↔
      commit m.rev bf [lock] = un.rlCom ∧ σ = Sig.blindSign m.kp u un.state := by
  unfold MerchantCfg.completePayment
  by_cases h : verifyOpening m.rev un.rlCom bf [lock] = true
  · rw [if_pos h]
    rw [verifyOpening_true] at h
    simp [h, eq_comm]
  · rw [if_neg h]
    rw [verifyOpening_true] at h
    simp [h]

/-- Otherwise it hands the pending payment back unchanged … -/
theorem complete_payment_err_unchanged (m : MerchantCfg F G1 G2) (un un' : Unrevoked G1) (lock bf u : F)
    (h : m.completePayment un lock bf u = .error un') :
    un' = un ∧ commit m.rev bf [lock] ≠ un.rlCom := by
  unfold MerchantCfg.completePayment at h
  by_cases hv : verifyOpening m.rev un.rlCom bf [lock] = true
  · rw [if_pos hv] at h; cases h
  · rw [if_neg hv] at h
    rw [verifyOpening_true] at hv
    cases h; exact ⟨rfl, hv⟩

/-- … so that the correct pair can still complete it, after any number of failed attempts. -/
theorem retry_succeeds (m : MerchantCfg F G1 G2) (un : Unrevoked G1) (attempts : List (F × F × F))
    (lock bf u : F) (hopen : commit m.rev bf [lock] = un.rlCom)
    (hbad : ∀ a ∈ attempts, commit m.rev a.2.1 [a.1] ≠ un.rlCom) :
    (∀ a ∈ attempts, m.completePayment un a.1 a.2.1 a.2.2 = .error un) ∧
      m.completePayment un lock bf u = .ok (Sig.blindSign m.kp u un.state) := by
  refine ⟨fun a ha => ?_, (complete_payment_iff m un lock bf u _).mpr ⟨hopen, rfl⟩⟩
  unfold MerchantCfg.completePayment
  rw [if_neg]
  rw [verifyOpening_true]
  exact hbad a ha

/-- A wrong blinding factor or a wrong lock never opens the commitment (for non-identity
revocation parameters): exactly the committed pair completes the payment. -/
theorem wrong_pair_refused (m : MerchantCfg F G1 G2) (hh : m.rev.h ≠ 0) (hg : ∀ g ∈ m.rev.gs, g ≠ 0)
    (hl : m.rev.gs.length = 1) (lock bf lock' bf' u : F) (state : G1)
    (hd : (lock', bf') ≠ (lock, bf)) (hsame : lock' = lock ∨ bf' = bf) :
    m.completePayment ⟨commit m.rev bf [lock], state⟩ lock' bf' u =
      .error ⟨commit m.rev bf [lock], state⟩ := by
  unfold MerchantCfg.completePayment
  rw [if_neg]
  rcases hsame with rfl | rfl
  · have hb : bf' ≠ bf := fun h => hd (by rw [h])
    have := C09.reject_bf m.rev bf bf' [lock'] hh hb
    rw [this]; simp
  · have hlk : lock' ≠ lock := fun h => hd (by rw [h])
    obtain ⟨g, hgs⟩ := list_len1 m.rev.gs hl
    have hgne : g ≠ 0 := hg g (by rw [hgs]; exact List.mem_singleton_self g)
    have := C09.reject_single_coord m.rev bf' [lock] 0 lock' (by simp) (by rw [hgs]; simp)
      (by simp only [hgs, List.getElem_cons_zero]; exact hgne) (by simpa using hlk)
    simp only [List.set_cons_zero] at this
    rw [this]; simp

/-! ### every revocation pair that can exist has `lock = canonical(SHA3(secret ‖ index))` -/

variable (Hb : List UInt8 → List UInt8) (decF : List UInt8 → Option F) (encF : F → List UInt8)

/-- the invariant of `RevocationPair` -/
def RevPair.Inv (p : RevPair F) : Prop :=
  decF (Hb (encF p.secret ++ [UInt8.ofNat p.index])) = some p.lock

theorem revPairOfSecret_inv (secret : F) (index : Nat) (p : RevPair F)
    (h : revPairOfSecret Hb decF encF secret index = some p) :
    RevPair.Inv Hb decF encF p ∧ p.secret = secret ∧ p.index = index := by
  unfold revPairOfSecret at h
  cases hd : decF (Hb (encF secret ++ [UInt8.ofNat index])) with
  | none => simp [hd] at h
  | some l =>
    simp only [hd, Option.some.injEq] at h
    subst h
    exact ⟨hd, rfl, rfl⟩

/-- decoded pairs -/
theorem decoded_pair_inv (lock secret : F) (index : Nat) (p : RevPair F)
    (h : revPairDecode Hb decF encF lock secret index = .ok p) :
    RevPair.Inv Hb decF encF p ∧ p.lock = lock ∧ p.secret = secret ∧ p.index = index := by
  unfold revPairDecode at h
  cases h1 : revPairOfSecret Hb decF encF secret index with
  | none => simp [h1] at h
  | some q =>
    simp only [h1] at h
    by_cases hl : lock = q.lock
    · rw [if_pos hl] at h
      cases h
      obtain ⟨hi, hs, hx⟩ := revPairOfSecret_inv Hb decF encF secret index p h1
      exact ⟨hi, hl.symm, hs, hx⟩
    · rw [if_neg hl] at h; cases h

/-- a byte string whose lock is not the hash of its secret and index does not decode -/
theorem decode_rejects_wrong_lock (lock secret : F) (index : Nat)
    (h : decF (Hb (encF secret ++ [UInt8.ofNat index])) ≠ some lock) :
    ∃ err, revPairDecode Hb decF encF lock secret index = .error err := by
  unfold revPairDecode revPairOfSecret
  cases hd : decF (Hb (encF secret ++ [UInt8.ofNat index])) with
  | none => exact ⟨_, rfl⟩
  | some l =>
    simp only
    rw [if_neg (fun hl => h (by rw [hd, hl]))]
    exact ⟨_, rfl⟩

theorem revIndexLoop_inv (secret : F) (fuel index : Nat) (p : RevPair F)
    (h : revIndexLoop Hb decF encF secret fuel index = some p) :
    RevPair.Inv Hb decF encF p ∧ p.secret = secret := by
  induction fuel generalizing index with
  | zero => simp [revIndexLoop] at h
  | succ fuel ih =>
    simp only [revIndexLoop] at h
    cases h1 : revPairOfSecret Hb decF encF secret index with
    | some q =>
      simp only [h1, Option.some.injEq] at h
      subst h
      obtain ⟨hi, hs, _⟩ := revPairOfSecret_inv Hb decF encF secret index q h1
      exact ⟨hi, hs⟩
    | none =>
      simp only [h1] at h
      exact ih (index + 1) h

/-- freshly generated pairs, for every randomness stream -/
theorem generated_pair_inv (s : Stream F G1 G2) (p : RevPair F) (r : Stream F G1 G2)
    (h : revPairNew Hb decF encF s = some (p, r)) : RevPair.Inv Hb decF encF p := by
  cases s with
  | nil => simp [revPairNew] at h
  | cons d s =>
    cases d with
    | s x =>
      simp only [revPairNew] at h
      cases h1 : revIndexLoop Hb decF encF x 256 0 with
      | none => simp [h1] at h
      | some q =>
        simp only [h1, Option.some.injEq, Prod.mk.injEq] at h
        obtain ⟨rfl, rfl⟩ := h
        exact (revIndexLoop_inv Hb decF encF x 256 0 q h1).1
    | g1 _ => simp [revPairNew] at h
    | g2 _ => simp [revPairNew] at h
    | raw _ => simp [revPairNew] at h

/-- An accepted pair contains a preimage of the lock the pay proof committed to: with C02's witness
(the revocation-lock commitment opens to the old state's lock `o2`) and Pedersen binding, that is
the old state's lock. Stated without the computational step: the accepted `(lock, bf)` is an opening
of the commitment, and `lock` is the hash of the revealed secret. -/
theorem accepted_pair_is_preimage (m : MerchantCfg F G1 G2) (un : Unrevoked G1) (p : RevPair F)
    (hp : RevPair.Inv Hb decF encF p) (bf u : F) (σ : Sig G1)
    (h : m.completePayment un p.lock bf u = .ok σ) :
    commit m.rev bf [p.lock] = un.rlCom ∧
      decF (Hb (encF p.secret ++ [UInt8.ofNat p.index])) = some p.lock :=
  ⟨((complete_payment_iff m un p.lock bf u σ).mp h).1, hp⟩

end ZkVerif.C05
