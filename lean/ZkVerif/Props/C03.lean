/-
C03 — Customer can always close on an unrevoked valid state; bad replies are inert.

The merchant's replies are arbitrary signature values: the theorems quantify over every sequence
of operations and every reply (valid, garbage, replayed, wrongly keyed, wrong type, identity …).
-/
import ZkVerif.Model.Customer
import ZkVerif.Props.C07

set_option linter.unusedSectionVars false

namespace ZkVerif.C03
open ZkVerif
variable {F G1 G2 GT : Type} [Field F] [AddCommGroup G1] [Module F G1] [AddCommGroup G2]
  [Module F G2] [AddCommGroup GT] [Module F GT] [DecidableEq F] [DecidableEq G1] [DecidableEq GT]
variable {e : G1 → G2 → GT}

/-- one customer-side operation; `reply` is whatever the merchant (or the network) delivered -/
inductive Op (F G1 : Type) where
  | complete (reply : Sig G1)
  | activate (reply : Sig G1)
  | start (amount : Int) (d : StartDraws F)
  | lock (reply : Sig G1)
  | unlock (reply : Sig G1)

/-- the customer together with the ghost list of revocation locks disclosed so far -/
structure Hist (F G1 : Type) where
  c : Customer F G1
  disclosed : List F

def step (e : G1 → G2 → GT) (pk : PubKey G1 G2) (close : F) (h : Hist F G1) : Op F G1 → Hist F G1 × Reply F
  | .complete r => (⟨(h.c.complete e pk close r).1, h.disclosed⟩, (h.c.complete e pk close r).2)
  | .activate r => (⟨(h.c.activate e pk r).1, h.disclosed⟩, (h.c.activate e pk r).2)
  | .start a d => (⟨(h.c.start a d).1, h.disclosed⟩, match (h.c.start a d).2 with | .ok _ => .accepted | _ => .refused)
  | .lock r =>
    (⟨(h.c.lock e pk close r).1,
      match (h.c.lock e pk close r).2 with
      | .acceptedLock m => m.lock :: h.disclosed
      | _ => h.disclosed⟩, (h.c.lock e pk close r).2)
  | .unlock r => (⟨(h.c.unlock e pk r).1, h.disclosed⟩, (h.c.unlock e pk r).2)

/-- `lock` in closed form -/
theorem lock_started (pk : PubKey G1 G2) (close : F) (new old : CState F) (bfRl bfT bfC : F) (ocs r : Sig G1) :
    (Customer.started new old bfRl bfT bfC ocs).lock e pk close r =
      if psVerify e pk (r.unblind bfC) (new.closeMsg close) = true then
        (.locked new bfT (r.unblind bfC), .acceptedLock ⟨old.lock, old.secret, old.index, bfRl⟩)
      else (.started new old bfRl bfT bfC ocs, .refused) := rfl

/-! ### Refused replies are inert -/

/-- A reply that does not unblind to a valid signature on exactly the expected (close) state is
refused and leaves the customer state unchanged (equal, hence byte-for-byte equal once encoded),
at every stage, for every reply value. -/
theorem refused_reply_inert (pk : PubKey G1 G2) (close : F) (h : Hist F G1) (op : Op F G1)
    (hr : (step e pk close h op).2 = .refused ∨ (step e pk close h op).2 = .wrongStage) :
    (step e pk close h op).1 = h := by
  obtain ⟨c, disc⟩ := h
  cases op with
  | complete r =>
    cases c <;> simp only [step, Customer.complete] at hr ⊢
    rename_i st bfC bfT
    by_cases hv : psVerify e pk (r.unblind bfC) (st.closeMsg close) = true <;> simp_all
  | activate r =>
    cases c <;> simp only [step, Customer.activate] at hr ⊢
    rename_i st bfT cs
    by_cases hv : psVerify e pk (r.unblind bfT) st.msg = true <;> simp_all
  | start a d =>
    cases c <;> simp only [step, Customer.start] at hr ⊢
    rename_i st tok cs
    cases hp : applyPayment st.cb st.mb a <;> simp_all
  | lock r =>
    cases c <;> simp only [step, Customer.lock] at hr ⊢
    rename_i new old bfRl bfT bfC ocs
    by_cases hv : psVerify e pk (r.unblind bfC) (new.closeMsg close) = true <;> simp_all
  | unlock r =>
    cases c <;> simp only [step, Customer.unlock] at hr ⊢
    rename_i st bfT cs
    by_cases hv : psVerify e pk (r.unblind bfT) st.msg = true <;> simp_all

/-- A revocation pair is released only by `lock`, and only in the same step that accepts a valid
closing signature on the successor (new) close state; it is then the old state's pair. -/
theorem lock_releases_iff (pk : PubKey G1 G2) (close : F) (h : Hist F G1) (op : Op F G1) (m : LockMsg F) :
    (step e pk close h op).2 = .acceptedLock m ↔
      ∃ reply new old bfRl bfT bfC ocs, op = .lock reply ∧ h.c = .started new old bfRl bfT bfC ocs ∧
        psVerify e pk (reply.unblind bfC) (new.closeMsg close) = true ∧
        m = ⟨old.lock, old.secret, old.index, bfRl⟩ := by
  obtain ⟨c, disc⟩ := h
  constructor
  · intro hr
    cases op with
    | complete r =>
      cases c <;> simp only [step, Customer.complete] at hr <;> try (simp at hr)
      rename_i st bfC bfT
      by_cases hv : psVerify e pk (r.unblind bfC) (st.closeMsg close) = true <;> simp [hv] at hr
    | activate r =>
      cases c <;> simp only [step, Customer.activate] at hr <;> try (simp at hr)
      rename_i st bfT cs
      by_cases hv : psVerify e pk (r.unblind bfT) st.msg = true <;> simp [hv] at hr
    | start a d =>
      cases c <;> simp only [step, Customer.start] at hr <;> try (simp at hr)
      rename_i st tok cs
      cases hp : applyPayment st.cb st.mb a <;> simp [hp] at hr
    | unlock r =>
      cases c <;> simp only [step, Customer.unlock] at hr <;> try (simp at hr)
      rename_i st bfT cs
      by_cases hv : psVerify e pk (r.unblind bfT) st.msg = true <;> simp [hv] at hr
    | lock r =>
      cases c <;> simp only [step] at hr
      case started new old bfRl bfT bfC ocs =>
        rw [lock_started] at hr
        by_cases hv : psVerify e pk (r.unblind bfC) (new.closeMsg close) = true
        · simp only [hv, if_true, Reply.acceptedLock.injEq] at hr
          exact ⟨r, new, old, bfRl, bfT, bfC, ocs, rfl, rfl, hv, hr.symm⟩
        · simp [hv] at hr
      all_goals (simp [Customer.lock] at hr)
  · rintro ⟨reply, new, old, bfRl, bfT, bfC, ocs, rfl, hc, hv, rfl⟩
    simp only at hc
    subst hc
    simp only [step]
    rw [lock_started, if_pos hv]

/-! ### The closing invariant -/

/-- every stored signature was verified on exactly the message it is stored with -/
def Good (e : G1 → G2 → GT) (pk : PubKey G1 G2) (close : F) : Customer F G1 → Prop
  | .requested _ _ _ => True
  | .inactive st _ cs => psVerify e pk cs (st.closeMsg close) = true
  | .ready st tok cs => psVerify e pk cs (st.closeMsg close) = true ∧ psVerify e pk tok st.msg = true
  | .started _ old _ _ _ ocs => psVerify e pk ocs (old.closeMsg close) = true
  | .locked st _ cs => psVerify e pk cs (st.closeMsg close) = true

/-- `Good` is preserved by every operation with every reply. -/
theorem good_step (pk : PubKey G1 G2) (close : F) (h : Hist F G1) (op : Op F G1)
    (hg : Good e pk close h.c) : Good e pk close (step e pk close h op).1.c := by
  obtain ⟨c, disc⟩ := h
  cases op with
  | complete r =>
    cases c <;> simp only [step, Customer.complete] <;> try exact hg
    rename_i st bfC bfT
    by_cases hv : psVerify e pk (r.unblind bfC) (st.closeMsg close) = true
    · simp [hv, Good]
    · simp [hv, Good]
  | activate r =>
    cases c <;> simp only [step, Customer.activate] <;> try exact hg
    rename_i st bfT cs
    by_cases hv : psVerify e pk (r.unblind bfT) st.msg = true
    · simp only [hv, if_true, Good]; exact ⟨hg, trivial⟩
    · simp only [hv]; exact hg
  | start a d =>
    cases c <;> simp only [step, Customer.start] <;> try exact hg
    rename_i st tok cs
    cases hp : applyPayment st.cb st.mb a with
    | ok p => obtain ⟨cb', mb'⟩ := p; simp only [Good]; exact hg.1
    | err er => exact hg
    | panic => exact hg
  | lock r =>
    cases c <;> simp only [step, Customer.lock] <;> try exact hg
    rename_i new old bfRl bfT bfC ocs
    by_cases hv : psVerify e pk (r.unblind bfC) (new.closeMsg close) = true
    · simp [hv, Good]
    · simp only [hv]; exact hg
  | unlock r =>
    cases c <;> simp only [step, Customer.unlock] <;> try exact hg
    rename_i st bfT cs
    by_cases hv : psVerify e pk (r.unblind bfT) st.msg = true
    · simp only [hv, if_true, Good]; exact ⟨hg, trivial⟩
    · simp only [hv]; exact hg

/-- every state reachable from a fresh `Requested` by any operation sequence is `Good` -/
theorem reachable_good (pk : PubKey G1 G2) (close : F) (ops : List (Op F G1)) (h : Hist F G1)
    (hg : Good e pk close h.c) :
    Good e pk close (ops.foldl (fun h op => (step e pk close h op).1) h).c := by
  induction ops generalizing h with
  | nil => exact hg
  | cons op ops ih => exact ih _ (good_step pk close h op hg)

/-- At every stage that has `close()`, the closing message passes the merchant's close check (for
every re-randomiser `r ≠ 0`), carries the channel id and the balances of that stage — the
pre-payment ones while a payment is only started, the post-payment ones once locked. -/
theorem close_accepted (he : IsPairing F e) (kp : KeyPair F G1 G2) (hk : kp.Honest) (hg2 : kp.pk.g2 ≠ 0)
    (close : F) (c : Customer F G1) (hg : Good e kp.pk close c) (r : F) (hr : r ≠ 0)
    (m : ClosingMsg F G1) (hm : c.close r = some m) :
    psVerify e kp.pk m.sig (m.msg close) = true ∧ (m.cb, m.mb) = c.balances := by
  cases c with
  | requested st a b => simp [Customer.close] at hm
  | inactive st bfT cs =>
    simp only [Customer.close, Option.some.injEq] at hm; subst hm
    exact ⟨(C07.randomize_verifies_iff he kp hk hg2 cs r hr _).mpr hg, rfl⟩
  | ready st tok cs =>
    simp only [Customer.close, Option.some.injEq] at hm; subst hm
    exact ⟨(C07.randomize_verifies_iff he kp hk hg2 cs r hr _).mpr hg.1, rfl⟩
  | started new old a b c' ocs =>
    simp only [Customer.close, Option.some.injEq] at hm; subst hm
    exact ⟨(C07.randomize_verifies_iff he kp hk hg2 ocs r hr _).mpr hg, rfl⟩
  | locked st bfT cs =>
    simp only [Customer.close, Option.some.injEq] at hm; subst hm
    exact ⟨(C07.randomize_verifies_iff he kp hk hg2 cs r hr _).mpr hg, rfl⟩

/-- excluded point: the re-randomiser `0` gives the identity signature, which the close check
rejects (probability 1/q; the statement does not quantify over the customer's own randomness) -/
theorem close_with_zero_randomiser_rejected (pk : PubKey G1 G2) (close : F) (c : Customer F G1)
    (m : ClosingMsg F G1) (hm : c.close (0 : F) = some m) : psVerify e pk m.sig (m.msg close) = false := by
  have : m.sig.s1 = 0 := by
    cases c with
    | requested st a b => simp [Customer.close] at hm
    | inactive st bfT cs => simp only [Customer.close, Option.some.injEq] at hm; subst hm; simp [Sig.randomize]
    | ready st tok cs => simp only [Customer.close, Option.some.injEq] at hm; subst hm; simp [Sig.randomize]
    | started new old a b c' ocs => simp only [Customer.close, Option.some.injEq] at hm; subst hm; simp [Sig.randomize]
    | locked st bfT cs => simp only [Customer.close, Option.some.injEq] at hm; subst hm; simp [Sig.randomize]
  rw [psVerify_false]; intro h; exact h.1 this

/-! ### The revocation lock of a closing message has not been disclosed -/

/-- the locks the customer could still close on -/
def liveLocks : Customer F G1 → List F
  | .requested st _ _ => [st.lock]
  | .inactive st _ _ => [st.lock]
  | .ready st _ _ => [st.lock]
  | .started new old _ _ _ _ => [old.lock, new.lock]
  | .locked st _ _ => [st.lock]

/-- while a payment is started, the new state's lock differs from the old one -/
def Distinct : Customer F G1 → Prop
  | .started new old _ _ _ _ => new.lock ≠ old.lock
  | _ => True

def Fresh (h : Hist F G1) : Prop := (∀ l ∈ liveLocks h.c, l ∉ h.disclosed) ∧ Distinct h.c

/-- freshness hypothesis on the customer's own draws: a new revocation lock differs from the current
one and from every lock disclosed so far (locks are SHA3 images of 255-bit random secrets) -/
def OpFresh (h : Hist F G1) : Op F G1 → Prop
  | .start _ d => d.lock ∉ h.disclosed ∧ ∀ l ∈ liveLocks h.c, d.lock ≠ l
  | _ => True

theorem fresh_step (pk : PubKey G1 G2) (close : F) (h : Hist F G1) (op : Op F G1) (hf : Fresh h)
    (ho : OpFresh h op) : Fresh (step e pk close h op).1 := by
  obtain ⟨c, disc⟩ := h
  obtain ⟨hf, hd⟩ := hf
  unfold Fresh
  cases op with
  | complete r =>
    cases c <;> simp only [step, Customer.complete] <;> try exact ⟨hf, hd⟩
    rename_i st bfC bfT
    by_cases hv : psVerify e pk (r.unblind bfC) (st.closeMsg close) = true
    · simp only [hv, if_true]; exact ⟨hf, trivial⟩
    · simp only [hv]; exact ⟨hf, hd⟩
  | activate r =>
    cases c <;> simp only [step, Customer.activate] <;> try exact ⟨hf, hd⟩
    rename_i st bfT cs
    by_cases hv : psVerify e pk (r.unblind bfT) st.msg = true
    · simp only [hv, if_true]; exact ⟨hf, trivial⟩
    · simp only [hv]; exact ⟨hf, hd⟩
  | start a d =>
    cases c <;> simp only [step, Customer.start] <;> try exact ⟨hf, hd⟩
    rename_i st tok cs
    cases hp : applyPayment st.cb st.mb a with
    | ok p =>
      obtain ⟨cb', mb'⟩ := p
      simp only [liveLocks, List.mem_cons, List.not_mem_nil, or_false] at hf ⊢
      refine ⟨?_, ?_⟩
      · intro l hl
        rcases hl with rfl | rfl
        · exact hf _ rfl
        · exact ho.1
      · exact ho.2 st.lock (by simp [liveLocks])
    | err er => exact ⟨hf, hd⟩
    | panic => exact ⟨hf, hd⟩
  | lock r =>
    cases c <;> simp only [step] <;> try exact ⟨hf, hd⟩
    rename_i new old bfRl bfT bfC ocs
    rw [lock_started]
    by_cases hv : psVerify e pk (r.unblind bfC) (new.closeMsg close) = true
    · simp only [hv, if_true, liveLocks, List.mem_cons, List.not_mem_nil, or_false]
      simp only [liveLocks, List.mem_cons, List.not_mem_nil, or_false] at hf
      refine ⟨?_, trivial⟩
      intro l hl
      subst hl
      intro hmem
      rcases hmem with h1 | h1
      · exact hd h1
      · exact hf _ (Or.inr rfl) h1
    · simp only [hv]; exact ⟨hf, hd⟩
  | unlock r =>
    cases c <;> simp only [step, Customer.unlock] <;> try exact ⟨hf, hd⟩
    rename_i st bfT cs
    by_cases hv : psVerify e pk (r.unblind bfT) st.msg = true
    · simp only [hv, if_true]; exact ⟨hf, trivial⟩
    · simp only [hv]; exact ⟨hf, hd⟩

/-- For every operation sequence with arbitrary replies (and fresh customer draws): the state is
`Good` and `Fresh`; hence (with `close_accepted`) every closing message passes the close check, and
its revocation lock has not been disclosed in any earlier lock message. -/
theorem reachable_good_fresh (pk : PubKey G1 G2) (close : F) (ops : List (Op F G1)) (h : Hist F G1)
    (hg : Good e pk close h.c) (hf : Fresh h)
    (ho : ∀ (k : Nat) (hk : k < ops.length),
      OpFresh ((ops.take k).foldl (fun h op => (step e pk close h op).1) h) ops[k]) :
    Good e pk close (ops.foldl (fun h op => (step e pk close h op).1) h).c ∧
      Fresh (ops.foldl (fun h op => (step e pk close h op).1) h) := by
  induction ops generalizing h with
  | nil => exact ⟨hg, hf⟩
  | cons op ops ih =>
    simp only [List.foldl_cons]
    have h0 : OpFresh h op := by
      have := ho 0 (by simp)
      simpa [List.getElem_cons_zero] using this
    apply ih _ (good_step pk close h op hg) (fresh_step pk close h op hf h0)
    intro k hk
    have := ho (k + 1) (by simpa using hk)
    simpa using this

theorem closing_lock_undisclosed (h : Hist F G1) (hf : Fresh h) (r : F) (m : ClosingMsg F G1)
    (hm : h.c.close r = some m) : m.lock ∉ h.disclosed := by
  obtain ⟨c, disc⟩ := h
  obtain ⟨hf, _⟩ := hf
  cases c with
  | requested st a b => simp [Customer.close] at hm
  | inactive st bfT cs => simp only [Customer.close, Option.some.injEq] at hm; subst hm; exact hf _ (by simp [liveLocks])
  | ready st tok cs => simp only [Customer.close, Option.some.injEq] at hm; subst hm; exact hf _ (by simp [liveLocks])
  | started new old a b c' ocs => simp only [Customer.close, Option.some.injEq] at hm; subst hm; exact hf _ (by simp [liveLocks])
  | locked st bfT cs => simp only [Customer.close, Option.some.injEq] at hm; subst hm; exact hf _ (by simp [liveLocks])

end ZkVerif.C03
