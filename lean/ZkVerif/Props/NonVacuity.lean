/-
Non-vacuity: the hypotheses of the system-level theorems (`IsPairing`, honest keys, valid range
parameters, a `Ready` customer with valid stored signatures, admissible randomness, the representation
laws of C20) are jointly satisfiable — exhibited over the field `ZMod 13` with `G1 = G2 = GT = ZMod 13`
and `e = multiplication` (the exponent-space instance the driver runs, at a size `decide` can handle).
Each `example` instantiates the theorem named in its comment on concrete data.
-/
import ZkVerif.Props.C04System
import ZkVerif.Props.C20
import ZkVerif.Props.C14
import ZkVerif.Lemmas.Z13

namespace ZkVerif.NonVacuity
open ZkVerif

def e13 : Z13 → Z13 → Z13 := fun a b => a * b

theorem pairing13 : IsPairing Z13 e13 where
  add_left := by intro a b c; simp only [e13]; ring
  add_right := by intro a b c; simp only [e13]; ring
  smul_left := by intro k a b; simp only [e13, smul_eq_mul]; ring
  smul_right := by intro k a b; simp only [e13, smul_eq_mul]; ring
  nondeg := by intro a b h; simp only [e13] at h; exact mul_eq_zero.mp h

/-- merchant key: x = 3, y = (2,5,7,11,6), g1 = 4, g2 = 6 -/
def kp13 : KeyPair Z13 Z13 Z13 :=
  ⟨⟨3, [2, 5, 7, 11, 6], 3 * 4⟩, ⟨4, [2 * 4, 5 * 4, 7 * 4, 11 * 4, 6 * 4], 6, 3 * 6, [2 * 6, 5 * 6, 7 * 6, 11 * 6, 6 * 6]⟩⟩

theorem kp13_honest : kp13.Honest := ⟨by decide, by decide, by decide, by decide⟩

/-- range key: x = 5, y = 2, g1 = 3, g2 = 7; digit `k` signed as `(h, (x + y k) h)` with `h = 1 + (k mod 12)` -/
def rpk13 : PubKey Z13 Z13 := ⟨3, [2 * 3], 7, 5 * 7, [2 * 7]⟩
def rp13 : RangeParams Z13 Z13 :=
  ⟨(List.range 128).map (fun k => ⟨((1 + k % 12 : Nat) : Z13), (5 + 2 * (k : Z13)) * ((1 + k % 12 : Nat) : Z13)⟩), rpk13⟩

theorem rp13_len : rp13.sigs.length = 128 := by simp [rp13]

theorem rp13_valid : ∀ k (h : k < rp13.sigs.length), psVerify e13 rp13.pk rp13.sigs[k] [((k : Nat) : Z13)] = true := by
  intro k h
  have hk : k < 128 := by simpa [rp13] using h
  have : ∀ j : Fin 128, psVerify e13 rp13.pk (rp13.sigs[j.val]'(by simp [rp13])) [((j.val : Nat) : Z13)] = true := by
    decide +kernel
  exact this ⟨k, hk⟩

def m13 : MerchantCfg Z13 Z13 Z13 := ⟨kp13, ⟨5, [9]⟩, rp13⟩

/-- a state with balances (100, 30), and the signatures an honest merchant issues on it -/
def st13 : CState Z13 := ⟨7, 2, 9, 4, 0, 100, 30⟩
def close13 : Z13 := 11
def tok13 : Sig Z13 := (C04.tokenReply kp13 st13 5 2).unblind 5
def cs13 : Sig Z13 := (C04.closingReply kp13 close13 st13 8 3).unblind 8

theorem ready13 : C04.ReadyOk e13 kp13.pk close13 (.ready st13 tok13 cs13) :=
  ⟨st13, tok13, cs13, rfl, by decide, by decide, by decide, by decide⟩

def dd : DigitDraws Z13 := ⟨1, 2, 3, 4⟩
def pd13 : PayDraws Z13 := ⟨List.replicate 9 dd, List.replicate 9 dd, 1, 2, 3, 4, 5, 6, 7, 8, 9, 10, 11, 12, 1, 2, 3⟩
/-- payments of 10, then one that must be refused (200 > customer balance), then -5 -/
def inputs13 : List (C04.PayInput Z13) :=
  [⟨10, 3, 5, 6, 0, pd13, [1, 2], 2, 3⟩, ⟨200, 4, 6, 7, 1, pd13, [], 5, 7⟩, ⟨-5, 8, 1, 2, 0, pd13, [9], 4, 6⟩]

theorem inputs13_ok : ∀ i ∈ inputs13, i.Ok := by
  intro i hi
  simp only [inputs13, List.mem_cons, List.not_mem_nil, or_false] at hi
  rcases hi with rfl | rfl | rfl <;>
    exact ⟨by unfold IsI64 i64MinI i64Max; constructor <;> decide, by decide, by decide, by decide, by decide, by decide,
      by decide, by decide⟩

/-- `C04.joint_run_tracks_ledger` on concrete data: the run completes and ends on (95, 35):
100 - 10 + 5 and 30 + 10 - 5, the payment of 200 refused. -/
example (cd : Codecs Z13 Z13 Z13) (H : List UInt8 → Z13) :
    ∃ c', C04.jointRun e13 cd H m13 close13 (.ready st13 tok13 cs13) inputs13 = some c' ∧ c'.balances = (95, 35) := by
  obtain ⟨c', h1, _, h2, _⟩ := C04.joint_run_tracks_ledger pairing13 cd H m13 kp13_honest (by decide) (by decide)
    rp13_len rp13_valid close13 inputs13 _ ready13 inputs13_ok
  refine ⟨c', h1, ?_⟩
  rw [h2]
  decide

/-- `C04.full_establish` on concrete data -/
example (cd : Codecs Z13 Z13 Z13) (H : List UInt8 → Z13) :
    ∃ σ v tok cs, m13.initialize cd H close13 ⟨st13.cid, (st13.cb : Z13), (st13.mb : Z13)⟩
        (estProve cd H kp13.pk close13 st13.msg ⟨2, 3, [1, 2, 3, 4, 5], 6, 7, 8⟩ [1]) [1] 2 = some (σ, v) ∧
      (Customer.requested st13 6 2).complete e13 kp13.pk close13 σ = (.inactive st13 2 cs, .accepted) ∧
      (Customer.inactive st13 2 cs).activate e13 kp13.pk (m13.activate 3 v) = (.ready st13 tok cs, .accepted) :=
  C04.full_establish pairing13 cd H m13 kp13_honest (by decide) (by decide) close13 st13
    ⟨2, 3, [1, 2, 3, 4, 5], 6, 7, 8⟩ [1] 2 3 (by decide) (by decide) rfl

/-! ### C20: the representation laws and `Storable` are satisfiable; `restore_store` on concrete data -/

def R13 : C20.Rep Z13 Z13 :=
  ⟨fun x => x.val, fun n => (n : Z13), fun g => UInt8.ofNat g.val :: List.replicate 47 0,
   fun bs => ((bs.headD 0).toNat : Z13), fun bs => ((bs.headD 0).toNat : Z13)⟩

def env13 : Codec.Env :=
  ⟨13, 11, fun bs => C20.cls (R13.decG bs), fun _ => .invalid, fun _ _ _ => true, false⟩

theorem decG_encG13 : ∀ g : Z13, R13.decG (R13.encG g) = g := by decide

theorem laws13 : R13.Laws env13 where
  decF_encF := by intro x; exact ZMod.natCast_zmod_val x
  encF_lt := by intro x; exact ZMod.val_lt x
  decG_encG := decG_encG13
  encG_len := by intro g; simp [R13]
  el_encG := by intro g; show C20.cls (R13.decG (R13.encG g)) = C20.cls g; rw [decG_encG13]
  q_le := by decide

def raw13 : List UInt8 := 7 :: List.replicate 31 0

theorem storable13 : C20.Storable R13 env13 raw13 (.ready st13 tok13 cs13) := by
  refine ⟨⟨by decide, by decide, rfl, by decide, by decide, by decide⟩, by decide, by decide⟩

/-- `C20.restore_store` on concrete data: the Ready customer above, written out and read back through
the validating decoder, is itself -/
example : C20.restore R13 env13 .ready (C20.store R13 raw13 (.ready st13 tok13 cs13) ++ [1, 2, 3]) =
    some (.ready st13 tok13 cs13) :=
  C20.restore_store R13 env13 laws13 raw13 (by decide) _ storable13 [1, 2, 3]

/-- the generator hypothesis of `C14.commitment_independent_of_message` is satisfiable (`h = 5` in `Z13`), and the
conclusion is exhibited: the commitments to `[3]` and to `[8]` under `g = 9` differ by the blinding-factor shift `d = 4` -/
example : ∀ v : Z13, ∃ x : Z13, x • (5 : Z13) = v := fun v => ⟨v * 8, by
  show v * 8 * 5 = v
  have : (8 : Z13) * 5 = 1 := by decide
  rw [mul_assoc, this, mul_one]⟩
example : ∀ bf : Z13, commit (⟨5, [9]⟩ : PedParams Z13) bf [3] = commit ⟨5, [9]⟩ (bf + 4) [8] := by decide

/-- `C14.cproof_independent_of_witness` has two genuinely different openings to apply to: `(bf, m) = (1, 3)` and
`(5, 8)` open the same commitment under `h = 5`, `g = 9` -/
example : commit (⟨5, [9]⟩ : PedParams Z13) 1 [3] = commit ⟨5, [9]⟩ 5 [8] := by decide

end ZkVerif.NonVacuity
