/-
The executable instance is an instance of what the theorems assume.

The property theorems are proved for every field `F`, `F`-modules `G1 G2 GT` and bilinear
non-degenerate pairing.  The correspondence check *runs* the model on `Fq` (`Exec/Fq.lean`: natural
numbers below the BLS12-381 scalar-field order `q`, `a • g = a * g`, `e a b = a * b`).  This file
closes the gap between the two:

* `q_prime` (`Lemmas/QPrime.lean`): `q` is prime (Lucas certificate checked by the kernel);
* `instField : Field Fq` — a field structure on `Fq` whose `0 1 + * - neg` and `Nat`/`Int` casts are
  **the very instances the driver executes** (`field_ops_are_executed`, all by `rfl`), obtained by
  pulling `ZMod q` back along the injective homomorphism `toZ`; the driver's scalar action and
  pairing are the field multiplication (`smul_is_field_smul`, `e_is_mul`);
* `exec_pairing : IsPairing Fq Fq.e` — bilinear and non-degenerate;
* hence every theorem of `Props/` applies verbatim to the terms the driver evaluates
  (`exec_verify_iff`, `exec_verify_opening_iff`, `exec_cpVerify_iff` instantiate three of them at
  the driver's own calls `psVerify Fq.e …`, `verifyOpening …`, `cpVerify …`): no per-function transfer
  lemma is needed, because nothing is transferred — the same term is executed and reasoned about.
-/
import ZkVerif.Lemmas.QPrime
import ZkVerif.Lemmas.Pairing
import ZkVerif.Props.C07
import ZkVerif.Props.C09
import ZkVerif.Props.C11
import ZkVerif.Exec.Ops
import Mathlib.Algebra.Field.ZMod
import Mathlib.Algebra.Ring.InjSurj

namespace ZkVerif.ExecInstance
open ZkVerif

instance : NeZero q := ⟨Nat.pos_iff_ne_zero.mp q_pos⟩

/-- the field element an `Fq` stands for -/
def toZ (a : Fq) : ZMod q := (a.v : ZMod q)
/-- and back (canonical representative) -/
def ofZ (z : ZMod q) : Fq := Fq.ofNat z.val

theorem toZ_ofNat (n : Nat) : toZ (Fq.ofNat n) = (n : ZMod q) := by
  simp only [toZ, Fq.ofNat]; exact ZMod.natCast_mod n q
theorem toZ_ofZ (z : ZMod q) : toZ (ofZ z) = z := by
  rw [ofZ, toZ_ofNat, ZMod.natCast_zmod_val]

theorem toZ_injective : Function.Injective toZ := by
  intro a b h
  apply Fq.ext
  simp only [toZ] at h
  rw [ZMod.natCast_eq_natCast_iff'] at h
  rwa [Nat.mod_eq_of_lt a.h, Nat.mod_eq_of_lt b.h] at h

theorem toZ_zero : toZ 0 = 0 := by simp [toZ, show (0 : Fq).v = 0 from rfl]
theorem toZ_one : toZ 1 = 1 := by simp [toZ, show (1 : Fq).v = 1 from rfl]
theorem toZ_add (a b : Fq) : toZ (a + b) = toZ a + toZ b := by
  show toZ (Fq.ofNat (a.v + b.v)) = _
  rw [toZ_ofNat]; simp [toZ]
theorem toZ_mul (a b : Fq) : toZ (a * b) = toZ a * toZ b := by
  show toZ (Fq.ofNat (a.v * b.v)) = _
  rw [toZ_ofNat]; simp [toZ]

private theorem q_sub_mod (n : Nat) : ((q - n % q : Nat) : ZMod q) = -(n : ZMod q) := by
  have h : n % q ≤ q := (Nat.mod_lt n q_pos).le
  rw [Nat.cast_sub h, ZMod.natCast_self, zero_sub, ZMod.natCast_mod]

theorem toZ_neg (a : Fq) : toZ (-a) = -toZ a := by
  show toZ (Fq.ofNat (q - a.v % q)) = _
  rw [toZ_ofNat, q_sub_mod]; rfl
theorem toZ_sub (a b : Fq) : toZ (a - b) = toZ a - toZ b := by
  show toZ (Fq.ofNat (a.v + (q - b.v % q))) = _
  rw [toZ_ofNat, Nat.cast_add, q_sub_mod, sub_eq_add_neg]; rfl
theorem toZ_natCast (n : Nat) : toZ ((n : Fq)) = (n : ZMod q) := toZ_ofNat n
theorem toZ_intCast (i : Int) : toZ ((i : Fq)) = (i : ZMod q) := by
  cases i with
  | ofNat n => show toZ (Fq.ofNat n) = _; rw [toZ_ofNat]; simp
  | negSucc n =>
    show toZ (Fq.ofNat (q - (n + 1) % q)) = _
    rw [toZ_ofNat, q_sub_mod, Int.cast_negSucc]

/-! Operations a `Field` needs and the driver never executes (defined through `ZMod q`). -/
instance : SMul ℕ Fq := ⟨fun n a => ofZ (n • toZ a)⟩
instance : SMul ℤ Fq := ⟨fun n a => ofZ (n • toZ a)⟩
instance : Pow Fq ℕ := ⟨fun a n => ofZ (toZ a ^ n)⟩
instance : Inv Fq := ⟨fun a => ofZ (toZ a)⁻¹⟩

theorem toZ_nsmul (n : ℕ) (a : Fq) : toZ (n • a) = n • toZ a := toZ_ofZ _
theorem toZ_zsmul (n : ℤ) (a : Fq) : toZ (n • a) = n • toZ a := toZ_ofZ _
theorem toZ_npow (a : Fq) (n : ℕ) : toZ (a ^ n) = toZ a ^ n := toZ_ofZ _
theorem toZ_inv (a : Fq) : toZ a⁻¹ = (toZ a)⁻¹ := toZ_ofZ _

instance instCommRing : CommRing Fq :=
  toZ_injective.commRing toZ toZ_zero toZ_one toZ_add toZ_mul toZ_neg toZ_sub toZ_nsmul toZ_zsmul
    toZ_npow toZ_natCast toZ_intCast

/-- **`Fq`, with the operations the driver executes, is a field.** -/
instance instField : Field Fq :=
  { instCommRing with
    inv := fun a => a⁻¹
    exists_pair_ne := ⟨0, 1, fun h => by
      have := congrArg toZ h; rw [toZ_zero, toZ_one] at this; exact zero_ne_one this⟩
    mul_inv_cancel := fun a ha => by
      apply toZ_injective
      rw [toZ_mul, toZ_inv, toZ_one]
      exact mul_inv_cancel₀ (fun h => ha (toZ_injective (h.trans toZ_zero.symm)))
    inv_zero := by
      apply toZ_injective
      rw [toZ_inv, toZ_zero, inv_zero]
    nnqsmul := _
    nnqsmul_def := fun _ _ => rfl
    qsmul := _
    qsmul_def := fun _ _ => rfl }

/-- The field structure's operations *are* the instances compiled into the driver. -/
theorem field_ops_are_executed :
    (instField.toAdd = Fq.instAdd) ∧
    (instField.toMul = Fq.instMul) ∧
    (instField.toNeg = Fq.instNeg) ∧
    (instField.toSub = Fq.instSub) ∧
    (instField.toZero = Fq.instZero) ∧
    (instField.toOne = Fq.instOne) ∧
    (instField.toNatCast = Fq.instNatCast) ∧
    (instField.toIntCast = Fq.instIntCast) :=
  ⟨rfl, rfl, rfl, rfl, rfl, rfl, rfl, rfl⟩

/-- the driver's scalar action on "group elements" (discrete logarithms) is the module action of the
field on itself -/
theorem smul_is_field_smul (a b : Fq) :
    @HSMul.hSMul Fq Fq Fq (@instHSMul Fq Fq Fq.instSMul) a b = a * b := rfl

theorem e_is_mul (a b : Fq) : Fq.e a b = a * b := rfl

/-- The executed pairing is bilinear and non-degenerate (`q` prime: no zero divisors). -/
theorem exec_pairing : IsPairing (G1 := Fq) (G2 := Fq) (GT := Fq) Fq Fq.e where
  add_left := by intro a b c; simp only [e_is_mul]; ring
  add_right := by intro a b c; simp only [e_is_mul]; ring
  smul_left := by intro k a b; simp only [e_is_mul, smul_eq_mul]; ring
  smul_right := by intro k a b; simp only [e_is_mul, smul_eq_mul]; ring
  nondeg := by intro a b h; simp only [e_is_mul] at h; exact mul_eq_zero.mp h

/-! ### Property theorems at the driver's own terms

`execPsVerify`, `execCpVerify`, `execVerifyOpening` are defined in `Exec/Ops.lean` (core Lean, only
the executed instances in scope) and are what the driver calls for `ps-verify`, `cp-verify`,
`verify-opening` requests. -/

/-- C07 `verify_iff` holds of the executed verification. -/
theorem exec_verify_iff (pk : PubKey Fq Fq) (σ : Sig Fq) (ms : List Fq) :
    Ops.execPsVerify pk σ ms = true ↔
      σ.s1 ≠ 0 ∧ Fq.e σ.s1 (pk.x2 + (List.zipWith (· • ·) ms pk.y2s).sum) = Fq.e σ.s2 pk.g2 :=
  C07.verify_iff exec_pairing pk σ ms

/-- C07: the executed verification never accepts a signature with `σ₁ = 1`. -/
theorem exec_identity_sig_never_verifies (pk : PubKey Fq Fq) (s2 : Fq) (ms : List Fq) :
    Ops.execPsVerify pk ⟨0, s2⟩ ms = false :=
  C07.identity_sig_never_verifies pk s2 ms

/-- C09 `verify_opening_iff` holds of the executed `verify_opening`. -/
theorem exec_verify_opening_iff (pp : PedParams Fq) (c bf : Fq) (ms : List Fq) :
    Ops.execVerifyOpening pp c bf ms = true ↔
      bf • pp.h + (List.zipWith (· • ·) ms pp.gs).sum = c :=
  C09.verify_opening_iff pp c bf ms

/-- C11 `cpVerify_iff` holds of the executed commitment-proof verification. -/
theorem exec_cpVerify_iff (pp : PedParams Fq) (p : CProof Fq Fq) (c : Fq) :
    Ops.execCpVerify pp p c = true ↔
      p.zbf • pp.h + (List.zipWith (· • ·) p.zs pp.gs).sum = p.T + c • p.C :=
  C11.cpVerify_iff pp p c

end ZkVerif.ExecInstance
