/-
C17 — Balance and amount arithmetic is total, exact and range-preserving.

All statements are for *all* 64-bit inputs (every `v ≤ 2^64 - 1`, every `i64` amount); the scalar
encoding statements hold in every field.
-/
import Mathlib.Algebra.Field.Basic
import Mathlib.Algebra.CharP.Defs
import Mathlib.Tactic.Ring
import Mathlib.Tactic.NormNum
import Mathlib.Tactic.Linarith
import ZkVerif.Model.Arith
import ZkVerif.Lemmas.Z13

set_option linter.unusedSectionVars false

namespace ZkVerif.C17
open ZkVerif

theorem consts : u64Max = 18446744073709551615 ∧ i64Max = 9223372036854775807 ∧
    i64MinI = -9223372036854775808 := by
  refine ⟨by decide, by decide, by decide⟩

/-- `try_new` succeeds exactly for values `≤ 2^63 - 1`, returning the value; otherwise the
documented error carrying the value. -/
theorem try_new_exact (v : Nat) :
    balanceTryNew v = if v ≤ 2 ^ 63 - 1 then .ok v else .err (.amountTooLarge v) := by
  unfold balanceTryNew i64Max
  by_cases h : v ≤ 2 ^ 63 - 1
  · rw [if_pos h, if_neg (by omega)]
  · rw [if_neg h, if_pos (by omega)]

theorem try_new_ok_iff (v w : Nat) : balanceTryNew v = .ok w ↔ v ≤ 2 ^ 63 - 1 ∧ w = v := by
  rw [try_new_exact]; split <;> simp_all [eq_comm]

/-- Amount constructors: succeed exactly for magnitude `≤ 2^63 - 1`. -/
theorem pay_merchant_exact (a : Nat) :
    payMerchant a = if a ≤ 2 ^ 63 - 1 then .ok (a : Int) else .err (.amountTooLarge a) := rfl

theorem pay_customer_exact (a : Nat) :
    payCustomer a = if a ≤ 2 ^ 63 - 1 then .ok (-(a : Int)) else .err (.amountTooLarge a) := rfl

theorem pay_merchant_in_range (a : Nat) (x : Int) (h : payMerchant a = .ok x) : IsI64 x := by
  unfold payMerchant i64Max at h
  split at h
  · cases h; unfold IsI64 i64MinI i64Max; omega
  · cases h

theorem pay_customer_in_range (a : Nat) (x : Int) (h : payCustomer a = .ok x) : IsI64 x := by
  unfold payCustomer i64Max at h
  split at h
  · cases h; unfold IsI64 i64MinI i64Max; omega
  · cases h

private theorem asU64_id (x : Int) (h0 : 0 ≤ x) (h1 : x < 2 ^ 64) : asU64 x = x.toNat := by
  unfold asU64
  rw [Int.emod_eq_of_lt h0 h1]

/-- The mathematical result of applying a payment to a balance. -/
def exact (r : Int) : Res Nat :=
  if r < 0 then .err .insufficientFunds
  else if r > 2 ^ 63 - 1 then .err (.amountTooLarge r.toNat)
  else .ok r.toNat

/-- Customer side: for every balance satisfying the type invariant and every `i64` amount the result
is exactly `balance - amount` when that lies in `[0, 2^63-1]`, `InsufficientFunds` when negative,
`AmountTooLarge` otherwise — never a panic, never a wrapped value. -/
theorem customer_apply_exact (b : Nat) (amt : Int) (hb : b ≤ 2 ^ 63 - 1) (ha : IsI64 amt) :
    customerApply b amt = exact ((b : Int) - amt) := by
  unfold customerApply exact
  unfold IsI64 i64MinI i64Max at ha
  simp only
  by_cases h : (b : Int) - amt < 0
  · rw [if_pos h, if_pos h]
  · rw [if_neg h, if_neg h, asU64_id _ (by omega) (by omega), try_new_exact]
    by_cases h2 : (b : Int) - amt > 2 ^ 63 - 1
    · rw [if_pos h2, if_neg (by omega)]
    · rw [if_neg h2, if_pos (by omega)]

theorem merchant_apply_exact (b : Nat) (amt : Int) (hb : b ≤ 2 ^ 63 - 1) (ha : IsI64 amt) :
    merchantApply b amt = exact ((b : Int) + amt) := by
  unfold merchantApply exact
  unfold IsI64 i64MinI i64Max at ha
  simp only
  by_cases h : (b : Int) + amt < 0
  · rw [if_pos h, if_pos h]
  · rw [if_neg h, if_neg h, asU64_id _ (by omega) (by omega), try_new_exact]
    by_cases h2 : (b : Int) + amt > 2 ^ 63 - 1
    · rw [if_pos h2, if_neg (by omega)]
    · rw [if_neg h2, if_pos (by omega)]

/-- `apply_payment`: succeeds exactly when both results lie in `[0, 2^63-1]`, then returns exactly
them; otherwise the customer-side error takes precedence.  Never panics. -/
theorem apply_payment_exact (cb mb : Nat) (amt : Int) (hc : cb ≤ 2 ^ 63 - 1) (hm : mb ≤ 2 ^ 63 - 1)
    (ha : IsI64 amt) :
    applyPayment cb mb amt =
      match exact ((cb : Int) - amt) with
      | .err e => .err e
      | .panic => .panic
      | .ok c' => match exact ((mb : Int) + amt) with
        | .err e => .err e
        | .panic => .panic
        | .ok m' => .ok (c', m') := by
  unfold applyPayment
  rw [customer_apply_exact cb amt hc ha, merchant_apply_exact mb amt hm ha]
  cases exact ((cb : Int) - amt) <;> cases exact ((mb : Int) + amt) <;> rfl

theorem exact_ne_panic (r : Int) : exact r ≠ .panic := by
  unfold exact; split
  · simp
  · split <;> simp

theorem apply_payment_no_panic (cb mb : Nat) (amt : Int) (hc : cb ≤ 2 ^ 63 - 1)
    (hm : mb ≤ 2 ^ 63 - 1) (ha : IsI64 amt) : applyPayment cb mb amt ≠ .panic := by
  rw [apply_payment_exact cb mb amt hc hm ha]
  have h1 := exact_ne_panic ((cb : Int) - amt)
  have h2 := exact_ne_panic ((mb : Int) + amt)
  cases h3 : exact ((cb : Int) - amt) with
  | err e => simp
  | panic => exact absurd h3 h1
  | ok c' =>
    cases h4 : exact ((mb : Int) + amt) with
    | err e => simp
    | panic => exact absurd h4 h2
    | ok m' => simp

/-- A successful payment conserves the total and keeps both balances in range. -/
theorem apply_payment_ok (cb mb : Nat) (amt : Int) (hc : cb ≤ 2 ^ 63 - 1) (hm : mb ≤ 2 ^ 63 - 1)
    (ha : IsI64 amt) (c' m' : Nat) (h : applyPayment cb mb amt = .ok (c', m')) :
    (c' : Int) = cb - amt ∧ (m' : Int) = mb + amt ∧ c' ≤ 2 ^ 63 - 1 ∧ m' ≤ 2 ^ 63 - 1 ∧
      c' + m' = cb + mb := by
  rw [apply_payment_exact cb mb amt hc hm ha] at h
  unfold exact at h
  split at h <;> rename_i h1
  · split at h1 <;> simp_all
  · exact absurd h1 (by split <;> [simp; (split <;> simp)])
  · rename_i x
    split at h <;> rename_i h2
    · cases h
    · cases h
    · rename_i y
      cases h
      split at h1
      · cases h1
      · split at h1
        · cases h1
        · split at h2
          · cases h2
          · split at h2
            · cases h2
            · cases h1; cases h2
              omega

/-- Balance addition: for balances satisfying the invariant it never panics and is exact. -/
theorem try_add_exact (mb cb : Nat) (hm : mb ≤ 2 ^ 63 - 1) (hc : cb ≤ 2 ^ 63 - 1) :
    tryAdd mb cb = if mb + cb ≤ 2 ^ 63 - 1 then .ok (mb + cb) else .err (.amountTooLarge (mb + cb)) := by
  unfold tryAdd u64Max
  rw [if_neg (by omega), try_new_exact]

/-! ### Scalar encoding -/
section scalar
variable {F : Type} [Field F]

/-- The (repaired) amount encoding is total on `i64` and is the canonical ring map `ℤ → F`. -/
theorem amount_to_scalar_total (a : Int) : amountToScalar (F := F) a = .ok ((a : Int) : F) := by
  unfold amountToScalar
  by_cases h : a < 0
  · rw [if_pos h]
    congr 1
    have e : ((a.natAbs : Nat) : F) = (((a.natAbs : Nat) : Int) : F) := (Int.cast_natCast _).symm
    have e2 : ((a.natAbs : Nat) : Int) = -a := by omega
    rw [e, e2]; push_cast; ring
  · rw [if_neg h]
    congr 1
    have e : ((a.natAbs : Nat) : F) = (((a.natAbs : Nat) : Int) : F) := (Int.cast_natCast _).symm
    have e2 : ((a.natAbs : Nat) : Int) = a := by omega
    rw [e, e2]

theorem balance_to_scalar (v : Nat) : balanceToScalar (F := F) v = ((v : Int) : F) := by
  unfold balanceToScalar; push_cast; rfl

/-- `enc(balance) - enc(amount) = enc(balance - amount)` and `enc(balance) + enc(amount) =
enc(balance + amount)` for every representable amount (every `i64`, hence every amount that can
be decoded from the wire). -/
theorem enc_sub (b : Nat) (a : Int) (r : F) (h : amountToScalar (F := F) a = .ok r) :
    balanceToScalar (F := F) b - r = (((b : Int) - a : Int) : F) := by
  rw [amount_to_scalar_total] at h; cases h
  rw [balance_to_scalar]; push_cast; rfl

theorem enc_add (b : Nat) (a : Int) (r : F) (h : amountToScalar (F := F) a = .ok r) :
    balanceToScalar (F := F) b + r = (((b : Int) + a : Int) : F) := by
  rw [amount_to_scalar_total] at h; cases h
  rw [balance_to_scalar]; push_cast; rfl

/-- so a successful payment's new balances encode to old encoding minus / plus amount encoding -/
theorem enc_consistent (cb mb : Nat) (amt : Int) (hc : cb ≤ 2 ^ 63 - 1) (hm : mb ≤ 2 ^ 63 - 1)
    (ha : IsI64 amt) (c' m' : Nat) (h : applyPayment cb mb amt = .ok (c', m')) (r : F)
    (hr : amountToScalar (F := F) amt = .ok r) :
    balanceToScalar (F := F) c' = balanceToScalar cb - r ∧
    balanceToScalar (F := F) m' = balanceToScalar mb + r := by
  obtain ⟨h1, h2, -, -, -⟩ := apply_payment_ok cb mb amt hc hm ha c' m' h
  rw [enc_sub cb amt r hr, enc_add mb amt r hr, balance_to_scalar, balance_to_scalar, h1, h2]
  exact ⟨rfl, rfl⟩

/-- The encoding is injective on 64-bit values in a field of characteristic `p > 2^64`
(BLS12-381: `p = q ≈ 2^255`). -/
theorem balance_enc_injective (p : Nat) [CharP F p] (hp : 2 ^ 64 < p) (v w : Nat)
    (hv : v < 2 ^ 64) (hw : w < 2 ^ 64) (h : balanceToScalar (F := F) v = balanceToScalar w) :
    v = w := by
  unfold balanceToScalar at h
  exact CharP.natCast_injOn_Iio F p (by simpa using lt_trans hv hp) (by simpa using lt_trans hw hp) h

end scalar

/-! ### The pinned defect D5 (kept as a theorem about the faithful model of the pinned code) -/

/-- At the pinned commit `PaymentAmount::to_scalar` panics (overflow check in `i64::abs`) for the
decodable amount `i64::MIN`. -/
theorem Legacy.to_scalar_min_panics :
    Legacy.amountToScalar (F := Z13) i64MinI = .panic := by
  unfold Legacy.amountToScalar i64MinI; simp

/-- On every other `i64` the pinned code agrees with the repaired one. -/
theorem Legacy.to_scalar_agrees {F : Type} [Field F] (a : Int) (h : a ≠ i64MinI) :
    Legacy.amountToScalar (F := F) a = amountToScalar a := by
  unfold Legacy.amountToScalar amountToScalar
  by_cases h1 : a < 0
  · rw [if_pos h1, if_pos h1, if_neg h]
  · rw [if_neg h1, if_neg h1]

/-! ### Non-vacuity -/
example : applyPayment 10 1000 (-5) = .ok (15, 995) := by decide
example : applyPayment 10 1000 11 = .err .insufficientFunds := by decide
example : applyPayment (2 ^ 63 - 1) 0 (-1) = .err (.amountTooLarge (2 ^ 63)) := by decide
example : IsI64 (-5) := by unfold IsI64 i64MinI i64Max; omega
example : tryAdd (2 ^ 63 - 1) (2 ^ 63 - 1) = .err (.amountTooLarge (2 ^ 64 - 2)) := by decide

end ZkVerif.C17
