/-
C09 — Commitments are the exact Pedersen map and open only to what was committed.

All statements hold for every field `F`, every `F`-module `G` (so for G1 and G2 at once), every
tuple length (lists of any length), every parameter set, message and blinding factor.
-/
import ZkVerif.Lemmas.Inner
import ZkVerif.Lemmas.Z13

namespace ZkVerif.C09
open ZkVerif
universe u
variable {F G : Type u} [Field F] [AddCommGroup G] [Module F G] [DecidableEq G]

/-- The commitment is `h^r · ∏ gᵢ^mᵢ` (additively `r • h + Σ mᵢ • gᵢ`). -/
theorem commit_is_pedersen_map (pp : PedParams G) (bf : F) (ms : List F) :
    commit pp bf ms = bf • pp.h + (List.zipWith (· • ·) ms pp.gs).sum := by
  unfold commit; rw [inner_eq_sum]

/-- Opening verification returns true iff the recomputed commitment equals the given one. -/
theorem verify_opening_iff (pp : PedParams G) (c : G) (bf : F) (ms : List F) :
    verifyOpening pp c bf ms = true ↔ bf • pp.h + (List.zipWith (· • ·) ms pp.gs).sum = c := by
  rw [verifyOpening_true, commit_is_pedersen_map]

/-- The original opening is accepted. -/
theorem open_original (pp : PedParams G) (bf : F) (ms : List F) :
    verifyOpening pp (commit pp bf ms) bf ms = true := by
  rw [verifyOpening_true]

/-- An opening that differs in a single coordinate `i` (whose generator is not the identity) is
rejected. -/
theorem reject_single_coord (pp : PedParams G) (bf : F) (ms : List F) (i : Nat) (m' : F)
    (hi : i < ms.length) (hg : i < pp.gs.length) (hgi : pp.gs[i] ≠ 0) (hm : m' ≠ ms[i]) :
    verifyOpening pp (commit pp bf ms) bf (ms.set i m') = false := by
  rw [verifyOpening_false]
  unfold commit
  rw [inner_set ms pp.gs i m' hi hg]
  intro h
  have h2 : (m' - ms[i]) • pp.gs[i] = 0 := by
    have := congrArg (fun x => x - (bf • pp.h + inner ms pp.gs)) h
    simpa [add_assoc] using this
  rcases smul_eq_zero.mp h2 with h3 | h3
  · exact hm (sub_eq_zero.mp h3)
  · exact hgi h3

/-- An opening with a different blinding factor is rejected (when `h` is not the identity). -/
theorem reject_bf (pp : PedParams G) (bf bf' : F) (ms : List F) (hh : pp.h ≠ 0) (hb : bf' ≠ bf) :
    verifyOpening pp (commit pp bf ms) bf' ms = false := by
  rw [verifyOpening_false]
  unfold commit
  intro h
  have h2 : (bf' - bf) • pp.h = 0 := by
    have := congrArg (fun x => x - (bf • pp.h + inner ms pp.gs)) h
    simp only [sub_self] at this
    rw [← this]; module
  rcases smul_eq_zero.mp h2 with h3 | h3
  · exact hb (sub_eq_zero.mp h3)
  · exact hh h3

/-- Commitments add homomorphically in message and blinding factor. -/
theorem commit_add (pp : PedParams G) (bf bf' : F) (ms ms' : List F) (h : ms.length = ms'.length) :
    commit pp (bf + bf') (List.zipWith (· + ·) ms ms') = commit pp bf ms + commit pp bf' ms' := by
  have := commit_lin pp 1 1 bf bf' ms ms' h
  simpa using this

/-- … and are compatible with scaling. -/
theorem commit_smul (pp : PedParams G) (a bf : F) (ms : List F) :
    commit pp (a * bf) (ms.map (a * ·)) = a • commit pp bf ms := by
  unfold commit; rw [inner_map_mul]; module

/-- Hence the sum of two commitments opens to the sums. -/
theorem open_sum (pp : PedParams G) (bf bf' : F) (ms ms' : List F) (h : ms.length = ms'.length) :
    verifyOpening pp (commit pp bf ms + commit pp bf' ms') (bf + bf') (List.zipWith (· + ·) ms ms')
      = true := by
  rw [verifyOpening_true, commit_add pp bf bf' ms ms' h]

/-- Binding reduction: two different openings of one commitment give a non-trivial linear relation
`(r - r') • h + Σ (mᵢ - m'ᵢ) • gᵢ = 0` among the generators. -/
theorem two_openings_relation (pp : PedParams G) (c : G) (bf bf' : F) (ms ms' : List F)
    (hl : ms.length = ms'.length)
    (h1 : verifyOpening pp c bf ms = true) (h2 : verifyOpening pp c bf' ms' = true) :
    commit pp (bf - bf') (List.zipWith (· - ·) ms ms') = 0 := by
  rw [verifyOpening_true] at h1 h2
  have := commit_lin pp 1 (-1) bf bf' ms ms' hl
  have e1 : (fun (m t : F) => 1 * m + -1 * t) = (fun m t => m - t) := by
    funext m t; ring
  rw [e1] at this
  have e2 : (1 : F) * bf + -1 * bf' = bf - bf' := by ring
  rw [e2] at this
  rw [this, h1, h2]; module

/-! Non-vacuity: the theorems instantiated at concrete, non-trivial values over `ZMod 13`
(a module over itself); every hypothesis is discharged by evaluation. -/
section examples
private def pp13 : PedParams Z13 := ⟨2, [3, 5]⟩
example : verifyOpening pp13 (commit pp13 (7 : Z13) [1, 1]) (7 : Z13) [1, 1] = true :=
  open_original pp13 7 [1, 1]
example : verifyOpening pp13 (commit pp13 (7 : Z13) [1, 1]) (7 : Z13) ([1, 1].set 1 2) = false :=
  reject_single_coord pp13 7 [1, 1] 1 2 (by decide) (by decide) (by decide) (by decide)
example : verifyOpening pp13 (commit pp13 (7 : Z13) [1, 1]) (8 : Z13) [1, 1] = false :=
  reject_bf pp13 7 8 [1, 1] (by decide) (by decide)
-- and the evaluation agrees with the theorems on these values
example : verifyOpening pp13 (commit pp13 (7 : Z13) [1, 1]) (7 : Z13) [1, 2] = false := by decide
end examples

end ZkVerif.C09
