/-
C06 — An accepted proof is rejected under any other statement, key or context.

Three kinds of components of a verification tuple:
(i)  hashed into the challenge (merchant key, range parameters, channel id, balances, nonce, context):
     a changed component changes the hashed bytes (C12); if one proof is accepted under both, the two
     challenges coincide (a collision of `H` on different byte strings has been exhibited) or every
     commitment in the proof is the identity;
(ii) used only in equations between response scalars (`amount`): same challenge `c`, and acceptance
     under `a` and `a'` forces `c * (a - a') = 0`;
(iii) the verifier's own un-hashed parameters (revocation-commitment parameters): acceptance under
     both forces an explicit linear condition on the response scalars.
-/
import ZkVerif.Props.C02
import ZkVerif.Props.C01
import ZkVerif.Props.C18
import Mathlib.Data.ZMod.Basic

set_option linter.unusedSectionVars false

namespace ZkVerif.C06
open ZkVerif
universe u
variable {F G1 G2 GT : Type u} [Field F] [AddCommGroup G1] [Module F G1] [AddCommGroup G2]
  [Module F G2] [AddCommGroup GT] [Module F GT] [DecidableEq F] [DecidableEq G1] [DecidableEq G2]
  [DecidableEq GT]
variable {e : G1 → G2 → GT}

/-- One commitment proof accepted under two challenges: the challenges are equal or the commitment
is the identity. -/
theorem two_challenges (pp : PedParams G1) (p : CProof F G1) (c c' : F)
    (a : CpAccept pp p c) (a' : CpAccept pp p c') : c = c' ∨ p.C = 0 := by
  unfold CpAccept at a a'
  have h : (c - c') • p.C = 0 := by
    have := a.symm.trans a'
    have h2 : c • p.C = c' • p.C := add_left_cancel this
    rw [sub_smul, h2, sub_self]
  rcases smul_eq_zero.mp h with h1 | h1
  · exact Or.inl (sub_eq_zero.mp h1)
  · exact Or.inr h1

/-- (i) Establish: one proof accepted for two tuples `(pub, ctx)` ≠ `(pub', ctx')` under the same
merchant key: a collision of `H` on two different byte strings has been exhibited, or both
commitments of the proof are the identity. -/
theorem establish_not_transferable (cd : Codecs F G1 G2) (hcd : cd.Lawful) (H : List UInt8 → F)
    (pk : PubKey G1 G2) (close : F) (pub pub' : EstPub F) (ctx ctx' : List UInt8) (p : EstProof F G1)
    (hlen : ctx.length = ctx'.length) (hdiff : (pub, ctx) ≠ (pub', ctx'))
    (a : (estVerify cd H pk close pub p ctx).isSome = true)
    (a' : (estVerify cd H pk close pub' p ctx').isSome = true) :
    ((estTranscript pk close pub p ctx).bytes cd ≠ (estTranscript pk close pub' p ctx').bytes cd ∧
      H ((estTranscript pk close pub p ctx).bytes cd) = H ((estTranscript pk close pub' p ctx').bytes cd)) ∨
    (p.st.C = 0 ∧ p.cl.C = 0) := by
  have hb : (estTranscript pk close pub p ctx).bytes cd ≠ (estTranscript pk close pub' p ctx').bytes cd := by
    intro hb
    obtain ⟨_, _, h3, h4, _⟩ := C12.establish_transcript_binds cd hcd pk pk close close pub pub' p p ctx ctx' rfl rfl hlen hb
    exact hdiff (by rw [h3, h4])
  unfold estVerify at a a'
  obtain ⟨v, hv⟩ := Option.isSome_iff_exists.mp a
  obtain ⟨v', hv'⟩ := Option.isSome_iff_exists.mp a'
  have ha := ((estVerifyWith_some_iff _ _ _ _ _ _).mp hv).1
  have ha' := ((estVerifyWith_some_iff _ _ _ _ _ _).mp hv').1
  rcases two_challenges pk.ped1 p.st _ _ ha.1 ha'.1 with h | h
  · exact Or.inl ⟨hb, h⟩
  · rcases two_challenges pk.ped1 p.cl _ _ ha.2.1 ha'.2.1 with h2 | h2
    · exact Or.inl ⟨hb, h2⟩
    · exact Or.inr ⟨h, h2⟩

/-- (ii) Pay: the amount is not hashed; one proof accepted for amounts `a` and `a'` (everything else
equal) forces `c = 0 ∨ a = a'` for the common challenge `c`. -/
theorem pay_amount_not_transferable (pm : PayParams G1 G2) (close nonce a a' : F)
    (p : PayProofM F G1 G2) (c : F)
    (h : PayAccept e pm close ⟨nonce, a⟩ p c) (h' : PayAccept e pm close ⟨nonce, a'⟩ p c) :
    c = 0 ∨ a = a' := by
  obtain ⟨_, _, _, _, _, _, _, _, _, _, _, _, _, e9, _⟩ := h
  obtain ⟨_, _, _, _, _, _, _, _, _, _, _, _, _, e9', _⟩ := h'
  have : c * (a - a') = 0 := by
    have := e9.symm.trans e9'
    simp only at this
    linear_combination (-1 : F) * this
  rcases mul_eq_zero.mp this with h1 | h1
  · exact Or.inl h1
  · exact Or.inr (sub_eq_zero.mp h1)

theorem pay_transcript_ignores_amount (pm : PayParams G1 G2) (close nonce a a' : F)
    (p : PayProofM F G1 G2) (ctx : List UInt8) :
    payTranscript pm close ⟨nonce, a⟩ p ctx = payTranscript pm close ⟨nonce, a'⟩ p ctx := rfl

/-- (i) Pay: a changed nonce or context (hashed components) — as for establish. -/
theorem pay_not_transferable_nonce_ctx (cd : Codecs F G1 G2) (hcd : cd.Lawful) (H : List UInt8 → F)
    (pm : PayParams G1 G2) (close : F) (pub pub' : PayPub F) (ctx ctx' : List UInt8)
    (p : PayProofM F G1 G2) (hne : (pub.nonce, ctx) ≠ (pub'.nonce, ctx'))
    (hshape : (payTranscript pm close pub p ctx).map Atom.shape = (payTranscript pm close pub' p ctx').map Atom.shape)
    (a : (payVerify e cd H pm close pub p ctx).isSome = true)
    (a' : (payVerify e cd H pm close pub' p ctx').isSome = true) :
    ((payTranscript pm close pub p ctx).bytes cd ≠ (payTranscript pm close pub' p ctx').bytes cd ∧
      H ((payTranscript pm close pub p ctx).bytes cd) = H ((payTranscript pm close pub' p ctx').bytes cd)) ∨
    (p.st.C = 0 ∧ p.cl.C = 0 ∧ p.rl.C = 0) := by
  have hb : (payTranscript pm close pub p ctx).bytes cd ≠ (payTranscript pm close pub' p ctx').bytes cd := by
    intro hb
    have ht := transcript_bytes_inj cd hcd _ _ hshape hb
    obtain ⟨_, _, h3, _, h5, _⟩ := payTranscript_inj pm pm close close pub pub' p p ctx ctx' rfl rfl rfl rfl rfl rfl rfl ht
    exact hne (by rw [h3, h5])
  unfold payVerify at a a'
  obtain ⟨v, hv⟩ := Option.isSome_iff_exists.mp a
  obtain ⟨v', hv'⟩ := Option.isSome_iff_exists.mp a'
  have ha := ((payVerifyWith_some_iff _ _ _ _ _ _).mp hv).1
  have ha' := ((payVerifyWith_some_iff _ _ _ _ _ _).mp hv').1
  rcases two_challenges pm.pk.ped1 p.st _ _ ha.1 ha'.1 with h | h
  · exact Or.inl ⟨hb, h⟩
  · rcases two_challenges pm.pk.ped1 p.cl _ _ ha.2.1 ha'.2.1 with h2 | h2
    · exact Or.inl ⟨hb, h2⟩
    · rcases two_challenges pm.rev p.rl _ _ ha.2.2.2.1 ha'.2.2.2.1 with h3 | h3
      · exact Or.inl ⟨hb, h3⟩
      · exact Or.inr ⟨h, h2, h3⟩

/-- (iii) The revocation-commitment parameters are not hashed: one pay proof accepted under
parameters `(h, g)` and `(h', g')` (same challenge) forces the linear condition
`z_bf • (h - h') + z • (g - g') = 0` on the response scalars of the revocation-lock proof. -/
theorem pay_rev_params_condition (rev rev' : PedParams G1) (p : CProof F G1) (c : F)
    (a : CpAccept rev p c) (a' : CpAccept rev' p c) :
    commit rev p.zbf p.zs = commit rev' p.zbf p.zs := by
  unfold CpAccept at a a'
  rw [a, a']

/-! ### Closing messages -/

/-- A verified closing message (signature valid on `[cid, CLOSE, lock, cb, mb]`) in which the channel
id, the revocation lock or a balance (slots 0, 2, 3, 4) is replaced by a value with a different
scalar encoding fails the merchant's close check. -/
theorem close_check_single_field (he : IsPairing F e) (m : MerchantCfg F G1 G2) (hk : m.kp.Honest)
    (hg2 : m.kp.pk.g2 ≠ 0) (hlen : m.kp.sk.ys.length = 5) (hy : ∀ y ∈ m.kp.sk.ys, y ≠ 0)
    (σ : Sig G1) (close : F) (s : StateM F) (i : Nat) (hi : i < 5) (v : F)
    (hv : v ≠ (s.closeMsg close)[i]'(by simpa [StateM.closeMsg] using hi))
    (ha : m.checkCloseSignature e σ (s.closeMsg close) = true) :
    m.checkCloseSignature e σ ((s.closeMsg close).set i v) = false := by
  unfold MerchantCfg.checkCloseSignature at ha ⊢
  exact C07.single_coord_change_rejects he m.kp hk hg2 σ (s.closeMsg close) i v
    (by simpa [StateM.closeMsg] using hi) (by rw [hlen]; exact hi)
    (hy _ (List.getElem_mem _)) hv ha

/-- A pay token presented as a closing signature (or vice versa) is refused: C18. -/
theorem token_refused_as_closing_signature (he : IsPairing F e) (m : MerchantCfg F G1 G2)
    (hk : m.kp.Honest) (hg2 : m.kp.pk.g2 ≠ 0) (hy : 1 < m.kp.sk.ys.length) (hy1 : m.kp.sk.ys[1] ≠ 0)
    (close : F) (s : StateM F) (hn : s.nonce ≠ close) (σ : Sig G1)
    (hv : psVerify e m.kp.pk σ s.msg = true) :
    m.checkCloseSignature e σ (s.closeMsg close) = false :=
  C18.pay_token_not_closing_sig he m.kp hk hg2 hy hy1 close s hn σ hv

/-! ### the channel id as a scalar -/

/-- `ChannelId::to_scalar` reads the 32 bytes as a 256-bit little-endian integer and reduces it mod `q`
(`Scalar::from_raw`): two ids are mapped to the same scalar exactly when they are congruent mod `q`.
(Recorded observation, not a violation of the statement as given: 256-bit ids that differ by `q` or `2q`
do collide; a channel id is a SHA3 output, so such a pair is a structured near-collision of SHA3.) -/
theorem cid_scalar_eq_iff (q : Nat) [NeZero q] (a b : Nat) :
    ((a : ZMod q) = (b : ZMod q)) ↔ a % q = b % q := by
  rw [ZMod.natCast_eq_natCast_iff']

/-- … in particular flipping a single bit of a channel id (a difference of `2^k`, never a multiple of
the odd prime `q`) always changes its scalar. -/
theorem cid_bit_flip_changes_scalar (q : Nat) [NeZero q] (hq : 2 < q) (hp : Nat.Prime q)
    (a k : Nat) : ((a + 2 ^ k : Nat) : ZMod q) ≠ (a : ZMod q) := by
  intro h
  have h2 : ((2 ^ k : Nat) : ZMod q) = 0 := by
    have e : ((a + 2 ^ k : Nat) : ZMod q) = (a : ZMod q) + ((2 ^ k : Nat) : ZMod q) := by push_cast; ring
    rw [e] at h
    exact add_eq_left.mp h
  rw [ZMod.natCast_eq_zero_iff] at h2
  have h3 := Nat.Prime.dvd_of_dvd_pow hp h2
  have : q ≤ 2 := Nat.le_of_dvd (by norm_num) h3
  omega

end ZkVerif.C06
