/-
C08 — Blind signing yields a signature on exactly the message proven in the request.

In the Rust code a `VerifiedBlindedMessage` has a crate-private constructor whose only use is in
`SignatureRequestProof::verify_knowledge_of_opening`; in the model the only function returning a
blind-signable value is `srpVerify`.
-/
import ZkVerif.Lemmas.Schnorr
import ZkVerif.Props.C07
import ZkVerif.Props.C09

set_option linter.unusedSectionVars false

namespace ZkVerif.C08
open ZkVerif
universe u
variable {F G1 G2 GT : Type u} [Field F] [AddCommGroup G1] [Module F G1] [AddCommGroup G2]
  [Module F G2] [AddCommGroup GT] [Module F GT] [DecidableEq G1] [DecidableEq GT]
variable {e : G1 → G2 → GT}

/-- A blind-signable value is handed out iff the request proof verifies under the signer's key
and the given challenge, and it is the proof's commitment `C` (not `T`, not anything else). -/
theorem srpVerify_some_iff (pk : PubKey G1 G2) (p : CProof F G1) (c : F) (v : G1) :
    srpVerify pk p c = some v ↔
      commit pk.ped1 p.zbf p.zs = p.T + c • p.C ∧ v = p.C := by
  have hd : srpVerify pk p c = if CpAccept pk.ped1 p c then some p.C else none := rfl
  rw [hd]
  by_cases h : CpAccept pk.ped1 p c
  · rw [if_pos h]
    have h' : commit pk.ped1 p.zbf p.zs = p.T + c • p.C := h
    simp [h', eq_comm]
  · rw [if_neg h]
    have h' : ¬ commit pk.ped1 p.zbf p.zs = p.T + c • p.C := h
    simp [h']

theorem srpVerify_none_iff (pk : PubKey G1 G2) (p : CProof F G1) (c : F) :
    srpVerify pk p c = none ↔ commit pk.ped1 p.zbf p.zs ≠ p.T + c • p.C := by
  have hd : srpVerify pk p c = if CpAccept pk.ped1 p c then some p.C else none := rfl
  rw [hd]
  by_cases h : CpAccept pk.ped1 p c
  · rw [if_pos h]
    have h' : commit pk.ped1 p.zbf p.zs = p.T + c • p.C := h
    simp [h']
  · rw [if_neg h]
    have h' : ¬ commit pk.ped1 p.zbf p.zs = p.T + c • p.C := h
    simp [h']

/-- An honest request yields the commitment to the requester's message. -/
theorem honest_request_accepted (pk : PubKey G1 G2) (ms : List F) (bf tbf : F) (ts : List F) (c : F)
    (hl : ms.length = ts.length) :
    srpVerify pk ((srpBuilder pk ms bf tbf ts).respond c) c = some (commit pk.ped1 bf ms) := by
  rw [srpVerify_some_iff]
  exact ⟨cp_complete pk.ped1 ms bf tbf ts c hl, rfl⟩

/-- Blind-signing the verified value of an honest request and unblinding with the requester's
blinding factor gives a signature that verifies on the requester's message. -/
theorem request_sign_unblind_verifies (he : IsPairing F e) (kp : KeyPair F G1 G2) (hk : kp.Honest)
    (hg1 : kp.pk.g1 ≠ 0) (hg2 : kp.pk.g2 ≠ 0) (ms : List F) (bf tbf : F) (ts : List F) (c u : F)
    (hu : u ≠ 0) (hl : ms.length = ts.length) :
    ∃ v, srpVerify kp.pk ((srpBuilder kp.pk ms bf tbf ts).respond c) c = some v ∧
      psVerify e kp.pk ((Sig.blindSign kp u v).unblind bf) ms = true :=
  ⟨_, honest_request_accepted kp.pk ms bf tbf ts c hl,
    C07.blindsign_unblind_verifies he kp hk hg1 hg2 u bf hu ms⟩

/-- For *any* blind-signed value `C`: the unblinded signature verifies on `(m', r')` iff `(m', r')`
is an opening of `C` under `(g, Y₁…Y_N)`. -/
theorem unblind_verifies_iff_opening (he : IsPairing F e) (kp : KeyPair F G1 G2) (hk : kp.Honest)
    (hg1 : kp.pk.g1 ≠ 0) (hg2 : kp.pk.g2 ≠ 0) (u : F) (hu : u ≠ 0) (C : G1) (r' : F)
    (ms' : List F) :
    psVerify e kp.pk ((Sig.blindSign kp u C).unblind r') ms' = true ↔
      commit kp.pk.ped1 r' ms' = C := by
  rw [C07.verify_honest_iff he kp hk hg2]
  simp only [Sig.blindSign, Sig.unblind, commit, PubKey.ped1]
  rw [hk.x1, hk.y1s, inner_map_smul]
  have hne : u • kp.pk.g1 ≠ 0 := fun h => hg1 ((smul_eq_zero.mp h).resolve_left hu)
  constructor
  · rintro ⟨_, h⟩
    have h2 : u • (C - (r' • kp.pk.g1 + dot kp.sk.ys ms' • kp.pk.g1)) = 0 := by
      have := congrArg (fun z => z - (kp.sk.x + dot kp.sk.ys ms') • u • kp.pk.g1) h
      simp only [sub_self] at this
      rw [← this]; module
    rcases smul_eq_zero.mp h2 with h3 | h3
    · exact absurd h3 hu
    · exact (sub_eq_zero.mp h3).symm
  · intro h
    refine ⟨hne, ?_⟩
    rw [← h]; module

/-- Hence the signature obtained from an honest request verifies on no tuple that differs from
the requester's in a single coordinate. -/
theorem request_signature_rejects_changed_coord (he : IsPairing F e) (kp : KeyPair F G1 G2)
    (hk : kp.Honest) (hg1 : kp.pk.g1 ≠ 0) (hg2 : kp.pk.g2 ≠ 0) (u : F) (hu : u ≠ 0)
    (ms : List F) (bf : F) (i : Nat) (m' : F) (hi : i < ms.length) (hy : i < kp.sk.ys.length)
    (hyi : kp.sk.ys[i] ≠ 0) (hm : m' ≠ ms[i]) :
    psVerify e kp.pk ((Sig.blindSign kp u (commit kp.pk.ped1 bf ms)).unblind bf) (ms.set i m')
      = false := by
  have hv := C07.blindsign_unblind_verifies he kp hk hg1 hg2 u bf hu ms
  exact C07.single_coord_change_rejects he kp hk hg2 _ ms i m' hi hy hyi hm hv

/-- A tampered request (any change that breaks the Schnorr equation) yields no blind-signable value. -/
theorem tampered_request_rejected (pk : PubKey G1 G2) (p : CProof F G1) (c : F)
    (h : commit pk.ped1 p.zbf p.zs ≠ p.T + c • p.C) : srpVerify pk p c = none :=
  (srpVerify_none_iff pk p c).mpr h

section examples
private def pk13 : PubKey Z13 Z13 := ⟨4, [8, 7], 6, 5, [12, 4]⟩
example : srpVerify pk13 ((srpBuilder pk13 [1, 9] (2 : Z13) 3 [5, 6]).respond 7) 7
    = some (commit pk13.ped1 (2 : Z13) [1, 9]) :=
  honest_request_accepted pk13 [1, 9] 2 3 [5, 6] 7 rfl
example : srpVerify pk13 ((srpBuilder pk13 [1, 9] (2 : Z13) 3 [5, 6]).respond 7) 8 = none := by decide
end examples

end ZkVerif.C08
