/-
C10 — Honest proofs and the documented constraint patterns always verify.
-/
import ZkVerif.Props.C13
import ZkVerif.Model.Transcript

set_option linter.unusedSectionVars false

namespace ZkVerif.C10
open ZkVerif
universe u
variable {F G G1 G2 GT : Type u} [Field F] [AddCommGroup G] [Module F G] [DecidableEq G]
  [AddCommGroup G1] [Module F G1] [AddCommGroup G2] [Module F G2] [AddCommGroup GT] [Module F GT]
  [DecidableEq F] [DecidableEq G1] [DecidableEq G2] [DecidableEq GT]
variable {e : G1 → G2 → GT}

/-! ### Completeness: any message, any length, any choice of commitment scalars, any challenge -/

theorem cp_complete (pp : PedParams G) (ms : List F) (bf tbf : F) (ts : List F) (c : F)
    (hl : ms.length = ts.length) :
    cpVerify pp ((CBuilder.mk' pp ms bf tbf ts).respond c) c = true := by
  unfold cpVerify; rw [decide_eq_true_iff]; exact ZkVerif.cp_complete pp ms bf tbf ts c hl

/-- the drawn / caller-chosen commitment scalars always have the message's length -/
theorem fillScalars_length (os : List (Option F)) (ds ts rest : List F)
    (h : fillScalars os ds = some (ts, rest)) : ts.length = os.length := by
  induction os generalizing ds ts rest with
  | nil => simp [fillScalars] at h; simp [h.1.symm]
  | cons o os ih =>
    cases o with
    | some t =>
      simp only [fillScalars] at h
      cases h2 : fillScalars os ds with
      | none => simp [h2] at h
      | some p =>
        obtain ⟨ts', r⟩ := p
        simp [h2] at h
        rw [← h.1]; simp [ih ds ts' r h2]
    | none =>
      cases ds with
      | nil => simp [fillScalars] at h
      | cons d ds =>
        simp only [fillScalars] at h
        cases h2 : fillScalars os ds with
        | none => simp [h2] at h
        | some p =>
          obtain ⟨ts', r⟩ := p
          simp [h2] at h
          rw [← h.1]; simp [ih ds ts' r h2]

/-- caller-chosen commitment scalars are used verbatim -/
theorem fillScalars_some (os : List (Option F)) (ds ts rest : List F)
    (h : fillScalars os ds = some (ts, rest)) (i : Nat) (t : F) (hi : i < os.length)
    (ho : os[i] = some t) : ts[i]'(by rw [fillScalars_length os ds ts rest h]; exact hi) = t := by
  induction os generalizing ds ts rest i with
  | nil => simp at hi
  | cons o os ih =>
    cases o with
    | some t' =>
      simp only [fillScalars] at h
      cases h2 : fillScalars os ds with
      | none => simp [h2] at h
      | some p =>
        obtain ⟨ts', r⟩ := p
        simp [h2] at h
        obtain ⟨rfl, rfl⟩ := h
        cases i with
        | zero => simpa using ho
        | succ i => simpa using ih ds ts' r h2 i (by simpa using hi) (by simpa using ho)
    | none =>
      cases ds with
      | nil => simp [fillScalars] at h
      | cons d ds =>
        simp only [fillScalars] at h
        cases h2 : fillScalars os ds with
        | none => simp [h2] at h
        | some p =>
          obtain ⟨ts', r⟩ := p
          simp [h2] at h
          obtain ⟨rfl, rfl⟩ := h
          cases i with
          | zero => simp at ho
          | succ i => simpa using ih ds ts' r h2 i (by simpa using hi) (by simpa using ho)

theorem srp_complete (pk : PubKey G1 G2) (ms : List F) (bf tbf : F) (ts : List F) (c : F)
    (hl : ms.length = ts.length) :
    (srpVerify pk ((srpBuilder pk ms bf tbf ts).respond c) c).isSome = true := by
  rw [C08.honest_request_accepted pk ms bf tbf ts c hl]; rfl

theorem sp_complete (he : IsPairing F e) (pk : PubKey G1 G2) (σ : Sig G1) (ms : List F)
    (hv : psVerify e pk σ ms = true) (bf tbf : F) (ts : List F) (r c : F) (hr : r ≠ 0)
    (hl : ms.length = ts.length) :
    spVerify e pk ((SBuilder.mk' pk ms σ bf tbf ts r).respond c) c = true := by
  rw [spVerify_true']
  exact ZkVerif.sp_complete he pk σ ms ((psVerify_true e pk σ ms).mp hv) bf tbf ts r c hr hl

/-- Range constraints: see `C13.range_complete` (every `v ∈ [0, 2^63)`, every challenge). -/
theorem range_complete (he : IsPairing F e) (rp : RangeParams G1 G2) (hs : rp.sigs.length = 128)
    (hvalid : ∀ d (h : d < rp.sigs.length), psVerify e rp.pk rp.sigs[d] [(d : F)] = true)
    (v : Int) (h0 : 0 ≤ v) (hv : v < 2 ^ 63) (ws : List (DigitDraws F)) (hw : ws.length = 9)
    (hr : ∀ w ∈ ws, w.r ≠ 0) (c : F) :
    ∃ b, RangeBuilder.mk' rp v ws = some b ∧
      rangeVerify e rp (b.respond c) c (c * ((v.toNat : Nat) : F) + b.commitmentScalar) = true :=
  C13.range_complete he rp hs (fun d h => (psVerify_true e _ _ _).mp (hvalid d h)) v h0 hv ws hw hr c

/-! ### Prover and verifier hash the same transcript (so their challenges are equal) -/

theorem cp_same_transcript1 (b : CBuilder F G1) (c : F) :
    (b.respond c).atoms1 (G2 := G2) = b.atoms1 := rfl
theorem cp_same_transcript2 (b : CBuilder F G2) (c : F) :
    (b.respond c).atoms2 (G1 := G1) = b.atoms2 := rfl
theorem sp_same_transcript (b : SBuilder F G1 G2) (c : F) : (b.respond c).atoms = b.atoms := rfl
theorem range_same_transcript (b : RangeBuilder F G1 G2) (c : F) :
    rangeAtoms (b.respond c) = b.atoms := by
  unfold rangeAtoms RangeBuilder.atoms RangeBuilder.respond
  induction b.digitBuilders with
  | nil => rfl
  | cons x xs ih => simp only [List.map_cons, List.flatMap_cons, ih]; rfl

theorem same_challenge (cd : Codecs F G1 G2) (H : List UInt8 → F) (pre post : Transcript F G1 G2)
    (b : SBuilder F G1 G2) (c : F) :
    challengeOf cd H (pre ++ (b.respond c).atoms ++ post) = challengeOf cd H (pre ++ b.atoms ++ post) := by
  rw [sp_same_transcript]

/-! ### The documented constraint patterns, on the response scalars of honest proofs -/

/-- partial opening: the verifier can check `zᵢ = c · p + tᵢ` for a revealed `p = mᵢ` and revealed
commitment scalar `tᵢ`. -/
theorem partial_opening (b : CBuilder F G) (c : F) (i : Nat) (h1 : i < b.ms.length)
    (h2 : i < b.ts.length) :
    (b.respond c).zs[i]'(by simp [CBuilder.respond, h1, h2]) = c * b.ms[i] + b.ts[i] := by
  simp [CBuilder.respond]

/-- equality within a proof or across proofs: equal entries with a shared commitment scalar give
equal response scalars. -/
theorem equality_pattern {G' : Type u} (b : CBuilder F G) (b' : CBuilder F G') (c : F) (i j : Nat)
    (h1 : i < b.ms.length) (h2 : i < b.ts.length) (h1' : j < b'.ms.length) (h2' : j < b'.ts.length)
    (hm : b.ms[i] = b'.ms[j]) (ht : b.ts[i] = b'.ts[j]) :
    (b.respond c).zs[i]'(by simp [CBuilder.respond, h1, h2]) =
      (b'.respond c).zs[j]'(by simp [CBuilder.respond, h1', h2']) := by
  simp [CBuilder.respond, hm, ht]

/-- secret sum `m_k = m_i + m_j` with `t_k = t_i + t_j`. -/
theorem secret_sum (b : CBuilder F G) (c : F) (i j k : Nat)
    (hi : i < b.ms.length) (hi' : i < b.ts.length) (hj : j < b.ms.length) (hj' : j < b.ts.length)
    (hk : k < b.ms.length) (hk' : k < b.ts.length)
    (hm : b.ms[k] = b.ms[i] + b.ms[j]) (ht : b.ts[k] = b.ts[i] + b.ts[j]) :
    (b.respond c).zs[k]'(by simp [CBuilder.respond, hk, hk']) =
      (b.respond c).zs[i]'(by simp [CBuilder.respond, hi, hi']) +
      (b.respond c).zs[j]'(by simp [CBuilder.respond, hj, hj']) := by
  simp [CBuilder.respond, hm, ht]; ring

/-- public addition `m_j = m_i + p` with a shared commitment scalar: `z_j = z_i + c · p`. -/
theorem public_addition {G' : Type u} (b : CBuilder F G) (b' : CBuilder F G') (c p : F) (i j : Nat)
    (h1 : i < b.ms.length) (h2 : i < b.ts.length) (h1' : j < b'.ms.length) (h2' : j < b'.ts.length)
    (hm : b'.ms[j] = b.ms[i] + p) (ht : b'.ts[j] = b.ts[i]) :
    (b'.respond c).zs[j]'(by simp [CBuilder.respond, h1', h2']) =
      (b.respond c).zs[i]'(by simp [CBuilder.respond, h1, h2]) + c * p := by
  simp [CBuilder.respond, hm, ht]; ring

/-- public product `m_j = p · m_i` with `t_j = p · t_i`: `z_j = p · z_i`. -/
theorem public_product {G' : Type u} (b : CBuilder F G) (b' : CBuilder F G') (c p : F) (i j : Nat)
    (h1 : i < b.ms.length) (h2 : i < b.ts.length) (h1' : j < b'.ms.length) (h2' : j < b'.ts.length)
    (hm : b'.ms[j] = p * b.ms[i]) (ht : b'.ts[j] = p * b.ts[i]) :
    (b'.respond c).zs[j]'(by simp [CBuilder.respond, h1', h2']) =
      p * (b.respond c).zs[i]'(by simp [CBuilder.respond, h1, h2]) := by
  simp [CBuilder.respond, hm, ht]; ring

/-- range link: if slot `i` of a proof holds `v` and uses the range builder's cumulative
commitment scalar, the honest range constraint verifies against that slot's response scalar. -/
theorem range_link (he : IsPairing F e) (rp : RangeParams G1 G2) (hs : rp.sigs.length = 128)
    (hvalid : ∀ d (h : d < rp.sigs.length), psVerify e rp.pk rp.sigs[d] [(d : F)] = true)
    (v : Int) (h0 : 0 ≤ v) (hv : v < 2 ^ 63) (ws : List (DigitDraws F)) (hw : ws.length = 9)
    (hr : ∀ w ∈ ws, w.r ≠ 0) (c : F) (b : CBuilder F G) (i : Nat) (h1 : i < b.ms.length)
    (h2 : i < b.ts.length) (hm : b.ms[i] = ((v.toNat : Nat) : F)) :
    ∃ rb, RangeBuilder.mk' rp v ws = some rb ∧
      (b.ts[i] = rb.commitmentScalar →
        rangeVerify e rp (rb.respond c) c ((b.respond c).zs[i]'(by simp [CBuilder.respond, h1, h2])) = true) := by
  obtain ⟨rb, hrb, hver⟩ := range_complete he rp hs hvalid v h0 hv ws hw hr c
  refine ⟨rb, hrb, fun ht => ?_⟩
  rw [partial_opening b c i h1 h2, hm, ht]
  exact hver

section examples
private def pp13 : PedParams Z13 := ⟨2, [3, 5]⟩
example : cpVerify pp13 ((CBuilder.mk' pp13 [0, 12] (3 : Z13) 3 [5, 6]).respond 7) 7 = true :=
  cp_complete pp13 [0, 12] 3 3 [5, 6] 7 rfl
example : fillScalars [some (4 : Z13), none, some 0] [7, 8] = some ([4, 7, 0], [8]) := by decide
end examples

end ZkVerif.C10
