/-
C01 — Merchant establishes only channels whose hidden state matches the agreed values.
-/
import ZkVerif.Lemmas.Establish
import ZkVerif.Model.Merchant
import ZkVerif.Props.C08
import ZkVerif.Props.C12

set_option linter.unusedSectionVars false

namespace ZkVerif.C01
open ZkVerif
universe u
variable {F G1 G2 GT : Type u} [Field F] [AddCommGroup G1] [Module F G1] [AddCommGroup G2]
  [Module F G2] [AddCommGroup GT] [Module F GT] [DecidableEq F] [DecidableEq G1] [DecidableEq G2]
  [DecidableEq GT]
variable {e : G1 → G2 → GT}

/-- The verifier hashes, for the honest customer's proof, exactly what the customer hashed. -/
theorem prover_verifier_same_transcript (pk : PubKey G1 G2) (close : F) (ms : List F)
    (d : EstDraws F) (ctx : List UInt8) (c : F) :
    estTranscript pk close ⟨ms.getD 0 0, ms.getD 3 0, ms.getD 4 0⟩ (estProveWith pk close ms d c) ctx =
      estProverTranscript pk close ms d ctx := rfl

/-- Completeness: the honest customer's establish proof for state message `ms` is accepted for the
public values `(ms₀, ms₃, ms₄)`, and the merchant obtains the two commitments the customer made —
for every hash function, context, message and randomness. -/
theorem establish_complete (cd : Codecs F G1 G2) (H : List UInt8 → F) (pk : PubKey G1 G2) (close : F)
    (ms : List F) (d : EstDraws F) (ctx : List UInt8) (hm : ms.length = 5) (ht : d.tsS.length = 5) :
    estVerify cd H pk close ⟨ms.getD 0 0, ms.getD 3 0, ms.getD 4 0⟩ (estProve cd H pk close ms d ctx) ctx =
      some (commit pk.ped1 d.bfS ms, commit pk.ped1 d.bfC (ms.set 1 close)) := by
  unfold estVerify estProve
  rw [prover_verifier_same_transcript, estVerifyWith_some_iff]
  exact ⟨est_complete_with pk close ms d _ hm ht, rfl⟩

/-- Special soundness of the establish proof (all ten relations): two accepted executions with the
same first message (now including the four revealed commitment scalars, which the transcript binds,
`C12.establish_transcript_binds`) and different challenges yield openings of the state and close-state
commitments that carry exactly the agreed channel id and balances, one shared revocation lock, and
the close tag in the close state. -/
theorem establish_special_sound (pk : PubKey G1 G2) (close : F) (pub : EstPub F) (p p' : EstProof F G1)
    (c c' : F) (hc : c ≠ c')
    (hl1 : p.st.zs.length = 5) (hl2 : p.cl.zs.length = 5) (hl1' : p'.st.zs.length = 5)
    (hl2' : p'.cl.zs.length = 5)
    (hC : p.st.C = p'.st.C) (hT : p.st.T = p'.st.T) (hC2 : p.cl.C = p'.cl.C) (hT2 : p.cl.T = p'.cl.T)
    (hk0 : p.kCid = p'.kCid) (hk1 : p.kClose = p'.kClose) (hk3 : p.kCb = p'.kCb) (hk4 : p.kMb = p'.kMb)
    (a : (estVerifyWith pk close pub p c).isSome = true)
    (a' : (estVerifyWith pk close pub p' c').isSome = true) :
    ∃ rs rc n l, commit pk.ped1 rs [pub.cid, n, l, pub.cb, pub.mb] = p.st.C ∧
                 commit pk.ped1 rc [pub.cid, close, l, pub.cb, pub.mb] = p.cl.C := by
  have ha : EstAccept pk close pub p c := by
    obtain ⟨v, hv⟩ := Option.isSome_iff_exists.mp a
    exact ((estVerifyWith_some_iff pk close pub p c v).mp hv).1
  have ha' : EstAccept pk close pub p' c' := by
    obtain ⟨v, hv⟩ := Option.isSome_iff_exists.mp a'
    exact ((estVerifyWith_some_iff pk close pub p' c' v).mp hv).1
  exact est_special_sound pk close pub p p' c c' hc hl1 hl2 hl1' hl2' hC hT hC2 hT2 hk0 hk1 hk3 hk4 ha ha'

/-- What the merchant signs: if `initialize` accepts, the returned closing signature is the blind
signature on the proof's close-state commitment and the returned verified state is the proof's
state commitment; so (by `C08.unblind_verifies_iff_opening`) the closing signature and the pay token
later issued by `activate` unblind to valid signatures on `(m', r')` iff `(m', r')` opens the
respective commitment. -/
theorem initialize_signs_proven (he : IsPairing F e) (cd : Codecs F G1 G2) (H : List UInt8 → F)
    (m : MerchantCfg F G1 G2) (hk : m.kp.Honest) (hg1 : m.kp.pk.g1 ≠ 0) (hg2 : m.kp.pk.g2 ≠ 0)
    (close : F) (pub : EstPub F) (p : EstProof F G1) (ctx : List UInt8) (u u' : F) (hu : u ≠ 0)
    (hu' : u' ≠ 0) (σ : Sig G1) (v : G1)
    (h : m.initialize cd H close pub p ctx u = some (σ, v)) :
    v = p.st.C ∧ σ = Sig.blindSign m.kp u p.cl.C ∧
    (∀ (r' : F) (ms' : List F), psVerify e m.kp.pk (σ.unblind r') ms' = true ↔ commit m.kp.pk.ped1 r' ms' = p.cl.C) ∧
    (∀ (r' : F) (ms' : List F), psVerify e m.kp.pk ((m.activate u' v).unblind r') ms' = true ↔
      commit m.kp.pk.ped1 r' ms' = p.st.C) := by
  unfold MerchantCfg.initialize at h
  cases hv : estVerify cd H m.kp.pk close pub p ctx with
  | none => rw [hv] at h; cases h
  | some w =>
    obtain ⟨s, cl⟩ := w
    rw [hv] at h
    simp only [Option.some.injEq, Prod.mk.injEq] at h
    obtain ⟨rfl, rfl⟩ := h
    unfold estVerify at hv
    obtain ⟨_, hw⟩ := (estVerifyWith_some_iff _ _ _ _ _ _).mp hv
    simp only [Prod.mk.injEq] at hw
    obtain ⟨rfl, rfl⟩ := hw
    refine ⟨rfl, rfl, ?_, ?_⟩
    · intro r' ms'
      exact C08.unblind_verifies_iff_opening he m.kp hk hg1 hg2 u hu _ r' ms'
    · intro r' ms'
      exact C08.unblind_verifies_iff_opening he m.kp hk hg1 hg2 u' hu' _ r' ms'

/-- A refused proof yields nothing. -/
theorem initialize_none_of_reject (cd : Codecs F G1 G2) (H : List UInt8 → F) (m : MerchantCfg F G1 G2)
    (close : F) (pub : EstPub F) (p : EstProof F G1) (ctx : List UInt8) (u : F)
    (h : ¬ EstAccept m.kp.pk close pub p (challengeOf cd H (estTranscript m.kp.pk close pub p ctx))) :
    m.initialize cd H close pub p ctx u = none := by
  unfold MerchantCfg.initialize estVerify estVerifyWith
  rw [if_neg h]

/-! ### The pinned verifier is forgeable (defect D1) -/

/-- the forger: honest responses for the hidden state `msH`, revealed commitment scalars solved
from the verifier's equations for the agreed public values *after* the challenge is known -/
def Legacy.forge (pk : PubKey G1 G2) (close : F) (pub : EstPub F) (msH : List F) (d : EstDraws F)
    (c : F) : EstProof F G1 :=
  let b := estBuilders pk close msH d
  let st := b.1.respond c
  let cl := b.2.respond c
  ⟨st.zs.getD 0 0 - c * pub.cid, cl.zs.getD 1 0 - c * close, st.zs.getD 3 0 - c * pub.cb,
    st.zs.getD 4 0 - c * pub.mb, st, cl⟩

theorem Legacy.forge_accepts (pk : PubKey G1 G2) (close : F) (pub : EstPub F) (msH : List F)
    (d : EstDraws F) (c : F) (hm : msH.length = 5) (ht : d.tsS.length = 5) :
    EstAccept pk close pub (Legacy.forge pk close pub msH d c) c := by
  obtain ⟨m0, m1, m2, m3, m4, rfl⟩ := list_len5 msH hm
  obtain ⟨t0, t1, t2, t3, t4, hts⟩ := list_len5 d.tsS ht
  unfold EstAccept Legacy.forge estBuilders srpBuilder
  simp only [hts]
  refine ⟨cp_complete pk.ped1 _ _ _ _ c rfl, cp_complete pk.ped1 _ _ _ _ c rfl, ?_⟩
  simp [CBuilder.respond, CBuilder.mk']

/-- the pinned transcript of the forged proof does not depend on the challenge it is answered with -/
theorem Legacy.forge_transcript (pk : PubKey G1 G2) (close : F) (pub : EstPub F) (msH : List F)
    (d : EstDraws F) (ctx : List UInt8) (c c' : F) :
    Legacy.estTranscript pk close pub (Legacy.forge pk close pub msH d c) ctx =
      Legacy.estTranscript pk close pub (Legacy.forge pk close pub msH d c') ctx := rfl

/-- For the pinned verifier (revealed commitment scalars not hashed): for *every* hash function,
merchant key, agreed public values and context, and for every hidden state message `msH` whatsoever
(other channel id, other balances), there is a proof that the merchant accepts and for which it
blind-signs the commitments to the hidden state and close state. -/
theorem Legacy.establish_forgeable (cd : Codecs F G1 G2) (H : List UInt8 → F) (pk : PubKey G1 G2)
    (close : F) (pub : EstPub F) (ctx : List UInt8) (msH : List F) (d : EstDraws F)
    (hm : msH.length = 5) (ht : d.tsS.length = 5) :
    ∃ p : EstProof F G1,
      Legacy.estVerify cd H pk close pub p ctx =
        some (commit pk.ped1 d.bfS msH, commit pk.ped1 d.bfC (msH.set 1 close)) := by
  -- the challenge the merchant will derive (it does not depend on the answer)
  obtain ⟨c, hc⟩ : ∃ c, c = challengeOf cd H
      (Legacy.estTranscript pk close pub (Legacy.forge pk close pub msH d 0) ctx) := ⟨_, rfl⟩
  refine ⟨Legacy.forge pk close pub msH d c, ?_⟩
  unfold Legacy.estVerify
  rw [Legacy.forge_transcript pk close pub msH d ctx c 0, ← hc, estVerifyWith_some_iff]
  exact ⟨Legacy.forge_accepts pk close pub msH d c hm ht, rfl⟩

section examples
private def pk13 : PubKey Z13 Z13 := ⟨4, [8, 7, 2, 3, 5], 6, 5, [12, 4, 1, 9, 10]⟩
private def d13 : EstDraws Z13 := ⟨2, 3, [1, 2, 3, 4, 5], 6, 7, 8⟩
example : EstAccept pk13 (11 : Z13) ⟨1, 4, 5⟩ (estProveWith pk13 11 [1, 2, 3, 4, 5] d13 9) 9 := by decide
example : ¬ EstAccept pk13 (11 : Z13) ⟨1, 4, 6⟩ (estProveWith pk13 11 [1, 2, 3, 4, 5] d13 9) 9 := by decide
end examples

end ZkVerif.C01
