/-
C12 — Challenges bind every first-message element and match for prover and verifier.

`H` (SHA3-256 followed by `Scalar::from_raw`) is an arbitrary function: what is proved is that the
*hashed byte string* changes whenever a bound value changes; "the challenge changes" then holds
unless two distinct byte strings with the same hash have been exhibited.
-/
import ZkVerif.Lemmas.Transcript
import ZkVerif.Props.C10

set_option linter.unusedSectionVars false

namespace ZkVerif.C12
open ZkVerif
universe u
variable {F G1 G2 : Type u}

/-- Generic binding: for transcripts produced by the same code path, a different atom list gives a
different hashed byte string. -/
theorem bytes_change (cd : Codecs F G1 G2) (hcd : cd.Lawful) (t1 t2 : Transcript F G1 G2)
    (hs : t1.map Atom.shape = t2.map Atom.shape) (hne : t1 ≠ t2) : t1.bytes cd ≠ t2.bytes cd :=
  fun hb => hne (transcript_bytes_inj cd hcd t1 t2 hs hb)

/-- … hence a different challenge, or a collision of `H` has been exhibited. -/
theorem challenge_changes_or_collision (cd : Codecs F G1 G2) (hcd : cd.Lawful) (H : List UInt8 → F)
    (t1 t2 : Transcript F G1 G2) (hs : t1.map Atom.shape = t2.map Atom.shape) (hne : t1 ≠ t2) :
    challengeOf cd H t1 ≠ challengeOf cd H t2 ∨
      (t1.bytes cd ≠ t2.bytes cd ∧ H (t1.bytes cd) = H (t2.bytes cd)) := by
  by_cases h : challengeOf cd H t1 = challengeOf cd H t2
  · exact Or.inr ⟨bytes_change cd hcd t1 t2 hs hne, h⟩
  · exact Or.inl h

/-! ### every `ChallengeInput` of the library: the consumed atoms determine the value -/

theorem commitment_proof_atoms_inj1 (p p' : CProof F G1) (h : p.atoms1 (G2 := G2) = p'.atoms1) :
    p.C = p'.C ∧ p.T = p'.T := by
  simpa [CProof.atoms1] using h

theorem commitment_proof_atoms_inj2 (p p' : CProof F G2) (h : p.atoms2 (G1 := G1) = p'.atoms2) :
    p.C = p'.C ∧ p.T = p'.T := by
  simpa [CProof.atoms2] using h

theorem signature_atoms_inj (σ σ' : Sig G1) (h : σ.atoms (F := F) (G2 := G2) = σ'.atoms) : σ = σ' := by
  cases σ; cases σ'; simpa [Sig.atoms] using h

theorem signature_proof_atoms_inj (p p' : SProof F G1 G2) (h : p.atoms = p'.atoms) :
    p.sig = p'.sig ∧ p.cp.C = p'.cp.C ∧ p.cp.T = p'.cp.T := by
  have := sproof_atoms_inj p p' h
  simpa [SProof.first] using this

theorem range_constraint_atoms_inj (ps ps' : List (SProof F G1 G2)) (hl : ps.length = ps'.length)
    (h : rangeAtoms ps = rangeAtoms ps') : ps.map SProof.first = ps'.map SProof.first :=
  rangeAtoms_inj ps ps' hl h

theorem public_key_atoms_inj (pk pk' : PubKey G1 G2) (h1 : pk.y1s.length = pk'.y1s.length)
    (h : pk.atoms (F := F) = pk'.atoms) : pk = pk' := pk_atoms_inj pk pk' h1 h

theorem pedersen_params_atoms_inj1 (pp pp' : PedParams G1)
    (h : pp.atoms1 (F := F) (G2 := G2) = pp'.atoms1) : pp = pp' := by
  cases pp; cases pp'
  simp only [PedParams.atoms1, List.cons.injEq, Atom.g1.injEq] at h
  rw [h.1, map_g1_inj _ _ h.2]

theorem pedersen_params_atoms_inj2 (pp pp' : PedParams G2)
    (h : pp.atoms2 (F := F) (G1 := G1) = pp'.atoms2) : pp = pp' := by
  cases pp; cases pp'
  simp only [PedParams.atoms2, List.cons.injEq, Atom.g2.injEq] at h
  rw [h.1, map_g2_inj _ _ h.2]

theorem range_params_atoms_inj (rp rp' : RangeParams G1 G2) (hs : rp.sigs.length = rp'.sigs.length)
    (h1 : rp.pk.y1s.length = rp'.pk.y1s.length) (h : rp.atoms (F := F) = rp'.atoms) : rp = rp' :=
  rp_atoms_inj rp rp' hs h1 h

/-! ### prover and verifier derive the same challenge (re-exported from C10) -/

theorem builder_proof_same_transcript_cp1 (b : CBuilder F G1) [Add F] [Mul F] (c : F) :
    (b.respond c).atoms1 (G2 := G2) = b.atoms1 := rfl
theorem builder_proof_same_transcript_sp [Add F] [Mul F] (b : SBuilder F G1 G2) (c : F) :
    (b.respond c).atoms = b.atoms := rfl

/-! ### zkAbacus level -/

theorem map_shape_g1 (xs : List G1) :
    (xs.map (Atom.g1 (F := F) (G2 := G2))).map Atom.shape = List.replicate xs.length (1, 48) := by
  induction xs with
  | nil => rfl
  | cons x xs ih => simp only [List.map_cons, ih, List.length_cons, List.replicate_succ, Atom.shape]

theorem map_shape_g2 (xs : List G2) :
    (xs.map (Atom.g2 (F := F) (G1 := G1))).map Atom.shape = List.replicate xs.length (2, 96) := by
  induction xs with
  | nil => rfl
  | cons x xs ih => simp only [List.map_cons, ih, List.length_cons, List.replicate_succ, Atom.shape]

theorem pk_atoms_shape (pk : PubKey G1 G2) :
    (pk.atoms (F := F)).map Atom.shape =
      [(1, 48), (2, 96), (2, 96)] ++ List.replicate pk.y1s.length (1, 48) ++ List.replicate pk.y2s.length (2, 96) := by
  simp only [PubKey.atoms, List.map_append, map_shape_g1, map_shape_g2, List.map_cons, List.map_nil, Atom.shape]

/-- shapes of an establish transcript depend only on the tuple lengths and the context length -/
theorem estTranscript_shape (pk pk' : PubKey G1 G2) (close close' : F) (pub pub' : EstPub F)
    (p p' : EstProof F G1) (ctx ctx' : List UInt8) (h1 : pk.y1s.length = pk'.y1s.length)
    (h2 : pk.y2s.length = pk'.y2s.length) (h3 : ctx.length = ctx'.length) :
    (estTranscript pk close pub p ctx).map Atom.shape = (estTranscript pk' close' pub' p' ctx').map Atom.shape := by
  simp only [estTranscript, CProof.atoms1, List.map_append, pk_atoms_shape, List.map_cons, List.map_nil,
    Atom.shape, h1, h2, h3]

/-- No field of an establish proof other than a response scalar — and no public value, key
element or context byte — can be altered without altering the byte string the merchant hashes. -/
theorem establish_transcript_binds (cd : Codecs F G1 G2) (hcd : cd.Lawful) (pk pk' : PubKey G1 G2)
    (close close' : F) (pub pub' : EstPub F) (p p' : EstProof F G1) (ctx ctx' : List UInt8)
    (h1 : pk.y1s.length = pk'.y1s.length) (h2 : pk.y2s.length = pk'.y2s.length)
    (h3 : ctx.length = ctx'.length)
    (hb : (estTranscript pk close pub p ctx).bytes cd = (estTranscript pk' close' pub' p' ctx').bytes cd) :
    pk = pk' ∧ close = close' ∧ pub = pub' ∧ ctx = ctx' ∧
    p.st.C = p'.st.C ∧ p.st.T = p'.st.T ∧ p.cl.C = p'.cl.C ∧ p.cl.T = p'.cl.T ∧
    p.kCid = p'.kCid ∧ p.kClose = p'.kClose ∧ p.kCb = p'.kCb ∧ p.kMb = p'.kMb :=
  estTranscript_inj pk pk' close close' pub pub' p p' ctx ctx' h1 h2
    (transcript_bytes_inj cd hcd _ _ (estTranscript_shape pk pk' close close' pub pub' p p' ctx ctx' h1 h2 h3) hb)

/-- At the pinned commit the four revealed commitment scalars were *not* bound: two establish
proofs differing only in them are hashed to the same byte string (defect D1). -/
theorem Legacy.establish_scalars_unbound (pk : PubKey G1 G2) (close : F) (pub : EstPub F)
    (p : EstProof F G1) (ctx : List UInt8) (k0 k1 k3 k4 : F) :
    Legacy.estTranscript pk close pub { p with kCid := k0, kClose := k1, kCb := k3, kMb := k4 } ctx =
      Legacy.estTranscript pk close pub p ctx := rfl

/-- … likewise the two revealed commitment scalars of a pay proof (defect D2). -/
theorem Legacy.pay_scalars_unbound (pm : PayParams G1 G2) (close : F) (pub : PayPub F)
    (p : PayProofM F G1 G2) (ctx : List UInt8) (k0 k1 : F) :
    Legacy.payTranscript pm close pub { p with kNonce := k0, kClose := k1 } ctx =
      Legacy.payTranscript pm close pub p ctx := rfl

/-- Pay proofs: equal hashed atoms determine keys, range parameters, nonce, context and every
non-response field (see `pay_transcript_binds` for the byte-level statement). -/
theorem pay_atoms_bind (pm pm' : PayParams G1 G2) (close close' : F) (pub pub' : PayPub F)
    (p p' : PayProofM F G1 G2) (ctx ctx' : List UInt8)
    (h1 : pm.pk.y1s.length = pm'.pk.y1s.length) (h2 : pm.pk.y2s.length = pm'.pk.y2s.length)
    (h3 : pm.rp.sigs.length = pm'.rp.sigs.length) (h4 : pm.rp.pk.y1s.length = pm'.rp.pk.y1s.length)
    (h5 : pm.rp.pk.y2s.length = pm'.rp.pk.y2s.length)
    (h6 : p.cbR.length = p'.cbR.length) (h7 : p.mbR.length = p'.mbR.length)
    (h : payTranscript pm close pub p ctx = payTranscript pm' close' pub' p' ctx') :
    pm.pk = pm'.pk ∧ pm.rp = pm'.rp ∧ pub.nonce = pub'.nonce ∧ close = close' ∧ ctx = ctx' ∧
    p.rl.C = p'.rl.C ∧ p.rl.T = p'.rl.T ∧ p.st.C = p'.st.C ∧ p.st.T = p'.st.T ∧
    p.cl.C = p'.cl.C ∧ p.cl.T = p'.cl.T ∧ p.tok.first = p'.tok.first ∧
    p.cbR.map SProof.first = p'.cbR.map SProof.first ∧
    p.mbR.map SProof.first = p'.mbR.map SProof.first ∧
    p.kNonce = p'.kNonce ∧ p.kClose = p'.kClose :=
  payTranscript_inj pm pm' close close' pub pub' p p' ctx ctx' h1 h2 h3 h4 h5 h6 h7 h

/-! ### byte-level binding of the pay transcript -/

theorem rangeAtoms_shape (ps : List (SProof F G1 G2)) :
    (rangeAtoms ps).map Atom.shape =
      (List.replicate ps.length [(1, 48), (1, 48), (2, 96), (2, 96)]).flatten := by
  induction ps with
  | nil => rfl
  | cons p ps ih =>
    simp only [rangeAtoms, List.flatMap_cons, List.map_append, List.length_cons, List.replicate_succ,
      List.flatten_cons] at ih ⊢
    rw [ih]
    rfl

theorem sigs_atoms_shape (σs : List (Sig G1)) :
    (σs.flatMap (Sig.atoms (F := F) (G2 := G2))).map Atom.shape =
      (List.replicate σs.length [(1, 48), (1, 48)]).flatten := by
  induction σs with
  | nil => rfl
  | cons σ σs ih =>
    simp only [List.flatMap_cons, List.map_append, List.length_cons, List.replicate_succ, List.flatten_cons] at ih ⊢
    rw [ih]
    rfl

/-- shapes of a pay transcript depend only on the tuple / parameter-set lengths and the context length -/
theorem payTranscript_shape (pm pm' : PayParams G1 G2) (close close' : F) (pub pub' : PayPub F)
    (p p' : PayProofM F G1 G2) (ctx ctx' : List UInt8)
    (h1 : pm.pk.y1s.length = pm'.pk.y1s.length) (h2 : pm.pk.y2s.length = pm'.pk.y2s.length)
    (h3 : pm.rp.sigs.length = pm'.rp.sigs.length) (h4 : pm.rp.pk.y1s.length = pm'.rp.pk.y1s.length)
    (h5 : pm.rp.pk.y2s.length = pm'.rp.pk.y2s.length)
    (h6 : p.cbR.length = p'.cbR.length) (h7 : p.mbR.length = p'.mbR.length) (h8 : ctx.length = ctx'.length) :
    (payTranscript pm close pub p ctx).map Atom.shape = (payTranscript pm' close' pub' p' ctx').map Atom.shape := by
  simp only [payTranscript, RangeParams.atoms, CProof.atoms1, SProof.atoms, Sig.atoms, CProof.atoms2,
    List.map_append, pk_atoms_shape, rangeAtoms_shape, sigs_atoms_shape, List.map_cons, List.map_nil,
    Atom.shape, h1, h2, h3, h4, h5, h6, h7, h8]

/-- No field of a pay proof other than a response scalar — and no key or range-parameter element,
nonce or context byte — can be altered without altering the byte string the merchant hashes
(byte-level form of `pay_atoms_bind`, for the repaired layout). -/
theorem pay_transcript_binds (cd : Codecs F G1 G2) (hcd : cd.Lawful) (pm pm' : PayParams G1 G2)
    (close close' : F) (pub pub' : PayPub F) (p p' : PayProofM F G1 G2) (ctx ctx' : List UInt8)
    (h1 : pm.pk.y1s.length = pm'.pk.y1s.length) (h2 : pm.pk.y2s.length = pm'.pk.y2s.length)
    (h3 : pm.rp.sigs.length = pm'.rp.sigs.length) (h4 : pm.rp.pk.y1s.length = pm'.rp.pk.y1s.length)
    (h5 : pm.rp.pk.y2s.length = pm'.rp.pk.y2s.length)
    (h6 : p.cbR.length = p'.cbR.length) (h7 : p.mbR.length = p'.mbR.length) (h8 : ctx.length = ctx'.length)
    (hb : (payTranscript pm close pub p ctx).bytes cd = (payTranscript pm' close' pub' p' ctx').bytes cd) :
    pm.pk = pm'.pk ∧ pm.rp = pm'.rp ∧ pub.nonce = pub'.nonce ∧ close = close' ∧ ctx = ctx' ∧
    p.rl.C = p'.rl.C ∧ p.rl.T = p'.rl.T ∧ p.st.C = p'.st.C ∧ p.st.T = p'.st.T ∧
    p.cl.C = p'.cl.C ∧ p.cl.T = p'.cl.T ∧ p.tok.first = p'.tok.first ∧
    p.cbR.map SProof.first = p'.cbR.map SProof.first ∧
    p.mbR.map SProof.first = p'.mbR.map SProof.first ∧
    p.kNonce = p'.kNonce ∧ p.kClose = p'.kClose :=
  pay_atoms_bind pm pm' close close' pub pub' p p' ctx ctx' h1 h2 h3 h4 h5 h6 h7
    (transcript_bytes_inj cd hcd _ _
      (payTranscript_shape pm pm' close close' pub pub' p p' ctx ctx' h1 h2 h3 h4 h5 h6 h7 h8) hb)

/-! ### binding under every layout (order of the `.with(…)` calls) -/

theorem getD_eq_of_layout_eq (L : List Nat) (t t' : Transcript F G1 G2)
    (h : t.layout L = t'.layout L) (i : Nat) (hi : i ∈ L) :
    t.getD i (.bytes []) = t'.getD i (.bytes []) := by
  unfold Transcript.layout at h
  induction L with
  | nil => cases hi
  | cons a L ih =>
    simp only [List.map_cons, List.cons.injEq] at h
    rcases List.mem_cons.mp hi with rfl | hm
    · exact h.1
    · exact ih h.2 hm

/-- A layout that feeds every item is injective on transcripts of that many items. -/
theorem layout_inj (L : List Nat) (n : Nat) (hc : layoutCovers L n = true) (t t' : Transcript F G1 G2)
    (hl : t.length = n) (hl' : t'.length = n) (h : t.layout L = t'.layout L) : t = t' := by
  unfold layoutCovers at hc
  simp only [Bool.and_eq_true, List.all_eq_true, List.mem_range, List.contains_iff_mem] at hc
  apply List.ext_getElem (by rw [hl, hl'])
  intro i h1 h2
  have hi : i ∈ L := by simpa using hc.1 i (by omega)
  have := getD_eq_of_layout_eq L t t' h i hi
  simpa [List.getD_eq_getElem?_getD, List.getElem?_eq_getElem h1, List.getElem?_eq_getElem h2] using this

theorem layout_shape (L : List Nat) (t t' : Transcript F G1 G2)
    (hs : t.map Atom.shape = t'.map Atom.shape) :
    (t.layout L).map Atom.shape = (t'.layout L).map Atom.shape := by
  unfold Transcript.layout
  rw [List.map_map, List.map_map]
  apply List.map_congr_left
  intro i _
  have hlen : t.length = t'.length := by simpa using congrArg List.length hs
  simp only [Function.comp, List.getD_eq_getElem?_getD]
  by_cases hi : i < t.length
  · have hi' : i < t'.length := hlen ▸ hi
    rw [List.getElem?_eq_getElem hi, List.getElem?_eq_getElem hi']
    simp only [Option.getD_some]
    have := congrArg (fun l => l[i]?) hs
    simpa [List.getElem?_map, List.getElem?_eq_getElem hi, List.getElem?_eq_getElem hi'] using this
  · have hi' : ¬ i < t'.length := hlen ▸ hi
    rw [List.getElem?_eq_none (by omega), List.getElem?_eq_none (by omega)]

/-- **Establish transcript, any layout.**  Whatever order the items are hashed in — provided every
item is hashed (`layoutCovers`, evaluated by the driver on the layout extracted from the
implementation's recorded bytes on every run) — equal hashed byte strings determine the key, the
public values, the context and every non-response field of the proof. -/
theorem establish_transcript_binds_layout (cd : Codecs F G1 G2) (hcd : cd.Lawful) (L : List Nat)
    (pk pk' : PubKey G1 G2) (close close' : F) (pub pub' : EstPub F) (p p' : EstProof F G1) (ctx ctx' : List UInt8)
    (h1 : pk.y1s.length = pk'.y1s.length) (h2 : pk.y2s.length = pk'.y2s.length)
    (h3 : ctx.length = ctx'.length)
    (hc : layoutCovers L (estTranscript pk close pub p ctx).length = true)
    (hb : ((estTranscript pk close pub p ctx).layout L).bytes cd = ((estTranscript pk' close' pub' p' ctx').layout L).bytes cd) :
    pk = pk' ∧ close = close' ∧ pub = pub' ∧ ctx = ctx' ∧
    p.st.C = p'.st.C ∧ p.st.T = p'.st.T ∧ p.cl.C = p'.cl.C ∧ p.cl.T = p'.cl.T ∧
    p.kCid = p'.kCid ∧ p.kClose = p'.kClose ∧ p.kCb = p'.kCb ∧ p.kMb = p'.kMb := by
  have hs := estTranscript_shape pk pk' close close' pub pub' p p' ctx ctx' h1 h2 h3
  have hlen : (estTranscript pk' close' pub' p' ctx').length = (estTranscript pk close pub p ctx).length := by
    simpa using (congrArg List.length hs).symm
  have hL := transcript_bytes_inj cd hcd _ _ (layout_shape L _ _ hs) hb
  have := layout_inj L _ hc _ _ rfl hlen hL
  exact estTranscript_inj pk pk' close close' pub pub' p p' ctx ctx' h1 h2 this

/-- **Pay transcript, any layout.** -/
theorem pay_transcript_binds_layout (cd : Codecs F G1 G2) (hcd : cd.Lawful) (L : List Nat) (pm pm' : PayParams G1 G2)
    (close close' : F) (pub pub' : PayPub F) (p p' : PayProofM F G1 G2) (ctx ctx' : List UInt8)
    (h1 : pm.pk.y1s.length = pm'.pk.y1s.length) (h2 : pm.pk.y2s.length = pm'.pk.y2s.length)
    (h3 : pm.rp.sigs.length = pm'.rp.sigs.length) (h4 : pm.rp.pk.y1s.length = pm'.rp.pk.y1s.length)
    (h5 : pm.rp.pk.y2s.length = pm'.rp.pk.y2s.length)
    (h6 : p.cbR.length = p'.cbR.length) (h7 : p.mbR.length = p'.mbR.length) (h8 : ctx.length = ctx'.length)
    (hc : layoutCovers L (payTranscript pm close pub p ctx).length = true)
    (hb : ((payTranscript pm close pub p ctx).layout L).bytes cd = ((payTranscript pm' close' pub' p' ctx').layout L).bytes cd) :
    pm.pk = pm'.pk ∧ pm.rp = pm'.rp ∧ pub.nonce = pub'.nonce ∧ close = close' ∧ ctx = ctx' ∧
    p.rl.C = p'.rl.C ∧ p.rl.T = p'.rl.T ∧ p.st.C = p'.st.C ∧ p.st.T = p'.st.T ∧
    p.cl.C = p'.cl.C ∧ p.cl.T = p'.cl.T ∧ p.tok.first = p'.tok.first ∧
    p.cbR.map SProof.first = p'.cbR.map SProof.first ∧
    p.mbR.map SProof.first = p'.mbR.map SProof.first ∧
    p.kNonce = p'.kNonce ∧ p.kClose = p'.kClose := by
  have hs := payTranscript_shape pm pm' close close' pub pub' p p' ctx ctx' h1 h2 h3 h4 h5 h6 h7 h8
  have hlen : (payTranscript pm' close' pub' p' ctx').length = (payTranscript pm close pub p ctx).length := by
    simpa using (congrArg List.length hs).symm
  have hL := transcript_bytes_inj cd hcd _ _ (layout_shape L _ _ hs) hb
  have := layout_inj L _ hc _ _ rfl hlen hL
  exact pay_atoms_bind pm pm' close close' pub pub' p p' ctx ctx' h1 h2 h3 h4 h5 h6 h7 this

/-- the identity layout is the model's default order -/
theorem layout_range (t : Transcript F G1 G2) : t.layout (List.range t.length) = t := by
  unfold Transcript.layout
  apply List.ext_getElem (by simp)
  intro i h1 h2
  simp only [List.length_map, List.length_range] at h1
  simp [List.getD_eq_getElem?_getD, List.getElem?_eq_getElem h1]

end ZkVerif.C12
