/-
C05's revocation-pair theorems at the executed hash and the executed scalar codec: what the driver answers to
`revpair-decode-sha3` / `revpair-new-sha3` (`Ops.execRevPairDecode`, `Ops.execRevPairNew`: the dispatch calls these very terms) (the model of `RevocationPair::try_from` / `::new` run with `Model/Sha3.lean`
and `Scalar::from_bytes`) has a lock equal to the canonical little-endian reading of SHA3-256(secret ‖ index).
Instances of theorems that quantify over every field, hash and codec (the field structure on `Fq` is
`ExecInstance.instField`, whose operations are the executed ones) — nothing is transferred.
-/
import ZkVerif.Props.Sha3
import ZkVerif.Props.C05
import ZkVerif.Exec.Ops
import ZkVerif.Props.ExecInstance

namespace ZkVerif.Sha3
open ZkVerif ZkVerif.Ops

/-- the type invariant, spelled out at the executed hash and codec -/
def ExecLockOk (p : RevPair Fq) : Prop :=
  Ops.decLE (sha3_256 (encFq p.secret ++ [UInt8.ofNat p.index])) = p.lock.v

theorem inv_exec (p : RevPair Fq) (h : C05.RevPair.Inv sha3_256 decFq encFq p) : ExecLockOk p := by
  unfold C05.RevPair.Inv decFq at h
  unfold ExecLockOk
  split at h
  · have := Option.some.inj h
    rw [← this]
  · cases h

/-- every pair the executed decoder lets through: the fields are the decoded ones and the lock is the digest -/
theorem exec_decoded_pair_inv (lock secret : Fq) (index : Nat) (p : RevPair Fq)
    (h : execRevPairDecode lock secret index = .ok p) :
    ExecLockOk p ∧ p.lock = lock ∧ p.secret = secret ∧ p.index = index := by
  obtain ⟨hi, h1, h2, h3⟩ := C05.decoded_pair_inv sha3_256 decFq encFq lock secret index p h
  exact ⟨inv_exec p hi, h1, h2, h3⟩

/-- every pair the executed generator returns, for every randomness stream -/
theorem exec_generated_pair_inv (s : Ops.St) (p : RevPair Fq) (r : Ops.St)
    (h : execRevPairNew s = some (p, r)) : ExecLockOk p :=
  inv_exec p (C05.generated_pair_inv (G1 := Fq) (G2 := Fq) sha3_256 decFq encFq s p r h)

/-- a lock that is not the canonical digest of (secret, index) is refused by the executed decoder -/
theorem exec_decode_rejects_wrong_lock (lock secret : Fq) (index : Nat)
    (h : decFq (sha3_256 (encFq secret ++ [UInt8.ofNat index])) ≠ some lock) :
    ∃ err, execRevPairDecode lock secret index = .error err :=
  C05.decode_rejects_wrong_lock sha3_256 decFq encFq lock secret index h


/-! ### the state always has 25 lanes: the defaults of `getD` in `Model/Sha3.lean` are never used -/

theorem round_size (a : St) (k : UInt64) : (round a k).size = 25 := by
  simp [round, iota, chi]

theorem xorBlock_size (a : St) (blk : List UInt8) : (xorBlock a blk).size = 25 := by
  simp [xorBlock]

theorem keccakF_size (a : St) (h : a.size = 25) : (keccakF a).size = 25 := by
  have key : ∀ (l : List UInt64) (a : St), a.size = 25 → (l.foldl round a).size = 25 := by
    intro l
    induction l with
    | nil => intro a h; simpa using h
    | cons k ks ih => intro a _; simp only [List.foldl_cons]; exact ih _ (round_size a k)
  exact key rc a h

theorem absorb_size (f : Nat) (a : St) (bs : List UInt8) (h : a.size = 25) : (absorb f a bs).size = 25 := by
  induction f generalizing a bs with
  | zero => simpa [absorb] using h
  | succ f ih =>
    simp only [absorb]
    split
    · exact h
    · exact ih _ _ (keccakF_size _ (xorBlock_size _ _))

/-- the state the digest is squeezed from has 25 lanes, for every message -/
theorem squeezed_state_size (bs : List UInt8) :
    (absorb ((pad bs).length / rate + 1) St.zero (pad bs)).size = 25 :=
  absorb_size _ _ _ (by simp [St.zero])

end ZkVerif.Sha3
