/-
C16 — Decoding untrusted bytes never panics, aborts or over-allocates.

For every wire type description, every byte string and every behaviour of the opaque element
decoders.  (A theorem cannot exhibit an abort of the Rust runtime; the model predicts the outcome
class and the allocation request, the correspondence run shows what the process does.)
-/
import ZkVerif.Model.Codec

namespace ZkVerif.C16
open ZkVerif.Codec

mutual
theorem decode_no_panic (env : Env) (h : env.legacy = false) :
    ∀ (t : Ty) (bs : List UInt8) (a : Alloc), (decode env t bs a).1 ≠ .panic
  | .scalar, bs, a => by
      unfold decode
      split
      · simp
      · simp only
        split <;> simp
  | .g1, bs, a => by
      unfold decode
      split
      · simp
      · split <;> simp
  | .g2, bs, a => by
      unfold decode
      split
      · simp
      · split <;> simp
  | .u8, bs, a => by unfold decode; split <;> simp
  | .u64, bs, a => by unfold decode; split <;> simp
  | .i64, bs, a => by unfold decode; split <;> simp
  | .raw n, bs, a => by unfold decode; split <;> simp
  | .rep n t, bs, a => by
      unfold decode
      have := decodeN_no_panic env h t n bs a
      split <;> simp_all
  | .tup ts, bs, a => by
      unfold decode
      have := decodeAll_no_panic env h ts bs a
      split <;> simp_all
  | .chk v t, bs, a => by
      unfold decode
      have := decode_no_panic env h t bs a
      split
      · split <;> simp
      · simp
      · simp_all
  | .arr n t, bs, a => by
      unfold decode
      split
      · simp
      · simp only
        split
        · have := decodeN_no_panic env h t (decLE (bs.take 8)) (bs.drop 8) a
          split
          · split <;> simp
          · simp
          · simp_all
        · have := decodeN_no_panic env h t (n + 1) (bs.drop 8) a
          split
          · simp [h]
          · simp
          · simp_all
  | .vec t, bs, a => by
      unfold decode
      split
      · simp
      · simp only
        have := decodeN_no_panic env h t (decLE (bs.take 8)) (bs.drop 8)
          (max a (if env.legacy then decLE (bs.take 8) else min (decLE (bs.take 8)) 4096))
        split <;> simp_all

theorem decodeN_no_panic (env : Env) (h : env.legacy = false) (t : Ty) :
    ∀ (n : Nat) (bs : List UInt8) (a : Alloc), (decodeN env t n bs a).1 ≠ .panic
  | 0, bs, a => by unfold decodeN; simp
  | n + 1, bs, a => by
      unfold decodeN
      have h1 := decode_no_panic env h t bs a
      split
      · rename_i v r a' _
        have h2 := decodeN_no_panic env h t n r a'
        split <;> simp_all
      · simp
      · simp_all

theorem decodeAll_no_panic (env : Env) (h : env.legacy = false) :
    ∀ (ts : List Ty) (bs : List UInt8) (a : Alloc), (decodeAll env ts bs a).1 ≠ .panic
  | [], bs, a => by unfold decodeAll; simp
  | t :: ts, bs, a => by
      unfold decodeAll
      have h1 := decode_no_panic env h t bs a
      split
      · rename_i v r a' _
        have h2 := decodeAll_no_panic env h ts r a'
        split <;> simp_all
      · simp
      · simp_all
end


/-! ### allocation requests stay bounded (independently of the claimed lengths) -/

theorem bnd_refl (a : Nat) : a ≤ max a 4096 := Nat.le_max_left _ _
theorem bnd_trans {a b c : Nat} (h1 : b ≤ max a 4096) (h2 : c ≤ max b 4096) : c ≤ max a 4096 :=
  Nat.le_trans h2 (Nat.max_le.mpr ⟨h1, Nat.le_max_right _ _⟩)
theorem bnd_vec (a len : Nat) : max a (min len 4096) ≤ max a 4096 :=
  Nat.max_le.mpr ⟨Nat.le_max_left _ _, Nat.le_trans (Nat.min_le_right _ _) (Nat.le_max_right _ _)⟩

mutual
theorem decode_alloc_bound (env : Env) (h : env.legacy = false) :
    ∀ (t : Ty) (bs : List UInt8) (a : Alloc), (decode env t bs a).2 ≤ max a 4096
  | .scalar, bs, a => by
      unfold decode
      split
      · exact bnd_refl a
      · simp only
        split <;> exact bnd_refl a
  | .g1, bs, a => by
      unfold decode
      split
      · exact bnd_refl a
      · split <;> exact bnd_refl a
  | .g2, bs, a => by
      unfold decode
      split
      · exact bnd_refl a
      · split <;> exact bnd_refl a
  | .u8, bs, a => by unfold decode; split <;> exact bnd_refl a
  | .u64, bs, a => by unfold decode; split <;> exact bnd_refl a
  | .i64, bs, a => by unfold decode; split <;> exact bnd_refl a
  | .raw n, bs, a => by unfold decode; split <;> exact bnd_refl a
  | .rep n t, bs, a => by
      unfold decode
      have := decodeN_alloc_bound env h t n bs a
      split <;> simp_all
  | .tup ts, bs, a => by
      unfold decode
      have := decodeAll_alloc_bound env h ts bs a
      split <;> simp_all
  | .chk v t, bs, a => by
      unfold decode
      have := decode_alloc_bound env h t bs a
      split
      · split <;> simp_all
      · simp_all
      · simp_all
  | .arr n t, bs, a => by
      unfold decode
      split
      · exact bnd_refl a
      · simp only
        split
        · have := decodeN_alloc_bound env h t (decLE (bs.take 8)) (bs.drop 8) a
          split
          · split <;> simp_all
          · simp_all
          · simp_all
        · have := decodeN_alloc_bound env h t (n + 1) (bs.drop 8) a
          split
          · simp_all
          · simp_all
          · simp_all
  | .vec t, bs, a => by
      unfold decode
      split
      · exact bnd_refl a
      · simp only [h]
        have h1 := decodeN_alloc_bound env h t (decLE (bs.take 8)) (bs.drop 8)
          (max a (min (decLE (bs.take 8)) 4096))
        have h2 := bnd_trans (bnd_vec a (decLE (bs.take 8))) h1
        split <;> simp_all

theorem decodeN_alloc_bound (env : Env) (h : env.legacy = false) (t : Ty) :
    ∀ (n : Nat) (bs : List UInt8) (a : Alloc), (decodeN env t n bs a).2 ≤ max a 4096
  | 0, bs, a => by unfold decodeN; exact bnd_refl a
  | n + 1, bs, a => by
      unfold decodeN
      have h1 := decode_alloc_bound env h t bs a
      split
      · rename_i v r a' heq
        have h2 := decodeN_alloc_bound env h t n r a'
        rw [heq] at h1
        simp only at h1
        have h3 := bnd_trans h1 h2
        split <;> simp_all
      · simp_all
      · simp_all

theorem decodeAll_alloc_bound (env : Env) (h : env.legacy = false) :
    ∀ (ts : List Ty) (bs : List UInt8) (a : Alloc), (decodeAll env ts bs a).2 ≤ max a 4096
  | [], bs, a => by unfold decodeAll; exact bnd_refl a
  | t :: ts, bs, a => by
      unfold decodeAll
      have h1 := decode_alloc_bound env h t bs a
      split
      · rename_i v r a' heq
        have h2 := decodeAll_alloc_bound env h ts r a'
        rw [heq] at h1
        simp only at h1
        have h3 := bnd_trans h1 h2
        split <;> simp_all
      · simp_all
      · simp_all
end

/-- Decoding returns a value or an error, and never asks for more than 4096 elements up front:
the two statements for top-level calls. -/
theorem decode_total (env : Env) (h : env.legacy = false) (t : Ty) (bs : List UInt8) :
    (decode env t bs 0).1 ≠ .panic ∧ (decode env t bs 0).2 ≤ 4096 := by
  refine ⟨decode_no_panic env h t bs 0, ?_⟩
  have := decode_alloc_bound env h t bs 0
  simpa using this

/-! ### the pinned visitors (defect D4), as theorems about the faithful `legacy` model -/

def envL : Env := ⟨13, 5, fun _ => .valid, fun _ => .valid, fun _ _ _ => true, true⟩
def envF : Env := ⟨13, 5, fun _ => .valid, fun _ => .valid, fun _ _ _ => true, false⟩

/-- `[T; 1]` with length prefix 2 and two decodable elements panics (ArrayVec overflow). -/
theorem Legacy.array_decode_panics :
    (decode envL (.arr 1 .u8) [2, 0, 0, 0, 0, 0, 0, 0, 7, 9] 0).1 = .panic := by
  simp [decode, decodeN, decLE, envL]

theorem decodeN_u8_nil (env : Env) (n : Nat) (a : Alloc) : decodeN env .u8 (n + 1) [] a = (.err, a) := by
  simp [decodeN, decode]

/-- `Vec<T>` with a length prefix of 2^60 on an 8-byte input requests 2^60 elements. -/
theorem Legacy.vec_decode_allocates :
    decode envL (.vec .u8) [0, 0, 0, 0, 0, 0, 0, 16] 0 = (.err, 2 ^ 60) := by
  have h : decLE [0, 0, 0, 0, 0, 0, 0, (16 : UInt8)] = (2 ^ 60 - 1) + 1 := by simp [decLE]
  unfold decode
  simp only [List.length_cons, List.length_nil, List.take, List.drop, envL, h, decodeN_u8_nil]
  simp

/-- after the repair the same inputs are plain errors with a bounded request -/
theorem array_decode_errs :
    (decode envF (.arr 1 .u8) [2, 0, 0, 0, 0, 0, 0, 0, 7, 9] 0).1 = .err := by
  simp [decode, decodeN, decLE, envF]

end ZkVerif.C16
