/-
C04 (continued) — the whole system: the customer's and the merchant's model functions run against each
other over arbitrary histories.
-/
import ZkVerif.Props.C04

set_option linter.unusedSectionVars false

namespace ZkVerif.C04
open ZkVerif
variable {F G1 G2 GT : Type} [Field F] [AddCommGroup G1] [Module F G1] [AddCommGroup G2]
  [Module F G2] [AddCommGroup GT] [Module F GT] [DecidableEq F] [DecidableEq G1] [DecidableEq GT] [DecidableEq G2]
variable {e : G1 → G2 → GT}

/-! ### The system: both parties' model functions run against each other over a whole history -/

/-- the customer's and the merchant's randomness for one payment -/
structure PayInput (F : Type) where
  amount : Int
  nonce : F
  lock : F
  secret : F
  index : Nat
  d : PayDraws F
  ctx : List UInt8
  u : F
  u' : F

/-- the fresh values `start` keeps are the ones the pay proof is built with -/
def PayInput.sd (i : PayInput F) : StartDraws F :=
  ⟨i.nonce, i.lock, i.secret, i.index, i.d.bfR, i.d.bfS, i.d.bfC⟩

/-- One payment of the whole system: the customer's `start`, its pay proof, the merchant's
`allow_payment`, the customer's `lock`, the merchant's `complete_payment`, the customer's `unlock` —
each party's *own* model function applied to the message the other one produced.  `none` = some
party refused a message of an honest peer; a payment refused by `start` leaves the customer where
it was. -/
def jointPay (e : G1 → G2 → GT) (cd : Codecs F G1 G2) (H : List UInt8 → F) (m : MerchantCfg F G1 G2)
    (close : F) (c : Customer F G1) (i : PayInput F) : Option (Customer F G1) :=
  match c with
  | .ready st tok cs =>
    match (Customer.ready st tok cs).start i.amount i.sd with
    | (.started new old a b c' ocs, .ok ()) =>
      match payBuilders m.payParams close old.msg new.msg tok new.cb new.mb i.d with
      | some bld =>
        match m.allowPayment e cd H close ⟨old.nonce, ((i.amount : Int) : F)⟩
            (bld.respond (challengeOf cd H (bld.transcript m.payParams close old.nonce i.ctx))) i.ctx i.u with
        | some (un, σ) =>
          match (Customer.started new old a b c' ocs).lock e m.kp.pk close σ with
          | (lk, .acceptedLock lm) =>
            match m.completePayment un lm.lock lm.bf i.u' with
            | .ok τ =>
              match lk.unlock e m.kp.pk τ with
              | (r, .accepted) => some r
              | _ => none
            | .error _ => none
          | _ => none
        | none => none
      | none => none
    | (c', .err _) => some c'
    | _ => none
  | _ => none

def jointRun (e : G1 → G2 → GT) (cd : Codecs F G1 G2) (H : List UInt8 → F) (m : MerchantCfg F G1 G2)
    (close : F) : Customer F G1 → List (PayInput F) → Option (Customer F G1)
  | c, [] => some c
  | c, i :: is =>
    match jointPay e cd H m close c i with
    | some c' => jointRun e cd H m close c' is
    | none => none

/-- what the honest parties' randomness must avoid (each a probability-`1/q` event) -/
def PayInput.Ok (i : PayInput F) : Prop :=
  IsI64 i.amount ∧ i.u ≠ 0 ∧ i.u' ≠ 0 ∧ i.d.rT ≠ 0 ∧ i.d.cbW.length = 9 ∧ i.d.mbW.length = 9 ∧
    (∀ w ∈ i.d.cbW, w.r ≠ 0) ∧ (∀ w ∈ i.d.mbW, w.r ≠ 0)

/-- a `Ready` customer on in-range balances whose stored signatures are valid -/
def ReadyOk (e : G1 → G2 → GT) (pk : PubKey G1 G2) (close : F) (c : Customer F G1) : Prop :=
  ∃ st tok cs, c = .ready st tok cs ∧ st.cb ≤ 2 ^ 63 - 1 ∧ st.mb ≤ 2 ^ 63 - 1 ∧
    psVerify e pk tok st.msg = true ∧ psVerify e pk cs (st.closeMsg close) = true

theorem unlock_accepted_valid (pk : PubKey G1 G2) (st : CState F) (bfT : F) (cs τ : Sig G1) (r : Customer F G1)
    (h : (Customer.locked st bfT cs).unlock e pk τ = (r, .accepted)) :
    ∃ tok, r = .ready st tok cs ∧ psVerify e pk tok st.msg = true := by
  simp only [Customer.unlock] at h
  by_cases hv : psVerify e pk (τ.unblind bfT) st.msg = true
  · rw [if_pos hv] at h
    simp only [Prod.mk.injEq, and_true] at h
    exact ⟨_, h.symm, hv⟩
  · rw [if_neg hv] at h
    simp at h

theorem lock_accepted_valid (pk : PubKey G1 G2) (close : F) (new old : CState F) (a b c : F) (ocs σ : Sig G1)
    (lk : Customer F G1) (lm : LockMsg F)
    (h : (Customer.started new old a b c ocs).lock e pk close σ = (lk, .acceptedLock lm)) :
    ∃ cs, lk = .locked new b cs ∧ psVerify e pk cs (new.closeMsg close) = true := by
  simp only [Customer.lock] at h
  by_cases hv : psVerify e pk (σ.unblind c) (new.closeMsg close) = true
  · rw [if_pos hv] at h
    simp only [Prod.mk.injEq] at h
    exact ⟨_, h.1.symm, hv⟩
  · rw [if_neg hv] at h
    simp at h

/-- **One payment of the system**: never stuck, never refused between honest parties; the customer
ends `Ready` (with valid stored signatures) on exactly the balances `applyPayment` assigns — the
unchanged ones when the payment is out of range. -/
theorem joint_pay (he : IsPairing F e) (cd : Codecs F G1 G2) (H : List UInt8 → F)
    (m : MerchantCfg F G1 G2) (hk : m.kp.Honest) (hg1 : m.kp.pk.g1 ≠ 0) (hg2 : m.kp.pk.g2 ≠ 0)
    (hs : m.rp.sigs.length = 128)
    (hvalid : ∀ k (h : k < m.rp.sigs.length), psVerify e m.rp.pk m.rp.sigs[k] [(k : F)] = true)
    (close : F) (c : Customer F G1) (hc : ReadyOk e m.kp.pk close c) (i : PayInput F) (hi : i.Ok) :
    ∃ c', jointPay e cd H m close c i = some c' ∧ ReadyOk e m.kp.pk close c' ∧
      c'.balances = (match applyPayment c.balances.1 c.balances.2 i.amount with
        | .ok p => p
        | _ => c.balances) := by
  obtain ⟨st, tok, cs, rfl, hcb, hmb, htok, hcs⟩ := hc
  obtain ⟨ha, hu, hu', hrT, hwc, hwm, hrc, hrm⟩ := hi
  cases hp : applyPayment st.cb st.mb i.amount with
  | ok p =>
    obtain ⟨cb', mb'⟩ := p
    obtain ⟨bld, un, σ, cs', lm, τ, tok', h1, h2, h3, h4, h5, h6, h7, h8, h9⟩ :=
      full_payment he cd H m hk hg1 hg2 close st tok cs i.amount i.sd i.d i.ctx i.u i.u' hu hu' hcb hmb ha
        cb' mb' hp htok rfl rfl rfl hrT hs hvalid hwc hwm hrc hrm
    obtain ⟨_, _, hc', hm', _⟩ := C17.apply_payment_ok st.cb st.mb i.amount hcb hmb ha cb' mb' hp
    obtain ⟨cs2, hlk, hcsv⟩ := lock_accepted_valid (e := e) m.kp.pk close _ _ _ _ _ _ _ _ _ h4
    cases hlk
    obtain ⟨tok2, hr, htv⟩ := unlock_accepted_valid (e := e) m.kp.pk _ _ _ _ _ h7
    refine ⟨.ready (nextState st i.sd cb' mb') tok' cs', ?_, ⟨_, _, _, rfl, ?_, ?_, ?_, hcsv⟩, ?_⟩
    · simp only [jointPay, h1]
      have e1 : (nextState st i.sd cb' mb').cb = cb' := rfl
      have e2 : (nextState st i.sd cb' mb').mb = mb' := rfl
      rw [e1, e2, h2]
      dsimp only
      rw [h3]
      dsimp only
      rw [h4]
      dsimp only
      rw [h6]
      dsimp only
      rw [h7]
    · exact hc'
    · exact hm'
    · cases hr; exact htv
    · simp [Customer.balances, hp, nextState]
  | err er =>
    refine ⟨.ready st tok cs, ?_, ⟨st, tok, cs, rfl, hcb, hmb, htok, hcs⟩, ?_⟩
    · simp [jointPay, Customer.start, hp]
    · simp [Customer.balances, hp]
  | panic => exact absurd hp (C17.apply_payment_no_panic st.cb st.mb i.amount hcb hmb ha)

/-- **Every history of the system completes and tracks the ideal ledger.**  For every initial
`Ready` state (as `full_establish` yields), every sequence of amounts (positive, negative, zero,
in or out of range) and all randomness of both parties (outside the listed probability-`1/q`
events): the joint run of the customer's and the merchant's model functions never gets stuck, and
the customer ends `Ready` on the balances of the integer ledger that skips exactly the payments
leaving `[0, 2^63-1]`, with customer + merchant balance conserved. -/
theorem joint_run_tracks_ledger (he : IsPairing F e) (cd : Codecs F G1 G2) (H : List UInt8 → F)
    (m : MerchantCfg F G1 G2) (hk : m.kp.Honest) (hg1 : m.kp.pk.g1 ≠ 0) (hg2 : m.kp.pk.g2 ≠ 0)
    (hs : m.rp.sigs.length = 128)
    (hvalid : ∀ k (h : k < m.rp.sigs.length), psVerify e m.rp.pk m.rp.sigs[k] [(k : F)] = true)
    (close : F) (is : List (PayInput F)) (c : Customer F G1) (hc : ReadyOk e m.kp.pk close c)
    (hi : ∀ i ∈ is, i.Ok) :
    ∃ c', jointRun e cd H m close c is = some c' ∧ ReadyOk e m.kp.pk close c' ∧
      c'.balances = runBalances c.balances.1 c.balances.2 (is.map (·.amount)) ∧
      ((c'.balances.1 : Int), (c'.balances.2 : Int)) = ledger c.balances.1 c.balances.2 (is.map (·.amount)) ∧
      c'.balances.1 + c'.balances.2 = c.balances.1 + c.balances.2 := by
  have main : ∀ (is : List (PayInput F)) (c : Customer F G1), ReadyOk e m.kp.pk close c → (∀ i ∈ is, i.Ok) →
      ∃ c', jointRun e cd H m close c is = some c' ∧ ReadyOk e m.kp.pk close c' ∧
        c'.balances = runBalances c.balances.1 c.balances.2 (is.map (·.amount)) := by
    intro is
    induction is with
    | nil => intro c hc _; exact ⟨c, rfl, hc, rfl⟩
    | cons i is ih =>
      intro c hc hi
      obtain ⟨c1, h1, hok1, hb1⟩ := joint_pay he cd H m hk hg1 hg2 hs hvalid close c hc i (hi i List.mem_cons_self)
      obtain ⟨c2, h2, hok2, hb2⟩ := ih c1 hok1 (fun j hj => hi j (List.mem_cons_of_mem _ hj))
      refine ⟨c2, ?_, hok2, ?_⟩
      · simp only [jointRun, h1, h2]
      · rw [hb2, hb1]
        simp only [List.map_cons, runBalances]
        cases applyPayment c.balances.1 c.balances.2 i.amount <;> rfl
  obtain ⟨c', h1, hok, hb⟩ := main is c hc hi
  obtain ⟨st, tok, cs, rfl, hcb, hmb, _, _⟩ := hc
  have hl := run_tracks_ledger st.cb st.mb (is.map (·.amount)) hcb hmb
    (by intro a ha; obtain ⟨i, hi', rfl⟩ := List.mem_map.mp ha; exact (hi i hi').1)
  simp only at hl
  refine ⟨c', h1, hok, hb, ?_, ?_⟩
  · rw [hb]; exact hl.1
  · rw [hb]; exact hl.2.2.2


end ZkVerif.C04
