/-
C13 — Range constraints accept exactly values in [0, 2^63) linked to the message.
-/
import ZkVerif.Lemmas.Range
import ZkVerif.Props.C11
import Mathlib.Data.List.Forall2

set_option linter.unusedSectionVars false

namespace ZkVerif.C13
open ZkVerif
universe u
variable {F G1 G2 GT : Type u} [Field F] [AddCommGroup G1] [Module F G1] [AddCommGroup G2]
  [Module F G2] [AddCommGroup GT] [Module F GT] [DecidableEq F] [DecidableEq G1] [DecidableEq G2]
  [DecidableEq GT]
variable {e : G1 → G2 → GT}

/-- The range prover refuses every negative input. -/
theorem range_refuses_negative (rp : RangeParams G1 G2) (v : Int) (hv : v < 0)
    (ws : List (DigitDraws F)) : RangeBuilder.mk' rp v ws = none := by
  unfold RangeBuilder.mk'; rw [if_pos hv]

theorem mkDigitBuilders_some (rp : RangeParams G1 G2) (ds : List Nat) (ws : List (DigitDraws F))
    (hd : ∀ d ∈ ds, d < rp.sigs.length) (hw : ds.length ≤ ws.length) :
    ∃ bs, mkDigitBuilders rp ds ws = some bs ∧ bs.length = ds.length := by
  induction ds generalizing ws with
  | nil => exact ⟨[], rfl, rfl⟩
  | cons d ds ih => cases ws with
    | nil => simp at hw
    | cons w ws =>
      have hdl : d < rp.sigs.length := hd d (List.mem_cons_self)
      obtain ⟨bs, hbs, hl⟩ := ih ws (fun x hx => hd x (List.mem_cons_of_mem _ hx)) (by simpa using hw)
      refine ⟨SBuilder.mk' rp.pk [(d : F)] rp.sigs[d] w.bf w.tbf [w.t] w.r :: bs, ?_, ?_⟩
      · simp only [mkDigitBuilders, List.getElem?_eq_getElem hdl, hbs]
      · simp [hl]

/-- … and succeeds for every value in `[0, 2^63)` (every non-negative `i64`; in fact for every
non-negative value, the nine digit signatures always exist). -/
theorem range_accepts_nonneg (rp : RangeParams G1 G2) (hs : rp.sigs.length = 128) (v : Int)
    (h0 : 0 ≤ v) (ws : List (DigitDraws F)) (hw : 9 ≤ ws.length) :
    (RangeBuilder.mk' rp v ws).isSome = true := by
  unfold RangeBuilder.mk'
  rw [if_neg (by omega)]
  obtain ⟨bs, hbs, _⟩ := mkDigitBuilders_some rp (digitsLoop rpL v.toNat) ws
    (fun d hd => by rw [hs]; exact digitsLoop_lt _ _ d hd)
    (by rw [digitsLoop_length]; exact hw)
  rw [hbs]; rfl

/-- A constraint verifies iff all nine digit proofs verify under the range key and the weighted
sum of the digit response scalars equals the expected response scalar. -/
theorem range_verify_iff (rp : RangeParams G1 G2) (ps : List (SProof F G1 G2)) (c expected : F) :
    rangeVerify e rp ps c expected = true ↔
      (∀ p ∈ ps, spVerify e rp.pk p c = true) ∧
      hornerF (ps.map fun p => p.cp.zs.headD 0) = expected := by
  unfold rangeVerify digitsVerify
  rw [Bool.and_eq_true, List.all_eq_true, decide_eq_true_iff, weighted_eq]

/-- Hence it rejects when checked against any other response scalar. -/
theorem range_rejects_other_link (rp : RangeParams G1 G2) (ps : List (SProof F G1 G2))
    (c expected other : F) (ho : other ≠ expected) (a : rangeVerify e rp ps c expected = true) :
    rangeVerify e rp ps c other = false := by
  rw [range_verify_iff] at a
  rw [← Bool.not_eq_true, range_verify_iff]
  rintro ⟨_, h⟩
  exact ho (h.symm.trans a.2)

theorem validateFrom_iff (pk : PubKey G1 G2) (k : Nat) (σs : List (Sig G1)) :
    validateFrom (F := F) e pk k σs = true ↔
      ∀ i (h : i < σs.length), psVerify e pk σs[i] [((k + i : Nat) : F)] = true := by
  induction σs generalizing k with
  | nil => simp [validateFrom]
  | cons σ σs ih =>
    simp only [validateFrom, Bool.and_eq_true, ih]
    constructor
    · rintro ⟨h0, hr⟩ i hi
      cases i with
      | zero => simpa using h0
      | succ i =>
        have := hr i (by simpa using hi)
        simpa [Nat.add_assoc, Nat.add_comm 1 i] using this
    · intro h
      refine ⟨by have := h 0 (by simp); simpa using this, fun i hi => ?_⟩
      have := h (i + 1) (by simpa using hi)
      simpa [Nat.add_assoc, Nat.add_comm 1 i] using this

/-- Parameter validation accepts exactly those parameter sets whose `i`-th signature verifies on
digit `i`. -/
theorem validate_iff (rp : RangeParams G1 G2) :
    rp.validate F e = true ↔
      ∀ i (h : i < rp.sigs.length), psVerify e rp.pk rp.sigs[i] [(i : F)] = true := by
  unfold RangeParams.validate
  rw [validateFrom_iff]
  simp

/-! ### Completeness -/

private theorem builders_complete (he : IsPairing F e) (rp : RangeParams G1 G2)
    (hvalid : ∀ d (h : d < rp.sigs.length), PsAccept e rp.pk rp.sigs[d] [(d : F)]) (c : F)
    (ds : List Nat) (ws : List (DigitDraws F)) (hd : ∀ d ∈ ds, d < rp.sigs.length)
    (hl : ds.length = ws.length) (hr : ∀ w ∈ ws, w.r ≠ 0) :
    ∃ bs, mkDigitBuilders rp ds ws = some bs ∧
      (∀ b ∈ bs, SpAccept e rp.pk (b.respond c) c) ∧
      (bs.map fun b => (b.respond c).cp.zs.headD 0) =
        List.zipWith (fun x y => c * x + 1 * y) (ds.map (Nat.cast : Nat → F)) (ws.map (·.t)) ∧
      (bs.map fun b => b.cb.ts.headD 0) = ws.map (·.t) := by
  induction ds generalizing ws with
  | nil => cases ws with
    | nil => exact ⟨[], rfl, by simp, by simp, by simp⟩
    | cons w ws => simp at hl
  | cons d ds ih => cases ws with
    | nil => simp at hl
    | cons w ws =>
      have hdl : d < rp.sigs.length := hd d (List.mem_cons_self)
      obtain ⟨bs, hbs, hacc, hz, ht⟩ := ih ws (fun x hx => hd x (List.mem_cons_of_mem _ hx))
        (by simpa using hl) (fun x hx => hr x (List.mem_cons_of_mem _ hx))
      refine ⟨SBuilder.mk' rp.pk [(d : F)] rp.sigs[d] w.bf w.tbf [w.t] w.r :: bs, ?_, ?_, ?_, ?_⟩
      · simp only [mkDigitBuilders, List.getElem?_eq_getElem hdl, hbs]
      · intro b hb
        rcases List.mem_cons.mp hb with rfl | hb
        · exact sp_complete he rp.pk _ _ (hvalid d hdl) w.bf w.tbf [w.t] w.r c
            (hr w (List.mem_cons_self)) rfl
        · exact hacc b hb
      · simp only [List.map_cons, List.zipWith_cons_cons, hz]
        simp [SBuilder.respond, SBuilder.mk', CBuilder.respond, CBuilder.mk']
      · simp only [List.map_cons, ht]
        simp [SBuilder.mk', CBuilder.mk']

/-- The honest range constraint for `v ∈ [0, 2^63)` verifies against the response scalar
`c·v + commitment_scalar` of the slot it was linked to — for every challenge. -/
theorem range_complete (he : IsPairing F e) (rp : RangeParams G1 G2) (hs : rp.sigs.length = 128)
    (hvalid : ∀ d (h : d < rp.sigs.length), PsAccept e rp.pk rp.sigs[d] [(d : F)])
    (v : Int) (h0 : 0 ≤ v) (hv : v < 2 ^ 63) (ws : List (DigitDraws F)) (hw : ws.length = 9)
    (hr : ∀ w ∈ ws, w.r ≠ 0) (c : F) :
    ∃ b, RangeBuilder.mk' rp v ws = some b ∧
      rangeVerify e rp (b.respond c) c (c * ((v.toNat : Nat) : F) + b.commitmentScalar) = true := by
  have hdig : natW (digitsLoop rpL v.toNat) = v.toNat :=
    natW_digits 9 v.toNat (by rw [pow9]; omega)
  obtain ⟨bs, hbs, hacc, hz, ht⟩ := builders_complete he rp hvalid c (digitsLoop rpL v.toNat) ws
    (fun d hd => by rw [hs]; exact digitsLoop_lt _ _ d hd)
    (by rw [digitsLoop_length, hw]; rfl) hr
  refine ⟨⟨bs, weighted (bs.map fun b => b.cb.ts.headD 0)⟩, ?_, ?_⟩
  · unfold RangeBuilder.mk'
    rw [if_neg (by omega), hbs]
  · rw [range_verify_iff]
    constructor
    · intro p hp
      simp only [RangeBuilder.respond, List.mem_map] at hp
      obtain ⟨b, hb, rfl⟩ := hp
      rw [spVerify_true']
      exact hacc b hb
    · simp only [RangeBuilder.respond, List.map_map, Function.comp_def]
      rw [hz, hornerF_lin c 1 _ _ (by simp [digitsLoop_length, hw, rpL]), hornerF_natCast, hdig,
        weighted_eq, ht]
      ring

/-! ### Soundness -/

/-- Two proofs share their first message. -/
def SameFirst (p p' : SProof F G1 G2) : Prop :=
  p.sig = p'.sig ∧ p.cp.C = p'.cp.C ∧ p.cp.T = p'.cp.T

theorem ext_lin (c c' x x' X X' : F) :
    ext c c' (x + 128 * X) (x' + 128 * X') = ext c c' x x' + 128 * ext c c' X X' := by
  unfold ext; ring

private theorem digits_extract (he : IsPairing F e) (rp : RangeParams G1 G2) (c c' : F) (hc : c ≠ c')
    (ps ps' : List (SProof F G1 G2)) (hf : List.Forall₂ SameFirst ps ps')
    (h1 : ∀ p ∈ ps, p.cp.zs.length = 1) (h1' : ∀ p ∈ ps', p.cp.zs.length = 1)
    (a : ∀ p ∈ ps, spVerify e rp.pk p c = true) (a' : ∀ p ∈ ps', spVerify e rp.pk p c' = true) :
    ∃ μs : List F,
      List.Forall₂ (fun p μ => ∃ ρ : F, psVerify e rp.pk (p.sig.unblind ρ) [μ] = true) ps μs ∧
      hornerF μs = ext c c' (hornerF (ps.map fun p => p.cp.zs.headD 0))
        (hornerF (ps'.map fun p => p.cp.zs.headD 0)) := by
  induction hf with
  | nil => exact ⟨[], List.Forall₂.nil, by simp [hornerF, ext]⟩
  | @cons p p' ps ps' hpp _ ih =>
    obtain ⟨μs, hμ, hh⟩ := ih (fun x hx => h1 x (List.mem_cons_of_mem _ hx))
      (fun x hx => h1' x (List.mem_cons_of_mem _ hx)) (fun x hx => a x (List.mem_cons_of_mem _ hx))
      (fun x hx => a' x (List.mem_cons_of_mem _ hx))
    have hz := h1 p (List.mem_cons_self)
    have hz' := h1' p' (List.mem_cons_self)
    have ha := a p (List.mem_cons_self)
    have ha' := a' p' (List.mem_cons_self)
    obtain ⟨⟨s1, s2⟩, ⟨C, T, zbf, zs⟩⟩ := p
    obtain ⟨σ', ⟨C', T', zbf', zs'⟩⟩ := p'
    obtain ⟨hσ, hC, hT⟩ := hpp
    simp only at hσ hC hT hz hz'
    subst hσ hC hT
    match zs, hz, zs', hz' with
    | [z], _, [z'], _ =>
      obtain ⟨_, hver⟩ := C11.sp_extract he rp.pk ⟨s1, s2⟩ C T c c' zbf zbf' [z] [z'] rfl hc ha ha'
      refine ⟨ext c c' z z' :: μs, List.Forall₂.cons ⟨_, by simpa using hver⟩ hμ, ?_⟩
      simp only [List.map_cons, hornerF, List.headD_cons, hh]
      rw [ext_lin]

/-- Special soundness of the range constraint: two accepting executions with the same first
messages and different challenges yield digit values `μ₀ … μ₈`, each carrying a valid PS
signature under the range key (obtained by unblinding), whose weighted sum is the value extracted
from the linked slot's response scalars. -/
theorem range_special_sound (he : IsPairing F e) (rp : RangeParams G1 G2) (c c' : F) (hc : c ≠ c')
    (ps ps' : List (SProof F G1 G2)) (expected expected' : F)
    (hf : List.Forall₂ SameFirst ps ps')
    (h1 : ∀ p ∈ ps, p.cp.zs.length = 1) (h1' : ∀ p ∈ ps', p.cp.zs.length = 1)
    (a : rangeVerify e rp ps c expected = true) (a' : rangeVerify e rp ps' c' expected' = true) :
    ∃ μs : List F,
      List.Forall₂ (fun p μ => ∃ ρ : F, psVerify e rp.pk (p.sig.unblind ρ) [μ] = true) ps μs ∧
      hornerF μs = ext c c' expected expected' := by
  rw [range_verify_iff] at a a'
  obtain ⟨μs, h, hh⟩ := digits_extract he rp c c' hc ps ps' hf h1 h1' a.1 a'.1
  exact ⟨μs, h, by rw [hh, a.2, a'.2]⟩

/-- What PS unforgeability contributes: under the range key only digits `0 … 127` carry valid
signatures (only those were ever published). An explicit hypothesis, not an axiom. -/
def DigitUnforgeable (e : G1 → G2 → GT) (rp : RangeParams G1 G2) : Prop :=
  ∀ (σ : Sig G1) (μ : F), psVerify e rp.pk σ [μ] = true → ∃ d : Nat, d < 128 ∧ μ = (d : F)

/-- No constraint of nine digit proofs verifies for a linked value outside `[0, 2^63)`: the
extracted linked value is the image of an integer `n ≤ 2^63 - 1`. -/
theorem range_sound_value (he : IsPairing F e) (rp : RangeParams G1 G2) (c c' : F) (hc : c ≠ c')
    (ps ps' : List (SProof F G1 G2)) (expected expected' : F) (hn : ps.length = 9)
    (hf : List.Forall₂ SameFirst ps ps')
    (h1 : ∀ p ∈ ps, p.cp.zs.length = 1) (h1' : ∀ p ∈ ps', p.cp.zs.length = 1)
    (hu : DigitUnforgeable (F := F) e rp)
    (a : rangeVerify e rp ps c expected = true) (a' : rangeVerify e rp ps' c' expected' = true) :
    ∃ n : Nat, n ≤ 2 ^ 63 - 1 ∧ ext c c' expected expected' = (n : F) := by
  obtain ⟨μs, hμ, hh⟩ := range_special_sound he rp c c' hc ps ps' expected expected' hf h1 h1' a a'
  have hlen : μs.length = 9 := by rw [← hμ.length_eq, hn]
  have : ∃ ds : List Nat, ds.length = μs.length ∧ (∀ d ∈ ds, d < 128) ∧
      μs = ds.map (Nat.cast : Nat → F) := by
    clear hh hlen hn hf h1 a
    induction hμ with
    | nil => exact ⟨[], rfl, by simp, rfl⟩
    | @cons p μ ps μs hp _ ih =>
      obtain ⟨ρ, hρ⟩ := hp
      obtain ⟨d, hd, rfl⟩ := hu _ _ hρ
      obtain ⟨ds, hl, hb, rfl⟩ := ih
      exact ⟨d :: ds, by simp, by
        intro x hx
        rcases List.mem_cons.mp hx with rfl | hx
        · exact hd
        · exact hb x hx, rfl⟩
  obtain ⟨ds, hl, hb, rfl⟩ := this
  refine ⟨natW ds, natW_nine ds (by rw [hl, hlen]) hb, ?_⟩
  rw [← hh, hornerF_natCast]

/-- The largest value any combination of digit signatures can encode is `2^63 - 1` (all-maximal
digits), and it is attained. -/
theorem max_digits_value : natW (List.replicate 9 127) = 2 ^ 63 - 1 ∧
    ∀ ds : List Nat, ds.length = 9 → (∀ d ∈ ds, d < 128) → natW ds ≤ 2 ^ 63 - 1 :=
  ⟨natW_max, natW_nine⟩

example : digitsLoop 9 300 = [44, 2, 0, 0, 0, 0, 0, 0, 0] := by decide
example : natW (digitsLoop 9 (2 ^ 63 - 1)) = 2 ^ 63 - 1 := by decide

end ZkVerif.C13
