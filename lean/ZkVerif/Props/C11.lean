/-
C11 — Proof verifiers accept exactly the Schnorr and pairing relations.
-/
import ZkVerif.Lemmas.Schnorr
import ZkVerif.Props.C08

set_option linter.unusedSectionVars false

namespace ZkVerif.C11
open ZkVerif
universe u
variable {F G G1 G2 GT : Type u} [Field F] [AddCommGroup G] [Module F G] [DecidableEq G]
  [AddCommGroup G1] [Module F G1] [AddCommGroup G2] [Module F G2] [AddCommGroup GT] [Module F GT]
  [DecidableEq G1] [DecidableEq G2] [DecidableEq GT]
variable {e : G1 → G2 → GT}

/-- Commitment-proof verification accepts iff `Com(z_bf; z) = T + c·C`. -/
theorem cpVerify_iff (pp : PedParams G) (p : CProof F G) (c : F) :
    cpVerify pp p c = true ↔
      p.zbf • pp.h + (List.zipWith (· • ·) p.zs pp.gs).sum = p.T + c • p.C := by
  rw [cpVerify_true, C09.commit_is_pedersen_map]

/-- Signature-request verification accepts iff the same relation holds under `(g, Y₁ … Y_N)`. -/
theorem srpVerify_iff (pk : PubKey G1 G2) (p : CProof F G1) (c : F) :
    (srpVerify pk p c).isSome = true ↔
      p.zbf • pk.g1 + (List.zipWith (· • ·) p.zs pk.y1s).sum = p.T + c • p.C := by
  rw [← C09.commit_is_pedersen_map ⟨pk.g1, pk.y1s⟩]
  constructor
  · intro h
    obtain ⟨v, hv⟩ := Option.isSome_iff_exists.mp h
    exact ((C08.srpVerify_some_iff pk p c v).mp hv).1
  · intro h
    exact Option.isSome_iff_exists.mpr ⟨p.C, (C08.srpVerify_some_iff pk p c p.C).mpr ⟨h, rfl⟩⟩

theorem spVerify_true (pk : PubKey G1 G2) (p : SProof F G1 G2) (c : F) :
    spVerify e pk p c = true ↔ SpAccept e pk p c := by
  unfold spVerify; exact decide_eq_true_iff

/-- Signature-proof verification accepts iff, in addition, `σ₁' ≠ 1` and
`e(σ₁', X̃·C) = e(σ₂', g̃)`. -/
theorem spVerify_iff (he : IsPairing F e) (pk : PubKey G1 G2) (p : SProof F G1 G2) (c : F) :
    spVerify e pk p c = true ↔
      p.sig.s1 ≠ 0 ∧
      p.cp.zbf • pk.g2 + (List.zipWith (· • ·) p.cp.zs pk.y2s).sum = p.cp.T + c • p.cp.C ∧
      e p.sig.s1 (pk.x2 + p.cp.C) = e p.sig.s2 pk.g2 := by
  rw [spVerify_true]
  unfold SpAccept CpAccept
  rw [he.neg_right, ← sub_eq_add_neg, sub_eq_zero, C09.commit_is_pedersen_map]
  rfl

/-! ### Single-field changes of an accepted commitment proof, with exact side conditions -/

/-- Changing `T` always rejects. -/
theorem change_T_rejects (pp : PedParams G) (p : CProof F G) (c : F) (T' : G) (hT : T' ≠ p.T)
    (ha : cpVerify pp p c = true) : cpVerify pp { p with T := T' } c = false := by
  rw [cpVerify_true] at ha
  rw [cpVerify_false]
  simp only
  rw [ha]
  intro h
  exact hT (add_right_cancel h).symm

/-- Changing `C` rejects iff `c • (C' - C) ≠ 0` (always, for `c ≠ 0`). -/
theorem change_C_accepts_iff (pp : PedParams G) (p : CProof F G) (c : F) (C' : G)
    (ha : cpVerify pp p c = true) :
    cpVerify pp { p with C := C' } c = true ↔ c • (C' - p.C) = 0 := by
  rw [cpVerify_true] at ha ⊢
  simp only
  rw [ha, smul_sub, sub_eq_zero]
  constructor
  · intro h; exact (add_left_cancel h).symm
  · intro h; rw [h]

theorem change_C_rejects (pp : PedParams G) (p : CProof F G) (c : F) (C' : G) (hc : c ≠ 0)
    (hC : C' ≠ p.C) (ha : cpVerify pp p c = true) : cpVerify pp { p with C := C' } c = false := by
  rw [← Bool.not_eq_true, change_C_accepts_iff pp p c C' ha]
  intro h
  rcases smul_eq_zero.mp h with h1 | h1
  · exact hc h1
  · exact hC (sub_eq_zero.mp h1)

/-- Changing response scalar `i` rejects when generator `i` is not the identity. -/
theorem change_z_rejects (pp : PedParams G) (p : CProof F G) (c : F) (i : Nat) (z' : F)
    (hi : i < p.zs.length) (hg : i < pp.gs.length) (hgi : pp.gs[i] ≠ 0) (hz : z' ≠ p.zs[i])
    (ha : cpVerify pp p c = true) : cpVerify pp { p with zs := p.zs.set i z' } c = false := by
  rw [cpVerify_true] at ha
  rw [cpVerify_false]
  simp only
  rw [← ha]
  unfold commit
  rw [inner_set _ _ _ _ hi hg]
  intro h
  have h2 : (z' - p.zs[i]) • pp.gs[i] = 0 := by
    have := congrArg (fun x => x - (p.zbf • pp.h + inner p.zs pp.gs)) h
    simpa [add_assoc] using this
  rcases smul_eq_zero.mp h2 with h3 | h3
  · exact hz (sub_eq_zero.mp h3)
  · exact hgi h3

/-- Changing the blinding-factor response rejects when `h` is not the identity. -/
theorem change_zbf_rejects (pp : PedParams G) (p : CProof F G) (c : F) (z' : F) (hh : pp.h ≠ 0)
    (hz : z' ≠ p.zbf) (ha : cpVerify pp p c = true) :
    cpVerify pp { p with zbf := z' } c = false := by
  rw [cpVerify_true] at ha
  rw [cpVerify_false]
  simp only
  rw [← ha]
  unfold commit
  intro h
  have h2 : (z' - p.zbf) • pp.h = 0 := by
    have := congrArg (fun x => x - (p.zbf • pp.h + inner p.zs pp.gs)) h
    simp only [sub_self] at this
    rw [← this]; module
  rcases smul_eq_zero.mp h2 with h3 | h3
  · exact hz (sub_eq_zero.mp h3)
  · exact hh h3

/-- An accepted proof verifies under another challenge iff `(c - c') • C = 0`; so for `C ≠ 1`
only under the challenge it was made for. -/
theorem other_challenge_accepts_iff (pp : PedParams G) (p : CProof F G) (c c' : F)
    (ha : cpVerify pp p c = true) : cpVerify pp p c' = true ↔ (c - c') • p.C = 0 := by
  rw [cpVerify_true] at ha ⊢
  rw [ha, sub_smul, sub_eq_zero]
  constructor
  · intro h; exact add_left_cancel h
  · intro h; rw [h]

theorem other_challenge_rejects (pp : PedParams G) (p : CProof F G) (c c' : F) (hc : c' ≠ c)
    (hC : p.C ≠ 0) (ha : cpVerify pp p c = true) : cpVerify pp p c' = false := by
  rw [← Bool.not_eq_true, other_challenge_accepts_iff pp p c c' ha]
  intro h
  rcases smul_eq_zero.mp h with h1 | h1
  · exact hc (sub_eq_zero.mp h1).symm
  · exact hC h1

/-- Changing generator `i` of the parameter set: still accepted iff `zᵢ • (gᵢ' - gᵢ) = 0`. -/
theorem other_params_accepts_iff (pp : PedParams G) (p : CProof F G) (c : F) (i : Nat) (g' : G)
    (hi : i < p.zs.length) (hg : i < pp.gs.length) (ha : cpVerify pp p c = true) :
    cpVerify ⟨pp.h, pp.gs.set i g'⟩ p c = true ↔ p.zs[i] • (g' - pp.gs[i]) = 0 := by
  rw [cpVerify_true] at ha ⊢
  rw [← ha]
  unfold commit
  simp only
  have key : inner p.zs (pp.gs.set i g') = inner p.zs pp.gs + p.zs[i] • (g' - pp.gs[i]) := by
    clear ha
    generalize pp.gs = gs at hg ⊢
    generalize p.zs = zs at hi ⊢
    induction zs generalizing gs i with
    | nil => simp at hi
    | cons z zs ih => cases gs with
      | nil => simp at hg
      | cons g gs => cases i with
        | zero => simp; module
        | succ i =>
          simp only [List.set_cons_succ, inner_cons, List.getElem_cons_succ]
          rw [ih i gs (by simpa using hg) (by simpa using hi)]
          module
  rw [key]
  constructor
  · intro h
    have := congrArg (fun x => x - (p.zbf • pp.h + inner p.zs pp.gs)) h
    simpa [add_assoc] using this
  · intro h; rw [h, add_zero]

/-- A simulated transcript (`T` computed from `c` and freely chosen responses) verifies under `c`,
and under a different challenge only if `C` is the identity: it is useless without knowing the
challenge in advance. -/
theorem simulated_accepts (pp : PedParams G) (C : G) (c zbf : F) (zs : List F) :
    cpVerify pp ⟨C, commit pp zbf zs - c • C, zbf, zs⟩ c = true := by
  rw [cpVerify_true]; simp

theorem simulated_rejects_other_challenge (pp : PedParams G) (C : G) (c c' zbf : F) (zs : List F)
    (hc : c' ≠ c) (hC : C ≠ 0) :
    cpVerify pp ⟨C, commit pp zbf zs - c • C, zbf, zs⟩ c' = false :=
  other_challenge_rejects pp _ c c' hc hC (simulated_accepts pp C c zbf zs)

/-! ### Signature proofs -/

/-- A signature proof around a signature whose first element is the identity is never accepted. -/
theorem identity_blinded_sig_rejects (pk : PubKey G1 G2) (s2 : G1) (cp : CProof F G2) (c : F) :
    spVerify e pk ⟨⟨0, s2⟩, cp⟩ c = false := by
  rw [← Bool.not_eq_true, spVerify_true]
  intro h; exact h.1 rfl

/-- Changing `σ₂'` of an accepted signature proof rejects (`g̃ ≠ 1`). -/
theorem change_sigma2_rejects (he : IsPairing F e) (pk : PubKey G1 G2) (p : SProof F G1 G2) (c : F)
    (s2' : G1) (hg : pk.g2 ≠ 0) (hs : s2' ≠ p.sig.s2) (ha : spVerify e pk p c = true) :
    spVerify e pk { p with sig := ⟨p.sig.s1, s2'⟩ } c = false := by
  rw [spVerify_iff he] at ha
  rw [← Bool.not_eq_true, spVerify_iff he]
  rintro ⟨_, _, h⟩
  simp only at h
  rw [ha.2.2] at h
  have h2 : e (p.sig.s2 - s2') pk.g2 = 0 := by rw [he.sub_left, h, sub_self]
  rcases he.nondeg _ _ h2 with h3 | h3
  · exact hs (sub_eq_zero.mp h3).symm
  · exact hg h3

/-- Changing `σ₁'` of an accepted signature proof rejects (`X̃·C ≠ 1`). -/
theorem change_sigma1_rejects (he : IsPairing F e) (pk : PubKey G1 G2) (p : SProof F G1 G2) (c : F)
    (s1' : G1) (hx : pk.x2 + p.cp.C ≠ 0) (hs : s1' ≠ p.sig.s1) (ha : spVerify e pk p c = true) :
    spVerify e pk { p with sig := ⟨s1', p.sig.s2⟩ } c = false := by
  rw [spVerify_iff he] at ha
  rw [← Bool.not_eq_true, spVerify_iff he]
  rintro ⟨_, _, h⟩
  simp only at h
  rw [← ha.2.2] at h
  have h2 : e (s1' - p.sig.s1) (pk.x2 + p.cp.C) = 0 := by rw [he.sub_left, h, sub_self]
  rcases he.nondeg _ _ h2 with h3 | h3
  · exact hs (sub_eq_zero.mp h3)
  · exact hx h3

/-- Special soundness for signature proofs: two accepting transcripts with equal first messages
(`σ'`, `C`, `T`) and different challenges yield a message `m`, a blinding factor `r` with
`C = Com_{g̃,Ỹ}(m; r)`, and unblinding `σ'` with `r` gives a valid PS signature on `m`. -/
theorem sp_extract (he : IsPairing F e) (pk : PubKey G1 G2) (σ : Sig G1) (C T : G2)
    (c c' zbf zbf' : F) (zs zs' : List F) (hl : zs.length = zs'.length) (hc : c ≠ c')
    (a : spVerify e pk ⟨σ, ⟨C, T, zbf, zs⟩⟩ c = true)
    (a' : spVerify e pk ⟨σ, ⟨C, T, zbf', zs'⟩⟩ c' = true) :
    let m := List.zipWith (ext c c') zs zs'
    let r := ext c c' zbf zbf'
    commit pk.ped2 r m = C ∧ psVerify e pk (σ.unblind r) m = true := by
  intro m r
  rw [spVerify_true] at a a'
  have hC : commit pk.ped2 r m = C := cp_extract pk.ped2 C T c c' zbf zbf' zs zs' hl hc a.2.1 a'.2.1
  refine ⟨hC, ?_⟩
  rw [psVerify_true, psAccept_iff he]
  refine ⟨a.1, ?_⟩
  have hp := a.2.2
  simp only at hp
  rw [he.neg_right, ← sub_eq_add_neg, sub_eq_zero] at hp
  simp only [Sig.unblind]
  rw [he.sub_left, he.smul_left, ← hp, ← hC]
  unfold commit PubKey.ped2
  simp only
  rw [he.add_right, he.add_right, he.add_right, he.smul_right]
  module

/-- Special soundness for signature requests is `cp_extract` under `(g, Y)`; restated here. -/
theorem srp_extract (pk : PubKey G1 G2) (C T : G1) (c c' zbf zbf' : F) (zs zs' : List F)
    (hl : zs.length = zs'.length) (hc : c ≠ c')
    (a : (srpVerify pk ⟨C, T, zbf, zs⟩ c).isSome = true)
    (a' : (srpVerify pk ⟨C, T, zbf', zs'⟩ c').isSome = true) :
    commit pk.ped1 (ext c c' zbf zbf') (List.zipWith (ext c c') zs zs') = C := by
  rw [srpVerify_iff, ← C09.commit_is_pedersen_map ⟨pk.g1, pk.y1s⟩] at a a'
  exact cp_extract pk.ped1 C T c c' zbf zbf' zs zs' hl hc a a'

section examples
private def pp13 : PedParams Z13 := ⟨2, [3, 5]⟩
private def p13 : CProof Z13 Z13 := (CBuilder.mk' pp13 [1, 9] (3 : Z13) 3 [5, 6]).respond 7
example : cpVerify pp13 p13 7 = true := by decide
example : cpVerify pp13 { p13 with T := p13.T + 1 } 7 = false :=
  change_T_rejects pp13 p13 7 _ (by decide) (by decide)
example : cpVerify pp13 p13 8 = false := other_challenge_rejects pp13 p13 7 8 (by decide) (by decide) (by decide)
end examples

end ZkVerif.C11
