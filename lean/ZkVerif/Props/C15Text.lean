/-
C15 / C16 — the text form of a channel id (`Display` / `FromStr`, standard base64), the one hand-written text codec of
the two crates.  Model: `Model/Base64.lean` (what `base64::encode` writes and what `base64::decode` of crate version
0.13 accepts); the harness compares the model's verdict and value with the real `ChannelId::from_str` / `to_string`
on every generated text (driver ops `b64-id-of-text`, `b64-text-of-id`).
-/
import ZkVerif.Lemmas.Base64

namespace ZkVerif.C15
open ZkVerif.Base64

/-- `decode ∘ encode = id` on byte strings of every length -/
theorem text_decode_encode (bs : List Nat) (h : ∀ b ∈ bs, b < 256) : decode (encode bs) = some bs :=
  decode_encode bs h

/-- whatever decodes to `bs` has the non-padding characters of `encode bs` -/
theorem text_canonical_up_to_padding (t bs : List Nat) (h : decode t = some bs) : body t = body (encode bs) :=
  decode_canonical_up_to_padding t bs h

theorem text_encode_injective (bs bs' : List Nat) (h : ∀ b ∈ bs, b < 256) (h' : ∀ b ∈ bs', b < 256)
    (e : encode bs = encode bs') : bs = bs' := encode_injective bs bs' h h' e

/-- **Round trip of the channel-id text form**: what `Display` writes for a 32-byte id, `FromStr` reads back as that id. -/
theorem id_text_roundtrip (id : List Nat) (hlen : id.length = 32) (hb : ∀ b ∈ id, b < 256) :
    idOfText (textOfId id) = some id := by
  simp only [idOfText, textOfId, decode_encode id hb, hlen, if_true]

/-- `FromStr` returns nothing but 32-byte strings of bytes -/
theorem id_text_sound (t id : List Nat) (h : idOfText t = some id) : id.length = 32 ∧ ∀ b ∈ id, b < 256 := by
  simp only [idOfText] at h
  split at h
  · rename_i bs hd
    split at h
    · injection h with h; subst h; exact ⟨by assumption, decode_bytes _ _ hd⟩
    · cases h
  · cases h

/-- a text that parses has 43 non-padding characters (so any payload of another length, in particular a longer one,
is refused and not truncated) and the written form has 44 characters -/
theorem id_text_body_length (t id : List Nat) (h : idOfText t = some id) : (body t).length = 43 ∧ (textOfId id).length = 44 := by
  have ⟨hl, _⟩ := id_text_sound t id h
  simp only [idOfText] at h
  split at h
  · rename_i bs hd
    split at h
    · injection h with h; subst h
      have hc := decode_canonical_up_to_padding t bs hd
      have hlen := encode_length bs
      rw [hl] at hlen
      refine ⟨?_, by simpa [textOfId] using hlen⟩
      -- encode of 32 bytes: 10 full groups and a final group of two bytes (three characters and one `=`)
      rw [hc]
      match bs, hl with
      | [b0,b1,b2,b3,b4,b5,b6,b7,b8,b9,b10,b11,b12,b13,b14,b15,b16,b17,b18,b19,b20,b21,b22,b23,b24,b25,b26,b27,b28,b29,b30,b31], _ =>
        simp only [encode]
        repeat rw [body_cons_ne _ _ (charOf_ne_pad _)]
        rw [body_cons_pad]; rfl
    · cases h
  · cases h

-- non-vacuity: the all-zero id and an id of distinct bytes
example : idOfText (textOfId (List.replicate 32 0)) = some (List.replicate 32 0) := by decide
example : textOfId (List.replicate 32 0) = List.replicate 43 65 ++ [61] := by decide
example : idOfText (List.replicate 43 65) = some (List.replicate 32 0) := by decide          -- padding left out: accepted
example : idOfText (List.replicate 42 65 ++ [66, 61]) = none := by decide                    -- unused low bits set: refused
example : idOfText (List.replicate 44 65) = none := by decide                                -- 33 bytes: refused
example : idOfText (List.replicate 43 65 ++ [61, 65, 65, 65, 65]) = none := by decide        -- characters after the padding

end ZkVerif.C15

namespace ZkVerif.C16
open ZkVerif.Base64

/-- a text whose payload is not exactly 32 bytes — shorter or **longer** — is refused (an error value: the model has no
other outcome; the harness observes that the real parser does not panic on it) -/
theorem id_text_refuses_other_lengths (t bs : List Nat) (h : decode t = some bs) (hl : bs.length ≠ 32) : idOfText t = none := by
  simp only [idOfText, h, if_neg hl]

/-- a text that is not base64 is refused -/
theorem id_text_refuses_undecodable (t : List Nat) (h : decode t = none) : idOfText t = none := by
  simp only [idOfText, h]

end ZkVerif.C16
