/-
C02 — Merchant approves payments only for a correct, unspent, in-range state update.
-/
import ZkVerif.Lemmas.Pay
import ZkVerif.Model.Merchant
import ZkVerif.Props.C12

set_option linter.unusedSectionVars false

namespace ZkVerif.C02
open ZkVerif
universe u
variable {F G1 G2 GT : Type u} [Field F] [AddCommGroup G1] [Module F G1] [AddCommGroup G2]
  [Module F G2] [AddCommGroup GT] [Module F GT] [DecidableEq F] [DecidableEq G1] [DecidableEq G2]
  [DecidableEq GT]
variable {e : G1 → G2 → GT}

/-- The verifier hashes, for the honest customer's pay proof, exactly what the customer hashed. -/
theorem prover_verifier_same_transcript (pm : PayParams G1 G2) (close nonce amount : F)
    (b : PayBuilders F G1 G2) (ctx : List UInt8) (c : F) :
    payTranscript pm close ⟨nonce, amount⟩ (b.respond c) ctx = b.transcript pm close nonce ctx := by
  unfold payTranscript PayBuilders.transcript PayBuilders.respond
  simp only [C10.range_same_transcript]
  rfl

/-- Completeness: the honest customer's pay proof — old state with a valid pay token, new state =
old state moved by `amount`, both new balances in `[0, 2^63)` — is accepted for `(old nonce, amount)`
and the merchant obtains the customer's three commitments; for every hash function and context. -/
theorem pay_complete (he : IsPairing F e) (cd : Codecs F G1 G2) (H : List UInt8 → F)
    (pm : PayParams G1 G2) (close : F) (old new : List F) (tok : Sig G1) (cbv mbv : Int) (amount : F)
    (d : PayDraws F) (ctx : List UInt8)
    (hold : old.length = 5) (hnew : new.length = 5)
    (hcid : new.getD 0 0 = old.getD 0 0)
    (hcb : new.getD 3 0 = ((cbv.toNat : Nat) : F)) (hmb : new.getD 4 0 = ((mbv.toNat : Nat) : F))
    (hupc : new.getD 3 0 = old.getD 3 0 - amount) (hupm : new.getD 4 0 = old.getD 4 0 + amount)
    (htok : psVerify e pm.pk tok old = true) (hrT : d.rT ≠ 0)
    (hs : pm.rp.sigs.length = 128)
    (hvalid : ∀ k (h : k < pm.rp.sigs.length), psVerify e pm.rp.pk pm.rp.sigs[k] [(k : F)] = true)
    (hc0 : 0 ≤ cbv) (hc1 : cbv < 2 ^ 63) (hm0 : 0 ≤ mbv) (hm1 : mbv < 2 ^ 63)
    (hwc : d.cbW.length = 9) (hwm : d.mbW.length = 9)
    (hrc : ∀ w ∈ d.cbW, w.r ≠ 0) (hrm : ∀ w ∈ d.mbW, w.r ≠ 0) :
    ∃ b, payBuilders pm close old new tok cbv mbv d = some b ∧
      payVerify e cd H pm close ⟨old.getD 1 0, amount⟩
        (b.respond (challengeOf cd H (b.transcript pm close (old.getD 1 0) ctx))) ctx =
        some (b.stB.C, b.clB.C, b.rlB.C) := by
  obtain ⟨b, hb, _⟩ := pay_complete_with he pm close old new tok cbv mbv amount d 0
    hold hnew hcid hcb hmb hupc hupm ((psVerify_true e _ _ _).mp htok) hrT hs
    (fun k h => (psVerify_true e _ _ _).mp (hvalid k h)) hc0 hc1 hm0 hm1 hwc hwm hrc hrm
  obtain ⟨b2, hb2, hacc⟩ := pay_complete_with he pm close old new tok cbv mbv amount d
    (challengeOf cd H (b.transcript pm close (old.getD 1 0) ctx))
    hold hnew hcid hcb hmb hupc hupm ((psVerify_true e _ _ _).mp htok) hrT hs
    (fun k h => (psVerify_true e _ _ _).mp (hvalid k h)) hc0 hc1 hm0 hm1 hwc hwm hrc hrm
  rw [hb] at hb2; cases hb2
  refine ⟨b, hb, ?_⟩
  unfold payVerify
  rw [prover_verifier_same_transcript, payVerifyWith_some_iff]
  exact ⟨hacc, rfl⟩

/-- Special soundness (all fifteen checks), see `ZkVerif.pay_special_sound`; restated for the
function the merchant runs. -/
theorem pay_special_sound (he : IsPairing F e) (pm : PayParams G1 G2) (close : F) (pub : PayPub F)
    (p p' : PayProofM F G1 G2) (c c' : F) (hc : c ≠ c') (hs : PayShape p) (hs' : PayShape p')
    (hf : PaySameFirst p p')
    (a : (payVerifyWith e pm close pub p c).isSome = true)
    (a' : (payVerifyWith e pm close pub p' c').isSome = true) :
    ∃ (o0 o2 o3 o4 n1 n2 ro rs rc rl : F),
      psVerify e pm.pk (p.tok.sig.unblind ro) [o0, pub.nonce, o2, o3, o4] = true ∧
      commit pm.pk.ped1 rs [o0, n1, n2, o3 - pub.amount, o4 + pub.amount] = p.st.C ∧
      commit pm.pk.ped1 rc [o0, close, n2, o3 - pub.amount, o4 + pub.amount] = p.cl.C ∧
      commit pm.rev rl [o2] = p.rl.C ∧
      (∃ μs : List F, List.Forall₂ (fun q μ => ∃ ρ : F, psVerify e pm.rp.pk (q.sig.unblind ρ) [μ] = true) p.cbR μs ∧
        hornerF μs = o3 - pub.amount) ∧
      (∃ μs : List F, List.Forall₂ (fun q μ => ∃ ρ : F, psVerify e pm.rp.pk (q.sig.unblind ρ) [μ] = true) p.mbR μs ∧
        hornerF μs = o4 + pub.amount) := by
  have ha : PayAccept e pm close pub p c := by
    obtain ⟨v, hv⟩ := Option.isSome_iff_exists.mp a
    exact ((payVerifyWith_some_iff pm close pub p c v).mp hv).1
  have ha' : PayAccept e pm close pub p' c' := by
    obtain ⟨v, hv⟩ := Option.isSome_iff_exists.mp a'
    exact ((payVerifyWith_some_iff pm close pub p' c' v).mp hv).1
  exact ZkVerif.pay_special_sound he pm close pub p p' c c' hc hs hs' hf ha ha'

/-- With the explicit unforgeability hypothesis for the range key, both new balances are integers
in `[0, 2^63)`. -/
theorem pay_balances_in_range (he : IsPairing F e) (pm : PayParams G1 G2) (close : F) (pub : PayPub F)
    (p p' : PayProofM F G1 G2) (c c' : F) (hc : c ≠ c') (hs : PayShape p) (hs' : PayShape p')
    (hf : PaySameFirst p p') (h9 : p.cbR.length = 9) (h9' : p.mbR.length = 9)
    (hu : C13.DigitUnforgeable (F := F) e pm.rp)
    (a : PayAccept e pm close pub p c) (a' : PayAccept e pm close pub p' c') :
    (∃ n : Nat, n ≤ 2 ^ 63 - 1 ∧ ext c c' (p.st.zs.getD 3 0) (p'.st.zs.getD 3 0) = (n : F)) ∧
    (∃ n : Nat, n ≤ 2 ^ 63 - 1 ∧ ext c c' (p.st.zs.getD 4 0) (p'.st.zs.getD 4 0) = (n : F)) := by
  obtain ⟨_, _, _, _, acb, amb, _⟩ := a
  obtain ⟨_, _, _, _, acb', amb', _⟩ := a'
  exact ⟨C13.range_sound_value he pm.rp c c' hc p.cbR p'.cbR _ _ h9 hf.cbR hs.cbR hs'.cbR hu acb acb',
    C13.range_sound_value he pm.rp c c' hc p.mbR p'.mbR _ _ h9' hf.mbR hs.mbR hs'.mbR hu amb amb'⟩

/-- What the merchant signs and keeps: if `allow_payment` accepts, the returned closing signature is
the blind signature on the proof's close-state commitment, and the pending payment holds the
proof's state commitment and revocation-lock commitment. -/
theorem allow_payment_signs_proven (he : IsPairing F e) (cd : Codecs F G1 G2) (H : List UInt8 → F)
    (m : MerchantCfg F G1 G2) (hk : m.kp.Honest) (hg1 : m.kp.pk.g1 ≠ 0) (hg2 : m.kp.pk.g2 ≠ 0)
    (close : F) (pub : PayPub F) (p : PayProofM F G1 G2) (ctx : List UInt8) (u : F) (hu : u ≠ 0)
    (un : Unrevoked G1) (σ : Sig G1)
    (h : m.allowPayment e cd H close pub p ctx u = some (un, σ)) :
    un = ⟨p.rl.C, p.st.C⟩ ∧ σ = Sig.blindSign m.kp u p.cl.C ∧
    (∀ (r' : F) (ms' : List F), psVerify e m.kp.pk (σ.unblind r') ms' = true ↔
      commit m.kp.pk.ped1 r' ms' = p.cl.C) := by
  unfold MerchantCfg.allowPayment at h
  cases hv : payVerify e cd H m.payParams close pub p ctx with
  | none => rw [hv] at h; cases h
  | some w =>
    obtain ⟨s, cl, rl⟩ := w
    rw [hv] at h
    simp only [Option.some.injEq, Prod.mk.injEq] at h
    obtain ⟨rfl, rfl⟩ := h
    unfold payVerify at hv
    obtain ⟨_, hw⟩ := (payVerifyWith_some_iff _ _ _ _ _ _).mp hv
    simp only [Prod.mk.injEq] at hw
    obtain ⟨rfl, rfl, rfl⟩ := hw
    exact ⟨rfl, rfl, fun r' ms' => C08.unblind_verifies_iff_opening he m.kp hk hg1 hg2 u hu _ r' ms'⟩

/-! ### The pinned verifier accepts one pay token under any nonce (defect D2) -/

theorem Legacy.transcript_ignores_nonce_scalar (pm : PayParams G1 G2) (close : F) (pub : PayPub F)
    (p : PayProofM F G1 G2) (ctx : List UInt8) (k : F) :
    Legacy.payTranscript pm close pub { p with kNonce := k } ctx = Legacy.payTranscript pm close pub p ctx := rfl

/-- For the pinned verifier: a customer holding one valid pay token (old state with nonce `old₁`)
obtains, for *every* claimed nonce `n'` and every hash function, a proof the merchant accepts under
`n'` — so the same token can be spent under arbitrarily many nonces. -/
theorem Legacy.pay_any_nonce_accepted (he : IsPairing F e) (cd : Codecs F G1 G2) (H : List UInt8 → F)
    (pm : PayParams G1 G2) (close : F) (old new : List F) (tok : Sig G1) (cbv mbv : Int) (amount : F)
    (d : PayDraws F) (ctx : List UInt8) (n' : F)
    (hold : old.length = 5) (hnew : new.length = 5)
    (hcid : new.getD 0 0 = old.getD 0 0)
    (hcb : new.getD 3 0 = ((cbv.toNat : Nat) : F)) (hmb : new.getD 4 0 = ((mbv.toNat : Nat) : F))
    (hupc : new.getD 3 0 = old.getD 3 0 - amount) (hupm : new.getD 4 0 = old.getD 4 0 + amount)
    (htok : psVerify e pm.pk tok old = true) (hrT : d.rT ≠ 0)
    (hs : pm.rp.sigs.length = 128)
    (hvalid : ∀ k (h : k < pm.rp.sigs.length), psVerify e pm.rp.pk pm.rp.sigs[k] [(k : F)] = true)
    (hc0 : 0 ≤ cbv) (hc1 : cbv < 2 ^ 63) (hm0 : 0 ≤ mbv) (hm1 : mbv < 2 ^ 63)
    (hwc : d.cbW.length = 9) (hwm : d.mbW.length = 9)
    (hrc : ∀ w ∈ d.cbW, w.r ≠ 0) (hrm : ∀ w ∈ d.mbW, w.r ≠ 0) :
    ∃ p : PayProofM F G1 G2, (Legacy.payVerify e cd H pm close ⟨n', amount⟩ p ctx).isSome = true := by
  -- the challenge the pinned merchant derives does not depend on the nonce's commitment scalar
  -- nor on the responses: fix it first
  obtain ⟨b, hb, _⟩ := pay_complete_with he pm close old new tok cbv mbv amount d 0
    hold hnew hcid hcb hmb hupc hupm ((psVerify_true e _ _ _).mp htok) hrT hs
    (fun k h => (psVerify_true e _ _ _).mp (hvalid k h)) hc0 hc1 hm0 hm1 hwc hwm hrc hrm
  obtain ⟨c, hcdef⟩ : ∃ c, c = challengeOf cd H (Legacy.payTranscript pm close ⟨n', amount⟩ (b.respond 0) ctx) := ⟨_, rfl⟩
  obtain ⟨b2, hb2, hacc⟩ := pay_complete_with he pm close old new tok cbv mbv amount d c
    hold hnew hcid hcb hmb hupc hupm ((psVerify_true e _ _ _).mp htok) hrT hs
    (fun k h => (psVerify_true e _ _ _).mp (hvalid k h)) hc0 hc1 hm0 hm1 hwc hwm hrc hrm
  rw [hb] at hb2; cases hb2
  refine ⟨{ b.respond c with kNonce := (b.respond c).tok.cp.zs.getD 1 0 - c * n' }, ?_⟩
  unfold Legacy.payVerify
  have htr : Legacy.payTranscript pm close ⟨n', amount⟩
      { b.respond c with kNonce := (b.respond c).tok.cp.zs.getD 1 0 - c * n' } ctx =
      Legacy.payTranscript pm close ⟨n', amount⟩ (b.respond 0) ctx := by
    unfold Legacy.payTranscript PayBuilders.respond
    simp only [C10.range_same_transcript]
    rfl
  rw [htr, ← hcdef]
  have := pay_accept_change_nonce pm close (old.getD 1 0) n' amount (b.respond c) c hacc
  unfold payVerifyWith
  rw [if_pos this]; rfl

end ZkVerif.C02
