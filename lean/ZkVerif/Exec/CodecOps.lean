/-
Driver side of the codec model: a small parser for wire-type expressions and the `decode` request.

Type expressions:  S scalar | A G1 | B G2 | b u8 | u u64 | i i64 | r<n> raw bytes | [n:T] serde.rs array |
{T} serde.rs Vec | <n:T> derived array | (T T …) struct/tuple | !c:T validator c ∈ n (all non-identity),
k (secret key), s (signature), o (nonce), l (balance), p (revocation pair)
-/
import ZkVerif.Exec.Proto
import ZkVerif.Model.Codec
import ZkVerif.Model.Base64
import Std.Data.HashMap

namespace ZkVerif.CodecOps
open ZkVerif ZkVerif.Codec ZkVerif.Proto

partial def parseNat (cs : List Char) (acc : Nat) : Nat × List Char :=
  match cs with
  | c :: r => if c.isDigit then parseNat r (acc * 10 + (c.toNat - '0'.toNat)) else (acc, cs)
  | [] => (acc, [])

mutual
partial def parseTy (cs : List Char) : Option (Ty × List Char) :=
  match cs with
  | 'S' :: r => some (.scalar, r)
  | 'A' :: r => some (.g1, r)
  | 'B' :: r => some (.g2, r)
  | 'b' :: r => some (.u8, r)
  | 'u' :: r => some (.u64, r)
  | 'i' :: r => some (.i64, r)
  | 'r' :: r => let (n, r) := parseNat r 0; some (.raw n, r)
  | '[' :: r =>
    let (n, r) := parseNat r 0
    match r with
    | ':' :: r => match parseTy r with
      | some (t, ']' :: r) => some (.arr n t, r)
      | _ => none
    | _ => none
  | '<' :: r =>
    let (n, r) := parseNat r 0
    match r with
    | ':' :: r => match parseTy r with
      | some (t, '>' :: r) => some (.rep n t, r)
      | _ => none
    | _ => none
  | '{' :: r => match parseTy r with
    | some (t, '}' :: r) => some (.vec t, r)
    | _ => none
  | '(' :: r => match parseTys r with
    | some (ts, r) => some (.tup ts, r)
    | none => none
  | '!' :: c :: ':' :: r =>
    let v : Option Validator := match c with
      | 'n' => some .allNonIdentity | 'k' => some .secretKey | 's' => some .signature
      | 'o' => some .nonce | 'l' => some .balance | 'p' => some .revPair | _ => none
    match v, parseTy r with
    | some v, some (t, r) => some (.chk v t, r)
    | _, _ => none
  | _ => none

partial def parseTys (cs : List Char) : Option (List Ty × List Char) :=
  match cs with
  | ')' :: r => some ([], r)
  | ' ' :: r => parseTys r
  | _ => match parseTy cs with
    | some (t, r) => match parseTys r with
      | some (ts, r) => some (t :: ts, r)
      | none => none
    | none => none
end

structure DState where
  els : Std.HashMap String El := {}
  revs : Std.HashMap String Bool := {}

def hexOf (bs : List UInt8) : String :=
  String.ofList (bs.foldr (fun b acc => hexChar (b.toNat / 16) :: hexChar (b.toNat % 16) :: acc) [])

def mkEnv (st : DState) (legacy : Bool) (revOk : Bool) (missValid : Bool) : Env :=
  { q := ZkVerif.q, close := 0x45534f4c43000000000000000000000000000000000000000000000000000000 % ZkVerif.q,
    elG1 := fun c => (st.els.get? (hexOf c)).getD (if missValid then .valid else .invalid),
    elG2 := fun c => (st.els.get? (hexOf c)).getD (if missValid then .valid else .invalid),
    revOk := fun l s i => revOk && (st.revs.get? s!"{toHex l}:{toHex s}:{i}").getD false, legacy := legacy }

def showOut (o : Out PT × Alloc) (total : Nat) : String :=
  match o with
  | (.ok _ rest, a) => join [tV "ok", tN (total - rest.length), tN a]
  | (.err, a) => join [tV "err", tN a]
  | (.panic, a) => join [tV "panic", tN a]

/-- stateful requests -/
def dispatchSt (st : DState) (args : List String) : DState × Option String :=
  match args with
  | "el-put" :: items =>
    let st' := items.foldl (fun (s : DState) it =>
      match it.splitOn "=" with
      | [h, "i"] => { s with els := s.els.insert h .invalid }
      | [h, "d"] => { s with els := s.els.insert h .identity }
      | [h, "v"] => { s with els := s.els.insert h .valid }
      | _ => s) st
    (st', some (tV "ok"))
  | ["el-clear"] => ({ els := {}, revs := {} }, some (tV "ok"))
  | "rev-put" :: items =>
    -- valid (lock, secret, index) triples, decimal, `lock:secret:index`
    (items.foldl (fun (s : DState) it => { s with revs := s.revs.insert it true }) st, some (tV "ok"))
  | ["decode", ty, legacy, rev, bytes] =>
    match parseTy (ty.replace "_" " ").toList, parseBytes bytes with
    | some (t, []), some bs =>
      let o1 := decode (mkEnv st (legacy == "1") (rev == "1") false) t bs 0
      let o2 := decode (mkEnv st (legacy == "1") (rev == "1") true) t bs 0
      let s1 := showOut o1 bs.length
      let s2 := showOut o2 bs.length
      -- an unclassified chunk was touched iff the two runs differ
      (st, some (if s1 == s2 then s1 else tV "need-classification"))
    | _, _ => (st, none)
  | ["decode-final", ty, legacy, rev, bytes] =>
    -- every chunk not classified by the harness has no compression flag: bls12_381 rejects it
    match parseTy (ty.replace "_" " ").toList, parseBytes bytes with
    | some (t, []), some bs =>
      (st, some (showOut (decode (mkEnv st (legacy == "1") (rev == "1") false) t bs 0) bs.length))
    | _, _ => (st, none)
  -- the text form of a channel id (argument: hex of the text's bytes, `-` for the empty text)
  | ["b64-id-of-text", arg] =>
    match parseBytes arg with
    | some bs =>
      (st, some (match Base64.idOfText (bs.map (·.toNat)) with
        | some id => join [tV "some", tV (hexOf (id.map (fun n => n.toUInt8)))]
        | none => tV "none"))
    | none => (st, none)
  | ["b64-text-of-id", arg] =>
    match parseBytes arg with
    | some bs => (st, some (tV (hexOf ((Base64.textOfId (bs.map (·.toNat))).map (fun n => n.toUInt8)))))
    | none => (st, none)
  | _ => (st, none)

end ZkVerif.CodecOps
