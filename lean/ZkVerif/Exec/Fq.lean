/-
The executable instance on which the model is run for the correspondence check ("exponent
space"): scalars are `F_q`, and all three groups are `F_q` too — a group element is represented by
its discrete logarithm with respect to the fixed bases `B1`, `B2`, `e(B1, B2)` that the Rust
harness uses.  `a • g = a * g`, `e a b = a * b`.

Core Lean only.  The theorems are proved for *every* field / module / pairing; that this executed
instance is one of them (`q` is prime, `Fq` with exactly these operations is a field, multiplication is
a bilinear non-degenerate pairing) is proved in `Props/ExecInstance.lean`.  An `Fq` carries the proof
that its representative is canonical (`v < q`; erased at run time), so `DecidableEq Fq` is equality
in the field.
-/
namespace ZkVerif

/-- Order of the BLS12-381 scalar field. -/
def q : Nat := 0x73eda753299d7d483339d80809a1d80553bda402fffe5bfeffffffff00000001

theorem q_pos : 0 < q := by decide
theorem q_gt_one : 1 < q := by decide

structure Fq where
  v : Nat
  h : v < q

namespace Fq
theorem ext {a b : Fq} (hv : a.v = b.v) : a = b := by
  cases a; cases b; cases hv; rfl
instance : DecidableEq Fq := fun a b =>
  if hv : a.v = b.v then isTrue (ext hv) else isFalse (fun hab => hv (hab ▸ rfl))
instance : Repr Fq := ⟨fun a p => reprPrec a.v p⟩
instance : Inhabited Fq := ⟨⟨0, q_pos⟩⟩

def ofNat (n : Nat) : Fq := ⟨n % q, Nat.mod_lt _ q_pos⟩
instance : Zero Fq := ⟨⟨0, q_pos⟩⟩
instance : One Fq := ⟨⟨1, q_gt_one⟩⟩
instance : Add Fq := ⟨fun a b => ofNat (a.v + b.v)⟩
instance : Mul Fq := ⟨fun a b => ofNat (a.v * b.v)⟩
instance : Neg Fq := ⟨fun a => ofNat (q - a.v % q)⟩
instance : Sub Fq := ⟨fun a b => ofNat (a.v + (q - b.v % q))⟩
instance : NatCast Fq := ⟨ofNat⟩
instance : IntCast Fq := ⟨fun i => match i with
  | .ofNat n => ofNat n
  | .negSucc n => ofNat (q - (n + 1) % q)⟩
instance : SMul Fq Fq := ⟨fun a b => a * b⟩

/-- The pairing on discrete logarithms. -/
def e (a b : Fq) : Fq := a * b
end Fq

end ZkVerif
