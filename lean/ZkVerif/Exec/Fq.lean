/-
The executable instance on which the model is run for the correspondence check ("exponent
space"): scalars are `F_q`, and all three groups are `F_q` too — a group element is represented by
its discrete logarithm with respect to the fixed bases `B1`, `B2`, `e(B1, B2)` that the Rust
harness uses.  `a • g = a * g`, `e a b = a * b`.

Core Lean only.  Not part of any proof: the theorems are proved for *every* field / module /
pairing, this file only provides the instance that is executed.
-/
namespace ZkVerif

/-- Order of the BLS12-381 scalar field. -/
def q : Nat := 0x73eda753299d7d483339d80809a1d80553bda402fffe5bfeffffffff00000001

structure Fq where
  v : Nat
deriving DecidableEq, Repr, Inhabited, Hashable

namespace Fq
def ofNat (n : Nat) : Fq := ⟨n % q⟩
instance : Zero Fq := ⟨⟨0⟩⟩
instance : One Fq := ⟨⟨1⟩⟩
instance : Add Fq := ⟨fun a b => ofNat (a.v + b.v)⟩
instance : Mul Fq := ⟨fun a b => ofNat (a.v * b.v)⟩
instance : Neg Fq := ⟨fun a => ofNat (q - a.v % q)⟩
instance : Sub Fq := ⟨fun a b => ofNat (a.v + (q - b.v % q))⟩
instance : NatCast Fq := ⟨ofNat⟩
instance : IntCast Fq := ⟨fun i => match i with
  | .ofNat n => ofNat n
  | .negSucc n => ofNat (q - (n + 1) % q)⟩
instance : SMul Fq Fq := ⟨fun a b => a * b⟩
instance {n : Nat} : OfNat Fq n := ⟨ofNat n⟩

/-- The pairing on discrete logarithms. -/
def e (a b : Fq) : Fq := a * b
end Fq

end ZkVerif
