/-
Line protocol helpers for the model driver.  One request per line:
  `<op> <arg> <arg> …`     args: hex numbers, comma-separated hex lists (`-` = empty list)
One answer per line: typed tokens separated by blanks
  `b:0|1`  boolean      `s:<hex>`  scalar or discrete log      `v:<name>`  variant / error class
  `n:<dec>` natural     `x:<hex bytes>`                         `l:<k>` list header (k items follow)
-/
import ZkVerif.Exec.Fq
namespace ZkVerif.Proto

def hexDigit (c : Char) : Option Nat :=
  if '0' ≤ c ∧ c ≤ '9' then some (c.toNat - '0'.toNat)
  else if 'a' ≤ c ∧ c ≤ 'f' then some (c.toNat - 'a'.toNat + 10)
  else if 'A' ≤ c ∧ c ≤ 'F' then some (c.toNat - 'A'.toNat + 10)
  else none

def parseHex (s : String) : Option Nat :=
  if s.isEmpty then none else
  s.toList.foldl (fun acc c => match acc, hexDigit c with
    | some a, some d => some (a * 16 + d)
    | _, _ => none) (some 0)

def hexChar (n : Nat) : Char :=
  if n < 10 then Char.ofNat (n + '0'.toNat) else Char.ofNat (n - 10 + 'a'.toNat)

partial def toHexAux (n : Nat) (acc : List Char) : List Char :=
  if n < 16 then hexChar n :: acc else toHexAux (n / 16) (hexChar (n % 16) :: acc)

def toHex (n : Nat) : String := String.ofList (toHexAux n [])

def parseFq (s : String) : Option Fq := (parseHex s).map Fq.ofNat

def parseList (s : String) : Option (List Fq) :=
  if s == "-" then some [] else (s.splitOn ",").mapM parseFq

def parseNatList (s : String) : Option (List Nat) :=
  if s == "-" then some [] else (s.splitOn ",").mapM parseHex

/-- optional scalars: `_` = none -/
def parseOptList (s : String) : Option (List (Option Fq)) :=
  if s == "-" then some [] else
  (s.splitOn ",").mapM (fun t => if t == "_" then some none else (parseFq t).map some)

def parseBytes (s : String) : Option (List UInt8) :=
  if s == "-" then some [] else
  let rec go : List Char → Option (List UInt8)
    | [] => some []
    | [_] => none
    | a :: b :: r => match hexDigit a, hexDigit b, go r with
      | some x, some y, some t => some (UInt8.ofNat (x * 16 + y) :: t)
      | _, _, _ => none
  go s.toList

def tS (x : Fq) : String := "s:" ++ toHex x.v
def tB (b : Bool) : String := if b then "b:1" else "b:0"
def tV (s : String) : String := "v:" ++ s
def tN (n : Nat) : String := "n:" ++ toString n
def tX (bs : List UInt8) : String :=
  "x:" ++ String.ofList (bs.foldr (fun b acc => hexChar (b.toNat / 16) :: hexChar (b.toNat % 16) :: acc) [])
def tI (i : Int) : String := "i:" ++ toString i
def tL (xs : List Fq) : String := String.intercalate " " (("l:" ++ toString xs.length) :: xs.map tS)

def join (ts : List String) : String := String.intercalate " " ts

end ZkVerif.Proto
