/-
Driver operations: each request line is answered by running the *model* functions of
`ZkVerif/Model` on the exponent-space instance.
-/
import ZkVerif.Exec.Proto
import ZkVerif.Model.Schnorr
import ZkVerif.Model.Arith
import ZkVerif.Model.Transcript
import ZkVerif.Model.Merchant
import ZkVerif.Model.Abacus
import ZkVerif.Model.Customer
import ZkVerif.Model.Sha3
namespace ZkVerif.Ops
open ZkVerif ZkVerif.Proto

abbrev PP := PedParams Fq

def ped (h : Fq) (gs : List Fq) : PP := ⟨h, gs⟩

/-- The three verifier calls of the driver as named terms, elaborated here with the executed
instances only; `Props/ExecInstance.lean` states the property theorems about exactly these. -/
def execPsVerify (pk : PubKey Fq Fq) (σ : Sig Fq) (ms : List Fq) : Bool := psVerify Fq.e pk σ ms
def execCpVerify (pp : PP) (p : CProof Fq Fq) (c : Fq) : Bool := cpVerify pp p c
def execVerifyOpening (pp : PP) (c bf : Fq) (ms : List Fq) : Bool := verifyOpening pp c bf ms

abbrev St := Stream Fq Fq Fq

/-- stream items: `s<hex>` scalar draw, `a<hex>` G1 draw, `b<hex>` G2 draw, `r<hex bytes>` raw -/
def parseDraw (t : String) : Option (Draw Fq Fq Fq) :=
  match t.toList with
  | 's' :: r => (parseFq (String.ofList r)).map Draw.s
  | 'a' :: r => (parseFq (String.ofList r)).map Draw.g1
  | 'b' :: r => (parseFq (String.ofList r)).map Draw.g2
  | 'r' :: r => (parseBytes (String.ofList r)).map Draw.raw
  | _ => none

def parseStream (s : String) : Option St :=
  if s == "-" then some [] else (s.splitOn ",").mapM parseDraw

def mkPk (g1 : Fq) (y1s : List Fq) (g2 x2 : Fq) (y2s : List Fq) : PubKey Fq Fq := ⟨g1, y1s, g2, x2, y2s⟩

def tSig (σ : Sig Fq) : String := join [tS σ.s1, tS σ.s2]

def tKeyPair (kp : KeyPair Fq Fq Fq) : List String :=
  [tS kp.sk.x, tL kp.sk.ys, tS kp.sk.x1, tS kp.pk.g1, tL kp.pk.y1s, tS kp.pk.g2, tS kp.pk.x2, tL kp.pk.y2s]

/-- 128 signatures as a flat list σ₁,σ₂,σ₁,σ₂,… -/
def sigsOfFlat : List Fq → List (Sig Fq)
  | a :: b :: r => ⟨a, b⟩ :: sigsOfFlat r
  | _ => []

def flatOfSigs (σs : List (Sig Fq)) : List Fq := σs.flatMap fun σ => [σ.s1, σ.s2]

def mkRp (sigs : List Fq) (g1 y1 g2 x2 y2 : Fq) : RangeParams Fq Fq := ⟨sigsOfFlat sigs, mkPk g1 [y1] g2 x2 [y2]⟩

def drawsOfFlat : List Fq → List (DigitDraws Fq)
  | a :: b :: c :: d :: r => ⟨a, b, c, d⟩ :: drawsOfFlat r
  | _ => []

def tSProof (p : SProof Fq Fq Fq) : String :=
  join [tS p.sig.s1, tS p.sig.s2, tS p.cp.C, tS p.cp.T, tS p.cp.zbf, tL p.cp.zs]

/-- nine digit proofs as a flat list of 6-tuples σ₁',σ₂',C,T,z_bf,z -/
def sproofsOfFlat : List Fq → List (SProof Fq Fq Fq)
  | a :: b :: c :: d :: e :: f :: r => ⟨⟨a, b⟩, ⟨c, d, e, [f]⟩⟩ :: sproofsOfFlat r
  | _ => []

def tAtom : Atom Fq Fq Fq → String
  | .s x => join [tV "s", tS x]
  | .g1 x => join [tV "g1", tS x]
  | .g2 x => join [tV "g2", tS x]
  | .bytes b => join [tV "x", tX b]

def tTranscript (t : Transcript Fq Fq Fq) : String := join (("l:" ++ toString t.length) :: t.map tAtom)

/-- one transcript item of the generic `transcript` op: `kind:field;field;…` (fields are hex or
comma-separated hex lists) -/
def parseItem (t : String) : Option (Transcript Fq Fq Fq) :=
  match t.splitOn ":" with
  | [kind, body] =>
    let fs := body.splitOn ";"
    match kind, fs with
    | "s", [x] => do pure [.s (← parseFq x)]
    | "g1", [x] => do pure [.g1 (← parseFq x)]
    | "g2", [x] => do pure [.g2 (← parseFq x)]
    | "bytes", [x] => do pure [.bytes (← parseBytes x)]
    | "cp1", [c, t] => do pure (CProof.atoms1 (⟨← parseFq c, ← parseFq t, 0, []⟩ : CProof Fq Fq))
    | "cp2", [c, t] => do pure (CProof.atoms2 (⟨← parseFq c, ← parseFq t, 0, []⟩ : CProof Fq Fq))
    | "sig", [a, b] => do pure (Sig.atoms (⟨← parseFq a, ← parseFq b⟩ : Sig Fq))
    | "sp", [a, b, c, t] => do
        pure (SProof.atoms (⟨⟨← parseFq a, ← parseFq b⟩, ⟨← parseFq c, ← parseFq t, 0, []⟩⟩ : SProof Fq Fq Fq))
    | "pk", [g1, y1s, g2, x2, y2s] => do
        pure (PubKey.atoms (mkPk (← parseFq g1) (← parseList y1s) (← parseFq g2) (← parseFq x2) (← parseList y2s)))
    | "ped1", [h, gs] => do pure (PedParams.atoms1 (ped (← parseFq h) (← parseList gs)))
    | "ped2", [h, gs] => do pure (PedParams.atoms2 (ped (← parseFq h) (← parseList gs)))
    | "rp", [sigs, g1, y1, g2, x2, y2] => do
        pure (RangeParams.atoms (mkRp (← parseList sigs) (← parseFq g1) (← parseFq y1) (← parseFq g2) (← parseFq x2) (← parseFq y2)))
    | "range", [ps] => do pure (rangeAtoms (sproofsOfFlat (← parseList ps)))
    | _, _ => none
  | _ => none

def cpOfFlat5 : List Fq → Option (CProof Fq Fq)
  | [c, t, zbf, z0, z1, z2, z3, z4] => some ⟨c, t, zbf, [z0, z1, z2, z3, z4]⟩
  | _ => none

/-- a pay proof as one flat list: kN kC | tok: s1 s2 C T zbf z0..z4 | rl: C T zbf z | st: C T zbf z0..z4 |
cl: C T zbf z0..z4 | cbR 9x6 | mbR 9x6  (2 + 10 + 4 + 8 + 8 + 54 + 54 = 140) -/
def payProofOfFlat (l : List Fq) : Option (PayProofM Fq Fq Fq) :=
  if l.length ≠ 140 then none else
  match l.take 2, (l.drop 2).take 10, (l.drop 12).take 4 with
  | [kN, kC], [s1, s2, c, t, zbf, z0, z1, z2, z3, z4], [lc, lt, lzbf, lz] => do
    let st ← cpOfFlat5 ((l.drop 16).take 8)
    let cl ← cpOfFlat5 ((l.drop 24).take 8)
    pure ⟨kN, kC, ⟨⟨s1, s2⟩, ⟨c, t, zbf, [z0, z1, z2, z3, z4]⟩⟩, ⟨lc, lt, lzbf, [lz]⟩, st, cl,
      sproofsOfFlat ((l.drop 32).take 54), sproofsOfFlat ((l.drop 86).take 54)⟩
  | _, _, _ => none

def flatOfCp (p : CProof Fq Fq) : List Fq := [p.C, p.T, p.zbf] ++ p.zs
def flatOfSp (p : SProof Fq Fq Fq) : List Fq := [p.sig.s1, p.sig.s2] ++ flatOfCp p.cp
def flatOfPay (p : PayProofM Fq Fq Fq) : List Fq :=
  [p.kNonce, p.kClose] ++ flatOfSp p.tok ++ flatOfCp p.rl ++ flatOfCp p.st ++ flatOfCp p.cl ++
    p.cbR.flatMap flatOfSp ++ p.mbR.flatMap flatOfSp

/-- pay draws as a flat list of 87 scalars (order of `PayDraws`) -/
def payDrawsOfFlat (l : List Fq) : Option (PayDraws Fq) :=
  if l.length ≠ 87 then none else
  match l.drop 72 with
  | [bfR, tbfR, tR, bfT, tbfT, t0T, t1T, rT, bfS, tbfS, t1S, t2S, bfC, tbfC, t1C] =>
    some ⟨drawsOfFlat (l.take 36), drawsOfFlat ((l.drop 36).take 36), bfR, tbfR, tR, bfT, tbfT, t0T, t1T, rT, bfS, tbfS, t1S, t2S, bfC, tbfC, t1C⟩
  | _ => none

def mkPayParams (pk : List String) (rp : List String) (rev : List String) : Option (PayParams Fq Fq) :=
  match pk, rp, rev with
  | [g1, y1s, g2, x2, y2s], [sigs, rg1, ry1, rg2, rx2, ry2], [h, g] => do
    pure ⟨mkPk (← parseFq g1) (← parseList y1s) (← parseFq g2) (← parseFq x2) (← parseList y2s),
      mkRp (← parseList sigs) (← parseFq rg1) (← parseFq ry1) (← parseFq rg2) (← parseFq rx2) (← parseFq ry2),
      ped (← parseFq h) [← parseFq g]⟩
  | _, _, _ => none

/-- little-endian 32-byte encoding of a scalar (`Scalar::to_bytes`) -/
def encLE : Nat → Nat → List UInt8
  | 0, _ => []
  | k + 1, n => UInt8.ofNat (n % 256) :: encLE k (n / 256)

def decLE : List UInt8 → Nat
  | [] => 0
  | b :: bs => b.toNat + 256 * decLE bs

def encFq (x : Fq) : List UInt8 := encLE 32 x.v

/-- `Scalar::from_bytes`: canonical decoding, `none` for values `≥ q` or a wrong length -/
def decFq (bs : List UInt8) : Option Fq :=
  if h : bs.length = 32 ∧ decLE bs < q then some ⟨decLE bs, h.2⟩ else none

/-- the two revocation-pair calls with the executed hash, as named terms (`Props/Sha3Inst.lean` is about these) -/
def execRevPairDecode (lock secret : Fq) (index : Nat) : Except RevErr (RevPair Fq) :=
  revPairDecode Sha3.sha3_256 decFq encFq lock secret index
def execRevPairNew (s : St) : Option (RevPair Fq × St) := revPairNew Sha3.sha3_256 decFq encFq s

def tRevPair (p : RevPair Fq) : String := join [tV "ok", tS p.lock, tS p.secret, tN p.index]

/-- a customer `State` as 7 request fields: cid nonce lock secret index cb mb -/
def parseCState (l : List String) : Option (CState Fq) :=
  match l with
  | [cid, nonce, lock, secret, index, cb, mb] => do
    pure ⟨← parseFq cid, ← parseFq nonce, ← parseFq lock, ← parseFq secret, ← parseHex index, ← parseHex cb, ← parseHex mb⟩
  | _ => none

def tCState (s : CState Fq) : String := join [tS s.cid, tS s.nonce, tS s.lock, tS s.secret, tN s.index, tN s.cb, tN s.mb]

def tCustomer : Customer Fq Fq → String
  | .requested st a b => join [tV "requested", tCState st, tS a, tS b]
  | .inactive st b cs => join [tV "inactive", tCState st, tS b, tSig cs]
  | .ready st t cs => join [tV "ready", tCState st, tSig t, tSig cs]
  | .started n o a b c cs => join [tV "started", tCState n, tCState o, tS a, tS b, tS c, tSig cs]
  | .locked st b cs => join [tV "locked", tCState st, tS b, tSig cs]

/-- customer stage from request fields: `requested st7 bfC bfT` | `inactive st7 bfT s1 s2` |
`ready st7 t1 t2 c1 c2` | `started new7 old7 bfRl bfT bfC c1 c2` | `locked st7 bfT c1 c2` -/
def parseCustomer (l : List String) : Option (Customer Fq Fq) :=
  match l with
  | "requested" :: r => do
    let st ← parseCState (r.take 7)
    match r.drop 7 with
    | [a, b] => pure (.requested st (← parseFq a) (← parseFq b))
    | _ => none
  | "inactive" :: r => do
    let st ← parseCState (r.take 7)
    match r.drop 7 with
    | [b, s1, s2] => pure (.inactive st (← parseFq b) ⟨← parseFq s1, ← parseFq s2⟩)
    | _ => none
  | "ready" :: r => do
    let st ← parseCState (r.take 7)
    match r.drop 7 with
    | [t1, t2, c1, c2] => pure (.ready st ⟨← parseFq t1, ← parseFq t2⟩ ⟨← parseFq c1, ← parseFq c2⟩)
    | _ => none
  | "started" :: r => do
    let n ← parseCState (r.take 7)
    let o ← parseCState ((r.drop 7).take 7)
    match r.drop 14 with
    | [a, b, c, c1, c2] => pure (.started n o (← parseFq a) (← parseFq b) (← parseFq c) ⟨← parseFq c1, ← parseFq c2⟩)
    | _ => none
  | "locked" :: r => do
    let st ← parseCState (r.take 7)
    match r.drop 7 with
    | [b, c1, c2] => pure (.locked st (← parseFq b) ⟨← parseFq c1, ← parseFq c2⟩)
    | _ => none
  | _ => none

def tReply : Reply Fq → String
  | .accepted => tV "accepted"
  | .acceptedLock m => join [tV "accepted-lock", tS m.lock, tS m.secret, tN m.index, tS m.bf]
  | .refused => tV "refused"
  | .wrongStage => tV "wrong-stage"

def tErr : Err → String
  | .amountTooLarge v => join [tV "amount-too-large", tN v]
  | .insufficientFunds => tV "insufficient-funds"

def tRes {α : Type} (f : α → String) : Res α → String
  | .ok a => join [tV "ok", f a]
  | .err e => tErr e
  | .panic => tV "panic"

def dispatch (args : List String) : Option String :=
  match args with
  -- balance / amount arithmetic (C17); amounts arrive as the u64 image of the i64 (two's complement)
  | ["bal-new", v] => do pure (tRes tN (balanceTryNew (← parseHex v)))
  | ["pay-merchant", a] => do pure (tRes tI (payMerchant (← parseHex a)))
  | ["pay-customer", a] => do pure (tRes tI (payCustomer (← parseHex a)))
  | ["apply-payment", cb, mb, amt] => do
      pure (tRes (fun (p : Nat × Nat) => join [tN p.1, tN p.2]) (applyPayment (← parseHex cb) (← parseHex mb) (i64OfU64 (← parseHex amt))))
  | ["try-add", mb, cb] => do pure (tRes tN (tryAdd (← parseHex mb) (← parseHex cb)))
  | ["amt-scalar", a] => do pure (tRes tS (amountToScalar (F := Fq) (i64OfU64 (← parseHex a))))
  | ["amt-scalar-legacy", a] => do pure (tRes tS (Legacy.amountToScalar (F := Fq) (i64OfU64 (← parseHex a))))
  | ["bal-scalar", v] => do pure (tS (balanceToScalar (F := Fq) (← parseHex v)))
  -- Pointcheval–Sanders (C07, C08, C19)
  | ["ps-verify", g1, y1s, g2, x2, y2s, s1, s2, ms] => do
      let pk := mkPk (← parseFq g1) (← parseList y1s) (← parseFq g2) (← parseFq x2) (← parseList y2s)
      pure (tB (execPsVerify pk ⟨← parseFq s1, ← parseFq s2⟩ (← parseList ms)))
  | ["ps-sign", x, ys, h, ms] => do
      let sk : SecKey Fq Fq := ⟨← parseFq x, ← parseList ys, 0⟩
      pure (tSig (Sig.sign sk (← parseFq h) (← parseList ms)))
  | ["ps-rand", s1, s2, r] => do
      pure (tSig (Sig.randomize (⟨← parseFq s1, ← parseFq s2⟩ : Sig Fq) (← parseFq r)))
  | ["ps-blindrand", s1, s2, r, bf] => do
      pure (tSig (Sig.blindAndRandomize (⟨← parseFq s1, ← parseFq s2⟩ : Sig Fq) (← parseFq r) (← parseFq bf)))
  | ["ps-unblind", s1, s2, bf] => do
      pure (tSig (Sig.unblind (⟨← parseFq s1, ← parseFq s2⟩ : Sig Fq) (← parseFq bf)))
  | ["ps-blindsign", g1, x1, u, c] => do
      let kp : KeyPair Fq Fq Fq := ⟨⟨0, [], ← parseFq x1⟩, mkPk (← parseFq g1) [] 0 0 []⟩
      pure (tSig (Sig.blindSign kp (← parseFq u) (← parseFq c)))
  | ["blind-msg", g1, y1s, bf, ms] => do
      let pk := mkPk (← parseFq g1) (← parseList y1s) 0 0 []
      pure (tS (blindMessage pk (← parseList ms) (← parseFq bf)))
  | ["keygen", n, stream] => do
      let n ← parseHex n; let st ← parseStream stream
      match KeyPair.gen n st with
      | none => pure (tV "none")
      | some (kp, rest) => pure (join ([tV "ok"] ++ tKeyPair kp ++ [tN rest.length]))
  -- Schnorr proofs (C08, C10, C11)
  | ["cp-prove", h, gs, ms, bf, tbf, ts, c] => do
      let b : CBuilder Fq Fq := CBuilder.mk' (ped (← parseFq h) (← parseList gs)) (← parseList ms) (← parseFq bf) (← parseFq tbf) (← parseList ts)
      let p := b.respond (← parseFq c)
      pure (join [tS p.C, tS p.T, tS p.zbf, tL p.zs])
  | ["cp-verify", h, gs, cC, cT, zbf, zs, c] => do
      let p : CProof Fq Fq := ⟨← parseFq cC, ← parseFq cT, ← parseFq zbf, ← parseList zs⟩
      pure (tB (execCpVerify (ped (← parseFq h) (← parseList gs)) p (← parseFq c)))
  | ["srp-verify", g1, y1s, cC, cT, zbf, zs, c] => do
      let pk := mkPk (← parseFq g1) (← parseList y1s) 0 0 []
      let p : CProof Fq Fq := ⟨← parseFq cC, ← parseFq cT, ← parseFq zbf, ← parseList zs⟩
      match srpVerify pk p (← parseFq c) with
      | some v => pure (join [tV "some", tS v])
      | none => pure (tV "none")
  | ["sp-prove", g1, y1s, g2, x2, y2s, ms, s1, s2, bf, tbf, ts, r, c] => do
      let pk := mkPk (← parseFq g1) (← parseList y1s) (← parseFq g2) (← parseFq x2) (← parseList y2s)
      let b : SBuilder Fq Fq Fq := SBuilder.mk' pk (← parseList ms) ⟨← parseFq s1, ← parseFq s2⟩ (← parseFq bf) (← parseFq tbf) (← parseList ts) (← parseFq r)
      let p := b.respond (← parseFq c)
      pure (join [tS p.sig.s1, tS p.sig.s2, tS p.cp.C, tS p.cp.T, tS p.cp.zbf, tL p.cp.zs])
  | ["sp-verify", g1, y1s, g2, x2, y2s, s1, s2, cC, cT, zbf, zs, c] => do
      let pk := mkPk (← parseFq g1) (← parseList y1s) (← parseFq g2) (← parseFq x2) (← parseList y2s)
      let p : SProof Fq Fq Fq := ⟨⟨← parseFq s1, ← parseFq s2⟩, ⟨← parseFq cC, ← parseFq cT, ← parseFq zbf, ← parseList zs⟩⟩
      pure (tB (spVerify Fq.e pk p (← parseFq c)))
  -- range constraints (C10, C13, C19)
  | ["rp-gen", stream] => do
      match RangeParams.gen (← parseStream stream) with
      | none => pure (tV "none")
      | some (rp, rest) =>
        pure (join [tV "ok", tL (flatOfSigs rp.sigs), tS rp.pk.g1, tL rp.pk.y1s, tS rp.pk.g2, tS rp.pk.x2, tL rp.pk.y2s, tN rest.length])
  | ["rp-validate", sigs, g1, y1, g2, x2, y2] => do
      let rp := mkRp (← parseList sigs) (← parseFq g1) (← parseFq y1) (← parseFq g2) (← parseFq x2) (← parseFq y2)
      pure (tB (rp.validate Fq Fq.e))
  | ["range-prove", sigs, g1, y1, g2, x2, y2, v, draws, c] => do
      let rp := mkRp (← parseList sigs) (← parseFq g1) (← parseFq y1) (← parseFq g2) (← parseFq x2) (← parseFq y2)
      match RangeBuilder.mk' rp (i64OfU64 (← parseHex v)) (drawsOfFlat (← parseList draws)) with
      | none => pure (tV "none")
      | some b =>
        let ps := b.respond (← parseFq c)
        pure (join ([tV "ok", tS b.commitmentScalar, "l:" ++ toString ps.length] ++ ps.map tSProof))
  | ["range-verify", sigs, g1, y1, g2, x2, y2, proofs, c, expected] => do
      let rp := mkRp (← parseList sigs) (← parseFq g1) (← parseFq y1) (← parseFq g2) (← parseFq x2) (← parseFq y2)
      pure (tB (rangeVerify Fq.e rp (sproofsOfFlat (← parseList proofs)) (← parseFq c) (← parseFq expected)))
  | ["digits", v] => do pure (join ((digitsLoop rpL (← parseHex v)).map tN))
  | "transcript" :: items => do
      let ts ← items.mapM parseItem
      pure (tTranscript ts.flatten)
  -- `ChallengeBuilder::finish` after SHA3 / `ChannelId::to_scalar`: 32 bytes -> scalar (C12, C06)
  | ["raw-scalar", d] => do
      let bs ← parseBytes d
      if bs.length = 32 then pure (tS (Fq.ofNat (rawScalar q bs))) else none
  -- the executed hash: SHA3-256 of the bytes (`Context::new`, `ChannelId::new`, revocation locks) …
  | ["sha3", d] => do pure (tX (Sha3.sha3_256 (← parseBytes d)))
  -- … and the whole of `ChallengeBuilder::finish`: hashed bytes -> digest -> challenge (every recorded challenge)
  | ["sha3-challenge", d] => do
      let dg := Sha3.sha3_256 (← parseBytes d)
      pure (join [tX dg, tS (Fq.ofNat (rawScalar q dg))])
  -- zkAbacus establish proofs (C01, C06, C12)
  | ["est-transcript", g1, y1s, g2, x2, y2s, close, cid, cb, mb, k0, k1, k3, k4, sC, sT, szbf, szs, cC, cT, czbf, czs, ctx, legacy] => do
      let pk := mkPk (← parseFq g1) (← parseList y1s) (← parseFq g2) (← parseFq x2) (← parseList y2s)
      let p : EstProof Fq Fq := ⟨← parseFq k0, ← parseFq k1, ← parseFq k3, ← parseFq k4,
        ⟨← parseFq sC, ← parseFq sT, ← parseFq szbf, ← parseList szs⟩, ⟨← parseFq cC, ← parseFq cT, ← parseFq czbf, ← parseList czs⟩⟩
      let pub : EstPub Fq := ⟨← parseFq cid, ← parseFq cb, ← parseFq mb⟩
      let cl ← parseFq close
      let cx ← parseBytes ctx
      let t := if legacy == "1" then Legacy.estTranscript pk cl pub p cx else estTranscript pk cl pub p cx
      pure (tTranscript t)
  | ["est-verify", g1, y1s, g2, x2, y2s, close, cid, cb, mb, k0, k1, k3, k4, sC, sT, szbf, szs, cC, cT, czbf, czs, c] => do
      let pk := mkPk (← parseFq g1) (← parseList y1s) (← parseFq g2) (← parseFq x2) (← parseList y2s)
      let p : EstProof Fq Fq := ⟨← parseFq k0, ← parseFq k1, ← parseFq k3, ← parseFq k4,
        ⟨← parseFq sC, ← parseFq sT, ← parseFq szbf, ← parseList szs⟩, ⟨← parseFq cC, ← parseFq cT, ← parseFq czbf, ← parseList czs⟩⟩
      let pub : EstPub Fq := ⟨← parseFq cid, ← parseFq cb, ← parseFq mb⟩
      match estVerifyWith pk (← parseFq close) pub p (← parseFq c) with
      | some (s, cl) => pure (join [tV "some", tS s, tS cl])
      | none => pure (tV "none")
  | ["est-prove", g1, y1s, g2, x2, y2s, close, ms, bfS, tbfS, tsS, bfC, tbfC, t1C, c] => do
      let pk := mkPk (← parseFq g1) (← parseList y1s) (← parseFq g2) (← parseFq x2) (← parseList y2s)
      let d : EstDraws Fq := ⟨← parseFq bfS, ← parseFq tbfS, ← parseList tsS, ← parseFq bfC, ← parseFq tbfC, ← parseFq t1C⟩
      let p := estProveWith pk (← parseFq close) (← parseList ms) d (← parseFq c)
      pure (join [tS p.kCid, tS p.kClose, tS p.kCb, tS p.kMb, tS p.st.C, tS p.st.T, tS p.st.zbf, tL p.st.zs,
        tS p.cl.C, tS p.cl.T, tS p.cl.zbf, tL p.cl.zs])
  -- zkAbacus pay proofs (C02, C06, C12): params = 5 pk args, 6 range-parameter args, 2 revocation-parameter args
  | "pay-verify" :: g1 :: y1s :: g2 :: x2 :: y2s :: sigs :: rg1 :: ry1 :: rg2 :: rx2 :: ry2 :: h :: g :: close :: nonce :: amount :: proof :: c :: [] => do
      let pm ← mkPayParams [g1, y1s, g2, x2, y2s] [sigs, rg1, ry1, rg2, rx2, ry2] [h, g]
      let p ← payProofOfFlat (← parseList proof)
      match payVerifyWith Fq.e pm (← parseFq close) ⟨← parseFq nonce, ← parseFq amount⟩ p (← parseFq c) with
      | some (s, cl, rl) => pure (join [tV "some", tS s, tS cl, tS rl])
      | none => pure (tV "none")
  | "pay-transcript" :: g1 :: y1s :: g2 :: x2 :: y2s :: sigs :: rg1 :: ry1 :: rg2 :: rx2 :: ry2 :: h :: g :: close :: nonce :: amount :: proof :: ctx :: legacy :: [] => do
      let pm ← mkPayParams [g1, y1s, g2, x2, y2s] [sigs, rg1, ry1, rg2, rx2, ry2] [h, g]
      let p ← payProofOfFlat (← parseList proof)
      let cl ← parseFq close
      let pub : PayPub Fq := ⟨← parseFq nonce, ← parseFq amount⟩
      let cx ← parseBytes ctx
      let t := if legacy == "1" then Legacy.payTranscript pm cl pub p cx else payTranscript pm cl pub p cx
      pure (tTranscript t)
  | "pay-prove" :: g1 :: y1s :: g2 :: x2 :: y2s :: sigs :: rg1 :: ry1 :: rg2 :: rx2 :: ry2 :: h :: g :: close :: old :: new :: t1 :: t2 :: cbv :: mbv :: draws :: c :: [] => do
      let pm ← mkPayParams [g1, y1s, g2, x2, y2s] [sigs, rg1, ry1, rg2, rx2, ry2] [h, g]
      let d ← payDrawsOfFlat (← parseList draws)
      match payBuilders pm (← parseFq close) (← parseList old) (← parseList new) ⟨← parseFq t1, ← parseFq t2⟩
          (i64OfU64 (← parseHex cbv)) (i64OfU64 (← parseHex mbv)) d with
      | none => pure (tV "none")
      | some b => pure (join [tV "ok", tL (flatOfPay (b.respond (← parseFq c)))])
  -- nonces, revocation pairs, parameter generation (C05, C18, C19)
  | ["nonce-new", close, stream] => do
      match nonceNew (← parseFq close) (← parseStream stream) with
      | some (n, rest) => pure (join [tV "ok", tS n, tN rest.length])
      | none => pure (tV "none")
  -- does a layout (order of hashed items, extracted from the recorded bytes) feed every one of the `n` items?
  | ["layout-covers", l, n] => do pure (tB (layoutCovers (← parseNatList l) (← parseHex n)))
  | ["nonce-ok", close, n] => do pure (tB (nonceOk (← parseFq close) (← parseFq n)))
  | ["revpair-decode", digest, lock, secret, index] => do
      let d ← parseBytes digest
      match revPairDecode (fun _ => d) decFq encFq (← parseFq lock) (← parseFq secret) (← parseHex index) with
      | .ok p => pure (tRevPair p)
      | .error .invalidSecret => pure (tV "invalid-secret")
      | .error .mismatchedPair => pure (tV "mismatched-pair")
  | ["revpair-new", digests, stream] => do
      -- digests: the SHA3 digests for index 0, 1, … (comma separated), supplied by the harness
      let ds ← (digests.splitOn ",").mapM parseBytes
      let Hb : List UInt8 → List UInt8 := fun bs => ds.getD (bs.getLastD 0).toNat []
      match revPairNew Hb decFq encFq (← parseStream stream) with
      | some (p, rest) => pure (join [tRevPair p, tN rest.length])
      | none => pure (tV "none")
  -- the same two with the executed hash: the driver computes SHA3(secret ‖ index) itself, nothing is supplied
  | ["revpair-decode-sha3", lock, secret, index] => do
      match execRevPairDecode (← parseFq lock) (← parseFq secret) (← parseHex index) with
      | .ok p => pure (tRevPair p)
      | .error .invalidSecret => pure (tV "invalid-secret")
      | .error .mismatchedPair => pure (tV "mismatched-pair")
  | ["revpair-new-sha3", stream] => do
      match execRevPairNew (← parseStream stream) with
      | some (p, rest) => pure (join [tRevPair p, tN rest.length])
      | none => pure (tV "none")
  | ["ped-gen1", n, stream] => do
      match PedParams.gen1 (← parseHex n) (← parseStream stream) with
      | some (pp, rest) => pure (join [tV "ok", tS pp.h, tL pp.gs, tN rest.length])
      | none => pure (tV "none")
  | ["ped-gen2", n, stream] => do
      match PedParams.gen2 (← parseHex n) (← parseStream stream) with
      | some (pp, rest) => pure (join [tV "ok", tS pp.h, tL pp.gs, tN rest.length])
      | none => pure (tV "none")
  | ["channel-id-preimage", mr, cr, pk, ma, ca] => do
      pure (tX (channelIdPreimage (← parseBytes mr) (← parseBytes cr) (← parseBytes pk) (← parseBytes ma) (← parseBytes ca)))
  | ["complete-payment", g1, x1, h, g, rlCom, state, lock, bf, u] => do
      let m : MerchantCfg Fq Fq Fq := ⟨⟨⟨0, [], ← parseFq x1⟩, mkPk (← parseFq g1) [] 0 0 []⟩, ped (← parseFq h) [← parseFq g], ⟨[], mkPk 0 [] 0 0 []⟩⟩
      match m.completePayment ⟨← parseFq rlCom, ← parseFq state⟩ (← parseFq lock) (← parseFq bf) (← parseFq u) with
      | .ok σ => pure (join [tV "ok", tSig σ])
      | .error _ => pure (tV "error")
  -- customer state machine (C03, C04, C20): `cust <op> <pk 5 args> close | <customer fields…> | <op args…>`
  | "cust" :: op :: g1 :: y1s :: g2 :: x2 :: y2s :: close :: rest => do
      let pk := mkPk (← parseFq g1) (← parseList y1s) (← parseFq g2) (← parseFq x2) (← parseList y2s)
      let cl ← parseFq close
      let parts := rest.splitOn "|"
      match parts with
      | [[], cf, af] => do
        let c ← parseCustomer cf
        match op, af with
        | "complete", [s1, s2] =>
          let r := c.complete Fq.e pk cl ⟨← parseFq s1, ← parseFq s2⟩
          pure (join [tReply r.2, tCustomer r.1])
        | "activate", [s1, s2] =>
          let r := c.activate Fq.e pk ⟨← parseFq s1, ← parseFq s2⟩
          pure (join [tReply r.2, tCustomer r.1])
        | "lock", [s1, s2] =>
          let r := c.lock Fq.e pk cl ⟨← parseFq s1, ← parseFq s2⟩
          pure (join [tReply r.2, tCustomer r.1])
        | "unlock", [s1, s2] =>
          let r := c.unlock Fq.e pk ⟨← parseFq s1, ← parseFq s2⟩
          pure (join [tReply r.2, tCustomer r.1])
        | "start", [amt, nonce, lock, secret, index, bfRl, bfT, bfC] =>
          let r := c.start (i64OfU64 (← parseHex amt)) ⟨← parseFq nonce, ← parseFq lock, ← parseFq secret, ← parseHex index, ← parseFq bfRl, ← parseFq bfT, ← parseFq bfC⟩
          pure (join [tRes (fun _ => "v:started") r.2, tCustomer r.1])
        | "close", [r] =>
          match c.close (← parseFq r) with
          | some m => pure (join [tV "closing", tSig m.sig, tS m.cid, tS m.lock, tN m.cb, tN m.mb,
              tB (execPsVerify pk m.sig (m.msg cl))])
          | none => pure (tV "no-close")
        | _, _ => none
      | _ => none
  | ["pk-validate", g1, y1s, g2, x2, y2s] => do
      let pk := mkPk (← parseFq g1) (← parseList y1s) (← parseFq g2) (← parseFq x2) (← parseList y2s)
      pure (tB (decide pk.Valid))
  | ["sk-validate", x, ys, x1] => do
      let sk : SecKey Fq Fq := ⟨← parseFq x, ← parseList ys, ← parseFq x1⟩
      pure (tB (decide sk.Valid))
  -- Pedersen (C09)
  | ["commit", h, gs, bf, ms] => do
      let h ← parseFq h; let gs ← parseList gs; let bf ← parseFq bf; let ms ← parseList ms
      pure (tS (commit (ped h gs) bf ms))
  | ["open", h, gs, c, bf, ms] => do
      let h ← parseFq h; let gs ← parseList gs; let c ← parseFq c; let bf ← parseFq bf
      let ms ← parseList ms
      pure (tB (execVerifyOpening (ped h gs) c bf ms))
  | ["ped-validate", h, gs] => do
      let h ← parseFq h; let gs ← parseList gs
      pure (tB (ped h gs).validate)
  | _ => none

end ZkVerif.Ops
