/-
Driver operations: each request line is answered by running the *model* functions of
`ZkVerif/Model` on the exponent-space instance.
-/
import ZkVerif.Exec.Proto
import ZkVerif.Model.Schnorr
namespace ZkVerif.Ops
open ZkVerif ZkVerif.Proto

abbrev PP := PedParams Fq

def ped (h : Fq) (gs : List Fq) : PP := ⟨h, gs⟩

def dispatch (args : List String) : Option String :=
  match args with
  -- Pedersen (C09)
  | ["commit", h, gs, bf, ms] => do
      let h ← parseFq h; let gs ← parseList gs; let bf ← parseFq bf; let ms ← parseList ms
      pure (tS (commit (ped h gs) bf ms))
  | ["open", h, gs, c, bf, ms] => do
      let h ← parseFq h; let gs ← parseList gs; let c ← parseFq c; let bf ← parseFq bf
      let ms ← parseList ms
      pure (tB (verifyOpening (ped h gs) c bf ms))
  | ["ped-validate", h, gs] => do
      let h ← parseFq h; let gs ← parseList gs
      pure (tB (ped h gs).validate)
  | _ => none

end ZkVerif.Ops
