/-
`#audit_ns NS` lists every theorem whose name starts with `NS` together with the axioms it depends
on (what `#print axioms` shows), one per line:   `AUDIT <theorem> : <axiom> <axiom> …`
The check script requires the axioms to be a subset of {propext, Classical.choice, Quot.sound}.
-/
import Lean
open Lean Elab Command

elab "#audit_ns " ns:ident : command => do
  let env ← getEnv
  let pre := ns.getId
  let mut names : Array Name := #[]
  for (n, ci) in env.constants.toList do
    if pre.isPrefixOf n && !n.isInternal then
      match ci with
      | .thmInfo _ => names := names.push n
      | _ => pure ()
  let sorted := names.qsort (fun a b => a.toString < b.toString)
  for n in sorted do
    let axs ← collectAxioms n
    let axs := axs.qsort (fun a b => a.toString < b.toString)
    IO.println s!"AUDIT {n} : {String.intercalate " " (axs.toList.map toString)}"
  IO.println s!"AUDIT-COUNT {sorted.size}"
