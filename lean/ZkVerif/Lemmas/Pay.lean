/-
Pay proof: completeness, special soundness, and the nonce forger against the pinned verifier.
-/
import ZkVerif.Lemmas.Establish
import ZkVerif.Props.C13

set_option linter.unusedSectionVars false
set_option maxHeartbeats 1000000

namespace ZkVerif
universe u
variable {F G1 G2 GT : Type u} [Field F] [AddCommGroup G1] [Module F G1] [AddCommGroup G2]
  [Module F G2] [AddCommGroup GT] [Module F GT] [DecidableEq F] [DecidableEq G1] [DecidableEq G2]
  [DecidableEq GT]
variable {e : G1 → G2 → GT}

theorem payVerifyWith_some_iff (pm : PayParams G1 G2) (close : F) (pub : PayPub F)
    (p : PayProofM F G1 G2) (c : F) (v : G1 × G1 × G1) :
    payVerifyWith e pm close pub p c = some v ↔
      PayAccept e pm close pub p c ∧ v = (p.st.C, p.cl.C, p.rl.C) := by
  unfold payVerifyWith
  by_cases h : PayAccept e pm close pub p c
  · rw [if_pos h]; simp [h, eq_comm]
  · rw [if_neg h]; simp [h]

/-- Only the nonce clause mentions the nonce and its revealed commitment scalar. -/
theorem pay_accept_change_nonce (pm : PayParams G1 G2) (close : F) (n n' a : F)
    (p : PayProofM F G1 G2) (c : F) (h : PayAccept e pm close ⟨n, a⟩ p c) :
    PayAccept e pm close ⟨n', a⟩ { p with kNonce := p.tok.cp.zs.getD 1 0 - c * n' } c := by
  obtain ⟨h1, h2, h3, h4, h5, h6, h7, h8, h9, h10, _, h12, h13, h14, h15⟩ := h
  refine ⟨h1, h2, h3, h4, h5, h6, h7, h8, h9, h10, ?_, h12, h13, h14, h15⟩
  simp

/-- Completeness for an arbitrary challenge: the honest customer's pay proof (old state `old` with a
valid pay token, new state `new` = old moved by `amount`, both new balances in `[0, 2^63)`)
satisfies all fifteen checks. -/
theorem pay_complete_with (he : IsPairing F e) (pm : PayParams G1 G2) (close : F) (old new : List F)
    (tok : Sig G1) (cbv mbv : Int) (amount : F) (d : PayDraws F) (c : F)
    (hold : old.length = 5) (hnew : new.length = 5)
    (hcid : new.getD 0 0 = old.getD 0 0)
    (hcb : new.getD 3 0 = ((cbv.toNat : Nat) : F)) (hmb : new.getD 4 0 = ((mbv.toNat : Nat) : F))
    (hupc : new.getD 3 0 = old.getD 3 0 - amount) (hupm : new.getD 4 0 = old.getD 4 0 + amount)
    (htok : PsAccept e pm.pk tok old) (hrT : d.rT ≠ 0)
    (hs : pm.rp.sigs.length = 128)
    (hvalid : ∀ k (h : k < pm.rp.sigs.length), PsAccept e pm.rp.pk pm.rp.sigs[k] [(k : F)])
    (hc0 : 0 ≤ cbv) (hc1 : cbv < 2 ^ 63) (hm0 : 0 ≤ mbv) (hm1 : mbv < 2 ^ 63)
    (hwc : d.cbW.length = 9) (hwm : d.mbW.length = 9)
    (hrc : ∀ w ∈ d.cbW, w.r ≠ 0) (hrm : ∀ w ∈ d.mbW, w.r ≠ 0) :
    ∃ b, payBuilders pm close old new tok cbv mbv d = some b ∧
      PayAccept e pm close ⟨old.getD 1 0, amount⟩ (b.respond c) c := by
  obtain ⟨o0, o1, o2, o3, o4, rfl⟩ := list_len5 old hold
  obtain ⟨n0, n1, n2, n3, n4, rfl⟩ := list_len5 new hnew
  obtain ⟨cbB, hcbB, hcbV⟩ := C13.range_complete he pm.rp hs hvalid cbv hc0 hc1 d.cbW hwc hrc c
  obtain ⟨mbB, hmbB, hmbV⟩ := C13.range_complete he pm.rp hs hvalid mbv hm0 hm1 d.mbW hwm hrm c
  simp only [List.getD_cons_zero, List.getD_cons_succ] at hcid hcb hmb hupc hupm
  refine ⟨_, by unfold payBuilders; rw [hcbB, hmbB], ?_⟩
  unfold PayAccept PayBuilders.respond
  simp only
  refine ⟨cp_complete pm.pk.ped1 _ _ _ _ c rfl, cp_complete pm.pk.ped1 _ _ _ _ c rfl,
    sp_complete he pm.pk tok _ htok _ _ _ _ c hrT rfl, cp_complete pm.rev _ _ _ _ c rfl, ?_, ?_, ?_⟩
  · rw [← hcbV]; congr 1
    simp [srpBuilder, CBuilder.respond, CBuilder.mk', hcb]
  · rw [← hmbV]; congr 1
    simp [srpBuilder, CBuilder.respond, CBuilder.mk', hmb]
  · simp only [srpBuilder, CBuilder.respond, CBuilder.mk', SBuilder.respond, SBuilder.mk',
      List.zipWith_cons_cons, List.zipWith_nil_right, List.getD_cons_zero, List.getD_cons_succ,
      List.set_cons_succ, List.set_cons_zero, hcid, hupc, hupm]
    refine ⟨⟨trivial, trivial⟩, trivial, trivial, trivial, trivial, trivial, trivial, ?_, ?_⟩ <;> ring


/-- the first messages of two pay proofs coincide -/
structure PaySameFirst (p p' : PayProofM F G1 G2) : Prop where
  stC : p.st.C = p'.st.C
  stT : p.st.T = p'.st.T
  clC : p.cl.C = p'.cl.C
  clT : p.cl.T = p'.cl.T
  rlC : p.rl.C = p'.rl.C
  rlT : p.rl.T = p'.rl.T
  tok : p.tok.sig = p'.tok.sig ∧ p.tok.cp.C = p'.tok.cp.C ∧ p.tok.cp.T = p'.tok.cp.T
  cbR : List.Forall₂ C13.SameFirst p.cbR p'.cbR
  mbR : List.Forall₂ C13.SameFirst p.mbR p'.mbR
  kNonce : p.kNonce = p'.kNonce
  kClose : p.kClose = p'.kClose

/-- response-vector lengths fixed by the Rust types -/
structure PayShape (p : PayProofM F G1 G2) : Prop where
  st : p.st.zs.length = 5
  cl : p.cl.zs.length = 5
  tok : p.tok.cp.zs.length = 5
  rl : p.rl.zs.length = 1
  cbR : ∀ q ∈ p.cbR, q.cp.zs.length = 1
  mbR : ∀ q ∈ p.mbR, q.cp.zs.length = 1

/-- Special soundness of the pay proof over all fifteen checks: two accepting executions with the
same first message and different challenges yield
* a valid merchant signature (the unblinded pay token) on an old state `[o0, nonce, o2, o3, o4]`
  whose second slot is exactly the presented nonce,
* openings of the new state / close-state commitments carrying the old channel id `o0`, balances
  `o3 - amount`, `o4 + amount`, one shared new lock, and the close tag in the close state,
* an opening of the revocation-lock commitment to the old lock `o2`,
* digit decompositions (with valid digit signatures) of both new balances. -/
theorem pay_special_sound (he : IsPairing F e) (pm : PayParams G1 G2) (close : F) (pub : PayPub F)
    (p p' : PayProofM F G1 G2) (c c' : F) (hc : c ≠ c') (hs : PayShape p) (hs' : PayShape p')
    (hf : PaySameFirst p p') (a : PayAccept e pm close pub p c) (a' : PayAccept e pm close pub p' c') :
    ∃ (o0 o2 o3 o4 n1 n2 ro rs rc rl : F),
      psVerify e pm.pk (p.tok.sig.unblind ro) [o0, pub.nonce, o2, o3, o4] = true ∧
      commit pm.pk.ped1 rs [o0, n1, n2, o3 - pub.amount, o4 + pub.amount] = p.st.C ∧
      commit pm.pk.ped1 rc [o0, close, n2, o3 - pub.amount, o4 + pub.amount] = p.cl.C ∧
      commit pm.rev rl [o2] = p.rl.C ∧
      (∃ μs : List F, List.Forall₂ (fun q μ => ∃ ρ : F, psVerify e pm.rp.pk (q.sig.unblind ρ) [μ] = true) p.cbR μs ∧
        hornerF μs = o3 - pub.amount) ∧
      (∃ μs : List F, List.Forall₂ (fun q μ => ∃ ρ : F, psVerify e pm.rp.pk (q.sig.unblind ρ) [μ] = true) p.mbR μs ∧
        hornerF μs = o4 + pub.amount) := by
  obtain ⟨kN, kC, ⟨tσ, ⟨tC, tT, tzbf, tzs⟩⟩, ⟨lC, lT, lzbf, lzs⟩, ⟨sC, sT, szbf, szs⟩, ⟨xC, xT, xzbf, xzs⟩, cbR, mbR⟩ := p
  obtain ⟨kN', kC', ⟨tσ', ⟨tC', tT', tzbf', tzs'⟩⟩, ⟨lC', lT', lzbf', lzs'⟩, ⟨sC', sT', szbf', szs'⟩, ⟨xC', xT', xzbf', xzs'⟩, cbR', mbR'⟩ := p'
  obtain ⟨h1, h2, h3, h4, h5, h6, ⟨h7a, h7b, h7c⟩, h8, h9, h10, h11⟩ := hf
  simp only at h1 h2 h3 h4 h5 h6 h7a h7b h7c h8 h9 h10 h11
  subst h1 h2 h3 h4 h5 h6 h7a h7b h7c h10 h11
  obtain ⟨z1, z2, z3, z4, z5, z6⟩ := hs
  obtain ⟨z1', z2', z3', z4', z5', z6'⟩ := hs'
  simp only at z1 z2 z3 z4 z5 z6 z1' z2' z3' z4' z5' z6'
  obtain ⟨s0, s1, s2, s3, s4, rfl⟩ := list_len5 szs z1
  obtain ⟨x0, x1, x2, x3, x4, rfl⟩ := list_len5 xzs z2
  obtain ⟨k0, k1, k2, k3, k4, rfl⟩ := list_len5 tzs z3
  obtain ⟨l0, rfl⟩ := list_len1 lzs z4
  obtain ⟨s0', s1', s2', s3', s4', rfl⟩ := list_len5 szs' z1'
  obtain ⟨x0', x1', x2', x3', x4', rfl⟩ := list_len5 xzs' z2'
  obtain ⟨k0', k1', k2', k3', k4', rfl⟩ := list_len5 tzs' z3'
  obtain ⟨l0', rfl⟩ := list_len1 lzs' z4'
  obtain ⟨ast, acl, atok, arl, acb, amb, ⟨e1, e2⟩, e3, e4, e5, e6, e7, e8, e9, e10⟩ := a
  obtain ⟨ast', acl', atok', arl', acb', amb', ⟨e1', e2'⟩, e3', e4', e5', e6', e7', e8', e9', e10'⟩ := a'
  simp only [List.getD_cons_zero, List.getD_cons_succ] at acb amb acb' amb' e1 e2 e3 e4 e5 e6 e7 e8 e9 e10 e1' e2' e3' e4' e5' e6' e7' e8' e9' e10'
  -- extractions
  have hst := cp_extract pm.pk.ped1 sC sT c c' szbf szbf' [s0, s1, s2, s3, s4] [s0', s1', s2', s3', s4'] rfl hc ast ast'
  have hcl := cp_extract pm.pk.ped1 xC xT c c' xzbf xzbf' [x0, x1, x2, x3, x4] [x0', x1', x2', x3', x4'] rfl hc acl acl'
  have hrl := cp_extract pm.rev lC lT c c' lzbf lzbf' [l0] [l0'] rfl hc arl arl'
  have htok := C11.sp_extract he pm.pk tσ tC tT c c' tzbf tzbf' [k0, k1, k2, k3, k4] [k0', k1', k2', k3', k4'] rfl hc
    ((spVerify_true' e _ _ _).mpr atok) ((spVerify_true' e _ _ _).mpr atok')
  obtain ⟨μc, hμc, hhc⟩ := C13.range_special_sound he pm.rp c c' hc cbR cbR' s3 s3' h8 z5 z5' acb acb'
  obtain ⟨μm, hμm, hhm⟩ := C13.range_special_sound he pm.rp c c' hc mbR mbR' s4 s4' h9 z6 z6' amb amb'
  simp only [List.zipWith_cons_cons, List.zipWith_nil_right] at hst hcl hrl htok
  have E3 : ext c c' s3 s3' = ext c c' k3 k3' - pub.amount := ext_sub c c' pub.amount s3 k3 s3' k3' hc e9 e9'
  have E4 : ext c c' s4 s4' = ext c c' k4 k4' + pub.amount := ext_add c c' pub.amount s4 k4 s4' k4' hc e10 e10'
  refine ⟨ext c c' k0 k0', ext c c' k2 k2', ext c c' k3 k3', ext c c' k4 k4', ext c c' s1 s1', ext c c' s2 s2',
    ext c c' tzbf tzbf', ext c c' szbf szbf', ext c c' xzbf xzbf', ext c c' lzbf lzbf', ?_, ?_, ?_, ?_, ?_, ?_⟩
  · have := htok.2
    rw [e6, e6', ext_of_lin _ _ _ _ hc] at this
    exact this
  · show commit pm.pk.ped1 _ _ = sC
    rw [← hst, ← E3, ← E4, e1, e2, e1', e2']
  · show commit pm.pk.ped1 _ _ = xC
    rw [← hcl, ← E3, ← E4, e2, e2', e3, e3', ext_of_lin _ _ _ _ hc, ← e5, ← e5', ← e7, ← e7', ← e8, ← e8']
  · show commit pm.rev _ _ = lC
    rw [← hrl, e4, e4']
  · exact ⟨μc, hμc, by rw [hhc, E3]⟩
  · exact ⟨μm, hμm, by rw [hhm, E4]⟩

end ZkVerif
