/-
Digit decomposition, the weighted sum `Σ 128^j xⱼ`, and completeness of signature proofs.
-/
import ZkVerif.Lemmas.Schnorr
import ZkVerif.Model.Range
import Mathlib.Tactic.Ring
import Mathlib.Tactic.NormNum
import Mathlib.Tactic.Abel

set_option linter.unusedSectionVars false

namespace ZkVerif
universe u

/-! ### natural-number side -/

/-- `Σ 128^j dⱼ` on naturals (Horner form). -/
def natW : List Nat → Nat
  | [] => 0
  | d :: ds => d + 128 * natW ds

theorem digitsLoop_length (k v : Nat) : (digitsLoop k v).length = k := by
  induction k generalizing v with
  | zero => rfl
  | succ k ih => simp [digitsLoop, ih]

theorem digitsLoop_lt (k v : Nat) : ∀ d ∈ digitsLoop k v, d < 128 := by
  induction k generalizing v with
  | zero => simp [digitsLoop]
  | succ k ih =>
    intro d hd
    simp only [digitsLoop, List.mem_cons] at hd
    rcases hd with rfl | hd
    · exact Nat.mod_lt _ (by decide)
    · exact ih _ d hd

/-- The digits recompose to the value (for `v < 128^k`; `k = 9`: every non-negative `i64`). -/
theorem natW_digits (k v : Nat) (h : v < 128 ^ k) : natW (digitsLoop k v) = v := by
  induction k generalizing v with
  | zero => simp [digitsLoop, natW] at *; omega
  | succ k ih =>
    simp only [digitsLoop, natW, rpU]
    rw [ih (v / 128) (by rw [Nat.div_lt_iff_lt_mul (by decide)]; rw [pow_succ] at h; exact h)]
    omega

/-- Any list of digits `< 128` has weighted sum `< 128^length`. -/
theorem natW_bound (ds : List Nat) (h : ∀ d ∈ ds, d < 128) : natW ds < 128 ^ ds.length := by
  induction ds with
  | nil => simp [natW]
  | cons d ds ih =>
    have h1 : d < 128 := h d (List.mem_cons_self)
    have h2 := ih (fun x hx => h x (List.mem_cons_of_mem _ hx))
    simp only [natW, List.length_cons, pow_succ]
    omega

theorem pow9 : (128 : Nat) ^ 9 = 2 ^ 63 := by decide

/-- Nine digits `< 128` encode a value in `[0, 2^63)`; the all-maximal digits give `2^63 - 1`. -/
theorem natW_nine (ds : List Nat) (hl : ds.length = 9) (h : ∀ d ∈ ds, d < 128) :
    natW ds ≤ 2 ^ 63 - 1 := by
  have := natW_bound ds h
  rw [hl, pow9] at this
  omega

theorem natW_max : natW (List.replicate 9 127) = 2 ^ 63 - 1 := by decide

/-! ### field side -/
variable {F : Type u} [Field F]

/-- `Σ 128^j xⱼ` in Horner form. -/
def hornerF : List F → F
  | [] => 0
  | x :: xs => x + (128 : F) * hornerF xs

theorem weightedFrom_eq (u : F) (xs : List F) : weightedFrom u xs = u * hornerF xs := by
  induction xs generalizing u with
  | nil => simp [weightedFrom, hornerF]
  | cons x xs ih =>
    simp only [weightedFrom, hornerF, ih, rpU]
    push_cast; ring

theorem weighted_eq (xs : List F) : weighted xs = hornerF xs := by
  unfold weighted; rw [weightedFrom_eq, one_mul]

theorem hornerF_natCast (ds : List Nat) : hornerF (ds.map (Nat.cast : Nat → F)) = (natW ds : F) := by
  induction ds with
  | nil => simp [hornerF, natW]
  | cons d ds ih => simp only [List.map_cons, hornerF, natW, ih]; push_cast; ring

theorem hornerF_lin (a b : F) (xs ys : List F) (h : xs.length = ys.length) :
    hornerF (List.zipWith (fun x y => a * x + b * y) xs ys) = a * hornerF xs + b * hornerF ys := by
  induction xs generalizing ys with
  | nil => cases ys <;> simp_all [hornerF]
  | cons x xs ih => cases ys with
    | nil => simp at h
    | cons y ys =>
      simp only [List.zipWith_cons_cons, hornerF]
      rw [ih ys (by simpa using h)]
      ring

/-! ### completeness of signature proofs -/
variable {G1 G2 GT : Type u} [AddCommGroup G1] [Module F G1] [AddCommGroup G2] [Module F G2]
  [AddCommGroup GT] [Module F GT]

theorem spVerify_true' [DecidableEq G1] [DecidableEq G2] [DecidableEq GT] (e : G1 → G2 → GT)
    (pk : PubKey G1 G2) (p : SProof F G1 G2) (c : F) :
    spVerify e pk p c = true ↔ SpAccept e pk p c := by
  unfold spVerify; exact decide_eq_true_iff

/-- An honest signature proof verifies: for every public key, every message, every valid
signature on it, every choice of commitment scalars, every challenge and re-randomiser `r ≠ 0`. -/
theorem sp_complete {e : G1 → G2 → GT} (he : IsPairing F e) (pk : PubKey G1 G2) (σ : Sig G1)
    (ms : List F) (hv : PsAccept e pk σ ms) (bf tbf : F) (ts : List F) (r c : F) (hr : r ≠ 0)
    (hl : ms.length = ts.length) :
    SpAccept e pk ((SBuilder.mk' pk ms σ bf tbf ts r).respond c) c := by
  unfold SpAccept SBuilder.respond SBuilder.mk'
  simp only
  refine ⟨?_, cp_complete pk.ped2 ms bf tbf ts c hl, ?_⟩
  · simp only [Sig.blindAndRandomize, Sig.randomize]
    intro h
    exact hv.1 ((smul_eq_zero.mp h).resolve_left hr)
  · have h2 := hv.2
    simp only [CBuilder.respond, CBuilder.mk', Sig.blindAndRandomize, Sig.randomize, commit, PubKey.ped2]
    rw [he.neg_right] at h2 ⊢
    have e1 : pk.x2 + (bf • pk.g2 + inner ms pk.y2s) = (pk.x2 + inner ms pk.y2s) + bf • pk.g2 := by
      abel
    rw [e1, he.smul_left, he.smul_left, he.add_right, he.add_left, he.smul_right, he.smul_left]
    have h3 : e σ.s1 (pk.x2 + inner ms pk.y2s) = e σ.s2 pk.g2 := by
      rw [← sub_eq_add_neg, sub_eq_zero] at h2; exact h2
    rw [h3]
    module

end ZkVerif
