/-
Bilinear non-degenerate pairings, and the characterisation of PS verification under keys of the
shape produced by key generation.
-/
import ZkVerif.Lemmas.Inner

set_option linter.unusedSectionVars false

namespace ZkVerif
universe u
variable {F G1 G2 GT : Type u} [Field F] [AddCommGroup G1] [Module F G1] [AddCommGroup G2]
  [Module F G2] [AddCommGroup GT] [Module F GT]

/-- What is assumed of `bls12_381::pairing`: bilinear over the scalar field and non-degenerate
(true of a pairing between cyclic groups of the same prime order). -/
structure IsPairing (F : Type u) [Field F] [Module F G1] [Module F G2] [Module F GT]
    (e : G1 → G2 → GT) : Prop where
  add_left : ∀ a b c, e (a + b) c = e a c + e b c
  add_right : ∀ a b c, e a (b + c) = e a b + e a c
  smul_left : ∀ (k : F) a b, e (k • a) b = k • e a b
  smul_right : ∀ (k : F) a b, e a (k • b) = k • e a b
  nondeg : ∀ a b, e a b = 0 → a = 0 ∨ b = 0

namespace IsPairing
variable {e : G1 → G2 → GT} (he : IsPairing F e)
include he

theorem zero_left (b : G2) : e 0 b = 0 := by
  have := he.smul_left (0 : F) 0 b; simpa using this
theorem zero_right (a : G1) : e a 0 = 0 := by
  have := he.smul_right (0 : F) a 0; simpa using this
theorem neg_right (a : G1) (b : G2) : e a (-b) = - e a b := by
  have := he.smul_right (-1 : F) a b; simpa using this
theorem neg_left (a : G1) (b : G2) : e (-a) b = - e a b := by
  have := he.smul_left (-1 : F) a b; simpa using this
theorem sub_left (a b : G1) (c : G2) : e (a - b) c = e a c - e b c := by
  rw [sub_eq_add_neg, he.add_left, he.neg_left, ← sub_eq_add_neg]
theorem sub_right (a : G1) (b c : G2) : e a (b - c) = e a b - e a c := by
  rw [sub_eq_add_neg, he.add_right, he.neg_right, ← sub_eq_add_neg]
end IsPairing

/-- `inner ms (ys.map (· • g)) = ⟨ys, ms⟩ • g` (both sides truncate to the shorter list). -/
theorem inner_map_smul {G : Type u} [AddCommGroup G] [Module F G] (ys ms : List F) (g : G) :
    inner ms (ys.map (· • g)) = dot ys ms • g := by
  induction ys generalizing ms with
  | nil => cases ms <;> simp [dot]
  | cons y ys ih => cases ms with
    | nil => simp [dot]
    | cons m ms =>
      simp only [List.map_cons, inner_cons, dot, ih]
      module

theorem dot_set (ys ms : List F) (i : Nat) (m' : F) (hi : i < ms.length) (hy : i < ys.length) :
    dot ys (ms.set i m') = dot ys ms + ys[i] * (m' - ms[i]) := by
  induction ys generalizing ms i with
  | nil => simp at hy
  | cons y ys ih => cases ms with
    | nil => simp at hi
    | cons m ms => cases i with
      | zero => simp [dot]; ring
      | succ i =>
        simp only [List.set_cons_succ, dot, List.getElem_cons_succ]
        rw [ih ms i (by simpa using hi) (by simpa using hy)]
        ring

/-- A key pair of the shape `KeyPair::new` produces: all public elements are the secret scalars
times `g1` resp. `g2`. -/
structure KeyPair.Honest (kp : KeyPair F G1 G2) : Prop where
  x1 : kp.sk.x1 = kp.sk.x • kp.pk.g1
  y1s : kp.pk.y1s = kp.sk.ys.map (· • kp.pk.g1)
  x2 : kp.pk.x2 = kp.sk.x • kp.pk.g2
  y2s : kp.pk.y2s = kp.sk.ys.map (· • kp.pk.g2)

theorem psAccept_iff {e : G1 → G2 → GT} (he : IsPairing F e) (pk : PubKey G1 G2) (σ : Sig G1)
    (ms : List F) :
    PsAccept e pk σ ms ↔ σ.s1 ≠ 0 ∧ e σ.s1 (pk.x2 + inner ms pk.y2s) = e σ.s2 pk.g2 := by
  unfold PsAccept
  rw [he.neg_right, ← sub_eq_add_neg, sub_eq_zero]

/-- Under a keygen-shaped key with `g̃ ≠ 0`, a signature verifies on `ms` iff `σ₁ ≠ 0` and
`σ₂ = (x + ⟨y, m⟩) • σ₁`. -/
theorem psAccept_honest_iff {e : G1 → G2 → GT} (he : IsPairing F e) (kp : KeyPair F G1 G2)
    (hk : kp.Honest) (hg2 : kp.pk.g2 ≠ 0) (σ : Sig G1) (ms : List F) :
    PsAccept e kp.pk σ ms ↔ σ.s1 ≠ 0 ∧ σ.s2 = (kp.sk.x + dot kp.sk.ys ms) • σ.s1 := by
  rw [psAccept_iff he, hk.x2, hk.y2s, inner_map_smul]
  have h1 : kp.sk.x • kp.pk.g2 + dot kp.sk.ys ms • kp.pk.g2
      = (kp.sk.x + dot kp.sk.ys ms) • kp.pk.g2 := by module
  rw [h1, he.smul_right, ← he.smul_left]
  constructor
  · rintro ⟨h0, h⟩
    refine ⟨h0, ?_⟩
    have h2 : e (σ.s2 - (kp.sk.x + dot kp.sk.ys ms) • σ.s1) kp.pk.g2 = 0 := by
      rw [he.sub_left, h, sub_self]
    rcases he.nondeg _ _ h2 with h3 | h3
    · exact sub_eq_zero.mp h3
    · exact absurd h3 hg2
  · rintro ⟨h0, h⟩
    exact ⟨h0, by rw [h]⟩

theorem psVerify_true [DecidableEq G1] [DecidableEq GT] (e : G1 → G2 → GT) (pk : PubKey G1 G2)
    (σ : Sig G1) (ms : List F) : psVerify e pk σ ms = true ↔ PsAccept e pk σ ms := by
  unfold psVerify; exact decide_eq_true_iff

theorem psVerify_false [DecidableEq G1] [DecidableEq GT] (e : G1 → G2 → GT) (pk : PubKey G1 G2)
    (σ : Sig G1) (ms : List F) : psVerify e pk σ ms = false ↔ ¬ PsAccept e pk σ ms := by
  unfold psVerify; exact decide_eq_false_iff_not

end ZkVerif
