/-
`ZMod 13` as a concrete field (and module over itself) for the non-vacuity examples that accompany
the property theorems.
-/
import Mathlib.Algebra.Field.ZMod
import Mathlib.Tactic.NormNum.Prime

namespace ZkVerif
instance fact13 : Fact (Nat.Prime 13) := ⟨by norm_num⟩
abbrev Z13 := ZMod 13
end ZkVerif
