/-
Lemmas about the base64 model (`Model/Base64.lean`): alphabet round trip, group-wise round trips, the decoder's output
is bytes, canonical form up to padding.  Core Lean only (`omega`, `decide` over the 64 / 128-element tables).
-/
import ZkVerif.Model.Base64
namespace ZkVerif.Base64

theorem sextetOf_charOf (n : Nat) (h : n < 64) : sextetOf (charOf n) = some n := by
  have key : ∀ k : Fin 64, sextetOf (charOf k.val) = some k.val := by decide
  exact key ⟨n, h⟩

theorem charOf_ne_pad (n : Nat) : charOf n ≠ 61 := by
  unfold charOf
  split; omega
  split; omega
  split; omega
  split <;> omega

theorem decode_encode : ∀ (bs : List Nat), (∀ b ∈ bs, b < 256) → decode (encode bs) = some bs
  | [], _ => rfl
  | [a], h => by
    have ha : a < 256 := h a (by simp)
    simp only [encode, decode, if_true, last2]
    rw [sextetOf_charOf _ (by omega), sextetOf_charOf _ (by omega)]
    simp only []
    rw [if_pos (by omega)]
    congr 2; omega
  | [a, b], h => by
    have ha : a < 256 := h a (by simp)
    have hb : b < 256 := h b (by simp)
    simp only [encode, decode, if_true]
    rw [if_neg (charOf_ne_pad _)]
    simp only [last3]
    rw [sextetOf_charOf _ (by omega), sextetOf_charOf _ (by omega), sextetOf_charOf _ (by omega)]
    simp only []
    rw [if_pos (by omega)]
    congr 2
    · omega
    · congr 1; omega
  | a :: b :: c :: rest, h => by
    have ha : a < 256 := h a (by simp)
    have hb : b < 256 := h b (by simp)
    have hc : c < 256 := h c (by simp)
    have ih := decode_encode rest (fun x hx => h x (by simp [hx]))
    have hq : quad (charOf (a / 4)) (charOf (a % 4 * 16 + b / 16)) (charOf (b % 16 * 4 + c / 64)) (charOf (c % 64)) = some [a, b, c] := by
      simp only [quad]
      rw [sextetOf_charOf _ (by omega), sextetOf_charOf _ (by omega), sextetOf_charOf _ (by omega), sextetOf_charOf _ (by omega)]
      simp only []
      congr 2
      · omega
      · congr 1
        · omega
        · congr 1; omega
    cases hr : encode rest with
    | nil =>
      -- rest = [] (encode of a non-empty list is non-empty)
      have : rest = [] := by
        cases rest with
        | nil => rfl
        | cons x xs => cases xs with
          | nil => simp [encode] at hr
          | cons y ys => cases ys <;> simp [encode] at hr
      subst this
      simp only [encode, decode]
      rw [if_neg (charOf_ne_pad _), hq]
    | cons r0 rs =>
      simp only [encode, hr, decode]
      rw [← hr, hq, ih]
      rfl



theorem sextetOf_lt (c s : Nat) (h : sextetOf c = some s) : s < 64 := by
  unfold sextetOf at h
  split at h
  · injection h; omega
  · split at h
    · injection h; omega
    · split at h
      · injection h; omega
      · split at h
        · injection h; omega
        · split at h
          · injection h; omega
          · cases h

theorem charOf_sextetOf (c s : Nat) (h : sextetOf c = some s) : charOf s = c := by
  have small : c < 128 := by
    false_or_by_contra
    rename_i hc
    have : sextetOf c = none := by
      unfold sextetOf
      rw [if_neg (by omega), if_neg (by omega), if_neg (by omega), if_neg (by omega), if_neg (by omega)]
    rw [this] at h; cases h
  have key : ∀ k : Fin 128, (sextetOf k.val).all (fun s => charOf s == k.val) = true := by decide
  have := key ⟨c, small⟩
  simp only [h, Option.all_some, beq_iff_eq] at this
  exact this

theorem sextetOf_ne_pad (c s : Nat) (h : sextetOf c = some s) : c ≠ 61 := by
  intro hc; subst hc
  have : sextetOf 61 = none := by decide
  rw [this] at h; cases h

theorem encode_length : ∀ bs : List Nat, (encode bs).length = 4 * ((bs.length + 2) / 3)
  | [] => rfl
  | [_] => by simp [encode]
  | [_, _] => by simp [encode]
  | _ :: _ :: _ :: rest => by
    simp only [encode, List.length_cons, encode_length rest]
    omega

theorem last2_bytes (c0 c1 : Nat) (bs : List Nat) (h : last2 c0 c1 = some bs) : ∀ b ∈ bs, b < 256 := by
  simp only [last2] at h
  split at h
  · rename_i s0 s1 h0 h1
    have := sextetOf_lt _ _ h0; have := sextetOf_lt _ _ h1
    split at h
    · injection h with h; subst h; intro b hb; simp at hb; omega
    · cases h
  · cases h

theorem last3_bytes (c0 c1 c2 : Nat) (bs : List Nat) (h : last3 c0 c1 c2 = some bs) : ∀ b ∈ bs, b < 256 := by
  simp only [last3] at h
  split at h
  · rename_i s0 s1 s2 h0 h1 h2
    have := sextetOf_lt _ _ h0; have := sextetOf_lt _ _ h1; have := sextetOf_lt _ _ h2
    split at h
    · injection h with h; subst h; intro b hb; simp at hb; omega
    · cases h
  · cases h

theorem quad_bytes (c0 c1 c2 c3 : Nat) (bs : List Nat) (h : quad c0 c1 c2 c3 = some bs) : ∀ b ∈ bs, b < 256 := by
  simp only [quad] at h
  split at h
  · rename_i s0 s1 s2 s3 h0 h1 h2 h3
    have := sextetOf_lt _ _ h0; have := sextetOf_lt _ _ h1; have := sextetOf_lt _ _ h2; have := sextetOf_lt _ _ h3
    injection h with h; subst h; intro b hb; simp at hb; omega
  · cases h

/-- every decoded byte is a byte -/
theorem decode_bytes : ∀ (t bs : List Nat), decode t = some bs → ∀ b ∈ bs, b < 256
  | [], bs, h => by simp [decode] at h; subst h; simp
  | [_], bs, h => by simp [decode] at h
  | [c0, c1], bs, h => last2_bytes c0 c1 bs (by simpa [decode] using h)
  | [c0, c1, c2], bs, h => by
    simp only [decode] at h
    split at h
    · exact last2_bytes _ _ _ h
    · exact last3_bytes _ _ _ _ h
  | [c0, c1, c2, c3], bs, h => by
    simp only [decode] at h
    split at h
    · split at h
      · exact last2_bytes _ _ _ h
      · exact last3_bytes _ _ _ _ h
    · exact quad_bytes _ _ _ _ _ h
  | c0 :: c1 :: c2 :: c3 :: c4 :: rest, bs, h => by
    simp only [decode] at h
    split at h
    · rename_i hd tl hq hr
      injection h with h; subst h
      intro b hb
      rcases List.mem_append.mp hb with hb | hb
      · exact quad_bytes _ _ _ _ _ hq b hb
      · exact decode_bytes _ _ hr b hb
    · cases h




@[simp] theorem body_nil : body [] = [] := rfl
theorem body_cons_ne (c : Nat) (t : List Nat) (h : c ≠ 61) : body (c :: t) = c :: body t := by
  simp [body, h]
theorem body_cons_pad (t : List Nat) : body (61 :: t) = body t := by
  simp [body]

theorem last2_canon (c0 c1 : Nat) (bs : List Nat) (h : last2 c0 c1 = some bs) :
    c0 ≠ 61 ∧ c1 ≠ 61 ∧ encode bs = [c0, c1, 61, 61] := by
  simp only [last2] at h
  split at h
  · rename_i s0 s1 h0 h1
    have l0 := sextetOf_lt _ _ h0; have l1 := sextetOf_lt _ _ h1
    split at h
    · rename_i hz
      injection h with h; subst h
      refine ⟨sextetOf_ne_pad _ _ h0, sextetOf_ne_pad _ _ h1, ?_⟩
      simp only [encode]
      have e0 : (s0 * 4 + s1 / 16) / 4 = s0 := by omega
      have e1 : (s0 * 4 + s1 / 16) % 4 * 16 = s1 := by omega
      rw [e0, e1, charOf_sextetOf _ _ h0, charOf_sextetOf _ _ h1]
    · cases h
  · cases h

theorem last3_canon (c0 c1 c2 : Nat) (bs : List Nat) (h : last3 c0 c1 c2 = some bs) :
    c0 ≠ 61 ∧ c1 ≠ 61 ∧ c2 ≠ 61 ∧ encode bs = [c0, c1, c2, 61] := by
  simp only [last3] at h
  split at h
  · rename_i s0 s1 s2 h0 h1 h2
    have l0 := sextetOf_lt _ _ h0; have l1 := sextetOf_lt _ _ h1; have l2 := sextetOf_lt _ _ h2
    split at h
    · rename_i hz
      injection h with h; subst h
      refine ⟨sextetOf_ne_pad _ _ h0, sextetOf_ne_pad _ _ h1, sextetOf_ne_pad _ _ h2, ?_⟩
      simp only [encode]
      have e0 : (s0 * 4 + s1 / 16) / 4 = s0 := by omega
      have e1 : (s0 * 4 + s1 / 16) % 4 * 16 + (s1 % 16 * 16 + s2 / 4) / 16 = s1 := by omega
      have e2 : (s1 % 16 * 16 + s2 / 4) % 16 * 4 = s2 := by omega
      rw [e0, e1, e2, charOf_sextetOf _ _ h0, charOf_sextetOf _ _ h1, charOf_sextetOf _ _ h2]
    · cases h
  · cases h

theorem quad_canon (c0 c1 c2 c3 : Nat) (hd : List Nat) (h : quad c0 c1 c2 c3 = some hd) :
    c0 ≠ 61 ∧ c1 ≠ 61 ∧ c2 ≠ 61 ∧ c3 ≠ 61 ∧
    ∃ a b c, hd = [a, b, c] ∧ ∀ rest, encode (a :: b :: c :: rest) = c0 :: c1 :: c2 :: c3 :: encode rest := by
  simp only [quad] at h
  split at h
  · rename_i s0 s1 s2 s3 h0 h1 h2 h3
    have l0 := sextetOf_lt _ _ h0; have l1 := sextetOf_lt _ _ h1
    have l2 := sextetOf_lt _ _ h2; have l3 := sextetOf_lt _ _ h3
    injection h with h; subst h
    refine ⟨sextetOf_ne_pad _ _ h0, sextetOf_ne_pad _ _ h1, sextetOf_ne_pad _ _ h2, sextetOf_ne_pad _ _ h3, _, _, _, rfl, ?_⟩
    intro rest
    simp only [encode]
    have e0 : (s0 * 4 + s1 / 16) / 4 = s0 := by omega
    have e1 : (s0 * 4 + s1 / 16) % 4 * 16 + (s1 % 16 * 16 + s2 / 4) / 16 = s1 := by omega
    have e2 : (s1 % 16 * 16 + s2 / 4) % 16 * 4 + (s2 % 4 * 64 + s3) / 64 = s2 := by omega
    have e3 : (s2 % 4 * 64 + s3) % 64 = s3 := by omega
    rw [e0, e1, e2, e3, charOf_sextetOf _ _ h0, charOf_sextetOf _ _ h1, charOf_sextetOf _ _ h2, charOf_sextetOf _ _ h3]
  · cases h

/-- The text form is canonical up to padding: whatever text decodes to `bs` has the same non-padding characters as
`encode bs` — the only freedom a writer has is to leave out (part of) the trailing `=`. -/
theorem decode_canonical_up_to_padding : ∀ (t bs : List Nat), decode t = some bs → body t = body (encode bs)
  | [], bs, h => by simp [decode] at h; subst h; rfl
  | [_], bs, h => by simp [decode] at h
  | [c0, c1], bs, h => by
    obtain ⟨n0, n1, e⟩ := last2_canon c0 c1 bs (by simpa [decode] using h)
    rw [e, body_cons_ne _ _ n0, body_cons_ne _ _ n1, body_cons_ne _ _ n0, body_cons_ne _ _ n1, body_cons_pad, body_cons_pad]
  | [c0, c1, c2], bs, h => by
    simp only [decode] at h
    split at h
    · rename_i hp; subst hp
      obtain ⟨n0, n1, e⟩ := last2_canon c0 c1 bs h
      rw [e, body_cons_ne _ _ n0, body_cons_ne _ _ n1, body_cons_ne _ _ n0, body_cons_ne _ _ n1, body_cons_pad, body_cons_pad, body_cons_pad]
    · obtain ⟨n0, n1, n2, e⟩ := last3_canon c0 c1 c2 bs h
      rw [e, body_cons_ne _ _ n0, body_cons_ne _ _ n1, body_cons_ne _ _ n2, body_cons_ne _ _ n0, body_cons_ne _ _ n1, body_cons_ne _ _ n2, body_cons_pad]
  | [c0, c1, c2, c3], bs, h => by
    simp only [decode] at h
    split at h
    · rename_i hp3; subst hp3
      split at h
      · rename_i hp2; subst hp2
        obtain ⟨n0, n1, e⟩ := last2_canon c0 c1 bs h
        rw [e]
      · obtain ⟨n0, n1, n2, e⟩ := last3_canon c0 c1 c2 bs h
        rw [e]
    · obtain ⟨n0, n1, n2, n3, a, b, c, e, henc⟩ := quad_canon c0 c1 c2 c3 bs h
      subst e
      rw [henc []]
      rfl
  | c0 :: c1 :: c2 :: c3 :: c4 :: rest, bs, h => by
    simp only [decode] at h
    split at h
    · rename_i hd tl hq hr
      injection h with h; subst h
      obtain ⟨n0, n1, n2, n3, a, b, c, e, henc⟩ := quad_canon c0 c1 c2 c3 hd hq
      subst e
      have ih := decode_canonical_up_to_padding _ _ hr
      show body (c0 :: c1 :: c2 :: c3 :: c4 :: rest) = body (encode (a :: b :: c :: tl))
      rw [henc tl, body_cons_ne _ _ n0, body_cons_ne _ _ n1, body_cons_ne _ _ n2, body_cons_ne _ _ n3,
        body_cons_ne _ _ n0, body_cons_ne _ _ n1, body_cons_ne _ _ n2, body_cons_ne _ _ n3, ih]
    · cases h

/-- hence decoding is injective up to padding, and two texts for one id differ only in `=` -/
theorem decode_eq_body_eq (t t' bs : List Nat) (h : decode t = some bs) (h' : decode t' = some bs) : body t = body t' := by
  rw [decode_canonical_up_to_padding t bs h, decode_canonical_up_to_padding t' bs h']

/-- `encode` is injective on byte strings -/
theorem encode_injective (bs bs' : List Nat) (h : ∀ b ∈ bs, b < 256) (h' : ∀ b ∈ bs', b < 256)
    (e : encode bs = encode bs') : bs = bs' := by
  have := decode_encode bs h
  rw [e, decode_encode bs' h'] at this
  injection this with this; exact this.symm

end ZkVerif.Base64
