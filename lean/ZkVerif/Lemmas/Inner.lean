/-
Helper lemmas about `inner` / `commit` under Mathlib's lawful classes.
-/
import Mathlib.Algebra.Module.Basic
import Mathlib.Algebra.Field.Basic
import Mathlib.Algebra.BigOperators.Group.List.Basic
import Mathlib.Tactic.Module
import Mathlib.Tactic.LinearCombination
import Mathlib.Tactic.FieldSimp
import ZkVerif.Model.Schnorr

namespace ZkVerif
universe u
variable {F G : Type u} [Field F] [AddCommGroup G] [Module F G]

@[simp] theorem inner_nil_left (gs : List G) : inner ([] : List F) gs = 0 := by
  cases gs <;> rfl
@[simp] theorem inner_nil_right (ms : List F) : inner ms ([] : List G) = 0 := by
  cases ms <;> rfl
@[simp] theorem inner_cons (m : F) (ms : List F) (g : G) (gs : List G) :
    inner (m :: ms) (g :: gs) = m • g + inner ms gs := rfl

/-- `inner` is the sum of the pointwise products: the Pedersen map `∏ gᵢ^mᵢ` in additive notation. -/
theorem inner_eq_sum (ms : List F) (gs : List G) :
    inner ms gs = (List.zipWith (· • ·) ms gs).sum := by
  induction ms generalizing gs with
  | nil => simp
  | cons m ms ih => cases gs with
    | nil => simp
    | cons g gs => simp [ih]

theorem inner_zipWith_lin (a b : F) (ms ts : List F) (gs : List G) (h : ms.length = ts.length) :
    inner (List.zipWith (fun m t => a * m + b * t) ms ts) gs = a • inner ms gs + b • inner ts gs := by
  induction ms generalizing ts gs with
  | nil => cases ts <;> simp_all
  | cons m ms ih => cases ts with
    | nil => simp at h
    | cons t ts => cases gs with
      | nil => simp
      | cons g gs =>
        simp only [List.zipWith_cons_cons, inner_cons]
        rw [ih ts gs (by simpa using h)]
        module

theorem inner_add (ms ts : List F) (gs : List G) (h : ms.length = ts.length) :
    inner (List.zipWith (· + ·) ms ts) gs = inner ms gs + inner ts gs := by
  have := inner_zipWith_lin (G := G) 1 1 ms ts gs h
  simpa using this

theorem inner_map_mul (a : F) (ms : List F) (gs : List G) :
    inner (ms.map (a * ·)) gs = a • inner ms gs := by
  induction ms generalizing gs with
  | nil => simp
  | cons m ms ih => cases gs with
    | nil => simp
    | cons g gs => simp [ih, mul_smul, smul_add]

theorem inner_set (ms : List F) (gs : List G) (i : Nat) (m' : F) (hi : i < ms.length)
    (hg : i < gs.length) :
    inner (ms.set i m') gs = inner ms gs + (m' - ms[i]) • gs[i] := by
  induction ms generalizing gs i with
  | nil => simp at hi
  | cons m ms ih => cases gs with
    | nil => simp at hg
    | cons g gs => cases i with
      | zero => simp; module
      | succ i =>
        simp only [List.set_cons_succ, inner_cons, List.getElem_cons_succ]
        rw [ih gs i (by simpa using hi) (by simpa using hg)]
        module

theorem commit_lin (pp : PedParams G) (a b bf tbf : F) (ms ts : List F) (h : ms.length = ts.length) :
    commit pp (a * bf + b * tbf) (List.zipWith (fun m t => a * m + b * t) ms ts)
      = a • commit pp bf ms + b • commit pp tbf ts := by
  unfold commit
  rw [inner_zipWith_lin a b ms ts pp.gs h]
  module

theorem verifyOpening_true [DecidableEq G] (pp : PedParams G) (c : G) (bf : F) (ms : List F) :
    verifyOpening pp c bf ms = true ↔ commit pp bf ms = c := by
  unfold verifyOpening; rw [decide_eq_true_iff]; rfl

theorem verifyOpening_false [DecidableEq G] (pp : PedParams G) (c : G) (bf : F) (ms : List F) :
    verifyOpening pp c bf ms = false ↔ commit pp bf ms ≠ c := by
  unfold verifyOpening; rw [decide_eq_false_iff_not]; rfl

end ZkVerif
