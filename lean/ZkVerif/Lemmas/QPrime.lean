/-
The order `q` of the BLS12-381 scalar field (`ZkVerif.q`, the modulus of the executable instance
`Fq`) is prime.  Lucas / Pratt certificate: `7` has order exactly `q - 1` modulo `q`.  Modular powers
are evaluated by square-and-multiply (`powMod`, structural recursion on a fuel argument, proved equal
to `a ^ n % m`), the kernel does the 255-bit arithmetic (`decide +kernel`: kernel reduction, no
axiom beyond the three standard ones; no `native_decide`).
-/
import ZkVerif.Exec.Fq
import Mathlib.NumberTheory.LucasPrimality
import Mathlib.Tactic.NormNum.Prime

namespace ZkVerif

/-- square-and-multiply, `fuel` ≥ number of bits of `n` -/
def powMod : Nat → Nat → Nat → Nat → Nat
  | 0, _, _, m => 1 % m
  | fuel + 1, a, n, m =>
    if n = 0 then 1 % m
    else
      let h := powMod fuel a (n / 2) m
      if n % 2 = 1 then h * h % m * a % m else h * h % m

theorem powMod_eq (fuel a n m : Nat) (h : n < 2 ^ fuel) : powMod fuel a n m = a ^ n % m := by
  induction fuel generalizing n with
  | zero =>
    have : n = 0 := by simpa using h
    subst this; simp [powMod]
  | succ f ih =>
    unfold powMod
    by_cases hn : n = 0
    · subst hn; simp
    · have h2 : n / 2 < 2 ^ f := by
        rw [Nat.div_lt_iff_lt_mul (by norm_num)]; rw [pow_succ] at h; exact h
      simp only [hn, if_false, ih _ h2]
      have hsq : a ^ (n / 2) % m * (a ^ (n / 2) % m) % m = a ^ (2 * (n / 2)) % m := by
        rw [← Nat.mul_mod, ← pow_add]; congr 2; ring
      rw [hsq]
      by_cases hodd : n % 2 = 1
      · simp only [hodd, if_true]
        have : n = 2 * (n / 2) + 1 := by omega
        conv_rhs => rw [this, pow_succ]
        rw [Nat.mul_mod, Nat.mod_mod, ← Nat.mul_mod]
      · simp only [hodd, if_false]
        have : n = 2 * (n / 2) := by omega
        conv_rhs => rw [this]

/-- the prime factorisation of `q - 1` -/
theorem q_pred_factorisation :
    q - 1 = 2 ^ 32 * 3 * 11 * 19 * 10177 * 125527 * 859267 * 906349 ^ 2 * 2508409 * 2529403 *
      52437899 * 254760293 ^ 2 := by decide +kernel

private theorem zmod_pow_ne_one (n : Nat) (hn : n < 2 ^ 256) (h : powMod 256 7 n q ≠ 1) :
    (7 : ZMod q) ^ n ≠ 1 := by
  intro hc
  apply h
  rw [powMod_eq _ _ _ _ hn]
  have h1 : ((7 ^ n : ℕ) : ZMod q) = ((1 : ℕ) : ZMod q) := by
    rw [Nat.cast_pow, Nat.cast_ofNat, Nat.cast_one]; exact hc
  rw [ZMod.natCast_eq_natCast_iff'] at h1
  rw [h1]; decide +kernel

theorem q_prime : Nat.Prime q := by
  apply lucas_primality q (7 : ZMod q)
  · have h1 : ((7 ^ (q - 1) : ℕ) : ZMod q) = ((1 : ℕ) : ZMod q) := by
      rw [ZMod.natCast_eq_natCast_iff', ← powMod_eq 256 _ _ _ (by decide +kernel)]
      decide +kernel
    rw [Nat.cast_pow, Nat.cast_ofNat, Nat.cast_one] at h1
    exact h1
  · intro p hp hdvd
    have hcases : p = 2 ∨ p = 3 ∨ p = 11 ∨ p = 19 ∨ p = 10177 ∨ p = 125527 ∨ p = 859267 ∨
        p = 906349 ∨ p = 2508409 ∨ p = 2529403 ∨ p = 52437899 ∨ p = 254760293 := by
      rw [q_pred_factorisation] at hdvd
      have e {a b : ℕ} (hb : b.Prime) (h : p ∣ a * b) : p ∣ a ∨ p = b :=
        (hp.dvd_mul.mp h).imp_right (Nat.prime_dvd_prime_iff_eq hp hb).mp
      have e2 {a b k : ℕ} (hb : b.Prime) (h : p ∣ a * b ^ k) : p ∣ a ∨ p = b :=
        (hp.dvd_mul.mp h).imp_right fun h' => (Nat.prime_dvd_prime_iff_eq hp hb).mp (hp.dvd_of_dvd_pow h')
      rcases e2 (by norm_num) hdvd with h | h
      rcases e (by norm_num) h with h | h
      rcases e (by norm_num) h with h | h
      rcases e (by norm_num) h with h | h
      rcases e2 (by norm_num) h with h | h
      rcases e (by norm_num) h with h | h
      rcases e (by norm_num) h with h | h
      rcases e (by norm_num) h with h | h
      rcases e (by norm_num) h with h | h
      rcases e (by norm_num) h with h | h
      rcases e (by norm_num) h with h | h
      · have := (Nat.prime_dvd_prime_iff_eq hp Nat.prime_two).mp (hp.dvd_of_dvd_pow h)
        exact Or.inl this
      all_goals simp [h]
    rcases hcases with h | h | h | h | h | h | h | h | h | h | h | h <;> subst h <;>
      exact zmod_pow_ne_one _ (by decide +kernel) (by decide +kernel)

instance fact_q_prime : Fact (Nat.Prime q) := ⟨q_prime⟩

end ZkVerif
