/-
Transcript binding: the byte string a `ChallengeBuilder` hashes determines the atoms it consumed
(fixed-width injective codecs), and the atoms determine the public values and every non-response
field of the proofs.
-/
import ZkVerif.Model.ZkProofs
import Mathlib.Data.List.Basic

set_option linter.unusedSectionVars false

namespace ZkVerif
universe u
variable {F G1 G2 : Type u}

/-- Concatenation of chunks is injective once the chunk widths are known. -/
theorem flatten_inj_of_lengths {α : Type} (xs ys : List (List α))
    (h : xs.map List.length = ys.map List.length) (hf : xs.flatten = ys.flatten) : xs = ys := by
  induction xs generalizing ys with
  | nil => cases ys with
    | nil => rfl
    | cons y ys => simp at h
  | cons x xs ih => cases ys with
    | nil => simp at h
    | cons y ys =>
      simp only [List.map_cons, List.cons.injEq] at h
      simp only [List.flatten_cons] at hf
      obtain ⟨h1, h2⟩ := List.append_inj hf h.1
      rw [h1, ih ys h.2 h2]

/-- What is assumed of the element codecs (`to_bytes` / compression of bls12_381): fixed widths and
injectivity. -/
structure Codecs.Lawful (cd : Codecs F G1 G2) : Prop where
  lenF : ∀ x, (cd.encF x).length = 32
  lenG1 : ∀ x, (cd.encG1 x).length = 48
  lenG2 : ∀ x, (cd.encG2 x).length = 96
  injF : Function.Injective cd.encF
  injG1 : Function.Injective cd.encG1
  injG2 : Function.Injective cd.encG2

/-- kind and width of an atom: what a fixed code path determines irrespective of the values -/
def Atom.shape : Atom F G1 G2 → Nat × Nat
  | .s _ => (0, 32)
  | .g1 _ => (1, 48)
  | .g2 _ => (2, 96)
  | .bytes b => (3, b.length)

theorem Atom.enc_length (cd : Codecs F G1 G2) (hcd : cd.Lawful) (a : Atom F G1 G2) :
    (a.enc cd).length = a.shape.2 := by
  cases a <;> simp [Atom.enc, Atom.shape, hcd.lenF, hcd.lenG1, hcd.lenG2]

theorem Atom.enc_inj (cd : Codecs F G1 G2) (hcd : cd.Lawful) (a b : Atom F G1 G2)
    (hs : a.shape = b.shape) (he : a.enc cd = b.enc cd) : a = b := by
  cases a <;> cases b <;> simp [Atom.shape] at hs <;> simp only [Atom.enc] at he
  · rw [hcd.injF he]
  · rw [hcd.injG1 he]
  · rw [hcd.injG2 he]
  · rw [he]

/-- Two transcripts produced by the same code path (same shapes) with the same hashed bytes are
equal atom by atom. -/
theorem transcript_bytes_inj (cd : Codecs F G1 G2) (hcd : cd.Lawful) (t1 t2 : Transcript F G1 G2)
    (hs : t1.map Atom.shape = t2.map Atom.shape) (hb : t1.bytes cd = t2.bytes cd) : t1 = t2 := by
  unfold Transcript.bytes at hb
  have hl : (t1.map (Atom.enc cd)).map List.length = (t2.map (Atom.enc cd)).map List.length := by
    rw [List.map_map, List.map_map]
    have : ∀ t : Transcript F G1 G2, t.map (List.length ∘ Atom.enc cd) = (t.map Atom.shape).map Prod.snd := by
      intro t; rw [List.map_map]; apply List.map_congr_left; intro a _; exact Atom.enc_length cd hcd a
    rw [this, this, hs]
  have he := flatten_inj_of_lengths _ _ hl hb
  clear hb hl
  induction t1 generalizing t2 with
  | nil => cases t2 with
    | nil => rfl
    | cons b t2 => simp at hs
  | cons a t1 ih => cases t2 with
    | nil => simp at hs
    | cons b t2 =>
      simp only [List.map_cons, List.cons.injEq] at hs he
      rw [Atom.enc_inj cd hcd a b hs.1 he.1, ih t2 hs.2 he.2]

/-! ### the atoms determine the hashed values -/

theorem map_g1_inj (xs ys : List G1) (h : xs.map (Atom.g1 (F := F) (G2 := G2)) = ys.map Atom.g1) : xs = ys :=
  List.map_injective_iff.mpr (fun a b hab => by cases hab; rfl) h

theorem map_g2_inj (xs ys : List G2) (h : xs.map (Atom.g2 (F := F) (G1 := G1)) = ys.map Atom.g2) : xs = ys :=
  List.map_injective_iff.mpr (fun a b hab => by cases hab; rfl) h

theorem pk_atoms_inj (pk pk' : PubKey G1 G2) (h1 : pk.y1s.length = pk'.y1s.length)
    (h : pk.atoms (F := F) = pk'.atoms) : pk = pk' := by
  unfold PubKey.atoms at h
  obtain ⟨h12, h3⟩ := List.append_inj h (by simp [h1])
  obtain ⟨ha, hb⟩ := List.append_inj h12 (by simp)
  simp only [List.cons.injEq, Atom.g1.injEq, Atom.g2.injEq, and_true] at ha
  obtain ⟨g1, g2, x2⟩ := ha
  cases pk; cases pk'
  simp only at g1 g2 x2 hb h3
  rw [g1, g2, x2, map_g1_inj _ _ hb, map_g2_inj _ _ h3]

/-- Equal establish transcripts (for keys of the same tuple length) have equal merchant key,
public values, close tag, context, and equal *every* non-response field of the proof. -/
theorem estTranscript_inj (pk pk' : PubKey G1 G2) (close close' : F) (pub pub' : EstPub F)
    (p p' : EstProof F G1) (ctx ctx' : List UInt8) (h1 : pk.y1s.length = pk'.y1s.length)
    (h2 : pk.y2s.length = pk'.y2s.length)
    (h : estTranscript pk close pub p ctx = estTranscript pk' close' pub' p' ctx') :
    pk = pk' ∧ close = close' ∧ pub = pub' ∧ ctx = ctx' ∧
    p.st.C = p'.st.C ∧ p.st.T = p'.st.T ∧ p.cl.C = p'.cl.C ∧ p.cl.T = p'.cl.T ∧
    p.kCid = p'.kCid ∧ p.kClose = p'.kClose ∧ p.kCb = p'.kCb ∧ p.kMb = p'.kMb := by
  unfold estTranscript CProof.atoms1 at h
  simp only [List.append_assoc] at h
  obtain ⟨hpk, hrest⟩ := List.append_inj h (by simp [PubKey.atoms, h1, h2])
  have := pk_atoms_inj pk pk' h1 hpk
  simp only [List.cons_append, List.nil_append, List.cons.injEq, Atom.s.injEq, Atom.g1.injEq,
    Atom.bytes.injEq, and_true] at hrest
  obtain ⟨a1, a2, a3, a4, a5, a6, a7, a8, a9, a10, a11, a12, a13⟩ := hrest
  refine ⟨this, a2, ?_, a13, a5, a6, a7, a8, a9, a10, a11, a12⟩
  cases pub; cases pub'; simp_all

end ZkVerif

namespace ZkVerif
universe u
variable {F G1 G2 : Type u}

/-- first message of a signature proof: everything that is not a response scalar -/
def SProof.first (p : SProof F G1 G2) : Sig G1 × G2 × G2 := (p.sig, p.cp.C, p.cp.T)

theorem sproof_atoms_inj (p p' : SProof F G1 G2) (h : p.atoms = p'.atoms) : p.first = p'.first := by
  unfold SProof.atoms Sig.atoms CProof.atoms2 at h
  simp only [List.cons_append, List.nil_append, List.cons.injEq, Atom.g1.injEq, Atom.g2.injEq, and_true] at h
  obtain ⟨a, b, c, d⟩ := h
  unfold SProof.first
  cases p with | mk sig cp => cases p' with | mk sig' cp' =>
  cases sig; cases sig'; simp_all

theorem sproof_atoms_length (p : SProof F G1 G2) : p.atoms.length = 4 := by
  simp [SProof.atoms, Sig.atoms, CProof.atoms2]

theorem rangeAtoms_inj (ps ps' : List (SProof F G1 G2)) (hl : ps.length = ps'.length)
    (h : rangeAtoms ps = rangeAtoms ps') : ps.map SProof.first = ps'.map SProof.first := by
  induction ps generalizing ps' with
  | nil => cases ps' with
    | nil => rfl
    | cons _ _ => simp at hl
  | cons p ps ih => cases ps' with
    | nil => simp at hl
    | cons p' ps' =>
      unfold rangeAtoms at h
      simp only [List.flatMap_cons] at h
      obtain ⟨h1, h2⟩ := List.append_inj h (by rw [sproof_atoms_length, sproof_atoms_length])
      simp only [List.map_cons]
      rw [sproof_atoms_inj p p' h1, ih ps' (by simpa using hl) h2]

theorem rangeAtoms_length (ps : List (SProof F G1 G2)) : (rangeAtoms ps).length = 4 * ps.length := by
  induction ps with
  | nil => rfl
  | cons p ps ih =>
    unfold rangeAtoms at ih ⊢
    simp only [List.flatMap_cons, List.length_append, sproof_atoms_length, ih, List.length_cons]
    omega

theorem sigs_atoms_inj (σs σs' : List (Sig G1)) (hl : σs.length = σs'.length)
    (h : σs.flatMap (Sig.atoms (F := F) (G2 := G2)) = σs'.flatMap Sig.atoms) : σs = σs' := by
  induction σs generalizing σs' with
  | nil => cases σs' with
    | nil => rfl
    | cons _ _ => simp at hl
  | cons σ σs ih => cases σs' with
    | nil => simp at hl
    | cons σ' σs' =>
      simp only [List.flatMap_cons, Sig.atoms, List.cons_append, List.nil_append, List.cons.injEq,
        Atom.g1.injEq] at h
      obtain ⟨a, b, c⟩ := h
      cases σ; cases σ'
      simp only at a b
      rw [a, b, ih σs' (by simpa using hl) c]

theorem sigs_atoms_length (σs : List (Sig G1)) :
    (σs.flatMap (Sig.atoms (F := F) (G2 := G2))).length = 2 * σs.length := by
  induction σs with
  | nil => rfl
  | cons σ σs ih =>
    simp only [List.flatMap_cons, List.length_append, ih, List.length_cons, Sig.atoms, List.length_nil]
    omega

theorem pk_atoms_length (pk : PubKey G1 G2) :
    (pk.atoms (F := F)).length = 3 + pk.y1s.length + pk.y2s.length := by
  simp [PubKey.atoms]; omega

theorem rp_atoms_inj (rp rp' : RangeParams G1 G2) (hs : rp.sigs.length = rp'.sigs.length)
    (h1 : rp.pk.y1s.length = rp'.pk.y1s.length)
    (h : rp.atoms (F := F) = rp'.atoms) : rp = rp' := by
  unfold RangeParams.atoms at h
  obtain ⟨a, b⟩ := List.append_inj h (by rw [sigs_atoms_length, sigs_atoms_length, hs])
  cases rp; cases rp'
  simp only at a b hs h1
  rw [sigs_atoms_inj _ _ hs a, pk_atoms_inj _ _ h1 b]

/-- Equal pay transcripts (same tuple lengths / numbers of digit proofs) have equal keys, range
parameters, nonce, close tag, context and equal every non-response field of the pay proof. -/
theorem payTranscript_inj (pm pm' : PayParams G1 G2) (close close' : F) (pub pub' : PayPub F)
    (p p' : PayProofM F G1 G2) (ctx ctx' : List UInt8)
    (h1 : pm.pk.y1s.length = pm'.pk.y1s.length) (h2 : pm.pk.y2s.length = pm'.pk.y2s.length)
    (h3 : pm.rp.sigs.length = pm'.rp.sigs.length) (h4 : pm.rp.pk.y1s.length = pm'.rp.pk.y1s.length)
    (h5 : pm.rp.pk.y2s.length = pm'.rp.pk.y2s.length)
    (h6 : p.cbR.length = p'.cbR.length) (h7 : p.mbR.length = p'.mbR.length)
    (h : payTranscript pm close pub p ctx = payTranscript pm' close' pub' p' ctx') :
    pm.pk = pm'.pk ∧ pm.rp = pm'.rp ∧ pub.nonce = pub'.nonce ∧ close = close' ∧ ctx = ctx' ∧
    p.rl.C = p'.rl.C ∧ p.rl.T = p'.rl.T ∧ p.st.C = p'.st.C ∧ p.st.T = p'.st.T ∧
    p.cl.C = p'.cl.C ∧ p.cl.T = p'.cl.T ∧ p.tok.first = p'.tok.first ∧
    p.cbR.map SProof.first = p'.cbR.map SProof.first ∧
    p.mbR.map SProof.first = p'.mbR.map SProof.first ∧
    p.kNonce = p'.kNonce ∧ p.kClose = p'.kClose := by
  unfold payTranscript CProof.atoms1 at h
  simp only [List.append_assoc] at h
  obtain ⟨hpk, h⟩ := List.append_inj h (by rw [pk_atoms_length, pk_atoms_length, h1, h2])
  obtain ⟨hrp, h⟩ := List.append_inj h (by
    unfold RangeParams.atoms
    rw [List.length_append, List.length_append, sigs_atoms_length, sigs_atoms_length, pk_atoms_length,
      pk_atoms_length, h3, h4, h5])
  simp only [List.cons_append, List.nil_append, List.cons.injEq, Atom.s.injEq, Atom.g1.injEq] at h
  obtain ⟨a1, a2, a3, a4, a5, a6, a7, a8, h⟩ := h
  obtain ⟨htok, h⟩ := List.append_inj h (by rw [sproof_atoms_length, sproof_atoms_length])
  obtain ⟨hcb, h⟩ := List.append_inj h (by rw [rangeAtoms_length, rangeAtoms_length, h6])
  obtain ⟨hmb, h⟩ := List.append_inj h (by rw [rangeAtoms_length, rangeAtoms_length, h7])
  simp only [List.cons.injEq, Atom.s.injEq, Atom.bytes.injEq, and_true] at h
  obtain ⟨b1, b2, b3⟩ := h
  exact ⟨pk_atoms_inj _ _ h1 hpk, rp_atoms_inj _ _ h3 h4 hrp, a1, a2, b3, a3, a4, a5, a6, a7, a8,
    sproof_atoms_inj _ _ htok, rangeAtoms_inj _ _ h6 hcb, rangeAtoms_inj _ _ h7 hmb, b1, b2⟩

end ZkVerif
