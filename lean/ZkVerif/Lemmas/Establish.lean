/-
Establish proof: completeness, special soundness, and the forger against the pinned verifier.
-/
import ZkVerif.Lemmas.Transcript
import ZkVerif.Lemmas.Schnorr

set_option linter.unusedSectionVars false

namespace ZkVerif
universe u
variable {F G1 G2 : Type u} [Field F] [AddCommGroup G1] [Module F G1] [AddCommGroup G2] [Module F G2]

theorem list_len5 {α : Type u} (l : List α) (h : l.length = 5) :
    ∃ a b c d e, l = [a, b, c, d, e] := by
  match l, h with
  | [a, b, c, d, e], _ => exact ⟨a, b, c, d, e, rfl⟩

theorem list_len1 {α : Type u} (l : List α) (h : l.length = 1) : ∃ a, l = [a] := by
  match l, h with
  | [a], _ => exact ⟨a, rfl⟩

/-- the extractor recovers `m` from two responses `c·m + k`, `c'·m + k` with a common `k` -/
theorem ext_of_lin (c c' m k : F) (hc : c ≠ c') : ext c c' (c * m + k) (c' * m + k) = m := by
  have hne : c - c' ≠ 0 := sub_ne_zero.mpr hc
  unfold ext; field_simp; ring

theorem ext_congr (c c' a b a' b' : F) (h1 : a = a') (h2 : b = b') : ext c c' a b = ext c c' a' b' := by
  rw [h1, h2]

/-- `z₁ = z₂ - c·a` in both executions ⇒ the extracted values differ by `a`. -/
theorem ext_sub (c c' a x y x' y' : F) (hc : c ≠ c') (h1 : x = y - c * a) (h2 : x' = y' - c' * a) :
    ext c c' x x' = ext c c' y y' - a := by
  have hne : c - c' ≠ 0 := sub_ne_zero.mpr hc
  rw [h1, h2]; unfold ext; field_simp; ring

theorem ext_add (c c' a x y x' y' : F) (hc : c ≠ c') (h1 : x = y + c * a) (h2 : x' = y' + c' * a) :
    ext c c' x x' = ext c c' y y' + a := by
  have hne : c - c' ≠ 0 := sub_ne_zero.mpr hc
  rw [h1, h2]; unfold ext; field_simp; ring

section
variable [DecidableEq F] [DecidableEq G1]

theorem estVerifyWith_some_iff (pk : PubKey G1 G2) (close : F) (pub : EstPub F) (p : EstProof F G1)
    (c : F) (v : G1 × G1) :
    estVerifyWith pk close pub p c = some v ↔ EstAccept pk close pub p c ∧ v = (p.st.C, p.cl.C) := by
  unfold estVerifyWith
  by_cases h : EstAccept pk close pub p c
  · rw [if_pos h]; simp [h, eq_comm]
  · rw [if_neg h]; simp [h]

/-- Completeness for an arbitrary challenge: the honest customer's proof satisfies every relation. -/
theorem est_complete_with (pk : PubKey G1 G2) (close : F) (ms : List F) (d : EstDraws F) (c : F)
    (hm : ms.length = 5) (ht : d.tsS.length = 5) :
    EstAccept pk close ⟨ms.getD 0 0, ms.getD 3 0, ms.getD 4 0⟩ (estProveWith pk close ms d c) c := by
  obtain ⟨m0, m1, m2, m3, m4, rfl⟩ := list_len5 ms hm
  obtain ⟨t0, t1, t2, t3, t4, hts⟩ := list_len5 d.tsS ht
  unfold EstAccept estProveWith estBuilders srpBuilder
  simp only [hts]
  refine ⟨cp_complete pk.ped1 _ _ _ _ c rfl, cp_complete pk.ped1 _ _ _ _ c rfl, ?_⟩
  simp [CBuilder.respond, CBuilder.mk']

/-- Special soundness: two accepting executions for the same statement with the same first
message (commitments, scalar commitments and the four revealed commitment scalars) and different
challenges yield openings of both commitments whose slots are exactly the agreed channel id and
balances, share one revocation lock, and carry the close tag in the close state. -/
theorem est_special_sound (pk : PubKey G1 G2) (close : F) (pub : EstPub F) (p p' : EstProof F G1)
    (c c' : F) (hc : c ≠ c')
    (hl1 : p.st.zs.length = 5) (hl2 : p.cl.zs.length = 5) (hl1' : p'.st.zs.length = 5)
    (hl2' : p'.cl.zs.length = 5)
    (hC : p.st.C = p'.st.C) (hT : p.st.T = p'.st.T) (hC2 : p.cl.C = p'.cl.C) (hT2 : p.cl.T = p'.cl.T)
    (hk0 : p.kCid = p'.kCid) (hk1 : p.kClose = p'.kClose) (hk3 : p.kCb = p'.kCb) (hk4 : p.kMb = p'.kMb)
    (a : EstAccept pk close pub p c) (a' : EstAccept pk close pub p' c') :
    ∃ rs rc n l, commit pk.ped1 rs [pub.cid, n, l, pub.cb, pub.mb] = p.st.C ∧
                 commit pk.ped1 rc [pub.cid, close, l, pub.cb, pub.mb] = p.cl.C := by
  obtain ⟨k0, k1, k3, k4, ⟨sC, sT, szbf, szs⟩, ⟨cC, cT, czbf, czs⟩⟩ := p
  obtain ⟨k0', k1', k3', k4', ⟨sC', sT', szbf', szs'⟩, ⟨cC', cT', czbf', czs'⟩⟩ := p'
  simp only at hl1 hl2 hl1' hl2' hC hT hC2 hT2 hk0 hk1 hk3 hk4
  subst hC hT hC2 hT2 hk0 hk1 hk3 hk4
  obtain ⟨s0, s1, s2, s3, s4, rfl⟩ := list_len5 szs hl1
  obtain ⟨x0, x1, x2, x3, x4, rfl⟩ := list_len5 czs hl2
  obtain ⟨s0', s1', s2', s3', s4', rfl⟩ := list_len5 szs' hl1'
  obtain ⟨x0', x1', x2', x3', x4', rfl⟩ := list_len5 czs' hl2'
  obtain ⟨as, ac, e0, e0c, e1c, e2, e3, e3c, e4, e4c⟩ := a
  obtain ⟨as', ac', e0', e0c', e1c', e2', e3', e3c', e4', e4c'⟩ := a'
  simp only [List.getD_cons_zero, List.getD_cons_succ] at e0 e0c e1c e2 e3 e3c e4 e4c e0' e0c' e1c' e2' e3' e3c' e4' e4c'
  have hs := cp_extract pk.ped1 sC sT c c' szbf szbf' [s0, s1, s2, s3, s4] [s0', s1', s2', s3', s4'] rfl hc as as'
  have hcl := cp_extract pk.ped1 cC cT c c' czbf czbf' [x0, x1, x2, x3, x4] [x0', x1', x2', x3', x4'] rfl hc ac ac'
  simp only [List.zipWith_cons_cons, List.zipWith_nil_right] at hs hcl
  refine ⟨ext c c' szbf szbf', ext c c' czbf czbf', ext c c' s1 s1', ext c c' s2 s2', ?_, ?_⟩
  · show commit pk.ped1 _ _ = sC
    rw [← hs, e0, e0', e3, e3', e4, e4', ext_of_lin _ _ _ _ hc, ext_of_lin _ _ _ _ hc, ext_of_lin _ _ _ _ hc]
  · show commit pk.ped1 _ _ = cC
    rw [← hcl, e0c, e0c', e1c, e1c', e3c, e3c', e4c, e4c', ← e2, ← e2', ext_of_lin _ _ _ _ hc,
      ext_of_lin _ _ _ _ hc, ext_of_lin _ _ _ _ hc, ext_of_lin _ _ _ _ hc]

end

end ZkVerif
