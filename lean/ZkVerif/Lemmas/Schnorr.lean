/-
Schnorr proofs of knowledge of an opening: completeness and special soundness.
-/
import ZkVerif.Lemmas.Pairing

set_option linter.unusedSectionVars false

namespace ZkVerif
universe u
variable {F G : Type u} [Field F] [AddCommGroup G] [Module F G]

theorem cpVerify_true [DecidableEq G] (pp : PedParams G) (p : CProof F G) (c : F) :
    cpVerify pp p c = true ↔ commit pp p.zbf p.zs = p.T + c • p.C := by
  unfold cpVerify; rw [decide_eq_true_iff]; rfl

theorem cpVerify_false [DecidableEq G] (pp : PedParams G) (p : CProof F G) (c : F) :
    cpVerify pp p c = false ↔ commit pp p.zbf p.zs ≠ p.T + c • p.C := by
  unfold cpVerify; rw [decide_eq_false_iff_not]; rfl

/-- Completeness: the honest prover's response verifies, for every message, every choice of
commitment scalars (caller-chosen or drawn) and every challenge. -/
theorem cp_complete (pp : PedParams G) (ms : List F) (bf tbf : F) (ts : List F) (c : F)
    (hl : ms.length = ts.length) :
    CpAccept pp ((CBuilder.mk' pp ms bf tbf ts).respond c) c := by
  unfold CpAccept CBuilder.respond CBuilder.mk'
  simp only
  have e1 : (fun (m t : F) => c * m + t) = (fun m t => c * m + 1 * t) := by funext m t; ring
  have e2 : c * bf + tbf = c * bf + 1 * tbf := by ring
  rw [e1, e2, commit_lin pp c 1 bf tbf ms ts hl]
  module

/-- The extractor of special soundness. -/
def ext (c c' z z' : F) : F := (c - c')⁻¹ * z + (-(c - c')⁻¹) * z'

/-- Special soundness: two accepting transcripts with the same `(C, T)` and different challenges
yield an opening of `C`, explicitly computed from the responses. -/
theorem cp_extract (pp : PedParams G) (C T : G) (c c' zbf zbf' : F) (zs zs' : List F)
    (hl : zs.length = zs'.length) (hc : c ≠ c')
    (a : CpAccept pp ⟨C, T, zbf, zs⟩ c) (a' : CpAccept pp ⟨C, T, zbf', zs'⟩ c') :
    commit pp (ext c c' zbf zbf') (List.zipWith (ext c c') zs zs') = C := by
  unfold CpAccept at a a'
  simp only at a a'
  unfold ext
  rw [commit_lin pp _ _ zbf zbf' zs zs' hl, a, a']
  have hne : c - c' ≠ 0 := sub_ne_zero.mpr hc
  have : (c - c')⁻¹ • (T + c • C) + -(c - c')⁻¹ • (T + c' • C) = ((c - c')⁻¹ * (c - c')) • C := by
    module
  rw [this, inv_mul_cancel₀ hne, one_smul]

/-- The extracted message entries satisfy `zᵢ = c · mᵢ + tᵢ` for a common `tᵢ`: the response
scalars of both transcripts are consistent with the extracted witness. -/
theorem ext_spec (c c' z z' : F) (hc : c ≠ c') :
    z - c * ext c c' z z' = z' - c' * ext c c' z z' := by
  have hne : c - c' ≠ 0 := sub_ne_zero.mpr hc
  unfold ext
  field_simp
  ring

theorem zipWith_respond_getElem (c : F) (ms ts : List F) (i : Nat) (h1 : i < ms.length)
    (h2 : i < ts.length) :
    (List.zipWith (fun m t => c * m + t) ms ts)[i]'(by simp [h1, h2]) = c * ms[i] + ts[i] := by
  simp

end ZkVerif
