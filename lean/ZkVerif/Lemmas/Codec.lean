/-
Little-endian number codec lemmas (core Lean only).
-/
import ZkVerif.Model.Codec

namespace ZkVerif.Codec

theorem encLE_length (k n : Nat) : (encLE k n).length = k := by
  induction k generalizing n with
  | zero => rfl
  | succ k ih => simp [encLE, ih]

theorem decLE_lt (bs : List UInt8) : decLE bs < 256 ^ bs.length := by
  induction bs with
  | nil => simp [decLE]
  | cons b bs ih =>
    have hb : b.toNat < 256 := UInt8.toNat_lt b
    simp only [decLE, List.length_cons, Nat.pow_succ]
    omega

/-- canonicity: re-encoding the decoded number gives back the bytes -/
theorem encLE_decLE (bs : List UInt8) : encLE bs.length (decLE bs) = bs := by
  induction bs with
  | nil => rfl
  | cons b bs ih =>
    have hb : b.toNat < 256 := UInt8.toNat_lt b
    simp only [decLE, List.length_cons, encLE]
    have h1 : (b.toNat + 256 * decLE bs) % 256 = b.toNat := by omega
    have h2 : (b.toNat + 256 * decLE bs) / 256 = decLE bs := by omega
    rw [h1, h2, ih]
    simp

theorem decLE_encLE (k n : Nat) (h : n < 256 ^ k) : decLE (encLE k n) = n := by
  induction k generalizing n with
  | zero => simp at h; simp [encLE, decLE, h]
  | succ k ih =>
    simp only [encLE, decLE]
    rw [ih (n / 256) (by rw [Nat.pow_succ] at h; omega)]
    have : (UInt8.ofNat (n % 256)).toNat = n % 256 := by
      simp [UInt8.toNat_ofNat]
    rw [this]; omega

theorem take_append_drop_eq (n : Nat) (bs : List UInt8) : bs = bs.take n ++ bs.drop n :=
  (List.take_append_drop n bs).symm

end ZkVerif.Codec
