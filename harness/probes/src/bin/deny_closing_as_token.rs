//! C18: a closing signature is not accepted where a pay token is expected (type level)
use zkabacus_crypto::{customer, ClosingSignature};
fn activate(i: customer::Inactive, s: ClosingSignature, c: &customer::Config) -> bool { i.activate(s, c).is_ok() }
fn main() { let _ = activate as fn(_, _, _) -> _; }
