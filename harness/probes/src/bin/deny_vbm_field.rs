//! C08: the commitment inside a VerifiedBlindedMessage cannot be replaced from outside
use zkchannels_crypto::pedersen::Commitment;
use zkchannels_crypto::pointcheval_sanders::VerifiedBlindedMessage;
fn swap(mut v: VerifiedBlindedMessage, c: Commitment<bls12_381::G1Projective>) -> VerifiedBlindedMessage {
    v.0 = c;
    v
}
fn main() { let _ = swap as fn(_, _) -> _; }
