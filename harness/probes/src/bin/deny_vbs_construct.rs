//! C01: a VerifiedBlindedState (what `activate` signs) cannot be built outside the crate
use zkabacus_crypto::VerifiedBlindedState;
use zkchannels_crypto::pointcheval_sanders::VerifiedBlindedMessage;
fn forge(v: VerifiedBlindedMessage) -> VerifiedBlindedState { VerifiedBlindedState(v) }
fn main() { let _ = forge as fn(_) -> _; }
