//! positive control: the same types used the way the API allows
use rand::thread_rng;
use zkabacus_crypto::{customer, merchant, ClosingSignature, PayToken, VerifiedBlindedState};
use zkchannels_crypto::pointcheval_sanders::{BlindedSignature, KeyPair, VerifiedBlindedMessage};

fn sign(v: VerifiedBlindedMessage, kp: &KeyPair<5>) -> BlindedSignature {
    v.blind_sign(kp, &mut thread_rng())
}
fn activate(m: &merchant::Config, v: VerifiedBlindedState) -> PayToken {
    m.activate(&mut thread_rng(), v)
}
fn complete(r: customer::Requested, s: ClosingSignature, c: &customer::Config) -> bool {
    r.complete(s, c).is_ok()
}
fn activate_c(i: customer::Inactive, t: PayToken, c: &customer::Config) -> bool {
    i.activate(t, c).is_ok()
}
fn main() {
    let _ = (sign as fn(_, _) -> _, activate as fn(_, _) -> _, complete as fn(_, _, _) -> _, activate_c as fn(_, _, _) -> _);
}
