//! C18: a pay token is not accepted where a closing signature is expected (type level)
use zkabacus_crypto::{customer, PayToken};
fn complete(r: customer::Requested, t: PayToken, c: &customer::Config) -> bool { r.complete(t, c).is_ok() }
fn main() { let _ = complete as fn(_, _, _) -> _; }
