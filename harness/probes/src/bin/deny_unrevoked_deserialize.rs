//! C05: an Unrevoked (pending payment) is only produced by allow_payment
use zkabacus_crypto::merchant::Unrevoked;
fn needs_de<T: serde::de::DeserializeOwned>() {}
fn main() { needs_de::<Unrevoked<'static>>(); }
