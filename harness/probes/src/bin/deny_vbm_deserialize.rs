//! C08: a VerifiedBlindedMessage cannot be obtained by deserialization
use zkchannels_crypto::pointcheval_sanders::VerifiedBlindedMessage;
fn needs_de<T: serde::de::DeserializeOwned>() {}
fn main() { needs_de::<VerifiedBlindedMessage>(); }
