//! C08: an (unverified) BlindedMessage does not convert into a VerifiedBlindedMessage
use zkchannels_crypto::pointcheval_sanders::{BlindedMessage, VerifiedBlindedMessage};
fn conv(b: BlindedMessage) -> VerifiedBlindedMessage { b.into() }
fn main() { let _ = conv as fn(_) -> _; }
