//! C03 / C18: a blinded closing signature is used once (not Clone)
use zkabacus_crypto::ClosingSignature;
fn needs_clone<T: Clone>() {}
fn main() { needs_clone::<ClosingSignature>(); }
