//! C01: … nor deserialized
use zkabacus_crypto::VerifiedBlindedState;
fn needs_de<T: serde::de::DeserializeOwned>() {}
fn main() { needs_de::<VerifiedBlindedState>(); }
