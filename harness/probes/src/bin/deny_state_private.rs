//! C01 / C14: the customer's State (nonce, revocation pair) is not reachable from outside (guard off)
use zkabacus_crypto::states::State;
fn main() { let _: Option<State> = None; }
