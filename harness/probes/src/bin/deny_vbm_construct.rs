//! C08: a VerifiedBlindedMessage cannot be built from a commitment outside the crate
use zkchannels_crypto::pedersen::Commitment;
use zkchannels_crypto::pointcheval_sanders::VerifiedBlindedMessage;
fn forge(c: Commitment<bls12_381::G1Projective>) -> VerifiedBlindedMessage {
    VerifiedBlindedMessage(c)
}
fn main() { let _ = forge as fn(_) -> _; }
