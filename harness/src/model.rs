//! Client for the compiled Lean model driver (`/verif/lean/.lake/build/bin/driver`): one request
//! line in, one answer line of typed tokens out.
use crate::dl;
use bls12_381::Scalar;
use std::io::{BufRead, BufReader, Write};
use std::process::{Child, ChildStdin, ChildStdout, Command, Stdio};

#[derive(Clone, Debug, PartialEq)]
pub enum Tok {
    B(bool),
    S(Scalar),
    V(String),
    N(u128),
    I(i128),
    X(Vec<u8>),
    L(usize),
}

pub struct Model {
    child: Child,
    stdin: ChildStdin,
    stdout: BufReader<ChildStdout>,
    pub calls: u64,
}

impl Model {
    pub fn spawn() -> Model {
        let path = std::env::var("ZKVERIF_DRIVER")
            .unwrap_or_else(|_| "/verif/lean/.lake/build/bin/driver".to_string());
        let mut child = Command::new(&path)
            .stdin(Stdio::piped())
            .stdout(Stdio::piped())
            .spawn()
            .unwrap_or_else(|e| panic!("cannot start model driver {}: {}", path, e));
        let stdin = child.stdin.take().unwrap();
        let stdout = BufReader::new(child.stdout.take().unwrap());
        Model {
            child,
            stdin,
            stdout,
            calls: 0,
        }
    }

    pub fn raw(&mut self, line: &str) -> String {
        self.calls += 1;
        self.stdin.write_all(line.as_bytes()).unwrap();
        self.stdin.write_all(b"\n").unwrap();
        self.stdin.flush().unwrap();
        let mut out = String::new();
        self.stdout.read_line(&mut out).expect("model driver died");
        out.trim().to_string()
    }

    pub fn call(&mut self, line: &str) -> Vec<Tok> {
        let out = self.raw(line);
        parse_toks(&out)
    }
}

impl Drop for Model {
    fn drop(&mut self) {
        let _ = self.child.kill();
        let _ = self.child.wait();
    }
}

pub fn parse_toks(out: &str) -> Vec<Tok> {
    out.split_whitespace()
        .map(|t| {
            let (k, v) = t.split_at(2);
            match k {
                "b:" => Tok::B(v == "1"),
                "s:" => Tok::S(dl::parse_s(v).unwrap_or_else(|| panic!("bad scalar token {}", t))),
                "v:" => Tok::V(v.to_string()),
                "n:" => Tok::N(v.parse().unwrap()),
                "i:" => Tok::I(v.parse().unwrap()),
                "x:" => Tok::X(hex::decode(v).unwrap()),
                "l:" => Tok::L(v.parse().unwrap()),
                _ => panic!("bad token {}", t),
            }
        })
        .collect()
}
