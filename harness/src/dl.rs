//! Discrete-log book: the isomorphism between the model's exponent space and the real groups.
//!
//! Bases: `B1 = clear_cofactor(G1 generator)`, `B2 = clear_cofactor(G2 generator)` (so that the
//! scripted sampler's outputs are `±k·B`), `BT = e(B1, B2)`.
use bls12_381::{pairing, G1Affine, G1Projective, G2Affine, G2Projective, Gt, Scalar};
use group::Curve;
use std::cell::RefCell;
use std::collections::HashMap;
use std::rc::Rc;

thread_local! {
    static BASES: (G1Projective, G2Projective, Gt) = {
        let b1 = G1Projective::generator().clear_cofactor();
        let b2 = G2Projective::generator().clear_cofactor();
        let bt = pairing(&b1.to_affine(), &b2.to_affine());
        (b1, b2, bt)
    };
}

pub fn b1() -> G1Projective {
    BASES.with(|b| b.0)
}
pub fn b2() -> G2Projective {
    BASES.with(|b| b.1)
}
pub fn bt() -> Gt {
    BASES.with(|b| b.2)
}

#[derive(Clone, Default)]
pub struct Book(Rc<RefCell<HashMap<Vec<u8>, Scalar>>>);

impl Book {
    pub fn new() -> Self {
        Book::default()
    }
    /// Materialise `d·B1` and remember its dlog.
    pub fn g1(&self, d: Scalar) -> G1Projective {
        let p = b1() * d;
        self.0
            .borrow_mut()
            .insert(p.to_affine().to_compressed().to_vec(), d);
        p
    }
    pub fn g2(&self, d: Scalar) -> G2Projective {
        let p = b2() * d;
        self.0
            .borrow_mut()
            .insert(p.to_affine().to_compressed().to_vec(), d);
        p
    }
    pub fn g1a(&self, d: Scalar) -> G1Affine {
        self.g1(d).to_affine()
    }
    pub fn g2a(&self, d: Scalar) -> G2Affine {
        self.g2(d).to_affine()
    }
    pub fn put_g1_pm(&self, k: Scalar) {
        let _ = self.g1(k);
        let _ = self.g1(-k);
    }
    pub fn put_g2_pm(&self, k: Scalar) {
        let _ = self.g2(k);
        let _ = self.g2(-k);
    }
    pub fn dlog_g1(&self, p: &G1Affine) -> Option<Scalar> {
        if bool::from(p.is_identity()) {
            return Some(Scalar::zero());
        }
        self.0.borrow().get(&p.to_compressed()[..]).cloned()
    }
    pub fn dlog_g2(&self, p: &G2Affine) -> Option<Scalar> {
        if bool::from(p.is_identity()) {
            return Some(Scalar::zero());
        }
        self.0.borrow().get(&p.to_compressed()[..]).cloned()
    }
    pub fn dlog_g1_bytes(&self, b: &[u8]) -> Option<Scalar> {
        let p: Option<G1Affine> = G1Affine::from_compressed(&<[u8; 48]>::try_from_slice(b)?).into();
        self.dlog_g1(&p?)
    }
    pub fn dlog_g2_bytes(&self, b: &[u8]) -> Option<Scalar> {
        let p: Option<G2Affine> = G2Affine::from_compressed(&<[u8; 96]>::try_from_slice(b)?).into();
        self.dlog_g2(&p?)
    }
    /// Check `p == d·B1`; on success remember the dlog.
    pub fn check_g1(&self, p: &G1Affine, d: Scalar) -> bool {
        let ok = G1Projective::from(p) == b1() * d;
        if ok {
            self.0.borrow_mut().insert(p.to_compressed().to_vec(), d);
        }
        ok
    }
    pub fn check_g2(&self, p: &G2Affine, d: Scalar) -> bool {
        let ok = G2Projective::from(p) == b2() * d;
        if ok {
            self.0.borrow_mut().insert(p.to_compressed().to_vec(), d);
        }
        ok
    }
    pub fn len(&self) -> usize {
        self.0.borrow().len()
    }
}

trait TryFromSlice: Sized {
    fn try_from_slice(b: &[u8]) -> Option<Self>;
}
impl TryFromSlice for [u8; 48] {
    fn try_from_slice(b: &[u8]) -> Option<Self> {
        if b.len() != 48 {
            return None;
        }
        let mut a = [0u8; 48];
        a.copy_from_slice(b);
        Some(a)
    }
}
impl TryFromSlice for [u8; 96] {
    fn try_from_slice(b: &[u8]) -> Option<Self> {
        if b.len() != 96 {
            return None;
        }
        let mut a = [0u8; 96];
        a.copy_from_slice(b);
        Some(a)
    }
}

pub fn hex_s(s: &Scalar) -> String {
    let mut b = s.to_bytes();
    b.reverse();
    let h = hex::encode(b);
    let t = h.trim_start_matches('0');
    if t.is_empty() {
        "0".to_string()
    } else {
        t.to_string()
    }
}

pub fn hex_list(xs: &[Scalar]) -> String {
    if xs.is_empty() {
        "-".to_string()
    } else {
        xs.iter().map(hex_s).collect::<Vec<_>>().join(",")
    }
}

pub fn parse_s(h: &str) -> Option<Scalar> {
    if h.len() > 64 {
        return None;
    }
    let padded = format!("{:0>64}", h);
    let mut b = [0u8; 32];
    hex::decode_to_slice(&padded, &mut b).ok()?;
    b.reverse();
    Scalar::from_bytes(&b).into()
}

pub fn q_minus_1() -> Scalar {
    -Scalar::one()
}
