//! Scripted random generator handed to the real code.
//!
//! Every draw the real code makes is *chosen* by the harness so that its discrete logarithm is
//! known, and is logged.  The generator recognises what is being sampled from the request
//! pattern of bls12_381 0.4.0 (read from its source):
//!
//! * `Scalar::random`        = `fill_bytes(64)` → `from_bytes_wide`; we answer `s_le ‖ 0³²` ⇒ exactly `s`.
//! * `G1Projective::random`  = loop { `fill_bytes(96)` (x), `next_u32` (sign), sqrt, clear cofactor }.
//! * `G2Projective::random`  = loop { `fill_bytes(96)` (c0), `fill_bytes(96)` (c1), `next_u32`, … }.
//!   `Fp::from_u768` takes the first 48 bytes as the low digit: `x_be48 ‖ 0⁴⁸` ⇒ x.
//!   Cofactor clearing is linear on the subgroup, so with x the x-coordinate of `k·gen` the sampler
//!   returns `±k·B` where `B = clear_cofactor(gen)`: a group element with known dlog (up to sign;
//!   both candidates are entered into the dlog book).
//!
//! A first 96-byte read may start a G1 or a G2 draw.  We answer it with the `c0` of a G2 subgroup
//! point whose `c0` is *not* the x-coordinate of a G1 curve point; if the next request is the sign
//! word it was a G1 draw whose first attempt now fails harmlessly and the sampler's own retry loop
//! asks again (then we serve a G1 x-coordinate); if the next request is another 96-byte read it
//! was a G2 draw and we serve `c1`.
//!
//! * `fill_bytes(32)` (channel randomness) → pseudo-random bytes, logged.
use crate::dl::{self, Book};
use bls12_381::{G1Affine, G1Projective, G2Affine, G2Projective, Scalar};
use group::Curve;
use rand::{RngCore, SeedableRng};
use rand_chacha::ChaCha20Rng;
use std::collections::VecDeque;

#[derive(Clone, Debug)]
pub enum Draw {
    S(Scalar),
    /// group draws: dlog up to sign w.r.t. B1 / B2
    G1(Scalar),
    G2(Scalar),
    Raw(Vec<u8>),
}

#[derive(Clone, Copy, Debug, PartialEq)]
enum St {
    Idle,
    AfterFirst96,
    G2Sign,
    G1Retry,
    G1Sign,
}

pub struct ScriptedRng {
    prng: ChaCha20Rng,
    pub forced_scalars: VecDeque<Scalar>,
    pub log: Vec<Draw>,
    st: St,
    pending_g2: Option<(Scalar, [u8; 48])>, // k, c1 bytes
    pending_g1: Option<Scalar>,
    book: Book,
    pub desync: Option<String>,
    /// an entropy source whose fallible interface reports an error (and leaves the buffer untouched) while the
    /// infallible one keeps working - a legal `RngCore`; the library must not come to depend on `try_fill_bytes`
    pub fail_try: bool,
}

impl ScriptedRng {
    pub fn new(seed: u64, book: Book) -> Self {
        ScriptedRng {
            prng: ChaCha20Rng::seed_from_u64(seed),
            forced_scalars: VecDeque::new(),
            log: Vec::new(),
            st: St::Idle,
            pending_g2: None,
            pending_g1: None,
            book,
            desync: None,
            fail_try: false,
        }
    }

    /// A fresh generator whose future draws are identical to this one's (for store/restore runs).
    pub fn fork(&self) -> Self {
        ScriptedRng {
            prng: self.prng.clone(),
            forced_scalars: self.forced_scalars.clone(),
            log: Vec::new(),
            st: self.st,
            pending_g2: self.pending_g2,
            pending_g1: self.pending_g1,
            book: self.book.clone(),
            desync: None,
            fail_try: self.fail_try,
        }
    }

    pub fn force_scalars(&mut self, xs: &[Scalar]) {
        self.forced_scalars.extend(xs.iter().cloned());
    }

    pub fn take_log(&mut self) -> Vec<Draw> {
        std::mem::take(&mut self.log)
    }

    /// Scalars drawn since the last `take_log`, in order.
    pub fn scalars_in_log(&self) -> Vec<Scalar> {
        self.log
            .iter()
            .filter_map(|d| if let Draw::S(s) = d { Some(*s) } else { None })
            .collect()
    }

    fn fresh_scalar(&mut self) -> Scalar {
        let mut b = [0u8; 64];
        self.prng.fill_bytes(&mut b);
        Scalar::from_bytes_wide(&b)
    }

    fn flag_desync(&mut self, what: &str) {
        if self.desync.is_none() {
            self.desync = Some(format!("{} in state {:?}", what, self.st));
        }
        self.st = St::Idle;
    }

    fn serve_scalar(&mut self, dest: &mut [u8]) {
        let s = match self.forced_scalars.pop_front() {
            Some(s) => s,
            None => self.fresh_scalar(),
        };
        // half of the time the 64 bytes are not the canonical `s ‖ 0³²` but another 512-bit preimage of the same
        // scalar, `s + k·q`: a sampler must judge the *reduced* value (a zero scalar may arrive as q, 2q, q·2^200 …)
        let mut coin = [0u8; 33];
        self.prng.fill_bytes(&mut coin);
        if coin[32] & 1 == 0 {
            dest[..32].copy_from_slice(&s.to_bytes());
            for b in dest[32..].iter_mut() { *b = 0; }
        } else {
            const Q: [u64; 4] = [0xffff_ffff_0000_0001, 0x53bd_a402_fffe_5bfe, 0x3339_d808_09a1_d805, 0x73ed_a753_299d_7d48];
            let mut k = [0u64; 4];
            for i in 0..4 { let mut a = [0u8; 8]; a.copy_from_slice(&coin[8 * i..8 * i + 8]); k[i] = u64::from_le_bytes(a); }
            k[3] &= (1u64 << 56) - 1; // k < 2^248, so s + k·q < 2^504
            if k == [0u64; 4] { k[0] = 1; }
            if coin[32] & 6 == 0 { k = [1, 0, 0, 0]; } // often exactly s + q
            let mut acc = [0u64; 9];
            for i in 0..4 {
                let mut carry = 0u128;
                for j in 0..4 {
                    let t = acc[i + j] as u128 + (k[i] as u128) * (Q[j] as u128) + carry;
                    acc[i + j] = t as u64;
                    carry = t >> 64;
                }
                let mut idx = i + 4;
                while carry != 0 { let t = acc[idx] as u128 + carry; acc[idx] = t as u64; carry = t >> 64; idx += 1; }
            }
            let sb = s.to_bytes();
            let mut carry = 0u128;
            for i in 0..8 {
                let add = if i < 4 { let mut a = [0u8; 8]; a.copy_from_slice(&sb[8 * i..8 * i + 8]); u64::from_le_bytes(a) } else { 0 };
                let t = acc[i] as u128 + add as u128 + carry;
                acc[i] = t as u64;
                carry = t >> 64;
            }
            for i in 0..8 { dest[8 * i..8 * i + 8].copy_from_slice(&acc[i].to_le_bytes()); }
            let mut w = [0u8; 64];
            w.copy_from_slice(&dest[..64]);
            debug_assert_eq!(Scalar::from_bytes_wide(&w), s);
        }
        self.log.push(Draw::S(s));
    }

    fn g2_candidate(&mut self) -> (Scalar, [u8; 48], [u8; 48]) {
        loop {
            let k = self.fresh_scalar();
            let p: G2Affine = (G2Projective::generator() * k).to_affine();
            let comp = p.to_compressed(); // c1 ‖ c0, flags in byte 0
            let mut c1 = [0u8; 48];
            let mut c0 = [0u8; 48];
            c1.copy_from_slice(&comp[..48]);
            c0.copy_from_slice(&comp[48..]);
            c1[0] &= 0x1f;
            // c0 must not be the x-coordinate of a point on the G1 curve
            let mut probe = c0;
            probe[0] |= 0x80;
            let on_g1: Option<G1Affine> = G1Affine::from_compressed_unchecked(&probe).into();
            if on_g1.is_none() && c0[0] & 0xe0 == 0 {
                return (k, c0, c1);
            }
        }
    }

    fn serve96(&mut self, dest: &mut [u8]) {
        for b in dest.iter_mut() {
            *b = 0;
        }
        match self.st {
            St::Idle => {
                let (k, c0, c1) = self.g2_candidate();
                dest[..48].copy_from_slice(&c0);
                self.pending_g2 = Some((k, c1));
                self.st = St::AfterFirst96;
            }
            St::AfterFirst96 => {
                let (_, c1) = self.pending_g2.unwrap();
                dest[..48].copy_from_slice(&c1);
                self.st = St::G2Sign;
            }
            St::G1Retry => {
                let k = self.fresh_scalar();
                let p: G1Affine = (G1Projective::generator() * k).to_affine();
                let mut x = p.to_compressed();
                x[0] &= 0x1f;
                dest[..48].copy_from_slice(&x);
                self.pending_g1 = Some(k);
                self.st = St::G1Sign;
            }
            _ => self.flag_desync("96-byte read"),
        }
    }

    fn serve_sign(&mut self) -> u32 {
        match self.st {
            St::AfterFirst96 => {
                self.st = St::G1Retry;
            }
            St::G1Sign => {
                let k = self.pending_g1.take().unwrap();
                self.book.put_g1_pm(k);
                self.log.push(Draw::G1(k));
                self.st = St::Idle;
            }
            St::G2Sign => {
                let (k, _) = self.pending_g2.take().unwrap();
                self.book.put_g2_pm(k);
                self.log.push(Draw::G2(k));
                self.st = St::Idle;
            }
            _ => {
                // a plain next_u32 outside a group draw
                let v = self.prng.next_u32();
                self.log.push(Draw::Raw(v.to_le_bytes().to_vec()));
                return v;
            }
        }
        0
    }
}

impl RngCore for ScriptedRng {
    fn next_u32(&mut self) -> u32 {
        self.serve_sign()
    }
    fn next_u64(&mut self) -> u64 {
        if self.st != St::Idle {
            self.flag_desync("next_u64");
        }
        let v = self.prng.next_u64();
        self.log.push(Draw::Raw(v.to_le_bytes().to_vec()));
        v
    }
    fn fill_bytes(&mut self, dest: &mut [u8]) {
        match dest.len() {
            64 => {
                if self.st != St::Idle {
                    self.flag_desync("64-byte read");
                }
                self.serve_scalar(dest)
            }
            96 => self.serve96(dest),
            _ => {
                if self.st != St::Idle {
                    self.flag_desync("raw read");
                }
                self.prng.fill_bytes(dest);
                self.log.push(Draw::Raw(dest.to_vec()));
            }
        }
    }
    fn try_fill_bytes(&mut self, dest: &mut [u8]) -> Result<(), rand::Error> {
        if self.fail_try {
            return Err(rand::Error::new("entropy source reports an error"));
        }
        self.fill_bytes(dest);
        Ok(())
    }
}
impl rand::CryptoRng for ScriptedRng {}

#[allow(dead_code)]
pub fn b1() -> G1Projective {
    dl::b1()
}
