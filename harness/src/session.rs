//! zkAbacus sessions: honest establish / pay flows with every message compared with the model, and
//! pay-proof atoms for attacker-assembled proofs.
use crate::abacus::*;
use crate::dl::{hex_list, hex_s, Book};
use crate::kit::*;
use crate::model::Tok;
use crate::props::c09::HG;
use crate::rangelab::*;
use crate::report::{Ctx, Real};
use crate::rng::ScriptedRng;
use crate::schnorr::*;
use crate::wire;
use bls12_381::{G1Affine, G1Projective, G2Affine, G2Projective, Scalar};
use rand::Rng;
use serde_json::json;
use zkabacus_crypto::customer::{self, Inactive, Ready, Started};
use zkabacus_crypto::merchant::Unrevoked;
use zkabacus_crypto::{ClosingSignature, Nonce, PayProof, PaymentAmount, CLOSE_SCALAR};
use zkchannels_crypto::proofs::verif_hooks;

pub fn s_at(b: &[u8], o: usize) -> Option<Scalar> {
    let mut a = [0u8; 32];
    a.copy_from_slice(&b[o..o + 32]);
    Scalar::from_bytes(&a).into()
}

pub fn scalar_of_i64(a: i64) -> Scalar {
    if a < 0 { -Scalar::from((a as i128).unsigned_abs() as u64) } else { Scalar::from(a as u64) }
}

/// atoms of a pay proof
#[derive(Clone, Debug)]
pub struct PayD {
    pub kn: Scalar,
    pub kc: Scalar,
    pub tok: SpD,
    pub rl: CpD,
    pub st: CpD,
    pub cl: CpD,
    pub cbr: Vec<SpD>,
    pub mbr: Vec<SpD>,
}

fn flat_cp(p: &CpD) -> Vec<Scalar> {
    let mut v = vec![p.c, p.t, p.zbf];
    v.extend(p.zs.iter().cloned());
    v
}
fn flat_sp(p: &SpD) -> Vec<Scalar> {
    let mut v = vec![p.s1, p.s2];
    v.extend(flat_cp(&p.cp));
    v
}

impl PayD {
    pub fn flat(&self) -> Vec<Scalar> {
        let mut v = vec![self.kn, self.kc];
        v.extend(flat_sp(&self.tok));
        v.extend(flat_cp(&self.rl));
        v.extend(flat_cp(&self.st));
        v.extend(flat_cp(&self.cl));
        for p in self.cbr.iter().chain(self.mbr.iter()) {
            v.extend(flat_sp(p));
        }
        v
    }
    pub fn from_flat(l: &[Scalar]) -> Option<PayD> {
        if l.len() != 140 {
            return None;
        }
        let cp5 = |o: usize| CpD { c: l[o], t: l[o + 1], zbf: l[o + 2], zs: l[o + 3..o + 8].to_vec() };
        let sp1 = |o: usize| SpD { s1: l[o], s2: l[o + 1], cp: CpD { c: l[o + 2], t: l[o + 3], zbf: l[o + 4], zs: vec![l[o + 5]] } };
        Some(PayD {
            kn: l[0],
            kc: l[1],
            tok: SpD { s1: l[2], s2: l[3], cp: cp5(4) },
            rl: CpD { c: l[12], t: l[13], zbf: l[14], zs: vec![l[15]] },
            st: cp5(16),
            cl: cp5(24),
            cbr: (0..9).map(|j| sp1(32 + 6 * j)).collect(),
            mbr: (0..9).map(|j| sp1(86 + 6 * j)).collect(),
        })
    }
    pub fn bytes(&self, book: &Book) -> Vec<u8> {
        let mut v = wire::cat(vec![wire::enc_s(&self.kn), wire::enc_s(&self.kc), self.tok.bytes(book), self.rl.bytes::<G1Projective>(book),
            self.st.bytes::<G1Projective>(book), self.cl.bytes::<G1Projective>(book)]);
        v.extend(constraint_bytes(book, &self.cbr));
        v.extend(constraint_bytes(book, &self.mbr));
        v
    }
    pub fn real(&self, book: &Book) -> Result<PayProof, String> {
        wire::de(&self.bytes(book))
    }
}

pub fn pay_params_args(w: &World) -> String {
    format!("{} {} {} {}", pk_args(&w.kpd.pk), w.rpd.args(), hex_s(&w.rev_h), hex_s(&w.rev_g))
}

/// Real values (in the order of `PayD::flat`) parsed from real pay-proof bytes.
pub fn pay_reals(pb: &[u8]) -> Option<Vec<Real>> {
    if pb.len() != 7792 {
        return None;
    }
    let mut v = vec![Real::L(140), Real::S(s_at(pb, 0)?), Real::S(s_at(pb, 32)?)];
    let g1 = |o: usize| G1Projective::real_bytes(&pb[o..o + 48]);
    let g2 = |o: usize| G2Projective::real_bytes(&pb[o..o + 96]);
    // tok: SignatureProof<5> at 64
    let mut o = 64;
    v.push(g1(o)?); v.push(g1(o + 48)?); v.push(g2(o + 96)?); v.push(g2(o + 192)?);
    v.push(Real::S(s_at(pb, o + 288)?));
    for i in 0..5 { v.push(Real::S(s_at(pb, o + 328 + 32 * i)?)); }
    o += 488;
    // rl: CommitmentProof<G1, 1>
    v.push(g1(o)?); v.push(g1(o + 48)?); v.push(Real::S(s_at(pb, o + 96)?)); v.push(Real::S(s_at(pb, o + 136)?));
    o += 168;
    for _ in 0..2 {
        v.push(g1(o)?); v.push(g1(o + 48)?); v.push(Real::S(s_at(pb, o + 96)?));
        for i in 0..5 { v.push(Real::S(s_at(pb, o + 136 + 32 * i)?)); }
        o += 296;
    }
    for _ in 0..18 {
        v.push(g1(o)?); v.push(g1(o + 48)?); v.push(g2(o + 96)?); v.push(g2(o + 192)?);
        v.push(Real::S(s_at(pb, o + 288)?)); v.push(Real::S(s_at(pb, o + 328)?));
        o += 360;
    }
    Some(v)
}

pub struct Sess<'a> {
    pub w: &'a World,
    pub a: Agreed,
    pub cb: u64,
    pub mb: u64,
    pub ready: Option<Ready>,
}

fn sig_reals(b: &[u8]) -> Option<Vec<Real>> {
    Some(vec![G1Projective::real_bytes(&b[..48])?, G1Projective::real_bytes(&b[48..96])?])
}

/// blind signature by the merchant on commitment `com` compared with the model; returns its dlogs
pub fn check_blind_sig(ctx: &mut Ctx, w: &World, bytes: &[u8], u: &Scalar, com: &Scalar, what: &str) -> Option<(Scalar, Scalar)> {
    let op = format!("ps-blindsign {} {} {} {}", hex_s(&w.kpd.pk.g1), hex_s(&w.kpd.x1), hex_s(u), hex_s(com));
    let (ok, toks) = ctx.expect_toks(&op, &sig_reals(bytes)?);
    if !ok {
        ctx.violation(&format!("{} is not the blind signature on the commitment of the accepted proof", what), json!({"class": format!("{}-not-on-proven-commitment", what)}));
        return None;
    }
    match (&toks[0], &toks[1]) { (Tok::S(a), Tok::S(b)) => Some((*a, *b)), _ => None }
}

/// the customer's unblinded signature (as stored in its serialized state) compared with the model
pub fn check_unblind(ctx: &mut Ctx, blinded: &(Scalar, Scalar), bf: &Scalar, stored: &[u8]) -> Option<(Scalar, Scalar)> {
    let op = format!("ps-unblind {} {} {}", hex_s(&blinded.0), hex_s(&blinded.1), hex_s(bf));
    let (ok, toks) = ctx.expect_toks(&op, &sig_reals(stored)?);
    if !ok {
        return None;
    }
    match (&toks[0], &toks[1]) { (Tok::S(a), Tok::S(b)) => Some((*a, *b)), _ => None }
}

/// honest establish + activate; every message is compared with the model
pub fn open_session<'a>(ctx: &mut Ctx, w: &'a World, a: &Agreed) -> Option<Sess<'a>> {
    let book = ctx.book.clone();
    let run = establish_customer(ctx, w, a)?;
    let out = initialize_check(ctx, w, a, &run.d, Some(true), "honest")?;
    let (closing, vbs) = out.accepted?;
    let u = out.u?;
    let blinded = check_blind_sig(ctx, w, &wire::ser(&closing), &u, &run.d.cl.c, "closing-signature")?;
    let inactive: Inactive = match run.requested.complete(closing, &w.customer) {
        Ok(i) => i,
        Err(_) => { ctx.violation("honest customer refused the merchant's closing signature", json!({"class": "honest-complete-refused"})); return None; }
    };
    let ib = wire::ser(&inactive); // state 145 | bf 32 | close sig 96
    let _ = check_unblind(ctx, &blinded, &run.bf_c, &ib[177..273])?;
    let mut rng = ScriptedRng::new(ctx.prng.gen(), book.clone());
    let token = w.merchant.activate(&mut rng, vbs);
    let u2 = *rng.scalars_in_log().first()?;
    let tb = check_blind_sig(ctx, w, &wire::ser(&token), &u2, &run.d.st.c, "pay-token")?;
    let ready: Ready = match inactive.activate(token, &w.customer) {
        Ok(r) => r,
        Err(_) => { ctx.violation("honest customer refused the merchant's pay token", json!({"class": "honest-activate-refused"})); return None; }
    };
    let rb = wire::ser(&ready); // state 145 | token 96 | close sig 96
    let _ = check_unblind(ctx, &tb, &run.bf_s, &rb[145..241])?;
    Some(Sess { w, a: a.clone(), cb: a.cb, mb: a.mb, ready: Some(ready) })
}

pub struct PayRun {
    pub started: Started,
    pub nonce: Nonce,
    pub nonce_s: Scalar,
    pub proof: PayProof,
    pub d: PayD,
    pub old_ms: Vec<Scalar>,
    pub new_ms: Vec<Scalar>,
    pub c: Scalar,
    pub bf_rl: Scalar,
    pub bf_tok: Scalar,
    pub bf_close: Scalar,
    pub amount: i64,
}

pub enum StartOutcome {
    Started(Box<PayRun>),
    Refused(Ready, zkabacus_crypto::Error),
    Broken,
}

pub fn amount_of(a: i64) -> PaymentAmount {
    wire::de::<PaymentAmount>(&a.to_le_bytes()).expect("payment amount decodes")
}

/// `Ready::start` under the scripted RNG; the pay proof is compared atom by atom with the model's
/// prover on the recovered witness, and the hashed transcript with the model's.
pub fn pay_start(ctx: &mut Ctx, w: &World, a: &Agreed, ready: Ready, amount: i64) -> StartOutcome {
    let book = ctx.book.clone();
    let rb = wire::ser(&ready);
    let (tok1, tok2) = match (book.dlog_g1_bytes(&rb[145..193]), book.dlog_g1_bytes(&rb[193..241])) {
        (Some(x), Some(y)) => (x, y),
        _ => { ctx.broken("pay token in the customer state has unknown discrete logs"); return StartOutcome::Broken; }
    };
    let mut rng = ScriptedRng::new(ctx.prng.gen(), book.clone());
    if !ctx.forced_next.is_empty() { let f = std::mem::take(&mut ctx.forced_next); rng.force_scalars(&f); }
    let _ = verif_hooks::drain_challenges();
    let context = a.context();
    let started_r = std::panic::catch_unwind(std::panic::AssertUnwindSafe(|| ready.start(&mut rng, amount_of(amount), &context, &w.customer)));
    let (started, msg) = match started_r {
        Ok(Ok(x)) => x,
        Ok(Err((r, e))) => return StartOutcome::Refused(r, e),
        Err(_) => {
            ctx.violation("the customer's Ready::start panics", json!({"class": "customer-start-panics", "amount": amount, "state": hex::encode(&rb), "scalar_draws": rng.scalars_in_log().iter().map(crate::dl::hex_s).collect::<Vec<_>>()}));
            return StartOutcome::Broken;
        }
    };
    let rec = verif_hooks::drain_challenges();
    if rec.len() != 1 {
        ctx.broken(&format!("Ready::start derived {} challenges, expected 1", rec.len()));
        return StartOutcome::Broken;
    }
    let (tbytes, c) = (rec[0].0.clone(), rec[0].1);
    let drawn = rng.scalars_in_log();
    let sb = wire::ser(&started); // new 145 | old 145 | bf_rl 32 | bf_tok 32 | bf_close 32 | old close sig 96
    let pb = wire::ser(&msg.pay_proof);
    type Parts = (String, Vec<Real>, Vec<Scalar>, Vec<Scalar>, Scalar, Scalar, Scalar);
    let inner = || -> Option<Parts> {
        if sb.len() != 482 { return None; }
        let new_ms = state_message(&sb[..145])?;
        let old_ms = state_message(&sb[145..290])?;
        let (bf_rl, bf_tok, bf_close) = (s_at(&sb, 290)?, s_at(&sb, 322)?, s_at(&sb, 354)?);
        let reals = pay_reals(&pb)?;
        let sc = |i: usize| -> Scalar { if let Real::S(s) = &reals[i + 1] { *s } else { Scalar::zero() } };
        // flat indices: tok zbf 6, zs 7..12; rl zbf 14, z 15; st zbf 18, zs 19..24; cl zbf 26, zs 27..32
        let g2p = |i: usize| -> Option<G2Affine> { if let Real::G2(p) = &reals[i + 1] { Some(*p) } else { None } };
        let g1p = |i: usize| -> Option<G1Affine> { if let Real::G1(p) = &reals[i + 1] { Some(*p) } else { None } };
        let mut base = Scalar::zero();
        for (y, m) in w.kpd.pk.y2s.iter().zip(old_ms.iter()) { base += y * m; }
        let tok_c = g2p(4)?;
        let tok_s1 = g1p(2)?;
        let bf_t = drawn.iter().cloned().find(|s| G2Projective::from(tok_c) == book.g2(s * w.kpd.pk.g2 + base))?;
        let r_t = drawn.iter().cloned().find(|s| G1Projective::from(tok_s1) == book.g1(s * tok1))?;
        let cbv = sb_u64(&sb, 137);
        let mbv = sb_u64(&sb, 129);
        let mut draws: Vec<Scalar> = vec![];
        for (k, v) in [(0usize, cbv), (1usize, mbv)] {
            let digits = digits_of(v);
            for j in 0..9 {
                let o = 32 + 54 * k + 6 * j;
                let d = Scalar::from(digits[j]);
                let sig1 = w.rpd.sigs[digits[j] as usize].0;
                let (pc, ps1) = (g2p(o + 2)?, g1p(o)?);
                let bf = drawn.iter().cloned().find(|s| G2Projective::from(pc) == book.g2(s * w.rpd.pk.g2 + w.rpd.pk.y2s[0] * d))?;
                let r = drawn.iter().cloned().find(|s| G1Projective::from(ps1) == book.g1(s * sig1))?;
                draws.extend(vec![bf, sc(o + 4) - c * bf, sc(o + 5) - c * d, r]);
            }
        }
        // rl: bfR tbfR tR ; tok: bfT tbfT t0T t1T rT ; st: bfS tbfS t1S t2S ; cl: bfC tbfC t1C
        draws.extend(vec![bf_rl, sc(14) - c * bf_rl, sc(15) - c * old_ms[2]]);
        draws.extend(vec![bf_t, sc(6) - c * bf_t, sc(7) - c * old_ms[0], sc(8) - c * old_ms[1], r_t]);
        draws.extend(vec![bf_tok, sc(18) - c * bf_tok, sc(20) - c * new_ms[1], sc(21) - c * new_ms[2]]);
        draws.extend(vec![bf_close, sc(26) - c * bf_close, sc(28) - c * CLOSE_SCALAR]);
        let op = format!("pay-prove {} {} {} {} {} {} {:x} {:x} {} {}", pay_params_args(w), hex_s(&CLOSE_SCALAR), hex_list(&old_ms), hex_list(&new_ms),
            hex_s(&tok1), hex_s(&tok2), cbv, mbv, hex_list(&draws), hex_s(&c));
        let mut exp = vec![Real::V("ok".into())];
        exp.extend(reals.iter().cloned());
        Some((op, exp, old_ms, new_ms, bf_rl, bf_tok, bf_close))
    };
    let (op, exp, old_ms, new_ms, bf_rl, bf_tok, bf_close) = match inner() {
        Some(r) => r,
        None => { ctx.broken("cannot recover the pay prover's witness (blinding factors / re-randomisers not among the drawn scalars, or unexpected sizes)"); return StartOutcome::Broken; }
    };
    let (ok, toks) = ctx.expect_toks(&op, &exp);
    if !ok {
        return StartOutcome::Broken;
    }
    let flat: Vec<Scalar> = toks[2..].iter().map(|t| if let Tok::S(s) = t { *s } else { Scalar::zero() }).collect();
    let d = match PayD::from_flat(&flat) { Some(d) => d, None => return StartOutcome::Broken };
    let run = PayRun { started, nonce: msg.nonce, nonce_s: old_ms[1], proof: msg.pay_proof, d, old_ms, new_ms, c, bf_rl, bf_tok, bf_close, amount };
    if sha3_challenge(&tbytes) != c {
        ctx.violation("recorded challenge is not from_raw(SHA3-256(recorded bytes))", json!({"class": "challenge-not-sha3"}));
    }
    let _ = check_pay_transcript(ctx, w, &run.nonce_s, amount, &a.ctx_bytes, &run.d, &tbytes, "customer");
    StartOutcome::Started(Box::new(run))
}

fn sb_u64(b: &[u8], o: usize) -> u64 {
    let mut a = [0u8; 8];
    a.copy_from_slice(&b[o..o + 8]);
    u64::from_le_bytes(a)
}

pub fn check_pay_transcript(ctx: &mut Ctx, w: &World, nonce_s: &Scalar, amount: i64, ctx_bytes: &[u8], d: &PayD, recorded: &[u8], who: &str) -> bool {
    let book = ctx.book.clone();
    let digest = sha3_256(ctx_bytes); // independent SHA3
    let _ = crate::abacus::model_hash_matches(ctx, ctx_bytes, &digest); // … and by the model's executed SHA3 (the real digest is located in the recorded bytes below)
    let mk = |legacy: u8| format!("pay-transcript {} {} {} {} {} {} {}", pay_params_args(w), hex_s(&CLOSE_SCALAR), hex_s(nonce_s), hex_s(&scalar_of_i64(amount)), hex_list(&d.flat()), hex::encode(digest), legacy);
    let toks = ctx.ask(&mk(0));
    ctx.evals += 1;
    match match_transcript(ctx, &toks, recorded) {
        TMatch::Exact => { ctx.count(&format!("pay-transcript:{}:match", who)); true }
        TMatch::Layout(_) => { ctx.count(&format!("pay-transcript:{}:match-under-another-layout", who)); true }
        TMatch::Omits(missing) => {
            ctx.count(&format!("pay-transcript:{}:OMITS-ITEMS", who));
            ctx.disagreements.push(json!({"kind": "model-vs-implementation", "case": ctx.case_id,
                "what": format!("the pay transcript hashed by the {} omits item(s) {:?} of the model's transcript (not bound by the challenge)", who, missing), "recorded_len": recorded.len()}));
            false
        }
        TMatch::No => {
            ctx.count(&format!("pay-transcript:{}:MISMATCH", who));
            let toks = ctx.ask(&mk(1));
            let legacy = transcript_bytes(&book, &toks).map(|b| b == recorded).unwrap_or(false);
            ctx.disagreements.push(json!({"kind": "model-vs-implementation", "case": ctx.case_id,
                "what": format!("pay transcript hashed by the {} differs from the model's{}", who, if legacy { " (it is the pinned layout without the revealed commitment scalars)" } else { "" }),
                "recorded_len": recorded.len()}));
            false
        }
    }
}

pub struct AllowOutcome<'a> {
    pub accepted: Option<(Unrevoked<'a>, ClosingSignature)>,
    pub challenge: Scalar,
    pub u: Option<Scalar>,
}

/// `merchant::Config::allow_payment` on pay-proof atoms: real verdict vs the model's `payVerifyWith`
/// under the recorded challenge (+ transcript comparison).
pub fn allow_check<'a>(ctx: &mut Ctx, w: &'a World, nonce_s: &Scalar, amount: i64, ctx_bytes: &[u8], d: &PayD, expect: Option<bool>, what: &str) -> Option<AllowOutcome<'a>> {
    let book = ctx.book.clone();
    let proof = match d.real(&book) {
        Ok(p) => p,
        // (a proof built under a degenerate draw — zero re-randomiser — contains the identity signature, which has no
        // wire encoding: there is nothing to present to the merchant)
        Err(e) => { if expect.is_none() { ctx.count("allow:proof-has-no-wire-encoding"); } else { ctx.broken(&format!("pay proof does not decode: {}", e)); } return None; }
    };
    let nonce: Nonce = match wire::de(&wire::enc_s(nonce_s)) {
        Ok(n) => n,
        Err(_) => { ctx.count("allow:nonce-not-decodable"); return None; }
    };
    let mut rng = ScriptedRng::new(ctx.prng.gen(), book.clone());
    let _ = verif_hooks::drain_challenges();
    let context = zkabacus_crypto::Context::new(ctx_bytes);
    let out = w.merchant.allow_payment(&mut rng, amount_of(amount), &nonce, proof, &context);
    let rec = verif_hooks::drain_challenges();
    if rec.is_empty() && out.is_none() {
        ctx.count(&format!("allow:{}:refused-without-deriving-a-challenge", what));
        if expect == Some(true) {
            ctx.violation(
                &format!("allow_payment returned None on {} (without even deriving a challenge), expected Some", what),
                json!({"class": what, "nonce": hex_s(nonce_s), "amount": amount, "context": crate::abacus::ctx_hex(ctx_bytes), "proof_bytes": hex::encode(d.bytes(&book))}),
            );
        }
        return None;
    }
    if rec.len() != 1 {
        ctx.broken(&format!("allow_payment derived {} challenges, expected 1", rec.len()));
        return None;
    }
    let (tbytes, c) = (rec[0].0.clone(), rec[0].1);
    if sha3_challenge(&tbytes) != c {
        ctx.violation("recorded challenge is not from_raw(SHA3-256(recorded bytes))", json!({"class": "challenge-not-sha3"}));
    }
    let _ = check_pay_transcript(ctx, w, nonce_s, amount, ctx_bytes, d, &tbytes, "merchant");
    let op = format!("pay-verify {} {} {} {} {} {}", pay_params_args(w), hex_s(&CLOSE_SCALAR), hex_s(nonce_s), hex_s(&scalar_of_i64(amount)), hex_list(&d.flat()), hex_s(&c));
    let reals = match &out {
        Some(_) => vec![Real::V("some".into()), Real::G1(book.g1a(d.st.c)), Real::G1(book.g1a(d.cl.c)), Real::G1(book.g1a(d.rl.c))],
        None => vec![Real::V("none".into())],
    };
    let (agree, mtoks) = ctx.expect_toks(&op, &reals);
    if !agree && out.is_some() && matches!(mtoks.first(), Some(Tok::V(v)) if v == "none") {
        ctx.violation(&format!("allow_payment accepts a pay proof ({}) that the model's acceptance predicate rejects", what),
            json!({"class": format!("accepted-although-the-model-rejects:{}", what), "nonce": hex_s(nonce_s), "amount": amount, "context": crate::abacus::ctx_hex(ctx_bytes), "proof_bytes": hex::encode(d.bytes(&book))}));
    }
    ctx.count(&format!("allow:{}:{}", what, out.is_some()));
    if let Some(e) = expect {
        if out.is_some() != e {
            ctx.violation(
                &format!("allow_payment returned {} on {}, expected {}", if out.is_some() { "Some" } else { "None" }, what, if e { "Some" } else { "None" }),
                json!({"class": what, "nonce": hex_s(nonce_s), "amount": amount, "context": crate::abacus::ctx_hex(ctx_bytes), "proof_bytes": hex::encode(d.bytes(&book))}),
            );
        }
    }
    let u = rng.scalars_in_log().first().cloned();
    Some(AllowOutcome { accepted: out, challenge: c, u })
}

/// One honest payment, all messages compared with the model: start → allow_payment → lock →
/// complete_payment → unlock.  Returns false when something refused.
pub fn honest_payment(ctx: &mut Ctx, s: &mut Sess, amount: i64) -> bool {
    let book = ctx.book.clone();
    let w = s.w;
    let ready = match s.ready.take() { Some(r) => r, None => return false };
    let run = match pay_start(ctx, w, &s.a, ready, amount) {
        StartOutcome::Started(r) => *r,
        StartOutcome::Refused(r, _) => { s.ready = Some(r); return false; }
        StartOutcome::Broken => return false,
    };
    let out = match allow_check(ctx, w, &run.nonce_s, amount, &s.a.ctx_bytes, &run.d, Some(true), "honest") { Some(o) => o, None => return false };
    let (unrevoked, closing) = match out.accepted { Some(x) => x, None => return false };
    let u = match out.u { Some(u) => u, None => return false };
    let blinded = match check_blind_sig(ctx, w, &wire::ser(&closing), &u, &run.d.cl.c, "closing-signature") { Some(b) => b, None => return false };
    let (locked, lockmsg) = match run.started.lock(closing, &w.customer) {
        Ok(x) => x,
        Err(_) => { ctx.violation("honest customer refused the merchant's closing signature for the new state", json!({"class": "honest-lock-refused"})); return false; }
    };
    let lb = wire::ser(&locked); // state 145 | bf 32 | close sig 96
    if check_unblind(ctx, &blinded, &run.bf_close, &lb[177..273]).is_none() { return false; }
    // the lock message reveals the old pair and the blinding factor of the revocation-lock commitment
    let mut rng = ScriptedRng::new(ctx.prng.gen(), book.clone());
    let token = match unrevoked.complete_payment(&mut rng, &lockmsg.revocation_pair, &lockmsg.revocation_lock_blinding_factor) {
        Ok(t) => t,
        Err(_) => { ctx.violation("merchant refused the honest revocation of the old state", json!({"class": "honest-revocation-refused"})); return false; }
    };
    let u2 = match rng.scalars_in_log().first() { Some(u) => *u, None => return false };
    let tb = match check_blind_sig(ctx, w, &wire::ser(&token), &u2, &run.d.st.c, "pay-token") { Some(b) => b, None => return false };
    let ready = match locked.unlock(token, &w.customer) {
        Ok(r) => r,
        Err(_) => { ctx.violation("honest customer refused the merchant's new pay token", json!({"class": "honest-unlock-refused"})); return false; }
    };
    let rb = wire::ser(&ready);
    if check_unblind(ctx, &tb, &run.bf_tok, &rb[145..241]).is_none() { return false; }
    s.cb = (s.cb as i128 - amount as i128) as u64;
    s.mb = (s.mb as i128 + amount as i128) as u64;
    s.ready = Some(ready);
    let _ = customer::Config::from_parts;
    true
}
