//! Shared building blocks for the property cases: keys with known discrete logs, stream formatting.
use crate::dl::{hex_list, hex_s, Book};
use crate::gen::*;
use crate::report::{Ctx, Real};
use crate::rng::{Draw, ScriptedRng};
use crate::wire::{self, KpD, PkD};
use bls12_381::{G1Affine, G2Affine, Scalar};
use rand::Rng;
use zkchannels_crypto::pointcheval_sanders::{KeyPair, PublicKey};

pub fn find(hay: &[u8], needle: &[u8]) -> bool {
    hay.windows(needle.len()).any(|w| w == needle)
}

/// Resolve the sign of the scripted group draws by looking for the drawn element in `hay`
/// (serialized output of the real code), and format the stream for the model.
pub fn stream_arg(book: &Book, log: &[Draw], hay: &[u8]) -> String {
    if log.is_empty() {
        return "-".to_string();
    }
    log.iter()
        .map(|d| match d {
            Draw::S(s) => format!("s{}", hex_s(s)),
            Draw::G1(k) => {
                let neg = -*k;
                let kk = if find(hay, &book.g1a(neg).to_compressed()) && !find(hay, &book.g1a(*k).to_compressed()) { neg } else { *k };
                format!("a{}", hex_s(&kk))
            }
            Draw::G2(k) => {
                let neg = -*k;
                let kk = if find(hay, &book.g2a(neg).to_compressed()) && !find(hay, &book.g2a(*k).to_compressed()) { neg } else { *k };
                format!("b{}", hex_s(&kk))
            }
            Draw::Raw(b) => format!("r{}", hex::encode(b)),
        })
        .collect::<Vec<_>>()
        .join(",")
}

pub fn pk_args(pk: &PkD) -> String {
    format!("{} {} {} {} {}", hex_s(&pk.g1), hex_list(&pk.y1s), hex_s(&pk.g2), hex_s(&pk.x2), hex_list(&pk.y2s))
}

pub fn real_list_s(xs: &[Scalar]) -> Vec<Real> {
    let mut v = vec![Real::L(xs.len())];
    v.extend(xs.iter().map(|s| Real::S(*s)));
    v
}

fn g1_at(b: &[u8], o: usize) -> Option<G1Affine> {
    let mut a = [0u8; 48];
    a.copy_from_slice(&b[o..o + 48]);
    G1Affine::from_compressed(&a).into()
}
fn g2_at(b: &[u8], o: usize) -> Option<G2Affine> {
    let mut a = [0u8; 96];
    a.copy_from_slice(&b[o..o + 96]);
    G2Affine::from_compressed(&a).into()
}
fn s_at(b: &[u8], o: usize) -> Option<Scalar> {
    let mut a = [0u8; 32];
    a.copy_from_slice(&b[o..o + 32]);
    Scalar::from_bytes(&a).into()
}

/// Real values of a key pair in the order the model's `keygen` answer lists them.
pub fn keypair_reals<const N: usize>(kp: &KeyPair<N>) -> Option<(Vec<Real>, Scalar, Vec<Scalar>)> {
    let b = wire::ser(kp);
    let mut o = 0;
    let x = s_at(&b, o)?;
    o += 32 + 8;
    let mut ys = vec![];
    for _ in 0..N {
        ys.push(s_at(&b, o)?);
        o += 32;
    }
    let x1 = g1_at(&b, o)?;
    o += 48;
    let g1 = g1_at(&b, o)?;
    o += 48 + 8;
    let mut y1s = vec![];
    for _ in 0..N {
        y1s.push(g1_at(&b, o)?);
        o += 48;
    }
    let g2 = g2_at(&b, o)?;
    o += 96;
    let x2 = g2_at(&b, o)?;
    o += 96 + 8;
    let mut y2s = vec![];
    for _ in 0..N {
        y2s.push(g2_at(&b, o)?);
        o += 96;
    }
    let mut v = vec![Real::V("ok".into()), Real::S(x)];
    v.extend(real_list_s(&ys));
    v.push(Real::G1(x1));
    v.push(Real::G1(g1));
    v.push(Real::L(N));
    v.extend(y1s.iter().map(|p| Real::G1(*p)));
    v.push(Real::G2(g2));
    v.push(Real::G2(x2));
    v.push(Real::L(N));
    v.extend(y2s.iter().map(|p| Real::G2(*p)));
    Some((v, x, ys))
}

/// `KeyPair::new` under the scripted generator, compared element by element with the model's
/// `KeyPair.gen` run on the logged stream.  `zeros`: how many zero scalars to force first.
pub fn gen_keypair<const N: usize>(ctx: &mut Ctx, forced: &[Scalar]) -> Option<(KeyPair<N>, KpD)> {
    let book = ctx.book.clone();
    let mut rng = ScriptedRng::new(ctx.prng.gen(), book.clone());
    rng.force_scalars(forced);
    let kp = KeyPair::<N>::new(&mut rng);
    if let Some(d) = rng.desync.clone() {
        ctx.broken(&format!("scripted RNG desync in KeyPair::new: {}", d));
        return None;
    }
    let bytes = wire::ser(&kp);
    let stream = stream_arg(&book, &rng.log, &bytes);
    let (mut reals, x, ys) = match keypair_reals(&kp) {
        Some(r) => r,
        None => {
            ctx.broken("KeyPair::new output does not parse");
            return None;
        }
    };
    reals.push(Real::N(0));
    let op = format!("keygen {:x} {}", N, stream);
    if !ctx.expect(&op, &reals) {
        return None;
    }
    let pkd = wire::pk_dlogs(&book, kp.public_key())?;
    let x1 = book.dlog_g1_bytes(&bytes[32 + 8 + 32 * N..32 + 8 + 32 * N + 48])?;
    Some((kp, KpD { x, ys, x1, pk: pkd }))
}

/// A keygen-shaped key pair with chosen dlogs, through `Deserialize`.
pub fn des_keypair<const N: usize>(ctx: &mut Ctx) -> (KeyPair<N>, KpD) {
    let d = KpD::honest(nonzero(&mut ctx.prng), nonzero_vec(&mut ctx.prng, N), nonzero(&mut ctx.prng), nonzero(&mut ctx.prng));
    let kp = wire::keypair::<N>(&ctx.book, &d).expect("honest key pair decodes");
    (kp, d)
}

/// An arbitrary (not keygen-shaped) public key with non-identity elements.
pub fn arbitrary_pk<const N: usize>(ctx: &mut Ctx) -> (PublicKey<N>, PkD) {
    let d = PkD {
        g1: nonzero(&mut ctx.prng),
        y1s: nonzero_vec(&mut ctx.prng, N),
        g2: nonzero(&mut ctx.prng),
        x2: nonzero(&mut ctx.prng),
        y2s: nonzero_vec(&mut ctx.prng, N),
    };
    let pk = wire::pubkey::<N>(&ctx.book, &d).expect("public key decodes");
    (pk, d)
}

#[macro_export]
macro_rules! dispatch_n {
    ($f:ident, $ctx:expr, $idx:expr, $n:expr) => {
        match $n {
            1 => $f::<1>($ctx, $idx),
            2 => $f::<2>($ctx, $idx),
            3 => $f::<3>($ctx, $idx),
            4 => $f::<4>($ctx, $idx),
            5 => $f::<5>($ctx, $idx),
            7 => $f::<7>($ctx, $idx),
            8 => $f::<8>($ctx, $idx),
            13 => $f::<13>($ctx, $idx),
            17 => $f::<17>($ctx, $idx),
            33 => $f::<33>($ctx, $idx),
            64 => $f::<64>($ctx, $idx),
            65 => $f::<65>($ctx, $idx),
            _ => unreachable!(),
        }
    };
}
/// tuple lengths compiled into the harness: the ones zkAbacus uses (1, 3, 5), neighbours, and lengths beyond 16, 32 and 64, and 64 itself (a capacity that counts the blinding-factor term too is exceeded exactly there)
/// (block sizes a batched multi-scalar multiplication or a fixed-size serde array impl might use)
pub const NS: [usize; 12] = [1, 2, 3, 4, 5, 7, 8, 13, 17, 33, 64, 65];
