#![allow(dead_code)]
//! Correspondence harness: runs the real libzkchannels-crypto code and the Lean model on the same
//! inputs / operation sequences and reports where they differ; also runs the per-property search
//! for concrete failing inputs on the real code.
mod abacus;
mod codec;
mod dl;
mod gen;
mod history;
mod kit;
mod model;
mod props;
mod rangelab;
mod report;
mod revsecrets;
mod rng;
mod schnorr;
mod session;
mod wire;

use report::Ctx;
use serde_json::{json, Value};
use std::collections::{BTreeMap, HashSet};

#[global_allocator]
static ALLOC: codec::Tracking = codec::Tracking;

fn main() {
    let args: Vec<String> = std::env::args().collect();
    if args.len() < 2 {
        eprintln!("usage: zkverif-harness <property> [--tier quick|thorough] [--seed N] [--out FILE] [--threads T]");
        std::process::exit(2);
    }
    if args[1] == "--decode-one" {
        std::panic::set_hook(Box::new(|_| {}));
        props::c15::decode_one(&args[2], &args[3]);
        return;
    }
    if args[1] == "--find-revsecrets" {
        // one-off search (results are committed in src/revsecrets.rs): secrets `tag + counter` whose SHA3-256(secret || i)
        // is not a canonical scalar for i < min_index.  usage: --find-revsecrets <min_index> <start> <count>
        let min_index: u8 = args[2].parse().unwrap();
        let start: u64 = args[3].parse().unwrap();
        let count: u64 = args[4].parse().unwrap();
        let threads = 16u64;
        std::thread::scope(|s| {
            for t in 0..threads {
                s.spawn(move || {
                    let mut k = start + t;
                    while k < start + count {
                        let secret = revsecrets::candidate(k);
                        if let Some(i) = revsecrets::first_valid_index(&secret, 255) {
                            if i >= min_index { println!("{} {}", k, i); }
                        }
                        k += threads;
                    }
                });
            }
        });
        return;
    }
    if args[1] == "--find-near-q" {
        // one-off search (results committed in src/revsecrets.rs): secrets `candidate(k)` whose SHA3-256(secret || 0), read
        // as a little-endian integer, is >= q (not canonical) and agrees with q in its top <bits> bits.
        // usage: --find-near-q <bits> <start> <count>
        let bits: u32 = args[2].parse().unwrap();
        let start: u64 = args[3].parse().unwrap();
        let count: u64 = args[4].parse().unwrap();
        let threads = 16u64;
        std::thread::scope(|s| {
            for t in 0..threads {
                s.spawn(move || {
                    let mut k = start + t;
                    while k < start + count {
                        if revsecrets::top_bits_shared_with_q(&revsecrets::candidate(k)) >= bits { println!("{} {}", k, revsecrets::top_bits_shared_with_q(&revsecrets::candidate(k))); }
                        k += threads;
                    }
                });
            }
        });
        return;
    }
    let prop = args[1].clone();
    let mut tier = "quick".to_string();
    let mut seed: u64 = 1;
    let mut out: Option<String> = None;
    let mut threads: usize = 16;
    let mut i = 2;
    while i < args.len() {
        match args[i].as_str() {
            "--tier" => { tier = args[i + 1].clone(); i += 2; }
            "--seed" => { seed = args[i + 1].parse().expect("seed"); i += 2; }
            "--out" => { out = Some(args[i + 1].clone()); i += 2; }
            "--threads" => { threads = args[i + 1].parse().expect("threads"); i += 2; }
            x => panic!("unknown argument {}", x),
        }
    }
    std::panic::set_hook(Box::new(|_| {}));
    let f = props::lookup(&prop).unwrap_or_else(|| panic!("unknown property {}", prop));
    let t0 = std::time::Instant::now();
    let results: Vec<Value> = std::thread::scope(|s| {
        let hs: Vec<_> = (0..threads)
            .map(|shard| {
                let prop = prop.clone();
                let tier = tier.clone();
                std::thread::Builder::new()
                    .stack_size(256 << 20)
                    .spawn_scoped(s, move || {
                        let mut ctx = Ctx::new(&prop, &tier, seed, shard, threads);
                        let r = std::panic::catch_unwind(std::panic::AssertUnwindSafe(|| f(&mut ctx)));
                        if let Err(e) = r {
                            let msg = e.downcast_ref::<String>().cloned()
                                .or_else(|| e.downcast_ref::<&str>().map(|s| s.to_string()))
                                .unwrap_or_else(|| "panic".to_string());
                            ctx.broken(&format!("harness panic: {}", msg));
                        }
                        ctx.finish()
                    })
                    .unwrap()
            })
            .collect();
        hs.into_iter().map(|h| h.join().unwrap()).collect()
    });
    // merge
    let mut evals = 0u64;
    let mut traces = 0u64;
    let mut calls = 0u64;
    let mut distinct: HashSet<u64> = HashSet::new();
    let mut samples = Vec::new();
    let mut dist: BTreeMap<String, u64> = BTreeMap::new();
    let mut disagreements = Vec::new();
    let mut violations = Vec::new();
    let mut notes = Vec::new();
    for r in results {
        evals += r["evaluations"].as_u64().unwrap();
        traces += r["traces"].as_u64().unwrap();
        calls += r["model_calls"].as_u64().unwrap();
        for d in r["distinct"].as_array().unwrap() { let _ = distinct.insert(d.as_u64().unwrap()); }
        for s in r["samples"].as_array().unwrap() { if samples.len() < 8 { samples.push(s.clone()); } }
        for (k, v) in r["dist"].as_object().unwrap() { *dist.entry(k.clone()).or_insert(0) += v.as_u64().unwrap(); }
        disagreements.extend(r["disagreements"].as_array().unwrap().iter().cloned());
        violations.extend(r["violations"].as_array().unwrap().iter().cloned());
        for n in r["notes"].as_array().unwrap() { if !notes.contains(n) { notes.push(n.clone()); } }
    }
    let res = json!({
        "property": prop, "tier": tier, "seed": seed,
        "evaluations": evals, "distinct_nontrivial": distinct.len(), "samples": samples, "dist": dist,
        "traces_validated_against_impl": traces, "model_calls": calls,
        "disagreements": disagreements, "violations": violations, "notes": notes,
        "debug_assertions": cfg!(debug_assertions),
        "wall_s": t0.elapsed().as_secs_f64(),
    });
    let text = serde_json::to_string_pretty(&res).unwrap();
    match out {
        Some(p) => std::fs::write(p, text).unwrap(),
        None => println!("{}", text),
    }
}
