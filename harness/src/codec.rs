//! Codec lab (C15, C16): every serializable type of both crates with its wire-type expression,
//! decoding under panic capture and allocation tracking, element classification for the model.
use crate::report::{Ctx, Real};
use bls12_381::{G1Affine, G1Projective, G2Affine, G2Projective, Scalar};
use serde::de::DeserializeOwned;
use serde::{Deserialize, Serialize};
use std::alloc::{GlobalAlloc, Layout, System};
use std::cell::Cell;
use std::panic::{catch_unwind, AssertUnwindSafe};

pub struct Tracking;
thread_local! {
    static MAXREQ: Cell<usize> = const { Cell::new(0) };
}
unsafe impl GlobalAlloc for Tracking {
    unsafe fn alloc(&self, layout: Layout) -> *mut u8 {
        let _ = MAXREQ.try_with(|c| if layout.size() > c.get() { c.set(layout.size()) });
        System.alloc(layout)
    }
    unsafe fn dealloc(&self, ptr: *mut u8, layout: Layout) {
        System.dealloc(ptr, layout)
    }
    unsafe fn realloc(&self, ptr: *mut u8, layout: Layout, new_size: usize) -> *mut u8 {
        let _ = MAXREQ.try_with(|c| if new_size > c.get() { c.set(new_size) });
        System.realloc(ptr, layout, new_size)
    }
}
pub fn reset_max() {
    let _ = MAXREQ.try_with(|c| c.set(0));
}
pub fn max_req() -> usize {
    MAXREQ.try_with(|c| c.get()).unwrap_or(0)
}

#[derive(Clone, Debug, PartialEq)]
pub enum Outc {
    Ok { consumed: usize, reencodes: bool },
    Err,
    Panic(String),
}

/// decode `bytes` as `T` under panic capture; on success report the consumed length and whether
/// the value re-encodes to exactly the consumed bytes
pub fn try_decode<T: Serialize + DeserializeOwned>(bytes: &[u8]) -> (Outc, usize) {
    reset_max();
    let r = catch_unwind(AssertUnwindSafe(|| {
        let mut rd: &[u8] = bytes;
        let v: Result<T, _> = bincode::deserialize_from(&mut rd);
        v.map(|x| (x, rd.len()))
    }));
    let m = max_req();
    match r {
        Err(e) => {
            let msg = e.downcast_ref::<String>().cloned().or_else(|| e.downcast_ref::<&str>().map(|s| s.to_string())).unwrap_or_default();
            (Outc::Panic(msg), m)
        }
        Ok(Err(_)) => (Outc::Err, m),
        Ok(Ok((v, rem))) => {
            let consumed = bytes.len() - rem;
            let re = bincode::serialize(&v).map(|b| b[..] == bytes[..consumed]).unwrap_or(false);
            (Outc::Ok { consumed, reencodes: re }, m)
        }
    }
}

/// wrappers exposing the public element codecs `Vec<G>` / `[G; N]` of serde.rs
#[derive(Serialize, Deserialize)]
pub struct VecG1(#[serde(with = "zkchannels_crypto::SerializeElement")] pub Vec<G1Affine>);
#[derive(Serialize, Deserialize)]
pub struct VecG2(#[serde(with = "zkchannels_crypto::SerializeElement")] pub Vec<G2Projective>);
#[derive(Serialize, Deserialize)]
pub struct VecS(#[serde(with = "zkchannels_crypto::SerializeElement")] pub Vec<Scalar>);
#[derive(Serialize, Deserialize)]
pub struct ArrS5(#[serde(with = "zkchannels_crypto::SerializeElement")] pub [Scalar; 5]);
#[derive(Serialize, Deserialize)]
pub struct ArrG1x3(#[serde(with = "zkchannels_crypto::SerializeElement")] pub Box<[G1Projective; 3]>);

pub type Decoder = fn(&[u8]) -> (Outc, usize);

pub struct TyEntry {
    pub name: &'static str,
    pub expr: String,
    pub dec: Decoder,
    /// round trip through a self-describing format (serde_json): bincode bytes -> value -> JSON -> value -> bincode bytes
    pub json: fn(&[u8]) -> Result<bool, String>,
}

/// The derives are format-independent promises: a value written with a format that records field names and does not
/// announce sequence lengths up front (serde_json) must read back to the same value.
pub fn try_json_roundtrip<T: Serialize + DeserializeOwned>(bytes: &[u8]) -> Result<bool, String> {
    let r = catch_unwind(AssertUnwindSafe(|| -> Result<bool, String> {
        let v: T = bincode::deserialize(bytes).map_err(|e| format!("honest bytes do not decode: {}", e))?;
        // bincode from a reader (nothing to borrow from) reads the same value as from the slice
        let v2: T = bincode::deserialize_from(crate::wire::Dribble::new(bytes)).map_err(|e| format!("bincode from a reader: {} (the slice decodes)", e))?;
        if bincode::serialize(&v2).map_err(|e| format!("re-encode: {}", e))? != bytes { return Err("bincode from a reader gives a different value than from the slice".into()); }
        let again = crate::wire::json_roundtrip_all(&v)?;
        Ok(again == bytes)
    }));
    match r { Ok(x) => x, Err(_) => Err("panic".into()) }
}

pub fn cp(g: &str, n: usize) -> String { format!("({g}_{g}_S_[{n}:S])", g = g, n = n) }
pub fn sig() -> String { "!s:(A_A)".to_string() }
pub fn pk(n: usize) -> String { format!("!n:(A_[{n}:A]_B_B_[{n}:B])", n = n) }
fn sk(n: usize) -> String { format!("!k:(S_[{n}:S]_A)", n = n) }
pub fn sp(n: usize) -> String { format!("({}_{})", sig(), cp("B", n)) }
pub fn rc() -> String { format!("<9:{}>", sp(1)) }
fn rp() -> String { format!("(<128:{}>_{})", sig(), pk(1)) }
fn bal() -> String { "!l:u".to_string() }
fn revpair() -> String { "!p:(S_(S_b))".to_string() }
fn state() -> String { format!("(r32_!o:S_{}_{}_{})", revpair(), bal(), bal()) }
fn close_state() -> String { format!("(r32_S_{}_{})", bal(), bal()) }

pub fn registry() -> Vec<TyEntry> {
    use zkabacus_crypto::customer as cu;
    use zkabacus_crypto::revlock as rl;
    use zkchannels_crypto::pedersen::{Commitment, PedersenParameters};
    use zkchannels_crypto::pointcheval_sanders::{BlindedMessage, BlindedSignature, KeyPair, PublicKey, Signature};
    use zkchannels_crypto::proofs::{CommitmentProof, RangeConstraint, RangeConstraintParameters, SignatureProof, SignatureRequestProof};
    let mut v: Vec<TyEntry> = vec![];
    macro_rules! reg { ($name:expr, $t:ty, $e:expr) => { v.push(TyEntry { name: $name, expr: $e, dec: try_decode::<$t> as Decoder, json: try_json_roundtrip::<$t> }); } }
    reg!("BlindingFactor", zkchannels_crypto::BlindingFactor, "S".into());
    reg!("Commitment<G1>", Commitment<G1Projective>, "A".into());
    reg!("Commitment<G2>", Commitment<G2Projective>, "B".into());
    reg!("PedersenParameters<G1,1>", PedersenParameters<G1Projective, 1>, "!n:(A_[1:A])".into());
    reg!("PedersenParameters<G1,5>", PedersenParameters<G1Projective, 5>, "!n:(A_[5:A])".into());
    reg!("PedersenParameters<G2,3>", PedersenParameters<G2Projective, 3>, "!n:(B_[3:B])".into());
    reg!("PublicKey<1>", PublicKey<1>, pk(1));
    reg!("PublicKey<5>", PublicKey<5>, pk(5));
    reg!("KeyPair<1>", KeyPair<1>, format!("({}_{})", sk(1), pk(1)));
    reg!("KeyPair<5>", KeyPair<5>, format!("({}_{})", sk(5), pk(5)));
    reg!("Signature", Signature, sig());
    reg!("BlindedSignature", BlindedSignature, sig());
    reg!("BlindedMessage", BlindedMessage, "A".into());
    reg!("CommitmentProof<G1,1>", CommitmentProof<G1Projective, 1>, cp("A", 1));
    reg!("CommitmentProof<G1,5>", CommitmentProof<G1Projective, 5>, cp("A", 5));
    reg!("CommitmentProof<G2,3>", CommitmentProof<G2Projective, 3>, cp("B", 3));
    reg!("SignatureRequestProof<5>", SignatureRequestProof<5>, cp("A", 5));
    reg!("SignatureProof<1>", SignatureProof<1>, sp(1));
    reg!("SignatureProof<5>", SignatureProof<5>, sp(5));
    reg!("RangeConstraint", RangeConstraint, rc());
    reg!("RangeConstraintParameters", RangeConstraintParameters, rp());
    reg!("Nonce", zkabacus_crypto::Nonce, "!o:S".into());
    reg!("RevocationLock", rl::RevocationLock, "S".into());
    reg!("RevocationSecret", rl::RevocationSecret, "(S_b)".into());
    reg!("RevocationPair", rl::RevocationPair, revpair());
    reg!("RevocationLockCommitment", rl::RevocationLockCommitment, "A".into());
    reg!("RevocationLockBlindingFactor", rl::RevocationLockBlindingFactor, "S".into());
    reg!("ChannelId", zkabacus_crypto::ChannelId, "r32".into());
    reg!("CustomerRandomness", zkabacus_crypto::CustomerRandomness, "r32".into());
    reg!("MerchantBalance", zkabacus_crypto::MerchantBalance, bal());
    reg!("CustomerBalance", zkabacus_crypto::CustomerBalance, bal());
    reg!("PaymentAmount", zkabacus_crypto::PaymentAmount, "i".into());
    reg!("State", zkabacus_crypto::verif_hooks::State, state());
    reg!("CloseState", zkabacus_crypto::CloseState, close_state());
    reg!("CloseStateSignature", zkabacus_crypto::CloseStateSignature, sig());
    reg!("ClosingSignature", zkabacus_crypto::ClosingSignature, sig());
    reg!("PayToken", zkabacus_crypto::PayToken, sig());
    reg!("EstablishProof", zkabacus_crypto::EstablishProof, format!("(S_S_S_S_{}_{})", cp("A", 5), cp("A", 5)));
    reg!("PayProof", zkabacus_crypto::PayProof, format!("(S_S_{}_{}_{}_{}_{}_{})", sp(5), cp("A", 1), cp("A", 5), cp("A", 5), rc(), rc()));
    reg!("customer::Config", cu::Config, format!("({}_!n:(A_[1:A])_{})", pk(5), rp()));
    reg!("customer::Requested", cu::Requested, format!("({}_S_S)", state()));
    reg!("customer::Inactive", cu::Inactive, format!("({}_S_{})", state(), sig()));
    reg!("customer::Ready", cu::Ready, format!("({}_{}_{})", state(), sig(), sig()));
    reg!("customer::Started", cu::Started, format!("({}_{}_(S_S_S)_{})", state(), state(), sig()));
    reg!("customer::Locked", cu::Locked, format!("({}_S_{})", state(), sig()));
    reg!("customer::ClosingMessage", cu::ClosingMessage, format!("({}_{})", sig(), close_state()));
    reg!("Vec<G1Affine>", VecG1, "{A}".into());
    reg!("Vec<G2Projective>", VecG2, "{B}".into());
    reg!("Vec<Scalar>", VecS, "{S}".into());
    reg!("[Scalar;5]", ArrS5, "[5:S]".into());
    reg!("Box<[G1Projective;3]>", ArrG1x3, "[3:A]".into());
    v
}

pub fn classify48(c: &[u8]) -> char {
    let mut a = [0u8; 48];
    a.copy_from_slice(c);
    match Option::<G1Affine>::from(G1Affine::from_compressed(&a)) {
        None => 'i',
        Some(p) => if bool::from(p.is_identity()) { 'd' } else { 'v' },
    }
}
pub fn classify96(c: &[u8]) -> char {
    let mut a = [0u8; 96];
    a.copy_from_slice(c);
    match Option::<G2Affine>::from(G2Affine::from_compressed(&a)) {
        None => 'i',
        Some(p) => if bool::from(p.is_identity()) { 'd' } else { 'v' },
    }
}

/// Every group-element atom of an honest encoding replaced, one at a time, by a curve point outside the
/// prime-order subgroup and by an x-coordinate off the curve: the value must not decode.  (Such a point has no
/// discrete logarithm; verification equations can hold for it by accident of the challenge — a small-order
/// component vanishes when the challenge is a multiple of its order, or in the pairing's final exponentiation.)
pub fn bad_point_decode_probe<T: DeserializeOwned>(ctx: &mut Ctx, what: &str, expr: &str, honest: &[u8]) {
    let bad = crate::props::c15::bad_points();
    let atoms = match layout(expr, honest) { Some(a) => a, None => { ctx.broken(&format!("cannot lay out {} as {}", what, expr)); return; } };
    for (i, (o, l, k)) in atoms.iter().enumerate() {
        let alts: Vec<(&str, &Vec<u8>)> = match k { 'A' => vec![("outside-the-subgroup", &bad.g1_nosubgroup), ("off-the-curve", &bad.g1_offcurve)], 'B' => vec![("outside-the-subgroup", &bad.g2_nosubgroup), ("off-the-curve", &bad.g2_offcurve)], _ => continue };
        for (kind, pt) in alts {
            let mut b = honest.to_vec();
            b[*o..*o + *l].copy_from_slice(pt);
            ctx.evals += 1;
            let ok = bincode::deserialize::<T>(&b).is_ok();
            ctx.count(&format!("bad-point-decode:{}:{}:{}", what, kind, if ok { "ACCEPTED" } else { "refused" }));
            if ok {
                ctx.violation(&format!("a {} whose element #{} is a point {} decodes", what, i, kind),
                    serde_json::json!({"class": format!("{}-with-point-{}-decodes", what, kind), "atom": i, "bytes": hex::encode(&b)}));
            }
        }
    }
}

/// honest layout of a wire-type expression over `bytes`: (offset, length, kind) of every atom
/// (kinds: S A B b u i r and `L` for length prefixes). Used to enumerate mutations.
pub fn layout(expr: &str, bytes: &[u8]) -> Option<Vec<(usize, usize, char)>> {
    fn nat(cs: &[char], i: &mut usize) -> usize { let mut n = 0; while *i < cs.len() && cs[*i].is_ascii_digit() { n = n * 10 + cs[*i] as usize - '0' as usize; *i += 1; } n }
    fn go(cs: &[char], i: &mut usize, bytes: &[u8], o: &mut usize, out: &mut Vec<(usize, usize, char)>, dry: bool) -> Option<()> {
        let c = *cs.get(*i)?;
        *i += 1;
        let mut atom = |len: usize, k: char, o: &mut usize, out: &mut Vec<(usize, usize, char)>| -> Option<()> {
            if !dry { if *o + len > bytes.len() { return None; } out.push((*o, len, k)); *o += len; }
            Some(())
        };
        match c {
            'S' => atom(32, 'S', o, out),
            'A' => atom(48, 'A', o, out),
            'B' => atom(96, 'B', o, out),
            'b' => atom(1, 'b', o, out),
            'u' => atom(8, 'u', o, out),
            'i' => atom(8, 'i', o, out),
            'r' => { let n = nat(cs, i); atom(n, 'r', o, out) }
            '[' | '<' | '{' => {
                let fixed = if c == '{' { None } else { let n = nat(cs, i); *i += 1; Some(n) };
                let count = if c == '<' { fixed? } else if dry { 0 } else {
                    if *o + 8 > bytes.len() { return None; }
                    let mut a = [0u8; 8]; a.copy_from_slice(&bytes[*o..*o + 8]);
                    out.push((*o, 8, 'L')); *o += 8;
                    u64::from_le_bytes(a) as usize
                };
                let start = *i;
                if count == 0 || dry { go(cs, i, bytes, o, out, true)?; } else {
                    for k in 0..count { *i = start; go(cs, i, bytes, o, out, false)?; let _ = k; }
                }
                *i += 1; // closing bracket
                Some(())
            }
            '(' => {
                loop {
                    match cs.get(*i)? { ')' => { *i += 1; return Some(()); } '_' | ' ' => { *i += 1; } _ => go(cs, i, bytes, o, out, dry)?, }
                }
            }
            '!' => { *i += 2; go(cs, i, bytes, o, out, dry) }
            _ => None,
        }
    }
    let cs: Vec<char> = expr.chars().collect();
    let (mut i, mut o, mut out) = (0usize, 0usize, vec![]);
    go(&cs, &mut i, bytes, &mut o, &mut out, false)?;
    if o == bytes.len() { Some(out) } else { None }
}

/// ask the model to decode `bytes` as `expr`; element chunks are classified on demand
pub fn model_decode(ctx: &mut Ctx, expr: &str, legacy: bool, rev_ok: bool, bytes: &[u8], atoms: &[(usize, usize, char)]) -> String {
    // classify the chunks at the honest atom positions
    let mut items: Vec<String> = vec![];
    for (o, l, k) in atoms {
        if *o + *l <= bytes.len() {
            if *k == 'A' { items.push(format!("{}={}", hex::encode(&bytes[*o..*o + *l]), classify48(&bytes[*o..*o + *l]))); }
            if *k == 'B' { items.push(format!("{}={}", hex::encode(&bytes[*o..*o + *l]), classify96(&bytes[*o..*o + *l]))); }
        }
    }
    let _ = ctx.model.raw("el-clear");
    for ch in items.chunks(200) {
        let _ = ctx.model.raw(&format!("el-put {}", ch.join(" ")));
    }
    let op = format!("decode {} {} {} {}", expr, legacy as u8, rev_ok as u8, if bytes.is_empty() { "-".to_string() } else { hex::encode(bytes) });
    let mut ans = ctx.model.raw(&op);
    if ans == "v:need-classification" {
        // a chunk outside the honest layout was read: classify every window (slow path)
        let mut items: Vec<String> = vec![];
        for o in 0..bytes.len() {
            if o + 48 <= bytes.len() && bytes[o] & 0x80 != 0 { items.push(format!("{}={}", hex::encode(&bytes[o..o + 48]), classify48(&bytes[o..o + 48]))); }
            if o + 96 <= bytes.len() && bytes[o] & 0x80 != 0 { items.push(format!("{}={}", hex::encode(&bytes[o..o + 96]), classify96(&bytes[o..o + 96]))); }
        }
        for ch in items.chunks(200) {
            let _ = ctx.model.raw(&format!("el-put {}", ch.join(" ")));
        }
        ctx.count("model-decode:slow-path");
        ans = ctx.model.raw(&op);
        if ans == "v:need-classification" {
            // windows without the compression flag are invalid for sure; tell the model by a final pass with misses as invalid
            ans = ctx.model.raw(&format!("decode-final {} {} {} {}", expr, legacy as u8, rev_ok as u8, hex::encode(bytes)));
        }
    }
    ctx.case_ops.push(format!("decode {} ({} bytes) => {}", expr, bytes.len(), ans));
    ans
}

pub fn outc_tokens(o: &Outc) -> String {
    match o {
        Outc::Ok { consumed, .. } => format!("v:ok n:{}", consumed),
        Outc::Err => "v:err".to_string(),
        Outc::Panic(_) => "v:panic".to_string(),
    }
}

pub fn _unused(_: Real) {}
