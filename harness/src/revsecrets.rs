//! Revocation secrets whose index loop runs long: `RevocationPair::new` tries index 0, 1, 2, ... until
//! SHA3-256(secret || index) is a canonical scalar; about 54.7% of digests are not (q / 2^256 = 0.453), so the first valid
//! index of a random secret is >= k with probability 0.547^k.  The table below was found by a one-off search
//! (`zkverif-harness --find-revsecrets`) over the secrets `candidate(k)`; being facts about SHA3 only, they are independent
//! of the code under test, and every use re-checks the claimed index with the harness's own SHA3.
use crate::abacus::sha3_256;
use bls12_381::Scalar;

/// the k-th candidate secret: a scalar below 2^128 (little-endian: the counter, then an ASCII tag)
pub fn candidate(k: u64) -> Scalar {
    Scalar::from_raw([k, u64::from_le_bytes(*b"zkverif!"), 0, 0])
}

/// the smallest index (up to `max`) for which SHA3-256(secret || index) is a canonical scalar
pub fn first_valid_index(secret: &Scalar, max: u8) -> Option<u8> {
    let mut b = [0u8; 33];
    b[..32].copy_from_slice(&secret.to_bytes());
    for i in 0..=max {
        b[32] = i;
        let d = sha3_256(&b);
        if bool::from(Scalar::from_bytes(&d).is_some()) { return Some(i); }
    }
    None
}

/// (counter, first valid index) found by the search
/// (search range: counters 0 .. 4*10^9, indices >= 30; 63 entries, largest index 39)
pub const LONG_LOOP: &[(u64, u8)] = &[(85693769, 31), (88678747, 30), (252656503, 30), (284928129, 30), (293363961, 30), (460582605, 34), (537799203, 30), (551952755, 33), (577867429, 31), (579590098, 33), (656745230, 30), (658853929, 32), (905624283, 31), (909738103, 31), (946149755, 30), (1002323994, 30), (1045374958, 30), (1146825588, 38), (1238058151, 31), (1289330449, 31), (1311777728, 31), (1356921254, 30), (1403588959, 34), (1424579498, 31), (1469790573, 38), (1519089255, 32), (1519836860, 35), (1520171879, 32), (1616758539, 31), (1650098080, 30), (1720287981, 31), (1733806950, 30), (1745686686, 30), (1900709598, 30), (1930523536, 30), (1931937095, 30), (2014819160, 30), (2060975283, 31), (2111966668, 31), (2221853129, 34), (2272007431, 31), (2601469402, 35), (2620765930, 31), (2676599312, 30), (2710748504, 31), (2822218838, 30), (2912211765, 30), (2918228927, 38), (2995837861, 39), (3266007802, 30), (3289473979, 32), (3331643691, 32), (3358733510, 30), (3394323590, 30), (3404843889, 31), (3421099787, 32), (3508055324, 30), (3691425444, 30), (3701356922, 34), (3741490632, 32), (3898600758, 32), (3913679830, 34), (3958612372, 31)];

/// the table's secrets with their (re-checked) first valid index
pub fn long_loop_secrets() -> Vec<(Scalar, u8)> {
    LONG_LOOP.iter().filter_map(|&(k, i)| { let s = candidate(k); if first_valid_index(&s, 255) == Some(i) { Some((s, i)) } else { None } }).collect()
}

/// the next secret of the table (round robin, so that no secret - hence no revocation lock - occurs twice in one case)
pub fn next_long_loop(ctx: &mut crate::report::Ctx) -> Option<(Scalar, u8)> {
    if LONG_LOOP.is_empty() { return None; }
    let (k, i) = LONG_LOOP[ctx.long_cursor % LONG_LOOP.len()];
    ctx.long_cursor += 1;
    let s = candidate(k);
    ctx.evals += 1;
    if first_valid_index(&s, 255) != Some(i) { ctx.broken("table of long-index-loop secrets does not check out against SHA3"); return None; }
    Some((s, i))
}

/// big-endian bytes of q
const Q_BE: [u8; 32] = [0x73, 0xed, 0xa7, 0x53, 0x29, 0x9d, 0x7d, 0x48, 0x33, 0x39, 0xd8, 0x08, 0x09, 0xa1, 0xd8, 0x05, 0x53, 0xbd, 0xa4, 0x02, 0xff, 0xfe, 0x5b, 0xfe, 0xff, 0xff, 0xff, 0xff, 0x00, 0x00, 0x00, 0x01];

/// for a secret whose index-0 digest is NOT canonical (>= q as a little-endian integer): the number of leading bits the
/// digest shares with q; 0 if the digest is canonical
pub fn top_bits_shared_with_q(secret: &Scalar) -> u32 {
    let mut b = [0u8; 33];
    b[..32].copy_from_slice(&secret.to_bytes());
    let d = sha3_256(&b);
    if bool::from(Scalar::from_bytes(&d).is_some()) { return 0; }
    let mut n = 0u32;
    for i in 0..32 {
        let x = d[31 - i] ^ Q_BE[i];
        if x == 0 { n += 8; } else { n += x.leading_zeros(); break; }
    }
    n
}

/// (counter, shared leading bits): secrets whose index-0 digest lies just above q — a canonicity test that compares only
/// the leading bytes / the leading word with the modulus takes them for canonical
/// (search range: counters 0 .. 1.2*10^10, at least 26 shared bits; the 48 closest, sorted by closeness)
pub const NEAR_Q: &[(u64, u32)] = &[(3929189119, 32), (875262242, 29), (1749390467, 29), (3003509770, 29), (3191588445, 29), (3207548756, 29), (4325329680, 29), (5761345329, 29), (9842290771, 29), (11749244523, 29), (11768306665, 29), (11834098267, 29), (11905214135, 29), (1285674802, 28), (1730117641, 28), (2007457352, 28), (2249315546, 28), (2813734076, 28), (3687042515, 28), (4633817996, 28), (6835413183, 28), (7592705647, 28), (8706222702, 28), (9596728249, 28), (10089324196, 28), (10194226543, 28), (10217010885, 28), (11789921979, 28), (35603045, 26), (397403390, 26), (926214404, 26), (1217691742, 26), (1239293855, 26), (1239675704, 26), (1387748129, 26), (1608122212, 26), (1621079491, 26), (1786984828, 26), (1949063865, 26), (2024399751, 26), (2235067637, 26), (2277251336, 26), (2431620038, 26), (2531808606, 26), (2549525120, 26), (2607240848, 26), (2850844560, 26), (3066654856, 26)];

pub fn near_q_secrets() -> Vec<(Scalar, u32)> {
    NEAR_Q.iter().filter_map(|&(k, n)| { let s = candidate(k); if top_bits_shared_with_q(&s) == n { Some((s, n)) } else { None } }).collect()
}
