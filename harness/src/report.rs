//! Per-thread run context: model client, dlog book, counters, disagreement / violation records.
use crate::dl::{self, Book};
use crate::model::{Model, Tok};
use bls12_381::{G1Affine, G2Affine, Gt, Scalar};
use rand::SeedableRng;
use rand_chacha::ChaCha20Rng;
use serde_json::{json, Value};
use std::collections::{BTreeMap, HashSet};

/// A value produced by the real code, to be compared with a model token.
#[derive(Clone, Debug)]
pub enum Real {
    B(bool),
    S(Scalar),
    G1(G1Affine),
    G2(G2Affine),
    GT(Gt),
    V(String),
    N(u128),
    I(i128),
    X(Vec<u8>),
    L(usize),
}

impl Real {
    pub fn show(&self) -> String {
        match self {
            Real::B(b) => format!("b:{}", *b as u8),
            Real::S(s) => format!("s:{}", dl::hex_s(s)),
            Real::G1(p) => format!("g1:{}", hex::encode(p.to_compressed())),
            Real::G2(p) => format!("g2:{}", hex::encode(p.to_compressed())),
            Real::GT(_) => "gt:..".to_string(),
            Real::V(v) => format!("v:{}", v),
            Real::N(n) => format!("n:{}", n),
            Real::I(n) => format!("i:{}", n),
            Real::X(x) => format!("x:{}", hex::encode(x)),
            Real::L(n) => format!("l:{}", n),
        }
    }
}

pub struct Ctx {
    pub prop: String,
    pub tier: String,
    pub seed: u64,
    pub shard: usize,
    pub nshards: usize,
    pub book: Book,
    pub model: Model,
    pub prng: ChaCha20Rng,
    pub evals: u64,
    pub distinct: HashSet<u64>,
    pub samples: Vec<Value>,
    pub dist: BTreeMap<String, u64>,
    pub disagreements: Vec<Value>,
    pub violations: Vec<Value>,
    pub traces: u64,
    pub case_id: String,
    pub only: Option<String>,
    pub case_ops: Vec<String>,
    pub notes: Vec<String>,
    /// scalars the next customer-side prover call (`Requested::new` / `Ready::start`) is forced to draw first
    pub forced_next: Vec<bls12_381::Scalar>,
    /// next entry of the long-index-loop secret table to hand out (never the same secret twice within a case)
    pub long_cursor: usize,
}

fn fnv(s: &str) -> u64 {
    let mut h: u64 = 0xcbf29ce484222325;
    for b in s.bytes() {
        h ^= b as u64;
        h = h.wrapping_mul(0x100000001b3);
    }
    h
}

impl Ctx {
    pub fn new(prop: &str, tier: &str, seed: u64, shard: usize, nshards: usize) -> Ctx {
        Ctx {
            prop: prop.to_string(),
            tier: tier.to_string(),
            seed,
            shard,
            nshards,
            book: Book::new(),
            model: Model::spawn(),
            prng: ChaCha20Rng::seed_from_u64(seed.wrapping_mul(1000003).wrapping_add(shard as u64)),
            evals: 0,
            distinct: HashSet::new(),
            samples: Vec::new(),
            dist: BTreeMap::new(),
            disagreements: Vec::new(),
            violations: Vec::new(),
            traces: 0,
            case_id: String::new(),
            only: std::env::var("ZKVERIF_ONLY").ok(),
            case_ops: Vec::new(),
            notes: Vec::new(),
            forced_next: Vec::new(),
            long_cursor: 0,
        }
    }

    pub fn thorough(&self) -> bool {
        self.tier == "thorough"
    }

    /// Start a new case; returns false when the case is filtered out (replay mode / other shard).
    pub fn begin_case(&mut self, idx: usize, label: &str) -> bool {
        if idx % self.nshards != self.shard {
            return false;
        }
        self.case_id = format!("{}#{}", label, idx);
        self.case_ops.clear();
        self.long_cursor = idx.wrapping_mul(7);
        self.forced_next.clear();
        if let Some(o) = &self.only {
            if *o != self.case_id {
                return false;
            }
        }
        self.traces += 1;
        true
    }

    pub fn count(&mut self, key: &str) {
        *self.dist.entry(key.to_string()).or_insert(0) += 1;
    }

    /// Ask the model and compare with what the real code produced.  Returns true when they agree.
    pub fn expect(&mut self, op: &str, real: &[Real]) -> bool {
        let (ok, _) = self.expect_toks(op, real);
        ok
    }

    pub fn expect_toks(&mut self, op: &str, real: &[Real]) -> (bool, Vec<Tok>) {
        self.evals += 1;
        let _ = self.distinct.insert(fnv(op));
        let raw = self.model.raw(op);
        let toks = crate::model::parse_toks(&raw);
        self.case_ops.push(format!("{} => {}", op, raw));
        let mut ok = toks.len() == real.len();
        if ok {
            for (t, r) in toks.iter().zip(real.iter()) {
                let same = match (t, r) {
                    (Tok::B(a), Real::B(b)) => a == b,
                    (Tok::S(a), Real::S(b)) => a == b,
                    (Tok::S(d), Real::G1(p)) => self.book.check_g1(p, *d),
                    (Tok::S(d), Real::G2(p)) => self.book.check_g2(p, *d),
                    (Tok::S(d), Real::GT(g)) => dl::bt() * *d == *g,
                    (Tok::V(a), Real::V(b)) => a == b,
                    (Tok::N(a), Real::N(b)) => a == b,
                    (Tok::I(a), Real::I(b)) => a == b,
                    (Tok::X(a), Real::X(b)) => a == b,
                    (Tok::L(a), Real::L(b)) => a == b,
                    _ => false,
                };
                if !same {
                    ok = false;
                }
            }
        }
        if self.samples.len() < 6 && (self.evals % 97 == 1 || self.samples.is_empty()) {
            self.samples.push(json!({"case": self.case_id, "op": clip(op), "model": clip(&raw),
                "real": clip(&real.iter().map(|r| r.show()).collect::<Vec<_>>().join(" "))}));
        }
        if !ok {
            self.disagreements.push(json!({
                "kind": "model-vs-implementation",
                "case": self.case_id,
                "op": op,
                "model": raw,
                "real": real.iter().map(|r| r.show()).collect::<Vec<_>>().join(" "),
                "history": self.case_ops.clone(),
            }));
        }
        (ok, toks)
    }

    /// Ask the model only (no comparison); the answer is used to drive later steps.
    pub fn ask(&mut self, op: &str) -> Vec<Tok> {
        let raw = self.model.raw(op);
        self.case_ops.push(format!("{} => {}", op, raw));
        crate::model::parse_toks(&raw)
    }

    /// The real implementation violates the property on a concrete input (independent oracle).
    pub fn violation(&mut self, what: &str, detail: Value) {
        self.violations.push(json!({
            "kind": "implementation-vs-property",
            "case": self.case_id,
            "what": what,
            "detail": detail,
            "history": self.case_ops.clone(),
        }));
    }

    /// Harness-level failure to relate model and implementation (desync, unknown dlog …).
    pub fn broken(&mut self, what: &str) {
        self.disagreements.push(json!({
            "kind": "correspondence-broken",
            "case": self.case_id,
            "what": what,
            "history": self.case_ops.clone(),
        }));
    }

    pub fn finish(self) -> Value {
        json!({
            "evaluations": self.evals,
            "distinct": self.distinct.into_iter().collect::<Vec<u64>>(),
            "samples": self.samples,
            "dist": self.dist,
            "disagreements": self.disagreements,
            "violations": self.violations,
            "traces": self.traces,
            "model_calls": self.model.calls,
            "notes": self.notes,
        })
    }
}

fn clip(s: &str) -> String {
    if s.len() > 400 {
        format!("{}…({} chars)", &s[..400], s.len())
    } else {
        s.to_string()
    }
}
