//! Input generators: structured, mostly-valid values with the property's edge entries.
use crate::dl;
use bls12_381::Scalar;
use rand::Rng;
use rand::RngCore;
use rand_chacha::ChaCha20Rng;

pub fn rand_scalar(r: &mut ChaCha20Rng) -> Scalar {
    let mut b = [0u8; 64];
    r.fill_bytes(&mut b);
    Scalar::from_bytes_wide(&b)
}

pub fn nonzero(r: &mut ChaCha20Rng) -> Scalar {
    loop {
        let s = rand_scalar(r);
        if s != Scalar::zero() {
            return s;
        }
    }
}

/// entries from {0, 1, q-1, small, random}
/// 2^k as a scalar (k < 255)
pub fn pow2(k: u32) -> Scalar {
    let mut l = [0u64; 4];
    l[(k / 64) as usize] = 1u64 << (k % 64);
    Scalar::from_raw(l)
}

/// edge values of the scalar field: 0, 1, q-1, small, and the representation boundaries (one-limb values
/// with and without the top bit, powers of two at byte / limb / half-width boundaries and their neighbours,
/// two-limb values) — arithmetic shortcuts on "small" scalars break exactly there
pub fn edge_scalar(r: &mut ChaCha20Rng) -> Scalar {
    match r.gen_range(0..16) {
        0 => Scalar::zero(),
        1 => Scalar::one(),
        2 => dl::q_minus_1(),
        3 => Scalar::from(r.gen_range(2..1000u64)),
        4 => Scalar::from(r.gen::<u64>()),
        5 => Scalar::from(r.gen::<u64>() | (1u64 << 63)),
        6 => {
            let k = [7u32, 8, 31, 32, 62, 63, 64, 65, 127, 128, 191, 192, 253, 254][r.gen_range(0..14)];
            match r.gen_range(0..3) { 0 => pow2(k), 1 => pow2(k) - Scalar::one(), _ => pow2(k) + Scalar::from(r.gen_range(1..1000u64)) }
        }
        7 => Scalar::from_raw([r.gen(), r.gen(), 0, 0]),
        8 => -Scalar::from(r.gen_range(1..1000u64)),
        _ => rand_scalar(r),
    }
}

/// message tuples: independent edge entries, or random entries with a random subset zeroed
/// (zero in the middle / zero tail patterns), or all-edge constants
pub fn edge_vec(r: &mut ChaCha20Rng, n: usize) -> Vec<Scalar> {
    match r.gen_range(0..7) {
        4 => {
            // entries that cancel: the coordinates sum to zero mod q although they are not all zero
            if n < 2 { return vec![edge_scalar(r); n]; }
            let mut v: Vec<Scalar> = (0..n).map(|_| if r.gen_range(0..3) == 0 { Scalar::zero() } else { edge_scalar(r) }).collect();
            let k = r.gen_range(0..n);
            v[k] = Scalar::zero();
            let s: Scalar = v.iter().fold(Scalar::zero(), |a, b| a + b);
            v[k] = -s;
            if v.iter().all(|x| *x == Scalar::zero()) { v[0] = Scalar::one(); v[n - 1] = -Scalar::one(); }
            v
        }
        5 => {
            // repeated entries (all equal, or two equal positions)
            let x = edge_scalar(r);
            let mut v: Vec<Scalar> = (0..n).map(|_| if r.gen_range(0..2) == 0 { x } else { edge_scalar(r) }).collect();
            if n >= 2 { let (i, j) = (r.gen_range(0..n), r.gen_range(0..n)); v[i] = x; v[j] = x; }
            v
        }
        0 => {
            let mut v: Vec<Scalar> = (0..n).map(|_| rand_scalar(r)).collect();
            for x in v.iter_mut() {
                if r.gen_range(0..2) == 0 {
                    *x = Scalar::zero();
                }
            }
            v
        }
        1 => {
            // zero tail after a random prefix
            let k = r.gen_range(0..=n);
            (0..n).map(|i| if i < k { rand_scalar(r) } else { Scalar::zero() }).collect()
        }
        _ => (0..n).map(|_| edge_scalar(r)).collect(),
    }
}

pub fn rand_vec(r: &mut ChaCha20Rng, n: usize) -> Vec<Scalar> {
    (0..n).map(|_| rand_scalar(r)).collect()
}

pub fn nonzero_vec(r: &mut ChaCha20Rng, n: usize) -> Vec<Scalar> {
    (0..n).map(|_| nonzero(r)).collect()
}

/// a value different from `s`: s+1, s-1, or random
pub fn perturb(r: &mut ChaCha20Rng, s: &Scalar) -> Scalar {
    match r.gen_range(0..3) {
        0 => s + Scalar::one(),
        1 => s - Scalar::one(),
        _ => loop {
            let t = rand_scalar(r);
            if t != *s {
                return t;
            }
        },
    }
}

/// `(q - 1) / n` as little-endian limbs (n must divide q - 1)
fn q_minus_1_over(n: u64) -> [u64; 4] {
    let qm1: [u64; 4] = [0xffff_ffff_0000_0000, 0x53bd_a402_fffe_5bfe, 0x3339_d808_09a1_d805, 0x73ed_a753_299d_7d48];
    let mut out = [0u64; 4];
    let mut rem: u128 = 0;
    for i in (0..4).rev() {
        let cur = (rem << 64) | qm1[i] as u128;
        out[i] = (cur / n as u128) as u64;
        rem = cur % n as u128;
    }
    assert_eq!(rem, 0, "n does not divide q - 1");
    out
}

/// primitive n-th roots of unity of the scalar field for n = 3, 4, 6, 8, 16 (q - 1 = 2^32 * 3 * ...): the weights under
/// which power sums vanish — d^2 + (i d)^2 = 0, d^3 + (w d)^3 + (w^2 d)^3 ..., d^4 + (z8 d)^4 = 0.  A verifier that
/// replaces "all differences are zero" by "a power sum of the differences is zero" (true over the reals) is exposed
/// exactly by deviations in these ratios.
pub fn roots_of_unity() -> Vec<(u64, Scalar)> {
    use ff::{Field, PrimeField};
    let g = Scalar::multiplicative_generator();
    [3u64, 4, 6, 8, 16].iter().map(|&n| {
        let z = g.pow_vartime(&q_minus_1_over(n));
        debug_assert!(z.pow_vartime(&[n, 0, 0, 0]) == Scalar::one() && z != Scalar::one());
        (n, z)
    }).collect()
}

/// the weights a second deviation is given relative to the first: together, oppositely, and in the ratio of a root of unity
pub fn deviation_weights() -> Vec<Scalar> {
    let mut v = vec![Scalar::one(), -Scalar::one()];
    v.extend(roots_of_unity().into_iter().map(|(_, z)| z));
    v
}

/// Deterministic weight families a batched verification might use for its i-th equation ("distinct public coefficients"):
/// index-based (i, i+1, i+2, 2i+1, (i+1)^2, n-i), powers of 2 and of 128, and powers of the challenge.  Two defective
/// items i and j whose deviations are (w_j * D, -w_i * D) cancel in the batch with weights w.  Returns (name, w_i, w_j).
pub fn pair_weights(i: usize, j: usize, n: usize, c: Option<&Scalar>) -> Vec<(&'static str, Scalar, Scalar)> {
    use ff::Field;
    let f = |x: u64| Scalar::from(x);
    let (a, b) = (i as u64, j as u64);
    let mut v = vec![
        ("index+1", f(a + 1), f(b + 1)),
        ("index+2", f(a + 2), f(b + 2)),
        ("2*index+1", f(2 * a + 1), f(2 * b + 1)),
        ("(index+1)^2", f((a + 1) * (a + 1)), f((b + 1) * (b + 1))),
        ("n-index", f(n as u64 - a), f(n as u64 - b)),
        ("2^index", f(2).pow_vartime(&[a, 0, 0, 0]), f(2).pow_vartime(&[b, 0, 0, 0])),
        ("128^index", f(128).pow_vartime(&[a, 0, 0, 0]), f(128).pow_vartime(&[b, 0, 0, 0])),
    ];
    if a != 0 && b != 0 { v.push(("index", f(a), f(b))); }
    if let Some(c) = c {
        v.push(("challenge^index", c.pow_vartime(&[a, 0, 0, 0]), c.pow_vartime(&[b, 0, 0, 0])));
        v.push(("challenge^(index+1)", c.pow_vartime(&[a + 1, 0, 0, 0]), c.pow_vartime(&[b + 1, 0, 0, 0])));
    }
    v
}
