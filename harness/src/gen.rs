//! Input generators: structured, mostly-valid values with the property's edge entries.
use crate::dl;
use bls12_381::Scalar;
use rand::Rng;
use rand::RngCore;
use rand_chacha::ChaCha20Rng;

pub fn rand_scalar(r: &mut ChaCha20Rng) -> Scalar {
    let mut b = [0u8; 64];
    r.fill_bytes(&mut b);
    Scalar::from_bytes_wide(&b)
}

pub fn nonzero(r: &mut ChaCha20Rng) -> Scalar {
    loop {
        let s = rand_scalar(r);
        if s != Scalar::zero() {
            return s;
        }
    }
}

/// entries from {0, 1, q-1, small, random}
/// 2^k as a scalar (k < 255)
pub fn pow2(k: u32) -> Scalar {
    let mut l = [0u64; 4];
    l[(k / 64) as usize] = 1u64 << (k % 64);
    Scalar::from_raw(l)
}

/// edge values of the scalar field: 0, 1, q-1, small, and the representation boundaries (one-limb values
/// with and without the top bit, powers of two at byte / limb / half-width boundaries and their neighbours,
/// two-limb values) — arithmetic shortcuts on "small" scalars break exactly there
pub fn edge_scalar(r: &mut ChaCha20Rng) -> Scalar {
    match r.gen_range(0..16) {
        0 => Scalar::zero(),
        1 => Scalar::one(),
        2 => dl::q_minus_1(),
        3 => Scalar::from(r.gen_range(2..1000u64)),
        4 => Scalar::from(r.gen::<u64>()),
        5 => Scalar::from(r.gen::<u64>() | (1u64 << 63)),
        6 => {
            let k = [7u32, 8, 31, 32, 62, 63, 64, 65, 127, 128, 191, 192, 253, 254][r.gen_range(0..14)];
            match r.gen_range(0..3) { 0 => pow2(k), 1 => pow2(k) - Scalar::one(), _ => pow2(k) + Scalar::from(r.gen_range(1..1000u64)) }
        }
        7 => Scalar::from_raw([r.gen(), r.gen(), 0, 0]),
        8 => -Scalar::from(r.gen_range(1..1000u64)),
        _ => rand_scalar(r),
    }
}

/// message tuples: independent edge entries, or random entries with a random subset zeroed
/// (zero in the middle / zero tail patterns), or all-edge constants
pub fn edge_vec(r: &mut ChaCha20Rng, n: usize) -> Vec<Scalar> {
    match r.gen_range(0..7) {
        4 => {
            // entries that cancel: the coordinates sum to zero mod q although they are not all zero
            if n < 2 { return vec![edge_scalar(r); n]; }
            let mut v: Vec<Scalar> = (0..n).map(|_| if r.gen_range(0..3) == 0 { Scalar::zero() } else { edge_scalar(r) }).collect();
            let k = r.gen_range(0..n);
            v[k] = Scalar::zero();
            let s: Scalar = v.iter().fold(Scalar::zero(), |a, b| a + b);
            v[k] = -s;
            if v.iter().all(|x| *x == Scalar::zero()) { v[0] = Scalar::one(); v[n - 1] = -Scalar::one(); }
            v
        }
        5 => {
            // repeated entries (all equal, or two equal positions)
            let x = edge_scalar(r);
            let mut v: Vec<Scalar> = (0..n).map(|_| if r.gen_range(0..2) == 0 { x } else { edge_scalar(r) }).collect();
            if n >= 2 { let (i, j) = (r.gen_range(0..n), r.gen_range(0..n)); v[i] = x; v[j] = x; }
            v
        }
        0 => {
            let mut v: Vec<Scalar> = (0..n).map(|_| rand_scalar(r)).collect();
            for x in v.iter_mut() {
                if r.gen_range(0..2) == 0 {
                    *x = Scalar::zero();
                }
            }
            v
        }
        1 => {
            // zero tail after a random prefix
            let k = r.gen_range(0..=n);
            (0..n).map(|i| if i < k { rand_scalar(r) } else { Scalar::zero() }).collect()
        }
        _ => (0..n).map(|_| edge_scalar(r)).collect(),
    }
}

pub fn rand_vec(r: &mut ChaCha20Rng, n: usize) -> Vec<Scalar> {
    (0..n).map(|_| rand_scalar(r)).collect()
}

pub fn nonzero_vec(r: &mut ChaCha20Rng, n: usize) -> Vec<Scalar> {
    (0..n).map(|_| nonzero(r)).collect()
}

/// a value different from `s`: s+1, s-1, or random
pub fn perturb(r: &mut ChaCha20Rng, s: &Scalar) -> Scalar {
    match r.gen_range(0..3) {
        0 => s + Scalar::one(),
        1 => s - Scalar::one(),
        _ => loop {
            let t = rand_scalar(r);
            if t != *s {
                return t;
            }
        },
    }
}
