//! C10 — honest proofs and the documented constraint patterns always verify.
use crate::dl::{hex_list, hex_s};
use crate::gen::*;
use crate::kit::*;
use crate::model::Tok;
use crate::props::c07::pick_key;
use crate::props::c09::{params_from, HG};
use crate::props::c11::random_opts;
use crate::props::c13::boundary_values;
use crate::rangelab::*;
use crate::report::{Ctx, Real};
use crate::rng::ScriptedRng;
use crate::schnorr::*;
use crate::wire;
use bls12_381::{G1Projective, G2Projective, Scalar};
use rand::Rng;
use serde_json::json;
use zkchannels_crypto::proofs::{ChallengeBuilder, CommitmentProofBuilder, RangeConstraintBuilder, SignatureRequestProofBuilder};

/// all subsets of slots for small N, random subsets otherwise
fn opts_for<const N: usize>(ctx: &mut Ctx, ms: &[Scalar], k: usize) -> [Option<Scalar>; N] {
    if N <= 3 {
        let mut o = [None; N];
        for i in 0..N {
            if (k >> i) & 1 == 1 {
                o[i] = Some(if ms[i] == Scalar::zero() && ctx.prng.gen_range(0..2) == 0 { Scalar::zero() } else { edge_scalar(&mut ctx.prng) });
            }
        }
        o
    } else {
        random_opts::<N>(ctx, ms)
    }
}

fn complete_case<G: HG + group::GroupEncoding, const N: usize>(ctx: &mut Ctx, idx: usize) {
    if !ctx.begin_case(idx, &format!("complete-{}-N{}", G::NAME, N)) {
        return;
    }
    let book = ctx.book.clone();
    let h = nonzero(&mut ctx.prng);
    let gs = nonzero_vec(&mut ctx.prng, N);
    let pp = params_from::<G, N>(&book, &h, &gs);
    let subsets = if N <= 3 { 1usize << N } else { 3 };
    for k in 0..subsets {
        let ms = edge_vec(&mut ctx.prng, N);
        let opts = opts_for::<N>(ctx, &ms, k);
        if let Some((proof, pd, _w, c)) = cp_honest::<G, N>(ctx, &pp, &h, &gs, &ms, &opts, ChalMode::Derived) {
            // verify the real object under the challenge derived from the finished proof
            let c2 = ChallengeBuilder::new().with(&proof).finish();
            if !proof.verify_knowledge_of_opening(&pp, c2) {
                ctx.violation("honest commitment proof rejected", json!({"class": "honest-commitment-proof-rejected", "group": G::NAME, "N": N, "ms": hex_list(&ms), "opts": opts_arg(&opts)}));
            }
            let _ = cp_verify_check::<G, N>(ctx, &pp, &h, &gs, &pd, &c, Some(true), "honest");
        }
    }
    // G1 only: signature request and signature proofs under a key
    if G::NAME == "G1" {
        let (kp, kpd) = match pick_key::<N>(ctx, idx / 2) { Some(k) => k, None => return };
        for k in 0..subsets.min(4) {
            let ms = edge_vec(&mut ctx.prng, N);
            let opts = opts_for::<N>(ctx, &ms, k);
            if let Some((proof, pd, _w, c)) = srp_honest::<N>(ctx, kp.public_key(), &kpd.pk, &ms, &opts, ChalMode::Derived) {
                let c2 = ChallengeBuilder::new().with(&proof).finish();
                if proof.verify_knowledge_of_opening(kp.public_key(), c2).is_none() {
                    ctx.violation("honest signature request proof rejected", json!({"class": "honest-signature-request-rejected", "N": N, "ms": hex_list(&ms), "opts": opts_arg(&opts)}));
                }
                let _ = srp_verify_check::<N>(ctx, kp.public_key(), &kpd.pk, &pd, &c, Some(true), "honest");
            }
            let mut rng = ScriptedRng::new(ctx.prng.gen(), book.clone());
            let sig = wire::msg::<N>(&ms).sign(&mut rng, &kp);
            let h0 = book.dlog_g1(&sig.sigma1()).unwrap_or(Scalar::zero());
            let e = kpd.x + kpd.ys.iter().zip(ms.iter()).map(|(y, m)| y * m).fold(Scalar::zero(), |a, b| a + b);
            if !book.check_g1(&sig.sigma2(), e * h0) {
                ctx.broken("signature is not (h, h^(x + sum y m)) for the scripted h (see C07)");
                return;
            }
            if let Some((proof, pd, _w, c, _r)) = sp_honest::<N>(ctx, kp.public_key(), &kpd.pk, &ms, &sig, &opts, ChalMode::Derived, None) {
                let c2 = ChallengeBuilder::new().with(&proof).finish();
                if !proof.verify_knowledge_of_signature(kp.public_key(), c2) {
                    ctx.violation("honest signature proof rejected", json!({"class": "honest-signature-proof-rejected", "N": N, "ms": hex_list(&ms), "opts": opts_arg(&opts)}));
                }
                let _ = sp_verify_check::<N>(ctx, kp.public_key(), &kpd.pk, &pd, &c, Some(true), "honest");
            }
            // the blinding factor the builder draws first, solved against the secret key: bf = -(x + <y, m>) makes the shown
            // sigma2' the identity (and X~ + C the identity) - a valid proof all the same; also bf = 1 - (x + <y, m>)
            // (sigma2' = sigma1') and bf = -<y, m> (sigma2' = x * sigma1')
            if k == 0 {
                for (what, bf) in [("sigma2-identity", -e), ("sigma2-equals-sigma1", Scalar::one() - e), ("commitment-is-bf-free", kpd.x - e)] {
                    ctx.forced_next = vec![bf];
                    if let Some((proof, pd, _w, c, _r)) = sp_honest::<N>(ctx, kp.public_key(), &kpd.pk, &ms, &sig, &[None; N], ChalMode::Derived, None) {
                        let c2 = ChallengeBuilder::new().with(&proof).finish();
                        ctx.count(&format!("solved-blinding-factor:{}", what));
                        if !proof.verify_knowledge_of_signature(kp.public_key(), c2) {
                            ctx.violation(&format!("honest signature proof rejected when the drawn blinding factor is solved against the key ({})", what), json!({"class": "honest-signature-proof-rejected-solved-bf", "N": N, "what": what, "ms": hex_list(&ms)}));
                        }
                        let _ = sp_verify_check::<N>(ctx, kp.public_key(), &kpd.pk, &pd, &c, Some(true), &format!("honest-solved-bf-{}", what));
                    }
                    ctx.forced_next.clear();
                }
            }
        }
    }
}

/// conjunction of a commitment proof A (G1, N) and a signature-request proof B (N) with the
/// documented patterns wired between them, plus a range constraint linked to A
fn pattern_case<const N: usize>(ctx: &mut Ctx, idx: usize) {
    if N < 3 || !ctx.begin_case(idx, &format!("patterns-N{}", N)) {
        return;
    }
    let book = ctx.book.clone();
    let h = nonzero(&mut ctx.prng);
    let gs = nonzero_vec(&mut ctx.prng, N);
    let pp = params_from::<G1Projective, N>(&book, &h, &gs);
    let (kp, kpd) = des_keypair::<N>(ctx);
    let (rp, rpd, _, _) = rp_decoded(ctx);
    let vals = boundary_values(ctx);
    let v = vals[ctx.prng.gen_range(0..vals.len())];
    // A: slot 0 = range value v; slot 1, 2 free; last slot = sum of slot 1 and slot 2 (secret sum) when N >= 4
    let mut ms_a = edge_vec(&mut ctx.prng, N);
    ms_a[0] = Scalar::from(v as u64);
    if N >= 4 {
        ms_a[N - 1] = ms_a[1] + ms_a[2];
    }
    let mut rng = ScriptedRng::new(ctx.prng.gen(), book.clone());
    let rb = match RangeConstraintBuilder::generate_constraint_commitments(v, &rp, &mut rng) {
        Ok(b) => b,
        Err(_) => { ctx.violation("range prover refused a non-negative value", json!({"class": "range-refuses-nonnegative", "value": v})); return; }
    };
    let t1 = rand_scalar(&mut ctx.prng);
    let t2 = rand_scalar(&mut ctx.prng);
    let mut opts_a = [None; N];
    opts_a[0] = Some(rb.commitment_scalar());
    if N >= 4 {
        opts_a[1] = Some(t1);
        opts_a[2] = Some(t2);
        opts_a[N - 1] = Some(t1 + t2);
    }
    let ba = CommitmentProofBuilder::<G1Projective, N>::generate_proof_commitments(&mut rng, wire::msg::<N>(&ms_a), &opts_a, &pp);
    let ts_a = ba.conjunction_commitment_scalars().to_vec();
    let bf_a = ba.message_blinding_factor().as_scalar();
    // B: slot 0 equal to A slot 1; slot 1 = A slot 2 + p (public addition); slot 2 = p2 * A slot 1 (public product)
    let p_add = edge_scalar(&mut ctx.prng);
    let p_mul = edge_scalar(&mut ctx.prng);
    let mut ms_b = edge_vec(&mut ctx.prng, N);
    ms_b[0] = ms_a[1];
    ms_b[1] = ms_a[2] + p_add;
    ms_b[2] = p_mul * ms_a[1];
    let mut opts_b = [None; N];
    opts_b[0] = Some(ts_a[1]);
    opts_b[1] = Some(ts_a[2]);
    opts_b[2] = Some(p_mul * ts_a[1]);
    // equality *within* one proof: slot 3 repeats slot 0 under the same commitment scalar (equal response scalars)
    if N >= 4 {
        ms_b[3] = ms_b[0];
        opts_b[3] = opts_b[0];
    }
    let bb = SignatureRequestProofBuilder::<N>::generate_proof_commitments(&mut rng, wire::msg::<N>(&ms_b), &opts_b, kp.public_key());
    let ts_b = bb.conjunction_commitment_scalars().to_vec();
    let bf_b = bb.message_blinding_factor().as_scalar();
    let ch = ChallengeBuilder::new().with(&ba).with(&bb).with(&rb).finish();
    let c = ch.to_scalar();
    let pa = ba.generate_proof_response(ch);
    let pb = bb.generate_proof_response(ch);
    let rc = rb.generate_constraint_response(ch);
    let ch2 = ChallengeBuilder::new().with(&pa).with(&pb).with(&rc).finish();
    ctx.count("challenge:builder-vs-proof");
    if ch2.to_scalar() != c {
        ctx.violation("conjunction challenge from finished proofs differs from the builders'", json!({"class": "challenge-mismatch", "kind": "conjunction"}));
    }
    let za = pa.conjunction_response_scalars().to_vec();
    let zb = pb.conjunction_response_scalars().to_vec();
    // model comparison of both proofs on the recovered witnesses
    for (bytes, hh, gg, ms, bf, ts, zs) in [
        (wire::ser(&pa), h, gs.clone(), ms_a.clone(), bf_a, ts_a.clone(), za.clone()),
        (wire::ser(&pb), kpd.pk.g1, kpd.pk.y1s.clone(), ms_b.clone(), bf_b, ts_b.clone(), zb.clone()),
    ] {
        let (cb, tb, zbf, zs2) = match split_cp(&bytes, 48, N) { Some(x) => x, None => return };
        if zs2 != zs {
            ctx.broken("conjunction_response_scalars differs from the wire form");
        }
        let tbf = zbf - c * bf;
        let op = format!("cp-prove {} {} {} {} {} {} {}", hex_s(&hh), hex_list(&gg), hex_list(&ms), hex_s(&bf), hex_s(&tbf), hex_list(&ts), hex_s(&c));
        let mut reals = vec![G1Projective::real_bytes(&cb).unwrap(), G1Projective::real_bytes(&tb).unwrap(), Real::S(zbf)];
        reals.extend(real_list_s(&zs));
        let _ = ctx.expect(&op, &reals);
    }
    // verification of every part under the common challenge
    let ok_a = pa.verify_knowledge_of_opening(&pp, ch2);
    let ok_b = pb.verify_knowledge_of_opening(kp.public_key(), ch2).is_some();
    let ok_r = rc.verify_range_constraint(&rp, ch2, za[0]);
    let eq = zb[0] == za[1] && (N < 4 || zb[3] == zb[0]);
    let add = zb[1] == za[2] + c * p_add;
    let mul = zb[2] == p_mul * za[1];
    let sum = N < 4 || za[N - 1] == za[1] + za[2];
    let partial = za[0] == c * Scalar::from(v as u64) + ts_a[0];
    for (name, ok) in [("commitment-proof", ok_a), ("signature-request", ok_b), ("range-link", ok_r), ("equality", eq), ("public-addition", add), ("public-product", mul), ("secret-sum", sum), ("partial-opening", partial)] {
        ctx.count(&format!("pattern:{}:{}", name, ok));
        if !ok {
            ctx.violation(
                &format!("documented pattern '{}' does not hold on an honest conjunction", name),
                json!({"class": format!("pattern-{}", name), "N": N, "value": v, "ms_a": hex_list(&ms_a), "ms_b": hex_list(&ms_b), "p_add": hex_s(&p_add), "p_mul": hex_s(&p_mul)}),
            );
        }
    }
    let _ = (G2Projective::identity(), rpd, Tok::B(true));
}

fn complete_g1<const N: usize>(ctx: &mut Ctx, idx: usize) { complete_case::<G1Projective, N>(ctx, idx) }
fn complete_g2<const N: usize>(ctx: &mut Ctx, idx: usize) { complete_case::<G2Projective, N>(ctx, idx) }

/// Tuple length 0 ("for every tuple length"): a commitment to the empty message is `h^r`, and the proofs degenerate
/// to plain Schnorr proofs of knowledge of `r`; everything must still work, compared with the model on empty lists.
fn zero_length_case(ctx: &mut Ctx, idx: usize) {
    if !ctx.begin_case(idx, "zero-length-tuples") {
        return;
    }
    use std::panic::{catch_unwind, AssertUnwindSafe};
    let book = ctx.book.clone();
    let (h1, h2) = (nonzero(&mut ctx.prng), nonzero(&mut ctx.prng));
    let r = catch_unwind(AssertUnwindSafe(|| {
        let pp1 = crate::props::c09::params_from::<G1Projective, 0>(&book, &h1, &[]);
        let pp2 = crate::props::c09::params_from::<G2Projective, 0>(&book, &h2, &[]);
        let a = cp_honest::<G1Projective, 0>(ctx, &pp1, &h1, &[], &[], &[], ChalMode::Derived).map(|(proof, _pd, _w, c)| proof.verify_knowledge_of_opening(&pp1, crate::schnorr::chal(&c)));
        let b = cp_honest::<G2Projective, 0>(ctx, &pp2, &h2, &[], &[], &[], ChalMode::Derived).map(|(proof, _pd, _w, c)| proof.verify_knowledge_of_opening(&pp2, crate::schnorr::chal(&c)));
        (a, b)
    }));
    ctx.evals += 1;
    match r {
        Ok((Some(true), Some(true))) => ctx.count("zero-length:commitment-proofs-accepted"),
        Ok(x) => ctx.violation(&format!("commitment proofs of tuple length 0 are not accepted: {:?}", x), json!({"class": "zero-length-commitment-proof-rejected"})),
        Err(_) => ctx.violation("building / verifying a commitment proof of tuple length 0 panics", json!({"class": "zero-length-tuple-panics"})),
    }
}

pub fn run(ctx: &mut Ctx) {
    let reps = if ctx.thorough() { 12 } else { 2 };
    let mut idx = 0;
    for _ in 0..reps {
        for &n in NS.iter() {
            crate::dispatch_n!(complete_g1, ctx, idx, n);
            idx += 1;
            crate::dispatch_n!(complete_g2, ctx, idx, n);
            idx += 1;
            crate::dispatch_n!(pattern_case, ctx, idx, n);
            idx += 1;
        }
    }
    idx += 1;
    zero_length_case(ctx, idx);
    // range completeness on the boundary set is covered case by case in C13's "range-honest"; repeat a few here
    let (rp, rpd, _, _) = rp_decoded(ctx);
    for v in boundary_values(ctx) {
        idx += 1;
        if !ctx.begin_case(idx, "range-complete") { continue; }
        if let Some(run) = range_honest(ctx, &rp, &rpd, v, None) {
            let expected = run.c * Scalar::from(v as u64) + run.commitment_scalar;
            let _ = range_verify_check(ctx, &rp, &rpd, &run.proofs, &run.c, &expected, Some(true), "honest-linked");
        }
    }
}
