//! C17 — balance and amount arithmetic is total, exact and range-preserving.
use crate::report::{Ctx, Real};
use crate::wire;
use bls12_381::Scalar;
use rand::{Rng, SeedableRng};
use serde_json::json;
use std::panic::{catch_unwind, AssertUnwindSafe};
use zkabacus_crypto::verif_hooks as vh;
use zkabacus_crypto::{ChannelId, CustomerBalance, Error, MerchantBalance, PaymentAmount};

const I64MAX: u64 = i64::MAX as u64;

fn lattice() -> Vec<u64> {
    vec![0, 1, 2, 1 << 31, 1 << 32, 1 << 62, I64MAX - 1, I64MAX, 1 << 63, (1 << 63) + 1, u64::MAX]
}

fn err_reals(e: &Error) -> Vec<Real> {
    match e {
        Error::AmountTooLarge(v) => vec![Real::V("amount-too-large".into()), Real::N(*v as u128)],
        Error::InsufficientFunds => vec![Real::V("insufficient-funds".into())],
    }
}

/// reference result of applying `amt` (128-bit arithmetic): Ok((cb', mb')) or the documented error
fn reference(cb: u64, mb: u64, amt: i64) -> Result<(u64, u64), String> {
    let c = cb as i128 - amt as i128;
    let m = mb as i128 + amt as i128;
    let chk = |v: i128| -> Result<u64, String> {
        if v < 0 { Err("insufficient-funds".into()) } else if v > I64MAX as i128 { Err(format!("amount-too-large {}", v)) } else { Ok(v as u64) }
    };
    let c = chk(c)?;
    let m = chk(m)?;
    Ok((c, m))
}

fn amount(a: i64) -> Option<PaymentAmount> {
    wire::de::<PaymentAmount>(&a.to_le_bytes()).ok()
}

fn cbal(v: u64) -> Option<CustomerBalance> {
    match CustomerBalance::try_new(v) {
        Ok(b) => Some(b),
        Err(_) => wire::de::<CustomerBalance>(&v.to_le_bytes()).ok(),
    }
}
fn mbal(v: u64) -> Option<MerchantBalance> {
    match MerchantBalance::try_new(v) {
        Ok(b) => Some(b),
        Err(_) => wire::de::<MerchantBalance>(&v.to_le_bytes()).ok(),
    }
}

fn triple(ctx: &mut Ctx, cid: &ChannelId, cb: u64, mb: u64, amt: i64) {
    let (cbv, mbv, a) = match (cbal(cb), mbal(mb), amount(amt)) {
        (Some(c), Some(m), Some(a)) => (c, m, a),
        _ => {
            ctx.count("apply:unconstructible-input");
            return;
        }
    };
    let oversized = cb > I64MAX || mb > I64MAX;
    let mut rng = rand_chacha::ChaCha20Rng::seed_from_u64(ctx.prng.gen());
    let st = vh::State::new(&mut rng, *cid, mbv, cbv);
    let r = catch_unwind(AssertUnwindSafe(|| st.apply_payment(&mut rng, a)));
    let reals = match &r {
        Err(_) => vec![Real::V("panic".into())],
        Ok(Err(e)) => err_reals(e),
        Ok(Ok(ns)) => vec![Real::V("ok".into()), Real::N(ns.customer_balance().into_inner() as u128), Real::N(ns.merchant_balance().into_inner() as u128)],
    };
    let op = format!("apply-payment {:x} {:x} {:x}", cb, mb, amt as u64);
    let _ = ctx.expect(&op, &reals);
    let got: Result<(u64, u64), String> = match &r {
        Err(_) => Err("panic".into()),
        Ok(Err(Error::AmountTooLarge(v))) => Err(format!("amount-too-large {}", v)),
        Ok(Err(Error::InsufficientFunds)) => Err("insufficient-funds".into()),
        Ok(Ok(ns)) => Ok((ns.customer_balance().into_inner(), ns.merchant_balance().into_inner())),
    };
    ctx.count(&format!("apply:{}", match &got { Ok(_) => "ok".to_string(), Err(e) => e.split(' ').next().unwrap().to_string() }));
    let want = reference(cb, mb, amt);
    if got != want {
        let class = if oversized { "apply-on-decoded-balance-above-i64-max" } else { "apply-not-exact" };
        ctx.violation(
            &format!("apply_payment(cb={}, mb={}, amt={}) returned {:?}, integer arithmetic gives {:?}", cb, mb, amt, got, want),
            json!({"class": class, "cb": cb, "mb": mb, "amt": amt}),
        );
    }
}

fn scalar_of_i64(a: i64) -> Scalar {
    if a < 0 { -Scalar::from((a as i128).unsigned_abs() as u64) } else { Scalar::from(a as u64) }
}

pub fn run(ctx: &mut Ctx) {
    let lat = lattice();
    let cid: ChannelId = wire::de(&[7u8; 32]).expect("channel id");
    let mut idx = 0usize;
    // constructors
    let mut vals = lat.clone();
    for _ in 0..(if ctx.thorough() { 2000 } else { 200 }) {
        let v: u64 = ctx.prng.gen();
        vals.push(v >> ctx.prng.gen_range(0..64));
    }
    for &v in &vals {
        idx += 1;
        if !ctx.begin_case(idx, "constructors") {
            continue;
        }
        let r = catch_unwind(|| CustomerBalance::try_new(v));
        let reals = match &r { Err(_) => vec![Real::V("panic".into())], Ok(Err(e)) => err_reals(e), Ok(Ok(b)) => vec![Real::V("ok".into()), Real::N(b.into_inner() as u128)] };
        let _ = ctx.expect(&format!("bal-new {:x}", v), &reals);
        let ok = matches!(&r, Ok(Ok(b)) if b.into_inner() == v);
        let errv = matches!(&r, Ok(Err(Error::AmountTooLarge(x))) if *x == v);
        if (v <= I64MAX && !ok) || (v > I64MAX && !errv) {
            ctx.violation(&format!("CustomerBalance::try_new({}) = {:?}", v, r.as_ref().map(|x| x.map(|b| b.into_inner()))), json!({"class": "try-new-not-exact", "v": v}));
        }
        let r = catch_unwind(|| MerchantBalance::try_new(v));
        let reals = match &r { Err(_) => vec![Real::V("panic".into())], Ok(Err(e)) => err_reals(e), Ok(Ok(b)) => vec![Real::V("ok".into()), Real::N(b.into_inner() as u128)] };
        let _ = ctx.expect(&format!("bal-new {:x}", v), &reals);
        let r = catch_unwind(|| PaymentAmount::pay_merchant(v));
        let reals = match &r { Err(_) => vec![Real::V("panic".into())], Ok(Err(e)) => err_reals(e), Ok(Ok(a)) => vec![Real::V("ok".into()), Real::I(a.to_i64() as i128)] };
        let _ = ctx.expect(&format!("pay-merchant {:x}", v), &reals);
        if !matches!((&r, v <= I64MAX), (Ok(Ok(a)), true) if a.to_i64() as i128 == v as i128) && !matches!((&r, v <= I64MAX), (Ok(Err(Error::AmountTooLarge(x))), false) if *x == v) {
            ctx.violation(&format!("pay_merchant({}) not exact", v), json!({"class": "pay-merchant-not-exact", "v": v}));
        }
        let r = catch_unwind(|| PaymentAmount::pay_customer(v));
        let reals = match &r { Err(_) => vec![Real::V("panic".into())], Ok(Err(e)) => err_reals(e), Ok(Ok(a)) => vec![Real::V("ok".into()), Real::I(a.to_i64() as i128)] };
        let _ = ctx.expect(&format!("pay-customer {:x}", v), &reals);
        if !matches!((&r, v <= I64MAX), (Ok(Ok(a)), true) if a.to_i64() as i128 == -(v as i128)) && !matches!((&r, v <= I64MAX), (Ok(Err(Error::AmountTooLarge(x))), false) if *x == v) {
            ctx.violation(&format!("pay_customer({}) not exact", v), json!({"class": "pay-customer-not-exact", "v": v}));
        }
        // scalar encodings
        if let Some(b) = cbal(v) {
            let s = vh::customer_balance_to_scalar(b);
            let _ = ctx.expect(&format!("bal-scalar {:x}", v), &[Real::S(s)]);
            if s != Scalar::from(v) {
                ctx.violation("balance encoding is not the integer", json!({"class": "balance-to-scalar", "v": v}));
            }
        }
        if let Some(b) = mbal(v) {
            let s = vh::merchant_balance_to_scalar(b);
            let _ = ctx.expect(&format!("bal-scalar {:x}", v), &[Real::S(s)]);
        }
        // amount encoding for the i64 with these 8 wire bytes (covers i64::MIN and every decodable amount)
        let a = v as i64;
        if let Some(pa) = amount(a) {
            let r = catch_unwind(|| vh::payment_amount_to_scalar(pa));
            let reals = match &r { Err(_) => vec![Real::V("panic".into())], Ok(s) => vec![Real::V("ok".into()), Real::S(*s)] };
            let _ = ctx.expect(&format!("amt-scalar {:x}", v), &reals);
            match r {
                Err(_) => ctx.violation(&format!("PaymentAmount::to_scalar panics for the decodable amount {}", a), json!({"class": "amount-to-scalar-panics", "amount": a})),
                Ok(s) => if s != scalar_of_i64(a) {
                    ctx.violation(&format!("PaymentAmount::to_scalar({}) is not the integer's image", a), json!({"class": "amount-to-scalar-not-exact", "amount": a}));
                },
            }
        } else {
            ctx.broken("an i64 does not decode as PaymentAmount");
        }
    }
    // the constructors on the wire, text form: a balance / amount read from a JSON number token is exactly the integer
    // the token denotes, or the token is refused - never a truncated, rounded or saturated value.  `must` = has to decode.
    idx += 1;
    if ctx.begin_case(idx, "json-number-tokens") {
        // (token, the integer it denotes if any, must it decode as a balance?)
        let toks: Vec<(&str, Option<i128>, bool)> = vec![
            ("0", Some(0), true), ("1000", Some(1000), true), ("9223372036854775807", Some(i64::MAX as i128), true),
            ("9223372036854775808", Some(1i128 << 63), false), ("18446744073709551615", Some(u64::MAX as i128), false), ("18446744073709551616", Some(1i128 << 64), false),
            ("-1", Some(-1), false), ("-0", Some(0), false), ("1000.0", Some(1000), false), ("1e3", Some(1000), false), ("1.5", None, false), ("-5.0", Some(-5), false), ("-0.5", None, false),
            ("0.9999", None, false), ("9007199254740993.0", Some(9007199254740993), false), ("9223372036854775807.0", Some(i64::MAX as i128), false),
            ("9223372036854775000.0", Some(9223372036854775000), false), ("1e19", Some(10_000_000_000_000_000_000), false), ("1e-1", None, false), ("4.9e-324", None, false),
            ("\"1000\"", None, false), ("true", None, false), ("null", None, false), ("[1000]", None, false), ("{}", None, false),
        ];
        for (tok, denotes, must) in toks {
            let rc = catch_unwind(|| serde_json::from_str::<CustomerBalance>(tok).map(|b| b.into_inner()).map_err(|e| e.to_string()));
            let rm = catch_unwind(|| serde_json::from_str::<MerchantBalance>(tok).map(|b| b.into_inner()).map_err(|e| e.to_string()));
            let ra = catch_unwind(|| serde_json::from_str::<PaymentAmount>(tok).map(|a| a.to_i64()).map_err(|e| e.to_string()));
            ctx.evals += 3;
            for (who, r) in [("CustomerBalance", &rc), ("MerchantBalance", &rm)] {
                let good = match r {
                    Err(_) => false,
                    Ok(Ok(v)) => denotes == Some(*v as i128) && *v <= I64MAX,
                    Ok(Err(_)) => !must,
                };
                ctx.count(&format!("json-token:{}:{}", who, match r { Err(_) => "PANIC", Ok(Ok(_)) => "value", Ok(Err(_)) => "refused" }));
                if !good {
                    ctx.violation(&format!("{} read from the JSON token `{}`: {:?} (the token denotes {:?}; a balance is an integer in [0, 2^63-1])", who, tok, r.as_ref().ok(), denotes), json!({"class": "json-token-not-exact", "type": who, "token": tok}));
                }
            }
            let good = match &ra {
                Err(_) => false,
                Ok(Ok(v)) => denotes == Some(*v as i128),
                Ok(Err(_)) => !(must),
            };
            ctx.count(&format!("json-token:PaymentAmount:{}", match &ra { Err(_) => "PANIC", Ok(Ok(_)) => "value", Ok(Err(_)) => "refused" }));
            if !good {
                ctx.violation(&format!("PaymentAmount read from the JSON token `{}`: {:?} (the token denotes {:?})", tok, ra.as_ref().ok(), denotes), json!({"class": "json-token-not-exact", "type": "PaymentAmount", "token": tok}));
            }
        }
    }
    // try_add
    for &a in &lat {
        for &b in &lat {
            idx += 1;
            if !ctx.begin_case(idx, "try-add") {
                continue;
            }
            if let (Some(m), Some(c)) = (mbal(a), cbal(b)) {
                let r = catch_unwind(|| m.try_add(c));
                let reals = match &r { Err(_) => vec![Real::V("panic".into())], Ok(Err(e)) => err_reals(e), Ok(Ok(x)) => vec![Real::V("ok".into()), Real::N(x.into_inner() as u128)] };
                let _ = ctx.expect(&format!("try-add {:x} {:x}", a, b), &reals);
                let sum = a as u128 + b as u128;
                let good = match &r {
                    Ok(Ok(x)) => sum <= I64MAX as u128 && x.into_inner() as u128 == sum,
                    Ok(Err(Error::AmountTooLarge(v))) => sum > I64MAX as u128 && *v as u128 == sum,
                    _ => false,
                };
                if !good {
                    let class = if a > I64MAX || b > I64MAX { "try-add-on-decoded-balance-above-i64-max" } else { "try-add-not-exact" };
                    ctx.violation(&format!("try_add({}, {}) not exact / panics", a, b), json!({"class": class, "mb": a, "cb": b}));
                }
            }
        }
    }
    // payment application: lattice x lattice x signed lattice, then random triples
    let mut amts: Vec<i64> = vec![i64::MIN, i64::MIN + 1, -1, 0, 1, i64::MAX - 1, i64::MAX];
    for &l in &lat {
        amts.push(l as i64);
        amts.push((l as i64).wrapping_neg());
    }
    for &cb in &lat {
        for &mb in &lat {
            for &a in &amts {
                idx += 1;
                if !ctx.begin_case(idx, "apply-lattice") {
                    continue;
                }
                triple(ctx, &cid, cb, mb, a);
                // amounts relative to the balances
                for d in [-1i128, 0, 1] {
                    for base in [cb as i128, -(cb as i128), mb as i128, -(mb as i128)] {
                        let x = base + d;
                        if x >= i64::MIN as i128 && x <= i64::MAX as i128 && a == 0 {
                            triple(ctx, &cid, cb, mb, x as i64);
                        }
                    }
                }
            }
        }
    }
    // range-preserving, end to end: a balance that `apply_payment` returns is one the pay proof's range constraint
    // can be built for (it is decomposed into nine base-128 digits there).  Results whose digits are 0 / 1 / 127 in
    // every pattern (powers of 128 and their neighbours), the lattice, and random ones.
    {
        let (rp, _rpd, _, _) = crate::rangelab::rp_decoded(ctx);
        let mut results: Vec<u64> = lat.iter().cloned().filter(|v| *v <= I64MAX).collect();
        for k in 1..9u32 {
            let p = 1u64 << (7 * k);
            results.extend([p - 1, p, p + 1, p + (p >> 7) - 1, p + (p >> 7), 2 * p - 1, 2 * p, 127 * p, 127 * p + (p - 1)].iter().filter(|v| **v <= I64MAX));
        }
        for _ in 0..(if ctx.thorough() { 200 } else { 12 }) { let v: u64 = ctx.prng.gen(); results.push((v >> 1) >> ctx.prng.gen_range(0..63)); }
        for (j, &v) in results.iter().enumerate() {
            idx += 1;
            if !ctx.begin_case(idx, "result-provable") {
                continue;
            }
            // reach v as the customer's or the merchant's new balance by a payment of a random admissible amount
            let as_customer = j % 2 == 0;
            let room = I64MAX - v;
            let a_mag = if room == 0 { 0 } else { ctx.prng.gen_range(0..=room.min(1 << 40)) };
            let (cb, mb, amt) = if as_customer { (v + a_mag, ctx.prng.gen_range(0..=(I64MAX - a_mag).min(1 << 50)), a_mag as i64) } else { (ctx.prng.gen_range(a_mag..=a_mag + (1 << 30)), v + a_mag, -(a_mag as i64)) };
            triple(ctx, &cid, cb, mb, amt);
            let want = match reference(cb, mb, amt) { Ok(x) => x, Err(_) => continue };
            for (who, bal) in [("customer", want.0), ("merchant", want.1)] {
                ctx.evals += 1;
                let mut rng = rand_chacha::ChaCha20Rng::seed_from_u64(ctx.prng.gen());
                let r = catch_unwind(AssertUnwindSafe(|| zkchannels_crypto::proofs::RangeConstraintBuilder::generate_constraint_commitments(bal as i64, &rp, &mut rng).is_ok()));
                ctx.count(&format!("result-provable:{}", match r { Ok(true) => "built", Ok(false) => "REFUSED", Err(_) => "PANIC" }));
                if !matches!(r, Ok(true)) {
                    ctx.violation(
                        &format!("the {} balance {} returned by apply_payment(cb={}, mb={}, amt={}) lies in [0, 2^63-1] but the range constraint for it {}", who, bal, cb, mb, amt, if r.is_err() { "panics" } else { "is refused" }),
                        json!({"class": "result-not-provable", "balance": bal, "cb": cb, "mb": mb, "amt": amt}),
                    );
                }
            }
        }
    }
    let n = if ctx.thorough() { 1_000_000 } else { 20_000 };
    for _ in 0..n {
        idx += 1;
        if !ctx.begin_case(idx, "apply-random") {
            continue;
        }
        let sh = |ctx: &mut Ctx| -> u64 { let v: u64 = ctx.prng.gen(); (v >> 1) >> ctx.prng.gen_range(0..63) };
        let cb = sh(ctx);
        let mb = sh(ctx);
        let a: i64 = (ctx.prng.gen::<i64>()) >> ctx.prng.gen_range(0..63);
        triple(ctx, &cid, cb, mb, a);
    }
}
