//! C05 — a new pay token is issued only against a valid revocation of the previous state.
use crate::abacus::*;
use crate::dl::{hex_s};
use crate::gen::*;
use crate::kit::*;
use crate::props::c02::valid_amount;
use crate::report::{Ctx, Real};
use crate::rng::ScriptedRng;
use crate::session::*;
use crate::wire;
use bls12_381::Scalar;
use rand::Rng;
use serde_json::json;
use zkabacus_crypto::revlock::{RevocationLockBlindingFactor, RevocationPair};

fn digest_of(secret: &Scalar, index: u8) -> [u8; 32] {
    let mut b = secret.to_bytes().to_vec();
    b.push(index);
    sha3_256(&b)
}
fn canonical(d: &[u8; 32]) -> Option<Scalar> {
    Scalar::from_bytes(d).into()
}
fn reduced(d: &[u8; 32]) -> Scalar {
    let l = |i: usize| u64::from_le_bytes({ let mut a = [0u8; 8]; a.copy_from_slice(&d[i * 8..i * 8 + 8]); a });
    Scalar::from_raw([l(0), l(1), l(2), l(3)])
}

fn pair_bytes(lock: &Scalar, secret: &Scalar, index: u8) -> Vec<u8> {
    let mut v = wire::enc_s(lock);
    v.extend(wire::enc_s(secret));
    v.push(index);
    v
}

/// decode a byte string as RevocationPair: real vs model (with the independent SHA3 digest) vs the invariant
fn decode_check(ctx: &mut Ctx, lock: &Scalar, secret: &Scalar, index: u8, what: &str) {
    let d = digest_of(secret, index);
    let r = wire::de::<RevocationPair>(&pair_bytes(lock, secret, index));
    let op = format!("revpair-decode {} {} {} {:x}", hex::encode(d), hex_s(lock), hex_s(secret), index);
    let reals = match &r {
        Ok(p) => {
            let pb = wire::ser(p);
            vec![Real::V("ok".into()), Real::S(s_at(&pb, 0).unwrap()), Real::S(s_at(&pb, 32).unwrap()), Real::N(pb[64] as u128)]
        }
        Err(e) => vec![Real::V(if e.contains("does not produce a valid") { "invalid-secret".into() } else if e.contains("does not produce the provided") { "mismatched-pair".into() } else { format!("other-error:{}", e) })],
    };
    let _ = ctx.expect(&op, &reals);
    // … and with the model's own SHA3 (Model/Sha3.lean): nothing about the hash is supplied by the harness
    let _ = ctx.expect(&format!("revpair-decode-sha3 {} {} {:x}", hex_s(lock), hex_s(secret), index), &reals);
    let should = canonical(&d).map(|l| l == *lock).unwrap_or(false);
    ctx.count(&format!("revpair-decode:{}:{}", what, r.is_ok()));
    if r.is_ok() != should {
        ctx.violation(
            &format!("decoding a revocation pair ({}) {} although lock {} canonical-SHA3(secret, index)", what, if r.is_ok() { "succeeds" } else { "fails" }, if should { "==" } else { "!=" }),
            json!({"class": format!("revpair-decode-{}", what), "lock": hex_s(lock), "secret": hex_s(secret), "index": index, "digest": hex::encode(d)}),
        );
    }
}

fn decode_cases(ctx: &mut Ctx, idx: usize) {
    if !ctx.begin_case(idx, "revpair-decode") {
        return;
    }
    // secrets by digest class at index 0: canonical, non-canonical with leading byte 0x73, other non-canonical
    let start: u64 = ctx.prng.gen::<u32>() as u64;
    let (mut canon, mut window, mut big) = (None, None, None);
    let mut k = start;
    while (canon.is_none() || window.is_none() || big.is_none()) && k < start + 200_000 {
        let s = Scalar::from(k);
        let d = digest_of(&s, 0);
        match canonical(&d) {
            Some(_) => if canon.is_none() { canon = Some(s) },
            None => if d[31] == 0x73 { if window.is_none() { window = Some(s) } } else if big.is_none() { big = Some(s) },
        }
        k += 1;
    }
    if let Some(s) = canon {
        let l = canonical(&digest_of(&s, 0)).unwrap();
        decode_check(ctx, &l, &s, 0, "valid");
        decode_check(ctx, &(l + Scalar::one()), &s, 0, "lock-altered");
        // structured alterations of the lock's encoding: one byte, two bytes under the same mask, two bytes swapped
        {
            let lb = l.to_bytes();
            let (i, j) = (ctx.prng.gen_range(0..31usize), ctx.prng.gen_range(0..31usize));
            let mask: u8 = 1 << ctx.prng.gen_range(0..8);
            let mut alts: Vec<(&str, [u8; 32])> = vec![];
            let mut x = lb; x[i] ^= mask; alts.push(("lock-one-byte", x));
            if i != j { let mut x = lb; x[i] ^= mask; x[j] ^= mask; alts.push(("lock-two-bytes-same-mask", x)); }
            { let mut x = lb; x[0] ^= 1; x[1] ^= 1; alts.push(("lock-two-bytes-same-mask", x)); }
            if i != j && lb[i] != lb[j] { let mut x = lb; x.swap(i, j); alts.push(("lock-two-bytes-swapped", x)); }
            for (what, x) in alts {
                if let Some(l2) = Option::<Scalar>::from(Scalar::from_bytes(&x)) { if l2 != l { decode_check(ctx, &l2, &s, 0, what); } }
            }
        }
        decode_check(ctx, &l, &(s + Scalar::one()), 0, "secret-altered");
        decode_check(ctx, &l, &s, 1, "index-altered");
        decode_check(ctx, &Scalar::zero(), &s, 0, "lock-zero");
    }
    for (s, what) in [(window, "digest-noncanonical-leading-0x73"), (big, "digest-noncanonical")] {
        if let Some(s) = s {
            let d = digest_of(&s, 0);
            decode_check(ctx, &reduced(&d), &s, 0, what);
            let rl = rand_scalar(&mut ctx.prng);
            decode_check(ctx, &rl, &s, 0, what);
            ctx.count(&format!("digest-class:{}", what));
        } else {
            ctx.notes.push(format!("no secret found for digest class {}", what));
        }
    }
    // secrets whose index-0 digest lies just above q (sharing its leading 26..32+ bits, table in revsecrets.rs): a
    // canonicity test cut short after the leading bytes or the leading word takes the digest for canonical
    {
        let tab = crate::revsecrets::near_q_secrets();
        for t in 0..tab.len().min(if ctx.thorough() { 64 } else { 6 }) {
            // the closest ones first, then a rotating sample
            let (s, bits) = if t < 3 { tab[t] } else { tab[(t + idx) % tab.len()] };
            let d = digest_of(&s, 0);
            decode_check(ctx, &reduced(&d), &s, 0, "digest-just-above-q");
            ctx.count(&format!("digest-just-above-q:{}-leading-bits-shared", bits));
        }
    }
    // random secrets and indices with the matching lock when it exists
    for _ in 0..20 {
        let s = rand_scalar(&mut ctx.prng);
        let i: u8 = ctx.prng.gen_range(0..4);
        let d = digest_of(&s, i);
        match canonical(&d) {
            Some(l) => decode_check(ctx, &l, &s, i, "valid-random"),
            None => decode_check(ctx, &reduced(&d), &s, i, "digest-noncanonical-random"),
        }
    }
}

/// `RevocationPair::new` under scripted secrets (chosen so that the index loop advances)
fn generate_cases(ctx: &mut Ctx, idx: usize) {
    if !ctx.begin_case(idx, "revpair-new") {
        return;
    }
    let book = ctx.book.clone();
    // one secret whose index-0 digest is non-canonical with leading byte 0x73 (just above the modulus)
    let start: u64 = ctx.prng.gen::<u32>() as u64;
    let window = (start..start + 200_000).map(Scalar::from).find(|s| { let d = digest_of(s, 0); canonical(&d).is_none() && d[31] == 0x73 });
    for it in 0..6 {
        // it = 1, 2: secrets whose index loop runs long (first canonical digest at index 30..38, table in revsecrets.rs)
        // it = 3, 4: secrets whose index-0 digest lies just above q (the closest of the table, and a rotating one)
        let near = crate::revsecrets::near_q_secrets();
        let secret = match (it, window) {
            (0, Some(s)) => s,
            (1, _) | (2, _) => crate::revsecrets::next_long_loop(ctx).map(|x| x.0).unwrap_or_else(|| rand_scalar(&mut ctx.prng)),
            (3, _) if !near.is_empty() => near[0].0,
            (4, _) if !near.is_empty() => near[idx % near.len()].0,
            _ => rand_scalar(&mut ctx.prng),
        };
        let mut rng = ScriptedRng::new(ctx.prng.gen(), book.clone());
        rng.force_scalars(&[secret]);
        let p = match std::panic::catch_unwind(std::panic::AssertUnwindSafe(|| zkabacus_crypto::internal::test_new_revocation_pair(&mut rng))) {
            Ok(p) => p,
            Err(_) => {
                ctx.count("revpair-new:PANIC");
                ctx.violation(&format!("RevocationPair::new panics for a secret whose first canonical SHA3(secret || index) is at index {:?}", crate::revsecrets::first_valid_index(&secret, 255)), json!({"class": "revpair-new-panics", "secret": hex_s(&secret)}));
                continue;
            }
        };
        let pb = wire::ser(&p);
        let (lock, sec, index) = (s_at(&pb, 0).unwrap(), s_at(&pb, 32).unwrap(), pb[64]);
        let upto = crate::revsecrets::first_valid_index(&secret, 255).unwrap_or(255).max(index).min(80);
        let digests: Vec<String> = (0..=upto).map(|i| hex::encode(digest_of(&secret, i))).collect();
        let stream = stream_arg(&book, &rng.log, &[]);
        let _ = ctx.expect(&format!("revpair-new {} {}", digests.join(","), stream), &[Real::V("ok".into()), Real::S(lock), Real::S(sec), Real::N(index as u128), Real::N(0)]);
        let _ = ctx.expect(&format!("revpair-new-sha3 {}", stream), &[Real::V("ok".into()), Real::S(lock), Real::S(sec), Real::N(index as u128), Real::N(0)]);
        let inv = sec == secret && canonical(&digest_of(&sec, index)) == Some(lock) && (0..index).all(|i| canonical(&digest_of(&sec, i)).is_none());
        ctx.count(&format!("revpair-new:index={}:{}", index.min(3), if inv { "invariant" } else { "BROKEN" }));
        if !inv {
            ctx.violation("RevocationPair::new returned a pair whose lock is not canonical-SHA3(secret, index) for the first canonical index", json!({"class": "revpair-new-invariant", "secret": hex_s(&secret), "index": index, "lock": hex_s(&lock)}));
        }
    }
}

fn payment_cases(ctx: &mut Ctx, idx: usize, w: &World, w2: &World) {
    if !ctx.begin_case(idx, "complete-payment") {
        return;
    }
    let book = ctx.book.clone();
    let a = Agreed::random(ctx);
    let mut s = match open_session(ctx, w, &a) { Some(s) => s, None => return };
    // a second session (other channel) supplies foreign pairs
    let a2 = Agreed::random(ctx);
    let mut s2 = match open_session(ctx, w2, &a2) { Some(s) => s, None => return };
    let foreign = {
        let amt = valid_amount(ctx, s2.cb, s2.mb);
        let ready = s2.ready.take().unwrap();
        match pay_start(ctx, w2, &a2, ready, amt) {
            StartOutcome::Started(r) => {
                let sb = wire::ser(&r.started);
                // old state's pair: lock 64..96 | secret 96..128 | index 128 within the old state at offset 145
                Some((wire::de::<RevocationPair>(&sb[145 + 64..145 + 129]).unwrap(), r.bf_rl))
            }
            _ => None,
        }
    };
    let amt = valid_amount(ctx, s.cb, s.mb);
    let ready = s.ready.take().unwrap();
    let run = match pay_start(ctx, w, &a, ready, amt) { StartOutcome::Started(r) => *r, _ => return };
    let out = match allow_check(ctx, w, &run.nonce_s, amt, &a.ctx_bytes, &run.d, Some(true), "honest") { Some(o) => o, None => return };
    let (mut unrevoked, closing) = match out.accepted { Some(x) => x, None => return };
    let (_locked, lockmsg) = match run.started.lock(closing, &w.customer) { Ok(x) => x, Err(_) => { ctx.violation("honest customer refused the closing signature", json!({"class": "honest-lock-refused"})); return; } };
    let right_pair = lockmsg.revocation_pair;
    let right_bf_s = run.bf_rl;
    let rpb = wire::ser(&right_pair);
    let right_lock = s_at(&rpb, 0).unwrap();
    if right_lock != run.old_ms[2] {
        ctx.violation("the lock message does not reveal the old state's revocation pair", json!({"class": "lock-message-wrong-pair"}));
    }
    // the new state's own (not yet revealed) pair, from the customer's serialized state
    let lb = wire::ser(&_locked);
    let new_pair: RevocationPair = wire::de(&lb[64..129]).unwrap();
    let mut attempts: Vec<(&str, RevocationPair, Scalar)> = vec![];
    attempts.push(("new-state-pair", new_pair, right_bf_s));
    if let Some((fp, fbf)) = foreign {
        attempts.push(("pair-from-another-channel", wire::de(&wire::ser(&fp)).unwrap(), right_bf_s));
        attempts.push(("pair-and-bf-from-another-channel", fp, fbf));
    }
    attempts.push(("right-pair-wrong-bf", wire::de(&rpb).unwrap(), perturb(&mut ctx.prng, &right_bf_s)));
    attempts.push(("right-pair-zero-bf", wire::de(&rpb).unwrap(), Scalar::zero()));
    // candidates *solved* with the discrete logs of the commitment parameters (a party who knows a relation between
    // h and g can do this): an unrelated valid pair, or the right one, with the blinding factor chosen so that the
    // recomputed commitment is k*C for k = -1 (same x-coordinate), 2 and 0 (the identity) - none of them opens C
    if w.rev_h != Scalar::zero() {
        let hinv = w.rev_h.invert().unwrap();
        let new_lock = s_at(&lb, 64).unwrap();
        for (what, k) in [("unrelated-pair-solved-to-minus-C", -Scalar::one()), ("unrelated-pair-solved-to-2C", Scalar::from(2u64)), ("unrelated-pair-solved-to-identity", Scalar::zero())] {
            if k * run.d.rl.c == run.d.rl.c { continue; }
            attempts.push((what, wire::de(&lb[64..129]).unwrap(), (k * run.d.rl.c - w.rev_g * new_lock) * hinv));
        }
        if run.d.rl.c != Scalar::zero() {
            attempts.push(("right-pair-solved-to-minus-C", wire::de(&rpb).unwrap(), (-run.d.rl.c - w.rev_g * right_lock) * hinv));
            attempts.push(("right-pair-negated-bf", wire::de(&rpb).unwrap(), -right_bf_s));
        }
    }
    // random order, random-length prefix
    for i in (1..attempts.len()).rev() { let j = ctx.prng.gen_range(0..=i); attempts.swap(i, j); }
    let n_bad = ctx.prng.gen_range(0..=attempts.len());
    for (what, pair, bf) in attempts.into_iter().take(n_bad) {
        let pb = wire::ser(&pair);
        let lock = s_at(&pb, 0).unwrap();
        let mut rng = ScriptedRng::new(ctx.prng.gen(), book.clone());
        let bff: RevocationLockBlindingFactor = wire::de(&wire::enc_s(&bf)).unwrap();
        let r = unrevoked.complete_payment(&mut rng, &pair, &bff);
        let u = rng.scalars_in_log().first().cloned().unwrap_or(Scalar::zero());
        let op = format!("complete-payment {} {} {} {} {} {} {} {} {}", hex_s(&w.kpd.pk.g1), hex_s(&w.kpd.x1), hex_s(&w.rev_h), hex_s(&w.rev_g), hex_s(&run.d.rl.c), hex_s(&run.d.st.c), hex_s(&lock), hex_s(&bf), hex_s(&u));
        match r {
            Ok(tok) => {
                let tb = wire::ser(&tok);
                use crate::props::c09::HG;
                let _ = ctx.expect(&op, &[Real::V("ok".into()), bls12_381::G1Projective::real_bytes(&tb[..48]).unwrap(), bls12_381::G1Projective::real_bytes(&tb[48..96]).unwrap()]);
                ctx.count(&format!("complete-payment:{}:issued", what));
                ctx.violation(&format!("a pay token was issued against {}", what), json!({"class": format!("token-issued-against-{}", what), "lock": hex_s(&lock), "bf": hex_s(&bf)}));
                return;
            }
            Err(un) => {
                let _ = ctx.expect(&op, &[Real::V("error".into())]);
                ctx.count(&format!("complete-payment:{}:refused", what));
                unrevoked = un;
            }
        }
    }
    // the right pair still completes the payment on the handed-back Unrevoked
    let mut rng = ScriptedRng::new(ctx.prng.gen(), book.clone());
    let bff: RevocationLockBlindingFactor = wire::de(&wire::enc_s(&right_bf_s)).unwrap();
    let r = unrevoked.complete_payment(&mut rng, &right_pair, &bff);
    let u = rng.scalars_in_log().first().cloned().unwrap_or(Scalar::zero());
    let op = format!("complete-payment {} {} {} {} {} {} {} {} {}", hex_s(&w.kpd.pk.g1), hex_s(&w.kpd.x1), hex_s(&w.rev_h), hex_s(&w.rev_g), hex_s(&run.d.rl.c), hex_s(&run.d.st.c), hex_s(&right_lock), hex_s(&right_bf_s), hex_s(&u));
    match r {
        Ok(tok) => {
            let tb = wire::ser(&tok);
            use crate::props::c09::HG;
            let _ = ctx.expect(&op, &[Real::V("ok".into()), bls12_381::G1Projective::real_bytes(&tb[..48]).unwrap(), bls12_381::G1Projective::real_bytes(&tb[48..96]).unwrap()]);
            ctx.count(&format!("complete-payment:right-pair-after-{}-refusals:issued", n_bad));
            // the accepted pair contains the preimage of the old state's lock
            let (sec, index) = (s_at(&rpb, 32).unwrap(), rpb[64]);
            if canonical(&digest_of(&sec, index)) != Some(run.old_ms[2]) {
                ctx.violation("the accepted revocation pair's secret does not hash to the old state's lock", json!({"class": "accepted-pair-not-preimage"}));
            }
        }
        Err(_) => {
            let _ = ctx.expect(&op, &[Real::V("error".into())]);
            ctx.violation(&format!("the right revocation pair was refused after {} failed attempts", n_bad), json!({"class": "right-pair-refused", "failed_attempts": n_bad}));
        }
    }
    let _ = pk_args as fn(&crate::wire::PkD) -> String;
}

/// The revocation-lock commitment must *bind* the lock, or "a pair that opens the commitment" says nothing about
/// the old state's lock.  For parameters produced by the library's own generator (`PedersenParameters::new`, as
/// `merchant::Config::new` uses it) under a stream of distinct draws, `h` and `g` must not stand in a publicly known
/// relation; if they do (`h = ±g`), the attack is run through the real API: an unrelated valid pair with the
/// blinding factor shifted by the difference of the locks is offered to `complete_payment`.
fn generated_parameters_case(ctx: &mut Ctx, idx: usize, w: &World) {
    if !ctx.begin_case(idx, "generated-revocation-parameters") {
        return;
    }
    let book = ctx.book.clone();
    let mut rng = ScriptedRng::new(ctx.prng.gen(), book.clone());
    let pp = zkchannels_crypto::pedersen::PedersenParameters::<bls12_381::G1Projective, 1>::new(&mut rng);
    let (h, gs) = match crate::props::c09::params_dlogs(&book, &pp) { Some(x) => x, None => { ctx.broken("generated revocation parameters have unknown discrete logs"); return; } };
    let g = gs[0];
    ctx.evals += 1;
    let sign = if h == g { Some(Scalar::one()) } else if h == -g { Some(-Scalar::one()) } else { None };
    ctx.count(&format!("generated-revocation-parameters:{}", if sign.is_some() { "H-IS-PLUS-MINUS-G" } else { "independent" }));
    let sign = match sign { Some(s) => s, None => return };
    // exhibit it on a payment
    let w3 = match world_from(ctx, &w.kpd, h, g, &w.rpd) { Some(w) => w, None => return };
    let a = Agreed::random(ctx);
    let mut s = match open_session(ctx, &w3, &a) { Some(s) => s, None => return };
    let amt = valid_amount(ctx, s.cb, s.mb);
    let ready = s.ready.take().unwrap();
    let run = match pay_start(ctx, &w3, &a, ready, amt) { StartOutcome::Started(r) => *r, _ => return };
    let out = match allow_check(ctx, &w3, &run.nonce_s, amt, &a.ctx_bytes, &run.d, Some(true), "honest") { Some(o) => o, None => return };
    let (unrevoked, _closing) = match out.accepted { Some(x) => x, None => return };
    let mut rng = ScriptedRng::new(ctx.prng.gen(), book.clone());
    let decoy = zkabacus_crypto::internal::test_new_revocation_pair(&mut rng);
    let decoy_lock = s_at(&wire::ser(&decoy), 0).unwrap();
    // C = bf·h + lock·g = bf'·h + lock'·g  with  bf' = bf + (lock - lock')·(g/h),  g/h = ±1
    let bf2 = run.bf_rl + (run.old_ms[2] - decoy_lock) * sign;
    let bff: RevocationLockBlindingFactor = wire::de(&wire::enc_s(&bf2)).unwrap();
    let issued = unrevoked.complete_payment(&mut rng, &decoy, &bff).is_ok();
    ctx.violation(
        &format!("the generated revocation-commitment parameters have h = {}g, so the commitment does not bind the lock: complete_payment {} a pay token for an unrelated pair whose secret is not the preimage of the old state's lock", if sign == Scalar::one() { "" } else { "-" }, if issued { "issued" } else { "refused" }),
        json!({"class": "generated-revocation-parameters-not-binding", "token_issued_for_unrelated_pair": issued, "decoy_lock": hex_s(&decoy_lock), "old_lock": hex_s(&run.old_ms[2])}),
    );
}

pub fn run(ctx: &mut Ctx) {
    let mut idx = 0;
    for _ in 0..(if ctx.thorough() { 6 } else { 1 }) {
        idx += 1; decode_cases(ctx, idx * ctx.nshards + ctx.shard);
        idx += 1; generate_cases(ctx, idx * ctx.nshards + ctx.shard);
    }
    let w = match world(ctx, false) { Some(w) => w, None => return };
    let w2 = match world(ctx, false) { Some(w) => w, None => return };
    let n = if ctx.thorough() { 12 * ctx.nshards } else { ctx.nshards };
    for k in 0..n {
        payment_cases(ctx, 1024 * ctx.nshards + k, &w, &w2);
    }
    generated_parameters_case(ctx, 4096 * ctx.nshards + ctx.shard, &w);
}
