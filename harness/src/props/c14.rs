//! C14 — customer messages reuse no value the merchant has seen and expose no secret: an atom scan
//! (48 / 96 / 32-byte group elements and scalars) over every message, in both directions, of
//! multi-channel multi-payment histories of the real code, incl. closes from every stage; plus a
//! scan for the secrets held in the customer state at the time each message is sent.  The customer
//! steps run through the same model-compared helpers as C01 / C02 / C03 (all proof atoms and the
//! closing signature are compared with the model's functions of the recovered draws).
use crate::abacus::*;
use crate::codec;
use crate::history::*;
use crate::report::Ctx;
use crate::rng::ScriptedRng;
use crate::session::*;
use crate::wire;
use bls12_381::Scalar;
use rand::Rng;
use serde_json::json;
use std::collections::HashMap;

pub struct View {
    exprs: HashMap<&'static str, String>,
    /// atom bytes -> (message label, atom index) of the first message that contained it
    seen: HashMap<Vec<u8>, String>,
    pub customer_atoms: u64,
    pub merchant_atoms: u64,
}

impl View {
    pub fn new() -> View {
        let mut exprs = HashMap::new();
        for e in codec::registry() { exprs.insert(e.name, e.expr); }
        View { exprs, seen: HashMap::new(), customer_atoms: 0, merchant_atoms: 0 }
    }
    fn atoms(&self, ty: &str, bytes: &[u8]) -> Option<Vec<(usize, usize, char)>> {
        codec::layout(self.exprs.get(ty)?, bytes)
    }
    /// a message / parameter set the merchant already knows (its own replies, public parameters)
    pub fn merchant_side(&mut self, ctx: &mut Ctx, label: &str, ty: &str, bytes: &[u8]) {
        match self.atoms(ty, bytes) {
            Some(at) => for (i, (o, l, k)) in at.iter().enumerate() {
                if matches!(k, 'S' | 'A' | 'B') { self.seen.entry(bytes[*o..*o + *l].to_vec()).or_insert(format!("{} atom {}", label, i)); self.merchant_atoms += 1; }
            },
            None => ctx.broken(&format!("cannot lay out {} as {}", label, ty)),
        }
    }
    /// a customer-to-merchant message: no atom may have been seen before
    pub fn customer_message(&mut self, ctx: &mut Ctx, label: &str, ty: &str, bytes: &[u8]) {
        let at = match self.atoms(ty, bytes) { Some(a) => a, None => { ctx.broken(&format!("cannot lay out {} as {}", label, ty)); return; } };
        let mut fresh: Vec<(Vec<u8>, String)> = vec![];
        for (i, (o, l, k)) in at.iter().enumerate() {
            if !matches!(k, 'S' | 'A' | 'B') { continue; }
            let a = bytes[*o..*o + *l].to_vec();
            self.customer_atoms += 1;
            ctx.evals += 1;
            if let Some(first) = self.seen.get(&a) {
                ctx.violation(&format!("{}: atom {} ({} bytes) equals a value the merchant has already seen in {}", label, i, l, first),
                    json!({"class": format!("atom-reused:{}", label.split('#').next().unwrap_or(label)), "atom_index": i, "atom": hex::encode(&a), "first_seen": first, "message": label}));
            }
            fresh.push((a, format!("{} atom {}", label, i)));
        }
        for (a, l) in fresh { self.seen.entry(a).or_insert(l); }
    }
    /// a message the customer *would* send under a degenerate draw: its G1 elements — the shown signatures
    /// ("every signature is re-randomized before it is shown") and the G1 commitments — are checked against
    /// everything seen so far, not recorded.  The identity (what a zero re-randomiser legitimately yields) is
    /// skipped; G2 commitments and scalars are not examined: under a zero blinding factor a digit commitment is
    /// `d·Y~` (for d = 1 a public parameter) — a probability-1/q event outside the statement, not a reuse defect.
    pub fn probe_message(&mut self, ctx: &mut Ctx, label: &str, ty: &str, bytes: &[u8]) {
        let at = match self.atoms(ty, bytes) { Some(a) => a, None => { ctx.broken(&format!("cannot lay out {} as {}", label, ty)); return; } };
        for (i, (o, l, k)) in at.iter().enumerate() {
            if *k != 'A' { continue; }
            let a = &bytes[*o..*o + *l];
            if a[0] == 0xc0 && a[1..].iter().all(|b| *b == 0) { continue; }
            ctx.evals += 1;
            if let Some(first) = self.seen.get(a) {
                ctx.violation(&format!("{}: atom {} ({} bytes) equals a value the merchant has already seen in {}", label, i, l, first),
                    json!({"class": format!("atom-reused-under-degenerate-draw:{}", label.split('#').next().unwrap_or(label)), "atom_index": i, "atom": hex::encode(a), "first_seen": first, "message": label}));
            }
        }
    }
    /// secrets held by the customer when a message has just been sent
    pub fn secrets(&mut self, ctx: &mut Ctx, label: &str, secrets: &[(String, [u8; 32])]) {
        for (name, s) in secrets {
            ctx.evals += 1;
            if let Some(first) = self.seen.get(&s.to_vec()) {
                ctx.violation(&format!("after {}: the customer's secret {} occurs in {}", label, name, first),
                    json!({"class": format!("secret-exposed:{}", name.split(':').last().unwrap_or(name)), "secret": name, "occurs_in": first, "after": label}));
            }
        }
    }
}

fn sl32(b: &[u8], o: usize) -> [u8; 32] { let mut a = [0u8; 32]; a.copy_from_slice(&b[o..o + 32]); a }
fn bal32(b: &[u8], o: usize) -> [u8; 32] { let mut a = [0u8; 8]; a.copy_from_slice(&b[o..o + 8]); Scalar::from(u64::from_le_bytes(a)).to_bytes() }

/// secret scalars of a serialized `State` at offset `o`: nonce (unless revealed), lock, secret
fn state_secrets(tag: &str, b: &[u8], o: usize, nonce_revealed: bool, hidden_balances: bool, out: &mut Vec<(String, [u8; 32])>) {
    if !nonce_revealed { out.push((format!("{}:nonce", tag), sl32(b, o + 32))); }
    out.push((format!("{}:revocation-lock", tag), sl32(b, o + 64)));
    out.push((format!("{}:revocation-secret", tag), sl32(b, o + 96)));
    if hidden_balances {
        out.push((format!("{}:merchant-balance", tag), bal32(b, o + 129)));
        out.push((format!("{}:customer-balance", tag), bal32(b, o + 137)));
    }
}

fn stage_secrets(s: &Stage, hidden_balances: bool) -> Vec<(String, [u8; 32])> {
    let b = s.bytes();
    let mut v = vec![];
    match s {
        Stage::Requested(_) => { state_secrets("state", &b, 0, false, false, &mut v); v.push(("close-state:blinding-factor".into(), sl32(&b, 145))); v.push(("pay-token:blinding-factor".into(), sl32(&b, 177))); }
        Stage::Inactive(_) => { state_secrets("state", &b, 0, false, false, &mut v); v.push(("pay-token:blinding-factor".into(), sl32(&b, 145))); }
        Stage::Ready(_) => state_secrets("state", &b, 0, false, hidden_balances, &mut v),
        Stage::Started(_) => {
            state_secrets("new-state", &b, 0, false, hidden_balances, &mut v);
            state_secrets("old-state", &b, 145, true, hidden_balances, &mut v);
            v.push(("revocation-lock:blinding-factor".into(), sl32(&b, 290)));
            v.push(("pay-token:blinding-factor".into(), sl32(&b, 322)));
            v.push(("close-state:blinding-factor".into(), sl32(&b, 354)));
        }
        Stage::Locked(_) => { state_secrets("state", &b, 0, false, hidden_balances, &mut v); v.push(("pay-token:blinding-factor".into(), sl32(&b, 145))); }
    }
    v
}

struct Chan {
    a: Agreed,
    stage: Option<Stage>,
    cb: u64,
    mb: u64,
    payments: usize,
    closed: bool,
    tag: String,
}

fn close_channel(ctx: &mut Ctx, w: &World, view: &mut View, ch: &mut Chan) {
    let stage = match ch.stage.take() { Some(s) => s, None => return };
    // secrets that stay secret after a close: everything but the lock of the state closed on
    let name = stage.name();
    let mut secrets = stage_secrets(&stage, false);
    let out = match close_checked(ctx, w, stage, false) { Some(o) => o, None => { ctx.broken("close failed"); return; } };
    let lock_closed = sl32(&out.bytes, 128);
    secrets.retain(|(n, s)| !(n.ends_with("revocation-lock") && *s == lock_closed));
    let label = format!("closing-message-from-{}#{}", name, ch.tag);
    view.customer_message(ctx, &label, "customer::ClosingMessage", &out.bytes);
    view.secrets(ctx, &label, &secrets);
    ctx.count(&format!("message:closing:{}", name));
    ch.closed = true;
}

/// Degenerate randomness: one scalar draw of `start` / `close` forced to zero, at every position in turn.
/// Whatever the message then contains, it must not be a value the merchant has already seen (a zero
/// re-randomiser may yield the identity, never the stored signature).
fn zero_draw_probes(ctx: &mut Ctx, w: &World, view: &mut View, ch: &Chan) {
    let book = ctx.book.clone();
    let stage = match &ch.stage { Some(s) => s, None => return };
    let bytes = stage.bytes();
    // close with a zero re-randomiser, from this stage
    if !matches!(stage, Stage::Requested(_)) {
        if let Ok(copy) = stage.restore() {
            let name = copy.name();
            let mut rng = ScriptedRng::new(ctx.prng.gen(), book.clone());
            rng.force_scalars(&[Scalar::zero()]);
            let cm = match copy { Stage::Inactive(x) => Some(x.close(&mut rng)), Stage::Ready(x) => Some(x.close(&mut rng)), Stage::Started(x) => Some(x.close(&mut rng)), Stage::Locked(x) => Some(x.close(&mut rng)), _ => None };
            if let Some(cm) = cm {
                view.probe_message(ctx, &format!("closing-message-from-{}-with-zero-randomiser#{}", name, ch.tag), "customer::ClosingMessage", &wire::ser(&cm));
                ctx.count("probe:close-zero-randomiser");
            }
        }
    }
    if let Stage::Ready(_) = stage {
        let amount = crate::props::c02::valid_amount(ctx, ch.cb, ch.mb);
        // how many scalars does start draw?
        let n = {
            let r: zkabacus_crypto::customer::Ready = match wire::de(&bytes) { Ok(r) => r, Err(_) => return };
            let mut rng = ScriptedRng::new(ctx.prng.gen(), book.clone());
            let _ = r.start(&mut rng, amount_of(amount), &ch.a.context(), &w.customer);
            rng.scalars_in_log().len()
        };
        let stride = if ctx.thorough() { 1 } else { (n / 24).max(1) };
        let off = ctx.prng.gen_range(0..stride);
        for k in (off..n).step_by(stride) {
            let r: zkabacus_crypto::customer::Ready = match wire::de(&bytes) { Ok(r) => r, Err(_) => return };
            let mut rng = ScriptedRng::new(ctx.prng.gen(), book.clone());
            let mut forced: Vec<Scalar> = (0..k).map(|_| crate::gen::nonzero(&mut ctx.prng)).collect();
            forced.push(Scalar::zero());
            rng.force_scalars(&forced);
            let _ = zkchannels_crypto::proofs::verif_hooks::drain_challenges();
            if let Ok((_started, msg)) = r.start(&mut rng, amount_of(amount), &ch.a.context(), &w.customer) {
                let label = format!("pay-message-with-scalar-draw-{}-zero#{}", k, ch.tag);
                view.probe_message(ctx, &format!("{}(nonce)", label), "Nonce", &wire::ser(&msg.nonce));
                view.probe_message(ctx, &label, "PayProof", &wire::ser(&msg.pay_proof));
                ctx.count("probe:start-zero-draw");
            }
            let _ = zkchannels_crypto::proofs::verif_hooks::drain_challenges();
        }
    }
}

/// An entropy source whose `try_fill_bytes` reports an error (buffer untouched) while `fill_bytes` works is a legal
/// `RngCore`.  Every customer message must be the same as under the ordinary source with the same stream: a library that
/// reads randomness through the fallible interface and drops the error would send messages built from constants
/// (unblinded commitments, a zero blinding factor in every lock message).  A panic instead of a message is not a violation.
fn fallible_entropy_probe(ctx: &mut Ctx, w: &World, ch: &Chan) {
    let book = ctx.book.clone();
    let seed: u64 = ctx.prng.gen();
    let run = |fail: bool, what: usize, stage_bytes: &[u8], amount: i64| -> Option<Vec<u8>> {
        let mut rng = ScriptedRng::new(seed, book.clone());
        rng.fail_try = fail;
        let ctxt = ch.a.context();
        std::panic::catch_unwind(std::panic::AssertUnwindSafe(|| -> Option<Vec<u8>> {
            match what {
                0 => {
                    let (mbal, cbal) = (zkabacus_crypto::MerchantBalance::try_new(ch.a.mb).ok()?, zkabacus_crypto::CustomerBalance::try_new(ch.a.cb).ok()?);
                    let (rq, proof) = zkabacus_crypto::customer::Requested::new(&mut rng, &w.customer, ch.a.cid, mbal, cbal, &ctxt);
                    let mut b = wire::ser(&proof); b.extend(wire::ser(&rq)); Some(b)
                }
                1 => {
                    let r: zkabacus_crypto::customer::Ready = wire::de(stage_bytes).ok()?;
                    let (st, msg) = r.start(&mut rng, amount_of(amount), &ctxt, &w.customer).ok()?;
                    let mut b = wire::ser(&msg.nonce); b.extend(wire::ser(&msg.pay_proof)); b.extend(wire::ser(&st)); Some(b)
                }
                _ => {
                    let r: zkabacus_crypto::customer::Ready = wire::de(stage_bytes).ok()?;
                    Some(wire::ser(&r.close(&mut rng)))
                }
            }
        })).ok().flatten()
    };
    let _ = zkchannels_crypto::proofs::verif_hooks::drain_challenges();
    let stage_bytes = match &ch.stage { Some(s @ Stage::Ready(_)) => Some(s.bytes()), _ => None };
    let amount = crate::props::c02::valid_amount(ctx, ch.cb, ch.mb);
    for what in 0..3usize {
        let sb: Vec<u8> = match (what, &stage_bytes) { (0, _) => vec![], (_, Some(b)) => b.clone(), _ => continue };
        let normal = run(false, what, &sb, amount);
        let failing = run(true, what, &sb, amount);
        ctx.evals += 1;
        let name = ["Requested::new", "Ready::start", "Ready::close"][what];
        match (&normal, &failing) {
            (Some(a), Some(b)) if a == b => ctx.count(&format!("fallible-entropy:{}:same-message", name)),
            (_, None) => ctx.count(&format!("fallible-entropy:{}:no-message", name)),
            (Some(_), Some(b)) => {
                ctx.count(&format!("fallible-entropy:{}:DIFFERENT-MESSAGE", name));
                ctx.violation(&format!("{} sends a different message when the entropy source's try_fill_bytes reports an error (fill_bytes unaffected): randomness read through the fallible interface is silently replaced", name),
                    json!({"class": "message-depends-on-fallible-entropy-interface", "call": name, "message_and_state": hex::encode(&b[..b.len().min(4096)])}));
            }
            (None, Some(_)) => ctx.count(&format!("fallible-entropy:{}:only-with-failing-source", name)),
        }
    }
    let _ = zkchannels_crypto::proofs::verif_hooks::drain_challenges();
}

fn establish(ctx: &mut Ctx, w: &World, view: &mut View, ch: &mut Chan) -> bool {
    let book = ctx.book.clone();
    let run = match establish_customer(ctx, w, &ch.a) { Some(r) => r, None => return false };
    let label = format!("establish-proof#{}", ch.tag);
    view.customer_message(ctx, &label, "EstablishProof", &wire::ser(&run.proof));
    ctx.count("message:establish-proof");
    let st = Stage::Requested(run.requested);
    view.secrets(ctx, &label, &stage_secrets(&st, false));
    let out = match initialize_check(ctx, w, &ch.a, &run.d, Some(true), "honest") { Some(o) => o, None => return false };
    let (closing, vbs) = match out.accepted { Some(x) => x, None => return false };
    view.merchant_side(ctx, &format!("closing-signature(establish)#{}", ch.tag), "ClosingSignature", &wire::ser(&closing));
    let bl = match check_blind_sig(ctx, w, &wire::ser(&closing), &match out.u { Some(u) => u, None => return false }, &run.d.cl.c, "closing-signature") { Some(b) => b, None => return false };
    let inactive = match st { Stage::Requested(r) => match r.complete(closing, &w.customer) { Ok(i) => i, Err(_) => return false }, _ => return false };
    if check_unblind(ctx, &bl, &run.bf_c, &wire::ser(&inactive)[177..273]).is_none() { return false; }
    ch.stage = Some(Stage::Inactive(inactive));
    if ctx.prng.gen_range(0..6) == 0 { close_channel(ctx, w, view, ch); return true; }
    let mut rng = ScriptedRng::new(ctx.prng.gen(), book.clone());
    let token = w.merchant.activate(&mut rng, vbs);
    view.merchant_side(ctx, &format!("pay-token(activate)#{}", ch.tag), "PayToken", &wire::ser(&token));
    let bl = match check_blind_sig(ctx, w, &wire::ser(&token), &match rng.scalars_in_log().first() { Some(u) => *u, None => return false }, &run.d.st.c, "pay-token") { Some(b) => b, None => return false };
    let ready = match ch.stage.take() { Some(Stage::Inactive(i)) => match i.activate(token, &w.customer) { Ok(r) => r, Err(_) => return false }, _ => return false };
    if check_unblind(ctx, &bl, &run.bf_s, &wire::ser(&ready)[145..241]).is_none() { return false; }
    ch.stage = Some(Stage::Ready(ready));
    true
}

fn pay(ctx: &mut Ctx, w: &World, view: &mut View, ch: &mut Chan) -> bool {
    let book = ctx.book.clone();
    let ready = match ch.stage.take() { Some(Stage::Ready(r)) => r, o => { ch.stage = o; return false; } };
    let amount = crate::props::c02::valid_amount(ctx, ch.cb, ch.mb);
    let run = match pay_start(ctx, w, &ch.a, ready, amount) {
        StartOutcome::Started(r) => *r,
        StartOutcome::Refused(r, _) => { ch.stage = Some(Stage::Ready(r)); return true; }
        StartOutcome::Broken => return false,
    };
    ch.payments += 1;
    let label = format!("pay-message-{}#{}", ch.payments, ch.tag);
    view.customer_message(ctx, &format!("{}(nonce)", label), "Nonce", &wire::ser(&run.nonce));
    view.customer_message(ctx, &label, "PayProof", &wire::ser(&run.proof));
    ctx.count("message:pay");
    let st = Stage::Started(run.started);
    view.secrets(ctx, &label, &stage_secrets(&st, true));
    ch.stage = Some(st);
    let out = match allow_check(ctx, w, &run.nonce_s, amount, &ch.a.ctx_bytes, &run.d, Some(true), "honest") { Some(o) => o, None => return false };
    let (unrevoked, closing) = match out.accepted { Some(x) => x, None => return false };
    view.merchant_side(ctx, &format!("closing-signature(pay {})#{}", ch.payments, ch.tag), "ClosingSignature", &wire::ser(&closing));
    let bl = match check_blind_sig(ctx, w, &wire::ser(&closing), &match out.u { Some(u) => u, None => return false }, &run.d.cl.c, "closing-signature") { Some(b) => b, None => return false };
    // abort the payment and close on the old state
    if ctx.prng.gen_range(0..5) == 0 { close_channel(ctx, w, view, ch); return true; }
    let started = match ch.stage.take() { Some(Stage::Started(s)) => s, _ => return false };
    let (locked, lm) = match started.lock(closing, &w.customer) { Ok(x) => x, Err(_) => return false };
    if check_unblind(ctx, &bl, &run.bf_close, &wire::ser(&locked)[177..273]).is_none() { return false; }
    let mut lmb = wire::ser(&lm.revocation_pair);
    lmb.extend(wire::ser(&lm.revocation_lock_blinding_factor));
    let label = format!("lock-message-{}#{}", ch.payments, ch.tag);
    // lock 32 | secret 32 | index 1 | blinding factor 32
    for (o, what) in [(0usize, "lock"), (32, "secret"), (65, "blinding-factor")] {
        view.customer_message(ctx, &format!("{}({})", label, what), "BlindingFactor", &lmb[o..o + 32]);
    }
    ctx.count("message:lock");
    ch.cb = (ch.cb as i128 - amount as i128) as u64;
    ch.mb = (ch.mb as i128 + amount as i128) as u64;
    let st = Stage::Locked(locked);
    view.secrets(ctx, &label, &stage_secrets(&st, true));
    ch.stage = Some(st);
    if ctx.prng.gen_range(0..6) == 0 { close_channel(ctx, w, view, ch); return true; }
    let mut rng = ScriptedRng::new(ctx.prng.gen(), book.clone());
    let token = match unrevoked.complete_payment(&mut rng, &lm.revocation_pair, &lm.revocation_lock_blinding_factor) { Ok(t) => t, Err(_) => return false };
    view.merchant_side(ctx, &format!("pay-token(pay {})#{}", ch.payments, ch.tag), "PayToken", &wire::ser(&token));
    let bl = match check_blind_sig(ctx, w, &wire::ser(&token), &match rng.scalars_in_log().first() { Some(u) => *u, None => return false }, &run.d.st.c, "pay-token") { Some(b) => b, None => return false };
    let ready = match ch.stage.take() { Some(Stage::Locked(l)) => match l.unlock(token, &w.customer) { Ok(r) => r, Err(_) => return false }, _ => return false };
    if check_unblind(ctx, &bl, &run.bf_tok, &wire::ser(&ready)[145..241]).is_none() { return false; }
    ch.stage = Some(Stage::Ready(ready));
    true
}

pub fn run(ctx: &mut Ctx) {
    let n = if ctx.thorough() { 10 } else { 3 };
    let w = match world(ctx, false) { Some(w) => w, None => { ctx.broken("cannot build a world"); return; } };
    for k in 0..n {
        let idx = k * ctx.nshards + ctx.shard;
        if !ctx.begin_case(idx, "multi-channel-history") { continue; }
        let mut view = View::new();
        view.merchant_side(ctx, "public-parameters", "customer::Config", &wire::ser(&w.customer));
        let nch = ctx.prng.gen_range(2..=3);
        let mut chans: Vec<Chan> = (0..nch).map(|i| { let a = Agreed::random(ctx); Chan { cb: a.cb, mb: a.mb, a, stage: None, payments: 0, closed: false, tag: format!("channel-{}", i) } }).collect();
        let mut ok = true;
        for ch in chans.iter_mut() { if !establish(ctx, &w, &mut view, ch) { ok = false; } }
        // degenerate draws right after establishment (the merchant has issued a closing signature and a pay token)
        if let Some(ch) = chans.iter().find(|c| !c.closed && c.stage.is_some()) { zero_draw_probes(ctx, &w, &mut view, ch); fallible_entropy_probe(ctx, &w, ch); }
        // interleaved sessions
        let sessions = ctx.prng.gen_range(3..=6);
        for _ in 0..sessions {
            if !ok { break; }
            let i = ctx.prng.gen_range(0..chans.len());
            let ch = &mut chans[i];
            if ch.closed || ch.stage.is_none() { continue; }
            if !pay(ctx, &w, &mut view, ch) { ok = false; }
        }
        // degenerate draws, on every channel still open
        for ch in chans.iter() { if !ch.closed && ch.payments > 0 { zero_draw_probes(ctx, &w, &mut view, ch); } }
        // every channel still open is closed from wherever it stands (Ready)
        for ch in chans.iter_mut() { if ok && !ch.closed && ch.stage.is_some() { close_channel(ctx, &w, &mut view, ch); } }
        ctx.count(if ok { "history:complete" } else { "history:stopped-early" });
        ctx.count(&format!("channels:{}", nch));
        *ctx.dist.entry("atoms:customer-messages".into()).or_insert(0) += view.customer_atoms;
        *ctx.dist.entry("atoms:merchant-side".into()).or_insert(0) += view.merchant_atoms;
        ctx.traces += 1;
    }
}
