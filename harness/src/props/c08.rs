//! C08 — blind signing yields a signature on exactly the message proven in the request.
use crate::dl::{hex_s};
use crate::gen::*;
use crate::kit::*;
use crate::model::Tok;
use crate::props::c07::{pick_key, verify_check};
use crate::report::{Ctx, Real};
use crate::rng::ScriptedRng;
use crate::schnorr::*;
use crate::wire;
use bls12_381::Scalar;
use rand::Rng;

/// every single-atom tampering of a commitment-proof shaped request (+ the challenge)
pub fn tamperings(ctx: &mut Ctx, p: &CpD, c: &Scalar) -> Vec<(String, CpD, Scalar)> {
    let mut out = vec![];
    let mut scalar_alts = |ctx: &mut Ctx, s: &Scalar| -> Vec<Scalar> {
        let mut v = vec![s + Scalar::one(), s - Scalar::one(), rand_scalar(&mut ctx.prng)];
        if *s != Scalar::zero() {
            v.push(Scalar::zero());
        }
        v
    };
    for (k, alt) in scalar_alts(ctx, &p.c).into_iter().enumerate() {
        let mut q = p.clone();
        q.c = alt;
        out.push((format!("C#{}", k), q, *c));
    }
    for (k, alt) in scalar_alts(ctx, &p.t).into_iter().enumerate() {
        let mut q = p.clone();
        q.t = alt;
        out.push((format!("T#{}", k), q, *c));
    }
    for (k, alt) in scalar_alts(ctx, &p.zbf).into_iter().enumerate() {
        let mut q = p.clone();
        q.zbf = alt;
        out.push((format!("zbf#{}", k), q, *c));
    }
    // every response scalar; for long tuples both ends, the neighbourhood of 16 / 32 / 64 and a random sample
    let n = p.zs.len();
    let positions: Vec<usize> = if n <= 20 { (0..n).collect() } else {
        let mut v = vec![0, 1, n - 2, n - 1];
        for b in [16usize, 32, 64] { for d in [b - 1, b] { if d < n { v.push(d); } } }
        for _ in 0..4 { v.push(ctx.prng.gen_range(0..n)); }
        v.sort(); v.dedup();
        v
    };
    for i in positions {
        for (k, alt) in scalar_alts(ctx, &p.zs[i]).into_iter().enumerate() {
            let mut q = p.clone();
            q.zs[i] = alt;
            out.push((format!("z{}#{}", i, k), q, *c));
        }
    }
    for (k, alt) in scalar_alts(ctx, c).into_iter().enumerate() {
        out.push((format!("challenge#{}", k), p.clone(), alt));
    }
    // C and T swapped
    let mut q = p.clone();
    std::mem::swap(&mut q.c, &mut q.t);
    if q.c != p.c {
        out.push(("C-T-swapped".to_string(), q, *c));
    }
    out
}

fn one_case<const N: usize>(ctx: &mut Ctx, idx: usize) {
    if !ctx.begin_case(idx, &format!("request-N{}", N)) {
        return;
    }
    let book = ctx.book.clone();
    let (kp, kpd) = match pick_key::<N>(ctx, idx) {
        Some(k) => k,
        None => return,
    };
    let ms = edge_vec(&mut ctx.prng, N);
    let mut opts = [None; N];
    for o in opts.iter_mut() {
        match ctx.prng.gen_range(0..8) {
            0 | 1 => *o = Some(edge_scalar(&mut ctx.prng)),
            2 => *o = Some(Scalar::zero()),
            _ => {}
        }
    }
    // end to end on the real code alone, judged by the two-pairing oracle (independent of the model): an honest
    // request is accepted, and the signature obtained on it, unblinded, is a signature on the requester's tuple
    {
        use zkchannels_crypto::proofs::{ChallengeBuilder, SignatureRequestProofBuilder};
        let mut rng = ScriptedRng::new(ctx.prng.gen(), book.clone());
        let builder = SignatureRequestProofBuilder::<N>::generate_proof_commitments(&mut rng, wire::msg::<N>(&ms), &opts, kp.public_key());
        let bf = builder.message_blinding_factor();
        let ch = ChallengeBuilder::new().with(&builder).finish();
        let proof = builder.generate_proof_response(ch);
        let ch2 = ChallengeBuilder::new().with(&proof).finish();
        ctx.evals += 1;
        match proof.verify_knowledge_of_opening(kp.public_key(), ch2) {
            None => ctx.violation("an honest signature request is refused", serde_json::json!({"class": "honest-signature-request-rejected", "N": N})),
            Some(v) => {
                let sig = v.blind_sign(&kp, &mut rng).unblind(bf);
                let good = crate::props::c07::oracle(kp.public_key(), &sig, &ms);
                ctx.count(&format!("end-to-end:request-sign-unblind:{}", if good { "signature-on-the-tuple" } else { "NOT-ON-THE-TUPLE" }));
                if !good {
                    ctx.violation("the signature obtained on an honest request, unblinded with the request's blinding factor, is not a signature on the requester's message tuple (pairing oracle)", serde_json::json!({"class": "request-signature-not-on-the-tuple", "N": N, "message": crate::dl::hex_list(&ms)}));
                }
            }
        }
    }
    let (_proof, pd, w, c) = match srp_honest::<N>(ctx, kp.public_key(), &kpd.pk, &ms, &opts, ChalMode::Derived) {
        Some(x) => x,
        None => return,
    };
    // honest request → blind-signable value
    let vbm = match srp_verify_check::<N>(ctx, kp.public_key(), &kpd.pk, &pd, &c, Some(true), "honest-request") {
        Some(Some(v)) => v,
        _ => return,
    };
    // blind-sign it: sigma2 = u (x1 + v) pins v to the proof's commitment C
    let mut rng = ScriptedRng::new(ctx.prng.gen(), book.clone());
    let bsig = vbm.blind_sign(&kp, &mut rng);
    let us = rng.scalars_in_log();
    if us.len() != 1 {
        ctx.broken("blind_sign no longer draws exactly one scalar");
        return;
    }
    let op = format!("ps-blindsign {} {} {} {}", hex_s(&kpd.pk.g1), hex_s(&kpd.x1), hex_s(&us[0]), hex_s(&pd.c));
    let (ok, toks) = ctx.expect_toks(&op, &[Real::G1(bsig.sigma1()), Real::G1(bsig.sigma2())]);
    if !ok {
        ctx.violation("the blind-signed value is not the commitment the request proof is about", serde_json::json!({"class": "blind-signed-value-not-commitment", "N": N}));
        return;
    }
    let (b1, b2) = match (&toks[0], &toks[1]) { (Tok::S(a), Tok::S(b)) => (*a, *b), _ => return };
    let sig = bsig.unblind(wire::bf(&w.bf));
    let op = format!("ps-unblind {} {} {}", hex_s(&b1), hex_s(&b2), hex_s(&w.bf));
    if !ctx.expect(&op, &[Real::G1(sig.sigma1()), Real::G1(sig.sigma2())]) {
        return;
    }
    let _ = verify_check(ctx, kp.public_key(), &kpd.pk, &sig, &ms, Some(true), "request-signed-unblinded");
    for i in 0..N {
        let mut ms2 = ms.clone();
        ms2[i] = perturb(&mut ctx.prng, &ms[i]);
        let _ = verify_check(ctx, kp.public_key(), &kpd.pk, &sig, &ms2, Some(false), "request-signed-other-message");
    }
    let wrong = perturb(&mut ctx.prng, &w.bf);
    let sig_w = bsig.unblind(wire::bf(&wrong));
    let op = format!("ps-unblind {} {} {}", hex_s(&b1), hex_s(&b2), hex_s(&wrong));
    if ctx.expect(&op, &[Real::G1(sig_w.sigma1()), Real::G1(sig_w.sigma2())]) {
        let _ = verify_check(ctx, kp.public_key(), &kpd.pk, &sig_w, &ms, Some(false), "request-signed-wrong-bf");
    }
    // a request carrying a curve point outside the prime-order subgroup (or off the curve) must not even decode:
    // blind-signing it would sign a value no proof is about
    crate::codec::bad_point_decode_probe::<zkchannels_crypto::proofs::SignatureRequestProof<N>>(ctx, "signature-request", &crate::codec::cp("A", N), &wire::ser(&_proof));
    // tampered requests must yield no blind-signable value
    for (label, q, cc) in tamperings(ctx, &pd, &c) {
        let kind = label.split('#').next().unwrap().trim_end_matches(char::is_numeric).to_string();
        let _ = srp_verify_check::<N>(ctx, kp.public_key(), &kpd.pk, &q, &cc, Some(false), &format!("tampered-{}", kind));
    }
}

pub fn run(ctx: &mut Ctx) {
    let reps = if ctx.thorough() { 150 } else { 4 };
    let mut idx = 0;
    for _ in 0..reps {
        for &n in NS.iter() {
            crate::dispatch_n!(one_case, ctx, idx, n);
            idx += 1;
        }
    }
}
