//! C01 — merchant establishes only channels whose hidden state matches the agreed values.
use crate::abacus::*;
use crate::dl::{hex_list, hex_s};
use crate::gen::*;
use crate::kit::*;
use crate::model::Tok;
use crate::report::{Ctx, Real};
use crate::rng::ScriptedRng;
use crate::schnorr::*;
use crate::wire;
use bls12_381::Scalar;
use ff::Field;
use rand::Rng;
use serde_json::json;
use zkabacus_crypto::CLOSE_SCALAR;

/// an attacker's witness for the two sub-proofs (messages and commitment scalars chosen freely)
#[derive(Clone)]
pub struct Forge {
    pub ms_s: Vec<Scalar>,
    pub ms_c: Vec<Scalar>,
    pub ts_s: Vec<Scalar>,
    pub ts_c: Vec<Scalar>,
    pub bf_s: Scalar,
    pub tbf_s: Scalar,
    pub bf_c: Scalar,
    pub tbf_c: Scalar,
    pub ks: [Scalar; 4],
}

impl Forge {
    /// the honest shape for state message `ms`
    pub fn honest(ctx: &mut Ctx, ms: &[Scalar]) -> Forge {
        let ts_s = rand_vec(&mut ctx.prng, 5);
        let mut ts_c = ts_s.clone();
        ts_c[1] = rand_scalar(&mut ctx.prng);
        let mut ms_c = ms.to_vec();
        ms_c[1] = CLOSE_SCALAR;
        Forge {
            ms_s: ms.to_vec(), ms_c, ks: [ts_c[0], ts_c[1], ts_c[3], ts_c[4]], ts_s, ts_c,
            bf_s: rand_scalar(&mut ctx.prng), tbf_s: rand_scalar(&mut ctx.prng), bf_c: rand_scalar(&mut ctx.prng), tbf_c: rand_scalar(&mut ctx.prng),
        }
    }
    /// proof atoms for challenge `c`, computed by the model's prover
    pub fn atoms(&self, ctx: &mut Ctx, w: &World, c: &Scalar) -> Option<EstD> {
        let mut cps = vec![];
        for (ms, bf, tbf, ts) in [(&self.ms_s, &self.bf_s, &self.tbf_s, &self.ts_s), (&self.ms_c, &self.bf_c, &self.tbf_c, &self.ts_c)] {
            let op = format!("cp-prove {} {} {} {} {} {} {}", hex_s(&w.kpd.pk.g1), hex_list(&w.kpd.pk.y1s), hex_list(ms), hex_s(bf), hex_s(tbf), hex_list(ts), hex_s(c));
            let toks = ctx.ask(&op);
            let s = |i: usize| if let Some(Tok::S(a)) = toks.get(i) { Some(*a) } else { None };
            let zs: Option<Vec<Scalar>> = (4..9).map(|i| s(i)).collect();
            cps.push(CpD { c: s(0)?, t: s(1)?, zbf: s(2)?, zs: zs? });
        }
        let cl = cps.pop()?;
        let st = cps.pop()?;
        Some(EstD { k0: self.ks[0], k1: self.ks[1], k3: self.ks[2], k4: self.ks[3], st, cl })
    }
}

fn agreed_msg(a: &Agreed, nonce: &Scalar, lock: &Scalar) -> Vec<Scalar> {
    vec![a.cid_s, *nonce, *lock, Scalar::from(a.cb), Scalar::from(a.mb)]
}

/// learn the merchant's challenge for a draft (responses irrelevant): first message and revealed scalars fixed
fn merchant_challenge(ctx: &mut Ctx, w: &World, a: &Agreed, d: &EstD) -> Option<Scalar> {
    initialize_check(ctx, w, a, d, None, "draft").map(|o| o.challenge)
}

fn honest_flow(ctx: &mut Ctx, w: &World, idx: usize) {
    if !ctx.begin_case(idx, "establish-honest") {
        return;
    }
    let book = ctx.book.clone();
    let a = Agreed::random(ctx);
    let run = match establish_customer(ctx, w, &a) { Some(r) => r, None => return };
    let out = match initialize_check(ctx, w, &a, &run.d, Some(true), "honest") { Some(o) => o, None => return };
    let (closing, vbs) = match out.accepted { Some(x) => x, None => return };
    let u = match out.u { Some(u) => u, None => { ctx.broken("initialize drew no scalar"); return; } };
    // closing signature = blind signature on the proof's close-state commitment
    let cb = wire::ser(&closing);
    use crate::props::c09::HG;
    use bls12_381::G1Projective;
    let reals = vec![G1Projective::real_bytes(&cb[..48]).unwrap(), G1Projective::real_bytes(&cb[48..96]).unwrap()];
    let op = format!("ps-blindsign {} {} {} {}", hex_s(&w.kpd.pk.g1), hex_s(&w.kpd.x1), hex_s(&u), hex_s(&run.d.cl.c));
    if !ctx.expect(&op, &reals) {
        ctx.violation("closing signature is not the blind signature on the proof's close-state commitment", json!({"class": "closing-signature-not-on-proven-close-state"}));
        return;
    }
    let inactive = match run.requested.complete(closing, &w.customer) {
        Ok(i) => i,
        Err(_) => { ctx.violation("honest customer refused the merchant's closing signature", json!({"class": "honest-complete-refused"})); return; }
    };
    let mut rng = ScriptedRng::new(ctx.prng.gen(), book.clone());
    let token = w.merchant.activate(&mut rng, vbs);
    let u2 = rng.scalars_in_log()[0];
    let tb = wire::ser(&token);
    let reals = vec![G1Projective::real_bytes(&tb[..48]).unwrap(), G1Projective::real_bytes(&tb[48..96]).unwrap()];
    let op = format!("ps-blindsign {} {} {} {}", hex_s(&w.kpd.pk.g1), hex_s(&w.kpd.x1), hex_s(&u2), hex_s(&run.d.st.c));
    if !ctx.expect(&op, &reals) {
        ctx.violation("pay token is not the blind signature on the proof's state commitment", json!({"class": "pay-token-not-on-proven-state"}));
        return;
    }
    let ready = match inactive.activate(token, &w.customer) {
        Ok(r) => r,
        Err(_) => { ctx.violation("honest customer refused the merchant's pay token", json!({"class": "honest-activate-refused"})); return; }
    };
    // close: the message carries the agreed values and passes the merchant's close check
    let mut rng = ScriptedRng::new(ctx.prng.gen(), book.clone());
    let cm = ready.close(&mut rng);
    if cm.customer_balance().into_inner() != a.cb || cm.merchant_balance().into_inner() != a.mb || cm.channel_id().to_bytes() != a.cid.to_bytes() {
        ctx.violation("closing message does not carry the agreed values", json!({"class": "closing-message-values"}));
    }
    let (sig, cs) = cm.into_parts();
    let ok = matches!(w.merchant.check_close_signature(sig, &cs), zkabacus_crypto::Verification::Verified);
    ctx.count(&format!("close-check:honest:{}", ok));
    if !ok {
        ctx.violation("merchant close check rejects the honest closing message", json!({"class": "honest-close-rejected"}));
    }
}

fn lying_cases(ctx: &mut Ctx, w: &World, idx: usize) {
    if !ctx.begin_case(idx, "establish-lying") {
        return;
    }
    let a = Agreed::random(ctx);
    // honest-but-lying: the customer runs the honest prover on hidden values differing in one slot
    for slot in 0..3 {
        for variant in 0..2 {
            let mut h = a.clone();
            match slot {
                0 => { let other = Agreed::random(ctx); h.cid = other.cid; h.cid_s = other.cid_s; }
                1 => { h.cb = if variant == 0 { if a.cb < i64::MAX as u64 { a.cb + 1 } else { a.cb - 1 } } else { Agreed::random(ctx).cb }; }
                _ => { h.mb = if variant == 0 { if a.mb > 0 { a.mb - 1 } else { a.mb + 1 } } else { Agreed::random(ctx).mb }; }
            }
            if h.cid_s == a.cid_s && h.cb == a.cb && h.mb == a.mb { continue; }
            if let Some(run) = establish_customer(ctx, w, &h) {
                let what = ["lying-channel-id", "lying-customer-balance", "lying-merchant-balance"][slot];
                let _ = initialize_check(ctx, w, &a, &run.d, Some(false), what);
                // and under another context
            }
        }
    }
    // cross-slot: balances swapped
    if a.cb != a.mb {
        let mut h = a.clone();
        std::mem::swap(&mut h.cb, &mut h.mb);
        if let Some(run) = establish_customer(ctx, w, &h) {
            let _ = initialize_check(ctx, w, &a, &run.d, Some(false), "balances-swapped");
        }
    }
    // honest proof under another context / replayed for other agreed values
    if let Some(run) = establish_customer(ctx, w, &a) {
        let mut a2 = a.clone();
        a2.ctx_bytes.push(1);
        let _ = initialize_check(ctx, w, &a2, &run.d, Some(false), "other-context");
        // sub-proofs swapped inside the proof
        let mut d = run.d.clone();
        std::mem::swap(&mut d.st, &mut d.cl);
        let _ = initialize_check(ctx, w, &a, &d, Some(false), "sub-proofs-swapped");
    }
}

/// attacker-assembled proofs violating exactly one relation, all Schnorr equations valid under the
/// merchant's real challenge (learnt from a draft: the first message does not depend on responses)
fn relation_cases(ctx: &mut Ctx, w: &World, idx: usize) {
    if !ctx.begin_case(idx, "establish-relations") {
        return;
    }
    let a = Agreed::random(ctx);
    let nonce = rand_scalar(&mut ctx.prng);
    let lock = rand_scalar(&mut ctx.prng);
    let ms = agreed_msg(&a, &nonce, &lock);
    for rel in 0..17 {
        let mut f = Forge::honest(ctx, &ms);
        let dlt = Scalar::from(1 + ctx.prng.gen_range(0..1000u64));
        let what = match rel {
            0 => "all-relations-hold".to_string(),
            1 => { f.ms_s[0] += Scalar::one(); "state-channel-id".into() }
            2 => { f.ms_c[0] += Scalar::one(); "close-state-channel-id".into() }
            3 => { f.ms_c[1] = rand_scalar(&mut ctx.prng); "close-tag".into() }
            4 => { f.ms_c[2] += Scalar::one(); "revocation-locks-differ".into() }
            5 => { f.ms_s[3] += Scalar::one(); "state-customer-balance".into() }
            6 => { f.ms_c[3] -= Scalar::one(); "close-state-customer-balance".into() }
            7 => { f.ms_s[4] += Scalar::one(); "state-merchant-balance".into() }
            8 => { f.ms_c[4] -= Scalar::one(); "close-state-merchant-balance".into() }
            9 => { f.ts_c[2] += Scalar::one(); "revocation-lock-commitment-scalars-differ".into() }
            10 => { f.ts_s[3] += Scalar::one(); "customer-balance-commitment-scalars-differ".into() }
            // several relations at once, with deviations that cancel in sums / products of the checked equations
            11 => { f.ms_s[3] += dlt; f.ms_s[4] -= dlt; f.ms_c[3] += dlt; f.ms_c[4] -= dlt; "balances-shifted-with-constant-total".into() }
            12 => { if ms[3] == ms[4] { continue; } f.ms_s.swap(3, 4); f.ms_c.swap(3, 4); "hidden-balances-swapped".into() }
            13 => { f.ms_s[3] += dlt; f.ms_s[4] -= dlt; "state-balances-shifted-with-constant-total".into() }
            14 => { f.ms_c[3] -= dlt; f.ms_c[4] += dlt; "close-state-balances-shifted-with-constant-total".into() }
            15 => { f.ms_s[0] += dlt; f.ms_c[0] += dlt; f.ms_s[3] -= dlt; f.ms_c[3] -= dlt; "channel-id-and-balance-shifted-oppositely".into() }
            _ => {
                // a random non-empty subset of hidden slots moved by random amounts, the same in both messages
                let mut any = false;
                for k in [0usize, 3, 4] { if ctx.prng.gen_range(0..2) == 0 { let r = rand_scalar(&mut ctx.prng); f.ms_s[k] += r; f.ms_c[k] += r; any = true; } }
                if !any { f.ms_s[4] += dlt; f.ms_c[4] += dlt; }
                "random-subset-of-hidden-values-moved".into()
            }
        };
        let draft = match f.atoms(ctx, w, &Scalar::zero()) { Some(d) => d, None => return };
        let c = match merchant_challenge(ctx, w, &a, &draft) { Some(c) => c, None => return };
        let mut d = match f.atoms(ctx, w, &c) { Some(d) => d, None => return };
        if rel == 0 {
            let _ = initialize_check(ctx, w, &a, &d, Some(true), "assembled-valid");
            // same-role first-message elements of the two sub-proofs moved by +D / -D before the challenge is derived,
            // responses honest for that challenge (an unweighted aggregate of the two Schnorr equations is unchanged)
            for role in 0..2 {
                let dl = nonzero(&mut ctx.prng);
                let tweak = |d: &mut EstD| { if role == 0 { d.st.c += dl; d.cl.c -= dl; } else { d.st.t += dl; d.cl.t -= dl; } };
                let mut dr = match f.atoms(ctx, w, &Scalar::zero()) { Some(d) => d, None => return };
                tweak(&mut dr);
                let c2 = match merchant_challenge(ctx, w, &a, &dr) { Some(c) => c, None => return };
                let mut d2 = match f.atoms(ctx, w, &c2) { Some(d) => d, None => return };
                tweak(&mut d2);
                let _ = initialize_check(ctx, w, &a, &d2, Some(false), "compensating-pair-of-sub-proof-elements");
            }
            // responses are not hashed, so a prover picks them knowing the challenge: blinding-factor responses of the
            // two sub-proofs moved by (w·D, -D) and (D, -w·D) for weights w the prover can compute (1, c, c², 1/c) — each
            // Schnorr equation is then wrong on its own while an aggregate weighted by w is unchanged
            {
                let cinv = c.invert().unwrap_or(Scalar::one());
                for w8 in [Scalar::one(), c, c * c, cinv] {
                    for dir in 0..2 {
                        let mut d2 = d.clone();
                        let dl = nonzero(&mut ctx.prng);
                        if dir == 0 { d2.st.zbf += w8 * dl; d2.cl.zbf -= dl; } else { d2.st.zbf += dl; d2.cl.zbf -= w8 * dl; }
                        let _ = initialize_check(ctx, w, &a, &d2, Some(false), "challenge-weighted-compensating-responses");
                    }
                }
            }
            // and with one Schnorr equation broken
            d.st.zbf += Scalar::one();
            let _ = initialize_check(ctx, w, &a, &d, Some(false), "violates-state-schnorr");
            d.st.zbf -= Scalar::one();
            d.cl.zbf += Scalar::one();
            let _ = initialize_check(ctx, w, &a, &d, Some(false), "violates-close-schnorr");
        } else {
            let _ = initialize_check(ctx, w, &a, &d, Some(false), &format!("violates-{}", what));
        }
    }
}

/// Witness-deviation sweep: the forger's hidden messages and commitment scalars (20 coordinates: state / close-state
/// message, state / close-state commitment scalars) are moved in every *pair* of coordinates, by δ in both or by +δ / -δ.
/// Every Schnorr equation still holds (the proofs are computed for the deviated witness), so only the verifier's
/// relations between response scalars decide — the real verdict must be the model's for every pair: a verifier that
/// checks a coarser relation (a sum, a chunked comparison, a dropped comparison) accepts one of them.
fn sweep_cases(ctx: &mut Ctx, w: &World, idx: usize) {
    if !ctx.begin_case(idx, "establish-witness-deviation-sweep") {
        return;
    }
    let a = Agreed::random(ctx);
    let nonce = rand_scalar(&mut ctx.prng);
    let lock = rand_scalar(&mut ctx.prng);
    let ms = agreed_msg(&a, &nonce, &lock);
    let coord = |f: &mut Forge, k: usize, d: Scalar| { match k / 5 { 0 => f.ms_s[k % 5] += d, 1 => f.ms_c[k % 5] += d, 2 => f.ts_s[k % 5] += d, _ => f.ts_c[k % 5] += d } };
    let mut p = 0usize;
    for i in 0..20 {
        for j in i + 1..20 {
            for wgt in deviation_weights() {
                p += 1;
                if p % ctx.nshards != ctx.shard { continue; }
                let mut f = Forge::honest(ctx, &ms);
                let d = Scalar::from(1 + ctx.prng.gen_range(0..1000u64));
                coord(&mut f, i, d);
                coord(&mut f, j, wgt * d);
                let draft = match f.atoms(ctx, w, &Scalar::zero()) { Some(d) => d, None => return };
                let c = match merchant_challenge(ctx, w, &a, &draft) { Some(c) => c, None => return };
                let dd = match f.atoms(ctx, w, &c) { Some(d) => d, None => return };
                let _ = initialize_check(ctx, w, &a, &dd, None, "witness-deviation-pair");
            }
        }
    }
}

/// post-challenge choice of every non-response field, for hidden values differing from the agreed ones
fn adaptive_cases(ctx: &mut Ctx, w: &World, idx: usize) {
    if !ctx.begin_case(idx, "establish-adaptive") {
        return;
    }
    let a = Agreed::random(ctx);
    let nonce = rand_scalar(&mut ctx.prng);
    let lock = rand_scalar(&mut ctx.prng);
    // hidden state: other channel id, balances shifted, close-tag slot replaced
    let other = Agreed::random(ctx);
    let ms_all = vec![other.cid_s, nonce, lock, Scalar::from(a.cb) + Scalar::from(1000u64), Scalar::from(a.mb) - Scalar::from(1000u64)];
    let ms_agreed = agreed_msg(&a, &nonce, &lock);
    let mut ms_h = ms_all.clone();
    for field in 0..12 {
        // fields 0..3: the lie is confined to the slot of the one revealed scalar chosen after the challenge;
        // fields 8..11: everything is a lie and all four revealed scalars are chosen after the challenge
        if field < 4 {
            ms_h = ms_agreed.clone();
            match field { 0 => ms_h[0] = ms_all[0], 2 => ms_h[3] = ms_all[3], 3 => ms_h[4] = ms_all[4], _ => {} }
        } else {
            ms_h = ms_all.clone();
        }
        let mut f = Forge::honest(ctx, &ms_h);
        if field == 1 || field >= 8 {
            f.ms_c[1] = rand_scalar(&mut ctx.prng); // a nonce in the close-tag slot: close signature usable as pay token
        }
        let draft = match f.atoms(ctx, w, &Scalar::zero()) { Some(d) => d, None => return };
        let c1 = match merchant_challenge(ctx, w, &a, &draft) { Some(c) => c, None => return };
        let mut d = match f.atoms(ctx, w, &c1) { Some(d) => d, None => return };
        let pubs = [a.cid_s, CLOSE_SCALAR, Scalar::from(a.cb), Scalar::from(a.mb)];
        let what = match field {
            0 => { d.k0 = d.st.zs[0] - c1 * pubs[0]; "post-challenge-channel-id-scalar" }
            1 => { d.k1 = d.cl.zs[1] - c1 * pubs[1]; "post-challenge-close-tag-scalar" }
            2 => { d.k3 = d.st.zs[3] - c1 * pubs[2]; "post-challenge-customer-balance-scalar" }
            3 => { d.k4 = d.st.zs[4] - c1 * pubs[3]; "post-challenge-merchant-balance-scalar" }
            8..=11 => {
                d.k0 = d.st.zs[0] - c1 * pubs[0];
                d.k1 = d.cl.zs[1] - c1 * pubs[1];
                d.k3 = d.st.zs[3] - c1 * pubs[2];
                d.k4 = d.st.zs[4] - c1 * pubs[3];
                "post-challenge-all-revealed-scalars"
            }
            4 | 5 => {
                // simulated sub-proof: responses consistent with the agreed values, T recomputed from the challenge
                let hon = Forge::honest(ctx, &agreed_msg(&a, &nonce, &lock));
                let dh = match hon.atoms(ctx, w, &c1) { Some(d) => d, None => return };
                let y = &w.kpd.pk.y1s;
                let com = |zbf: &Scalar, zs: &[Scalar]| -> Scalar { let mut t = w.kpd.pk.g1 * zbf; for (g, z) in y.iter().zip(zs) { t += g * z; } t };
                d.k0 = dh.k0; d.k1 = dh.k1; d.k3 = dh.k3; d.k4 = dh.k4;
                d.st.zs = dh.st.zs.clone(); d.st.zbf = dh.st.zbf;
                d.cl.zs = dh.cl.zs.clone(); d.cl.zbf = dh.cl.zbf;
                d.st.t = com(&d.st.zbf, &d.st.zs) - c1 * d.st.c;
                d.cl.t = com(&d.cl.zbf, &d.cl.zs) - c1 * d.cl.c;
                "post-challenge-scalar-commitments"
            }
            _ => {
                let hon = Forge::honest(ctx, &agreed_msg(&a, &nonce, &lock));
                let dh = match hon.atoms(ctx, w, &c1) { Some(d) => d, None => return };
                let y = &w.kpd.pk.y1s;
                let com = |zbf: &Scalar, zs: &[Scalar]| -> Scalar { let mut t = w.kpd.pk.g1 * zbf; for (g, z) in y.iter().zip(zs) { t += g * z; } t };
                d.k0 = dh.k0; d.k1 = dh.k1; d.k3 = dh.k3; d.k4 = dh.k4;
                d.st.zs = dh.st.zs.clone(); d.st.zbf = dh.st.zbf;
                d.cl.zs = dh.cl.zs.clone(); d.cl.zbf = dh.cl.zbf;
                let ci = c1.invert().unwrap_or(Scalar::one());
                d.st.c = (com(&d.st.zbf, &d.st.zs) - d.st.t) * ci;
                d.cl.c = (com(&d.cl.zbf, &d.cl.zs) - d.cl.t) * ci;
                "post-challenge-commitments"
            }
        };
        if let Some(out) = initialize_check(ctx, w, &a, &d, Some(false), what) {
            if out.accepted.is_some() && out.challenge == c1 {
                ctx.notes.push(format!("field chosen after the challenge left the challenge unchanged: {}", what));
            }
        }
    }
}

pub fn run(ctx: &mut Ctx) {
    let w = match world(ctx, ctx.shard % 4 == 0) { Some(w) => w, None => return };
    let reps = if ctx.thorough() { 40 } else { 2 };
    let mut idx = 0;
    for _ in 0..reps {
        for k in 0..ctx.nshards {
            let _ = k;
            idx += 1; honest_flow(ctx, &w, idx);
            idx += 1; lying_cases(ctx, &w, idx);
            idx += 1; relation_cases(ctx, &w, idx);
            idx += 1; adaptive_cases(ctx, &w, idx);
        }
    }
    // every shard takes its share of the pairs
    let sweeps = if ctx.thorough() { 4 } else { 1 };
    for k in 0..sweeps {
        sweep_cases(ctx, &w, (4096 + k) * ctx.nshards + ctx.shard);
    }
    let _ = (Real::B(true), Scalar::one());
}
