//! C11 — proof verifiers accept exactly the Schnorr and pairing relations.
use crate::gen::*;
use crate::kit::*;
use crate::props::c07::pick_key;
use crate::props::c08::tamperings;
use crate::props::c09::{params_dlogs, params_from, HG};
use crate::report::Ctx;
use crate::rng::ScriptedRng;
use crate::schnorr::*;
use crate::wire;
use bls12_381::{G1Projective, G2Projective, Scalar};
use rand::Rng;
use zkchannels_crypto::pedersen::PedersenParameters;

/// a random subset of slots gets caller-chosen commitment scalars (sometimes 0 on a zero entry)
pub fn random_opts<const N: usize>(ctx: &mut Ctx, ms: &[Scalar]) -> [Option<Scalar>; N] {
    let mut opts = [None; N];
    for (i, o) in opts.iter_mut().enumerate() {
        match ctx.prng.gen_range(0..6) {
            0 => *o = Some(edge_scalar(&mut ctx.prng)),
            1 if ms[i] == Scalar::zero() => *o = Some(Scalar::zero()),
            // a linked commitment scalar that is exactly 0 / 1 / q-1 (public-product with a zero factor, a partner's zero draw)
            2 => *o = Some([Scalar::zero(), Scalar::zero(), Scalar::one(), crate::dl::q_minus_1()][ctx.prng.gen_range(0..4)]),
            _ => {}
        }
    }
    // two slots holding the same value share one commitment scalar (equality within a proof: equal responses)
    if N >= 2 && ctx.prng.gen_range(0..3) == 0 {
        for i in 0..N { for j in i + 1..N { if ms[i] == ms[j] { let t = opts[i].unwrap_or_else(|| rand_scalar(&mut ctx.prng)); opts[i] = Some(t); opts[j] = Some(t); } } }
    }
    opts
}

fn cp_case<G: HG + group::GroupEncoding, const N: usize>(ctx: &mut Ctx, idx: usize) {
    if !ctx.begin_case(idx, &format!("cp-{}-N{}", G::NAME, N)) {
        return;
    }
    let book = ctx.book.clone();
    let generated = ctx.prng.gen_range(0..4) == 0;
    let (pp, h, gs): (PedersenParameters<G, N>, Scalar, Vec<Scalar>) = if generated {
        let mut rng = ScriptedRng::new(ctx.prng.gen(), book.clone());
        let pp = PedersenParameters::<G, N>::new(&mut rng);
        match params_dlogs(&book, &pp) {
            Some((h, gs)) => (pp, h, gs),
            None => {
                ctx.broken("PedersenParameters::new returned a generator that is not one of the scripted draws");
                return;
            }
        }
    } else {
        let h = nonzero(&mut ctx.prng);
        let gs = nonzero_vec(&mut ctx.prng, N);
        (params_from::<G, N>(&book, &h, &gs), h, gs)
    };
    let ms = edge_vec(&mut ctx.prng, N);
    let opts = random_opts::<N>(ctx, &ms);
    let mode = match ctx.prng.gen_range(0..8) {
        0 => ChalMode::Fixed(Scalar::zero()),
        1 => ChalMode::Fixed(Scalar::one()),
        _ => ChalMode::Derived,
    };
    let (_proof, pd, _w, c) = match cp_honest::<G, N>(ctx, &pp, &h, &gs, &ms, &opts, mode) {
        Some(x) => x,
        None => return,
    };
    let _ = cp_verify_check::<G, N>(ctx, &pp, &h, &gs, &pd, &c, Some(true), "honest");
    // elements outside the prime-order subgroup never reach the verifier: the proof does not decode
    crate::codec::bad_point_decode_probe::<zkchannels_crypto::proofs::CommitmentProof<G, N>>(ctx, &format!("commitment-proof-{}", G::NAME), &crate::codec::cp(if G::NAME == "G1" { "A" } else { "B" }, N), &wire::ser(&_proof));
    // single-field perturbations, with the exact side conditions of the theorems
    for (label, q, cc) in tamperings(ctx, &pd, &c) {
        let kind = label.split('#').next().unwrap().trim_end_matches(char::is_numeric).to_string();
        let expect = match kind.as_str() {
            "T" | "zbf" | "z" => Some(false),
            "C" => Some(c == Scalar::zero()),
            "challenge" => Some(pd.c == Scalar::zero()),
            _ => None,
        };
        let _ = cp_verify_check::<G, N>(ctx, &pp, &h, &gs, &q, &cc, expect, &format!("tampered-{}", kind));
    }
    // wrong parameter set: each generator replaced
    for i in 0..N {
        let mut gs2 = gs.clone();
        gs2[i] = perturb(&mut ctx.prng, &gs[i]);
        let pp2 = params_from::<G, N>(&book, &h, &gs2);
        let _ = cp_verify_check::<G, N>(ctx, &pp2, &h, &gs2, &pd, &c, Some(pd.zs[i] == Scalar::zero()), "other-generator");
    }
    let h2 = perturb(&mut ctx.prng, &h);
    let pp2 = params_from::<G, N>(&book, &h2, &gs);
    let _ = cp_verify_check::<G, N>(ctx, &pp2, &h2, &gs, &pd, &c, Some(pd.zbf == Scalar::zero()), "other-h");
    // simulated transcript: T chosen from c and random responses
    let sim_c = edge_scalar(&mut ctx.prng);
    let zs = edge_vec(&mut ctx.prng, N);
    let zbf = edge_scalar(&mut ctx.prng);
    let cc = nonzero(&mut ctx.prng);
    let mut t = h * zbf;
    for (g, z) in gs.iter().zip(zs.iter()) {
        t += g * z;
    }
    t -= cc * sim_c;
    let sim = CpD { c: sim_c, t, zbf, zs };
    let _ = cp_verify_check::<G, N>(ctx, &pp, &h, &gs, &sim, &cc, Some(true), "simulated-own-challenge");
    let c2 = perturb(&mut ctx.prng, &cc);
    let _ = cp_verify_check::<G, N>(ctx, &pp, &h, &gs, &sim, &c2, Some(sim_c == Scalar::zero()), "simulated-other-challenge");
    // valid transcripts whose two group elements are related: T = k*C with responses (c + k) * opening, for k = 1
    // (T equals C: the prover used its witness as commitment scalars), -1, 2 and 0 (T the identity) - the Schnorr
    // relation holds exactly, so they must be accepted; and after changing one response they must be rejected
    {
        let bf = edge_scalar(&mut ctx.prng);
        let mut cd = h * bf;
        for (g, m) in gs.iter().zip(ms.iter()) { cd += g * m; }
        for k in [Scalar::one(), -Scalar::one(), Scalar::from(2u64), Scalar::zero()] {
            let cc = nonzero(&mut ctx.prng);
            let f = cc + k;
            let rel = CpD { c: cd, t: k * cd, zbf: f * bf, zs: ms.iter().map(|m| f * m).collect() };
            ctx.count("related-elements:T=kC");
            let _ = cp_verify_check::<G, N>(ctx, &pp, &h, &gs, &rel, &cc, Some(true), "valid-with-T-a-multiple-of-C");
            let mut bad = rel.clone();
            bad.zbf += Scalar::one();
            let _ = cp_verify_check::<G, N>(ctx, &pp, &h, &gs, &bad, &cc, Some(false), "T-a-multiple-of-C-response-altered");
        }
    }
}

fn sp_case<const N: usize>(ctx: &mut Ctx, idx: usize) {
    if !ctx.begin_case(idx, &format!("sp-N{}", N)) {
        return;
    }
    let book = ctx.book.clone();
    let (kp, kpd) = match pick_key::<N>(ctx, idx / 3) {
        Some(k) => k,
        None => return,
    };
    let ms = edge_vec(&mut ctx.prng, N);
    let mut rng = ScriptedRng::new(ctx.prng.gen(), book.clone());
    let sig = wire::msg::<N>(&ms).sign(&mut rng, &kp);
    if !book.check_g1(&sig.sigma2(), (kpd.x + kpd.ys.iter().zip(ms.iter()).map(|(y, m)| y * m).fold(Scalar::zero(), |a, b| a + b)) * book.dlog_g1(&sig.sigma1()).unwrap_or(Scalar::zero())) {
        ctx.broken("signature is not (h, h^(x + sum y m)) for the scripted h (see C07)");
        return;
    }
    let opts = random_opts::<N>(ctx, &ms);
    let (_proof, pd, _w, c, _r) = match sp_honest::<N>(ctx, kp.public_key(), &kpd.pk, &ms, &sig, &opts, ChalMode::Derived, None) {
        Some(x) => x,
        None => return,
    };
    let _ = sp_verify_check::<N>(ctx, kp.public_key(), &kpd.pk, &pd, &c, Some(true), "honest");
    // the same shown signature with a Schnorr part whose T is a multiple of C (responses (c + k) * opening): still valid
    for k in [Scalar::one(), -Scalar::one()] {
        let f = c + k;
        let mut rel = pd.clone();
        rel.cp.t = k * pd.cp.c;
        rel.cp.zbf = f * _w.bf;
        rel.cp.zs = ms.iter().map(|m| f * m).collect();
        let _ = sp_verify_check::<N>(ctx, kp.public_key(), &kpd.pk, &rel, &c, Some(true), "valid-with-T-a-multiple-of-C");
    }
    crate::codec::bad_point_decode_probe::<zkchannels_crypto::proofs::SignatureProof<N>>(ctx, "signature-proof", &crate::codec::sp(N), &wire::ser(&_proof));
    for (label, q, cc) in tamperings(ctx, &pd.cp, &c) {
        let kind = label.split('#').next().unwrap().trim_end_matches(char::is_numeric).to_string();
        let sp = SpD { s1: pd.s1, s2: pd.s2, cp: q };
        let _ = sp_verify_check::<N>(ctx, kp.public_key(), &kpd.pk, &sp, &cc, Some(false), &format!("tampered-{}", kind));
    }
    for k in 0..2 {
        let mut sp = pd.clone();
        sp.s1 = if k == 0 { pd.s1 + Scalar::one() } else { nonzero(&mut ctx.prng) };
        let _ = sp_verify_check::<N>(ctx, kp.public_key(), &kpd.pk, &sp, &c, Some(false), "tampered-sigma1");
        let mut sp = pd.clone();
        sp.s2 = if k == 0 { pd.s2 + Scalar::one() } else { rand_scalar(&mut ctx.prng) };
        let _ = sp_verify_check::<N>(ctx, kp.public_key(), &kpd.pk, &sp, &c, Some(false), "tampered-sigma2");
    }
    // another key
    let (kp2, kpd2) = des_keypair::<N>(ctx);
    let _ = sp_verify_check::<N>(ctx, kp2.public_key(), &kpd2.pk, &pd, &c, Some(false), "other-key");
    // degenerate: re-randomiser 0 makes the blinded signature the identity pair (only reachable through the API)
    if let Some((proof, pd0, _w, c0, r)) = sp_honest::<N>(ctx, kp.public_key(), &kpd.pk, &ms, &sig, &[None; N], ChalMode::Derived, Some(Scalar::zero())) {
        if r != Scalar::zero() {
            ctx.broken("forced re-randomiser 0 was not used");
        } else {
            let _ = sp_verify_real::<N>(ctx, kp.public_key(), &kpd.pk, &proof, &pd0, &c0, Some(false), "identity-blinded-signature");
        }
    }
    // the builder's first draw (the blinding factor) solved against the secret key: the shown sigma2' is the identity /
    // equals sigma1' - still an accepting proof, and still rejecting after any tampering
    {
        let e = kpd.x + kpd.ys.iter().zip(ms.iter()).map(|(y, m)| y * m).fold(Scalar::zero(), |a, b| a + b);
        for (what, bf) in [("sigma2-identity", -e), ("sigma2-equals-sigma1", Scalar::one() - e)] {
            ctx.forced_next = vec![bf];
            if let Some((proof, pds, _w, cs, _r)) = sp_honest::<N>(ctx, kp.public_key(), &kpd.pk, &ms, &sig, &[None; N], ChalMode::Derived, None) {
                ctx.count(&format!("solved-blinding-factor:{}", what));
                let _ = sp_verify_real::<N>(ctx, kp.public_key(), &kpd.pk, &proof, &pds, &cs, Some(true), &format!("honest-solved-bf-{}", what));
                let mut sp = pds.clone();
                sp.s2 = pds.s2 + Scalar::one();
                let _ = sp_verify_check::<N>(ctx, kp.public_key(), &kpd.pk, &sp, &cs, Some(false), "tampered-sigma2");
            }
            ctx.forced_next.clear();
        }
    }
    // a proof for a signature on a different message than the one committed to
    let mut ms2 = ms.clone();
    let j = ctx.prng.gen_range(0..N);
    ms2[j] = perturb(&mut ctx.prng, &ms[j]);
    if let Some((_p, pdw, _w, cw, _r)) = sp_honest::<N>(ctx, kp.public_key(), &kpd.pk, &ms2, &sig, &[None; N], ChalMode::Derived, None) {
        let _ = sp_verify_check::<N>(ctx, kp.public_key(), &kpd.pk, &pdw, &cw, Some(false), "signature-on-other-message");
    }
}

fn cp_case_g1<const N: usize>(ctx: &mut Ctx, idx: usize) {
    cp_case::<G1Projective, N>(ctx, idx)
}
fn cp_case_g2<const N: usize>(ctx: &mut Ctx, idx: usize) {
    cp_case::<G2Projective, N>(ctx, idx)
}

pub fn run(ctx: &mut Ctx) {
    let reps = if ctx.thorough() { 60 } else { 3 };
    let mut idx = 0;
    for _ in 0..reps {
        for &n in NS.iter() {
            crate::dispatch_n!(cp_case_g1, ctx, idx, n);
            idx += 1;
            crate::dispatch_n!(cp_case_g2, ctx, idx, n);
            idx += 1;
            crate::dispatch_n!(sp_case, ctx, idx, n);
            idx += 1;
        }
    }
}
