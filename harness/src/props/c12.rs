//! C12 — challenges bind every first-message element and match for prover and verifier.
use crate::abacus::*;
use crate::dl::{hex_list, hex_s, Book};
use crate::gen::*;
use crate::kit::*;
use crate::rangelab::*;
use crate::report::Ctx;
use crate::schnorr::*;
use crate::wire::{self, PkD};
use bls12_381::{G1Affine, G1Projective, G2Affine, G2Projective, Scalar};
use rand::Rng;
use serde_json::json;
use zkchannels_crypto::pedersen::{Commitment, PedersenParameters};
use zkchannels_crypto::pointcheval_sanders::{BlindedMessage, BlindedSignature, PublicKey, Signature};
use zkchannels_crypto::proofs::{verif_hooks, ChallengeBuilder, ChallengeInput, CommitmentProof, RangeConstraint, RangeConstraintParameters, SignatureProof, SignatureRequestProof};

#[derive(Clone, Copy, Debug, PartialEq)]
enum K { S, G1, G2 }

fn record<T: ChallengeInput>(x: &T) -> Option<(Vec<u8>, Scalar)> {
    let _ = verif_hooks::drain_challenges();
    let c = ChallengeBuilder::new().with(x).finish();
    let r = verif_hooks::drain_challenges();
    if r.len() != 1 || r[0].1 != c.to_scalar() {
        return None;
    }
    Some((r[0].0.clone(), c.to_scalar()))
}

/// a hashed object described by its kind, tuple length and non-response atoms (+ arbitrary response scalars)
struct Obj {
    kind: &'static str,
    n: usize,
    atoms: Vec<(K, Scalar)>,
}

fn enc(book: &Book, a: &(K, Scalar)) -> Vec<u8> {
    match a.0 { K::S => wire::enc_s(&a.1), K::G1 => wire::enc_g1(book, &a.1), K::G2 => wire::enc_g2(book, &a.1) }
}

impl Obj {
    fn item(&self) -> String {
        let a: Vec<String> = self.atoms.iter().map(|x| hex_s(&x.1)).collect();
        let n = self.n;
        match self.kind {
            "scalar" => format!("s:{}", a[0]),
            "g1affine" | "g1projective" | "commitment-g1" | "blinded-message" => format!("g1:{}", a[0]),
            "g2affine" | "g2projective" | "commitment-g2" => format!("g2:{}", a[0]),
            "signature" | "blinded-signature" => format!("sig:{};{}", a[0], a[1]),
            "commitment-proof-g1" | "signature-request-proof" => format!("cp1:{};{}", a[0], a[1]),
            "commitment-proof-g2" => format!("cp2:{};{}", a[0], a[1]),
            "signature-proof" => format!("sp:{};{};{};{}", a[0], a[1], a[2], a[3]),
            "pedersen-g1" => format!("ped1:{};{}", a[0], a[1..].join(",")),
            "pedersen-g2" => format!("ped2:{};{}", a[0], a[1..].join(",")),
            "public-key" => format!("pk:{};{};{};{};{}", a[0], a[1..1 + n].join(","), a[1 + n], a[2 + n], a[3 + n..].join(",")),
            "range-params" => format!("rp:{};{};{};{};{};{}", a[..256].join(","), a[256], a[257], a[258], a[259], a[260]),
            "range-constraint" => {
                // 9 x (s1, s2, C, T) + zero response scalars
                let mut v = vec![];
                for j in 0..9 { v.extend(vec![a[4 * j].clone(), a[4 * j + 1].clone(), a[4 * j + 2].clone(), a[4 * j + 3].clone(), "0".to_string(), "0".to_string()]); }
                format!("range:{}", v.join(","))
            }
            _ => unreachable!(),
        }
    }

    /// wire encoding of the real object (for the kinds that are built by decoding)
    fn bytes(&self, book: &Book) -> Option<Vec<u8>> {
        let e: Vec<Vec<u8>> = self.atoms.iter().map(|x| enc(book, x)).collect();
        let zero = wire::enc_s(&Scalar::zero());
        let n = self.n;
        let cp = |c: &Vec<u8>, t: &Vec<u8>| wire::cat(vec![c.clone(), t.clone(), zero.clone(), wire::arr(vec![zero.clone(); n])]);
        Some(match self.kind {
            "commitment-g1" | "commitment-g2" | "blinded-message" => e[0].clone(),
            "signature" | "blinded-signature" => wire::cat(vec![e[0].clone(), e[1].clone()]),
            "commitment-proof-g1" | "commitment-proof-g2" | "signature-request-proof" => cp(&e[0], &e[1]),
            "signature-proof" => wire::cat(vec![e[0].clone(), e[1].clone(), cp(&e[2], &e[3])]),
            "pedersen-g1" | "pedersen-g2" => wire::cat(vec![e[0].clone(), wire::arr(e[1..].to_vec())]),
            "public-key" => wire::cat(vec![e[0].clone(), wire::arr(e[1..1 + n].to_vec()), e[1 + n].clone(), e[2 + n].clone(), wire::arr(e[3 + n..].to_vec())]),
            "range-params" => wire::cat(vec![e[..256].concat(), e[256].clone(), wire::arr(vec![e[257].clone()]), e[258].clone(), e[259].clone(), wire::arr(vec![e[260].clone()])]),
            "range-constraint" => {
                let mut b = vec![];
                for j in 0..9 {
                    b.extend(wire::cat(vec![e[4 * j].clone(), e[4 * j + 1].clone(), e[4 * j + 2].clone(), e[4 * j + 3].clone(), zero.clone(), wire::arr(vec![zero.clone()])]));
                }
                b
            }
            _ => return None,
        })
    }

    /// build the real object and hash it through the public ChallengeBuilder API
    fn hash(&self, book: &Book) -> Option<(Vec<u8>, Scalar)> { self.hash_then(book, None) }

    /// … optionally followed, in the same builder, by a second object of the same kind
    fn hash_then(&self, book: &Book, second: Option<&Obj>) -> Option<(Vec<u8>, Scalar)> {
        let n = self.n;
        macro_rules! go { ($t:ty) => {{
            let a = wire::de::<$t>(&self.bytes(book)?).ok()?;
            match second { None => record(&a), Some(o) => { let b = wire::de::<$t>(&o.bytes(book)?).ok()?; record(&Twice(&a, &b)) } }
        }} }
        macro_rules! plain { ($a:expr, $f:expr) => {{
            let a = $a;
            match second { None => record(&a), Some(o) => { let b = $f(o); record(&Twice(&a, &b)) } }
        }} }
        macro_rules! with_n { ($f:ident) => { match n { 1 => $f!(1), 2 => $f!(2), 3 => $f!(3), 5 => $f!(5), 17 => $f!(17), 65 => $f!(65), _ => None } } }
        match self.kind {
            "scalar" => plain!(self.atoms[0].1, |o: &Obj| o.atoms[0].1),
            "g1affine" => plain!(book.g1a(self.atoms[0].1), |o: &Obj| book.g1a(o.atoms[0].1)),
            "g1projective" => plain!(book.g1(self.atoms[0].1), |o: &Obj| book.g1(o.atoms[0].1)),
            "g2affine" => plain!(book.g2a(self.atoms[0].1), |o: &Obj| book.g2a(o.atoms[0].1)),
            "g2projective" => plain!(book.g2(self.atoms[0].1), |o: &Obj| book.g2(o.atoms[0].1)),
            "commitment-g1" => go!(Commitment<G1Projective>),
            "commitment-g2" => go!(Commitment<G2Projective>),
            "blinded-message" => go!(BlindedMessage),
            "signature" => go!(Signature),
            "blinded-signature" => go!(BlindedSignature),
            "commitment-proof-g1" => { macro_rules! f { ($n:expr) => { go!(CommitmentProof<G1Projective, $n>) } } with_n!(f) }
            "commitment-proof-g2" => { macro_rules! f { ($n:expr) => { go!(CommitmentProof<G2Projective, $n>) } } with_n!(f) }
            "signature-request-proof" => { macro_rules! f { ($n:expr) => { go!(SignatureRequestProof<$n>) } } with_n!(f) }
            "signature-proof" => { macro_rules! f { ($n:expr) => { go!(SignatureProof<$n>) } } with_n!(f) }
            "pedersen-g1" => { macro_rules! f { ($n:expr) => { go!(PedersenParameters<G1Projective, $n>) } } with_n!(f) }
            "pedersen-g2" => { macro_rules! f { ($n:expr) => { go!(PedersenParameters<G2Projective, $n>) } } with_n!(f) }
            "public-key" => { macro_rules! f { ($n:expr) => { go!(PublicKey<$n>) } } with_n!(f) }
            "range-params" => go!(RangeConstraintParameters),
            "range-constraint" => go!(RangeConstraint),
            _ => None,
        }
    }
}

/// two objects consumed by one builder, one after the other
struct Twice<'a, T: ChallengeInput>(&'a T, &'a T);
impl<'a, T: ChallengeInput> ChallengeInput for Twice<'a, T> {
    fn consume(&self, builder: &mut ChallengeBuilder) {
        builder.consume(self.0);
        builder.consume(self.1);
    }
}

fn nz(ctx: &mut Ctx, k: K) -> (K, Scalar) { (k, nonzero(&mut ctx.prng)) }

fn make(ctx: &mut Ctx, kind: &'static str, n: usize) -> Obj {
    let atoms = match kind {
        "scalar" => vec![(K::S, edge_scalar(&mut ctx.prng))],
        "g1affine" | "g1projective" | "commitment-g1" | "blinded-message" => vec![(K::G1, rand_scalar(&mut ctx.prng))],
        "g2affine" | "g2projective" | "commitment-g2" => vec![(K::G2, rand_scalar(&mut ctx.prng))],
        "signature" | "blinded-signature" => vec![nz(ctx, K::G1), (K::G1, rand_scalar(&mut ctx.prng))],
        "commitment-proof-g1" | "signature-request-proof" => vec![nz(ctx, K::G1), nz(ctx, K::G1)],
        "commitment-proof-g2" => vec![nz(ctx, K::G2), nz(ctx, K::G2)],
        "signature-proof" => vec![nz(ctx, K::G1), nz(ctx, K::G1), nz(ctx, K::G2), nz(ctx, K::G2)],
        "pedersen-g1" => (0..n + 1).map(|_| nz(ctx, K::G1)).collect(),
        "pedersen-g2" => (0..n + 1).map(|_| nz(ctx, K::G2)).collect(),
        "public-key" => {
            let mut v = vec![nz(ctx, K::G1)];
            v.extend((0..n).map(|_| nz(ctx, K::G1)));
            v.push(nz(ctx, K::G2));
            v.push(nz(ctx, K::G2));
            v.extend((0..n).map(|_| nz(ctx, K::G2)));
            v
        }
        "range-params" => {
            let mut v: Vec<(K, Scalar)> = (0..256).map(|_| nz(ctx, K::G1)).collect();
            v.extend(vec![nz(ctx, K::G1), nz(ctx, K::G1), nz(ctx, K::G2), nz(ctx, K::G2), nz(ctx, K::G2)]);
            v
        }
        "range-constraint" => (0..9).flat_map(|_| vec![(K::G1, nonzero(&mut ctx.prng)), (K::G1, nonzero(&mut ctx.prng)), (K::G2, nonzero(&mut ctx.prng)), (K::G2, nonzero(&mut ctx.prng))]).collect(),
        _ => unreachable!(),
    };
    Obj { kind, n, atoms }
}

fn library_case(ctx: &mut Ctx, idx: usize, kind: &'static str, n: usize) {
    if !ctx.begin_case(idx, &format!("bind-{}-N{}", kind, n)) {
        return;
    }
    let book = ctx.book.clone();
    let obj = make(ctx, kind, n);
    let (bytes, c) = match obj.hash(&book) {
        Some(x) => x,
        None => { ctx.broken(&format!("cannot build / hash a {}", kind)); return; }
    };
    if sha3_challenge(&bytes) != c {
        ctx.violation("challenge is not from_raw(SHA3-256(consumed bytes))", json!({"class": "challenge-not-sha3", "kind": kind}));
    }
    let _ = crate::abacus::model_finish_matches(ctx, &bytes, &c);
    // what was hashed is exactly the model's atom list
    let toks = ctx.ask(&format!("transcript {}", obj.item()));
    ctx.evals += 1;
    match match_transcript(ctx, &toks, &bytes) {
        TMatch::Exact => ctx.count(&format!("transcript:{}:match", kind)),
        TMatch::Layout(_) => ctx.count(&format!("transcript:{}:match-under-another-layout", kind)),
        TMatch::Omits(missing) => {
            ctx.count(&format!("transcript:{}:OMITS-ITEMS", kind));
            ctx.disagreements.push(json!({"kind": "model-vs-implementation", "case": ctx.case_id, "what": format!("bytes hashed for a {} omit item(s) {:?} of the model's transcript", kind, missing), "op": format!("transcript {}", obj.item()), "recorded": hex::encode(&bytes)}));
        }
        TMatch::No => {
            ctx.count(&format!("transcript:{}:MISMATCH", kind));
            ctx.disagreements.push(json!({"kind": "model-vs-implementation", "case": ctx.case_id, "what": format!("bytes hashed for a {} differ from the model's transcript", kind), "op": format!("transcript {}", obj.item()), "recorded": hex::encode(&bytes)}));
        }
    }
    // every atom replaced: the challenge must change
    // quick: every 7th atom of a long object, the offset rotating with the case index, first and last always
    let positions: Vec<usize> = if obj.atoms.len() > 40 && !ctx.thorough() {
        let mut v: Vec<usize> = ((idx % 7)..obj.atoms.len()).step_by(7).collect();
        for e in [0, obj.atoms.len() - 1] { if !v.contains(&e) { v.push(e); } }
        v
    } else { (0..obj.atoms.len()).collect() };
    for i in positions {
        for alt in 0..3 {
            let mut o2 = Obj { kind, n, atoms: obj.atoms.clone() };
            // +1, an independent value, and the negation (for a group element: same x-coordinate, other y)
            o2.atoms[i].1 = match alt { 0 => obj.atoms[i].1 + Scalar::one(), 1 => nonzero(&mut ctx.prng), _ => -obj.atoms[i].1 };
            if o2.atoms[i].1 == obj.atoms[i].1 { continue; }
            ctx.evals += 1;
            match o2.hash(&book) {
                Some((_, c2)) => {
                    ctx.count(&format!("atom-replaced:{}:{}", kind, if c2 != c { "challenge-changed" } else { "CHALLENGE-UNCHANGED" }));
                    if c2 == c {
                        ctx.violation(
                            &format!("replacing atom {} of a {} leaves the challenge unchanged", i, kind),
                            json!({"class": "atom-not-bound", "kind": kind, "N": n, "atom": i, "item": obj.item(), "replaced_by": hex_s(&o2.atoms[i].1)}),
                        );
                    }
                }
                None => ctx.count(&format!("atom-replaced:{}:not-decodable", kind)),
            }
        }
    }
}

/// The same kind of object consumed twice by one builder (`with(&a).with(&b)`): the hashed bytes are the model's
/// atoms of `a` followed by those of `b`, and replacing any atom of the *second* object changes the challenge
/// (a builder that remembers what it has already hashed must not skip a different object that merely looks alike).
fn repeat_case(ctx: &mut Ctx, idx: usize, kind: &'static str, n: usize) {
    if !ctx.begin_case(idx, &format!("bind-twice-{}-N{}", kind, n)) {
        return;
    }
    let book = ctx.book.clone();
    let a = make(ctx, kind, n);
    let (bytes_aa, c_aa) = match a.hash_then(&book, Some(&a)) { Some(x) => x, None => { ctx.broken(&format!("cannot hash a {} twice", kind)); return; } };
    let (bytes_a, _) = match a.hash(&book) { Some(x) => x, None => return };
    ctx.evals += 1;
    if bytes_aa != [bytes_a.clone(), bytes_a.clone()].concat() {
        ctx.count(&format!("twice:{}:second-copy-hashed-differently", kind));
        ctx.disagreements.push(json!({"kind": "model-vs-implementation", "case": ctx.case_id, "what": format!("a {} consumed twice by one builder is not hashed as its bytes twice ({} vs 2 x {} bytes)", kind, bytes_aa.len(), bytes_a.len())}));
    } else {
        ctx.count(&format!("twice:{}:bytes-twice", kind));
    }
    // the second object differs from the first in one atom (quick: a sample of positions incl. both ends)
    let len = a.atoms.len();
    let mut positions: Vec<usize> = if len > 12 && !ctx.thorough() { ((idx % 9)..len).step_by(9).collect() } else { (0..len).collect() };
    for e in [0, len - 1] { if !positions.contains(&e) { positions.push(e); } }
    for i in positions {
        let mut b = Obj { kind, n, atoms: a.atoms.clone() };
        b.atoms[i].1 = if ctx.prng.gen_range(0..2) == 0 { a.atoms[i].1 + Scalar::one() } else { nonzero(&mut ctx.prng) };
        if b.atoms[i].1 == a.atoms[i].1 || (b.atoms[i].1 == Scalar::zero() && b.atoms[i].0 != K::S) { continue; }
        ctx.evals += 1;
        match a.hash_then(&book, Some(&b)) {
            Some((_, c_ab)) => {
                ctx.count(&format!("twice-second-altered:{}:{}", kind, if c_ab != c_aa { "challenge-changed" } else { "CHALLENGE-UNCHANGED" }));
                if c_ab == c_aa {
                    ctx.violation(&format!("a second {} in the same challenge that differs from the first in atom {} leaves the challenge unchanged", kind, i),
                        json!({"class": "second-object-not-bound", "kind": kind, "N": n, "atom": i, "item": a.item()}));
                }
            }
            None => ctx.count(&format!("twice-second-altered:{}:not-decodable", kind)),
        }
    }
}

/// raw context bytes through `with_bytes` / `consume_bytes`: hashed verbatim, every position bound for every value
fn bytes_case(ctx: &mut Ctx, idx: usize) {
    if !ctx.begin_case(idx, "bind-raw-bytes") {
        return;
    }
    let edge: [u8; 9] = [0x00, 0x09, 0x0a, 0x0b, 0x0c, 0x0d, 0x20, 0x7f, 0xff];
    // lengths around the widths the library hashes itself, around the SHA3-256 rate (136 bytes) and its multiples,
    // around 1088 (the rate in bits), powers of two, and a few kilobytes
    let n = [0usize, 1, 2, 31, 32, 33, 47, 48, 64, 95, 96, 97, 135, 136, 137, 271, 272, 273, 1023, 1024, 1087, 1088, 1089, 2048, 4096, 5000, 8191, 8192, 8193, 16384, 65537][ctx.prng.gen_range(0..31)];
    let mut data: Vec<u8> = (0..n).map(|_| ctx.prng.gen()).collect();
    // edge values at the ends (and sometimes everywhere)
    for i in 0..n {
        if i == 0 || i + 1 == n || ctx.prng.gen_range(0..6) == 0 {
            data[i] = edge[ctx.prng.gen_range(0..edge.len())];
        }
    }
    let hash = |d: &[u8], chained: bool| -> Option<(Vec<u8>, Scalar)> {
        let _ = verif_hooks::drain_challenges();
        let c = if chained { ChallengeBuilder::new().with(&Scalar::one()).with_bytes(d).finish() } else { let mut b = ChallengeBuilder::new(); b.consume(&Scalar::one()); b.consume_bytes(d); b.finish() };
        let r = verif_hooks::drain_challenges();
        if r.len() != 1 { return None; }
        Some((r[0].0.clone(), c.to_scalar()))
    };
    let (b1, c1) = match hash(&data, true) { Some(x) => x, None => { ctx.broken("no challenge recorded"); return; } };
    let (b2, c2) = match hash(&data, false) { Some(x) => x, None => return };
    let mut expected = Scalar::one().to_bytes().to_vec();
    expected.extend(&data);
    ctx.evals += 1;
    if b1 != expected || b2 != expected || c1 != c2 || sha3_challenge(&expected) != c1 {
        ctx.count("raw-bytes:MISMATCH");
        ctx.violation("with_bytes / consume_bytes do not hash the given bytes verbatim", json!({"class": "raw-bytes-not-verbatim", "bytes": hex::encode(&data), "hashed_with_bytes": hex::encode(&b1), "hashed_consume_bytes": hex::encode(&b2)}));
    } else {
        ctx.count("raw-bytes:match");
    }
    // every position; for the longest contexts the two ends, the neighbourhood of every 4096-byte boundary and a random sample
    let positions: Vec<usize> = if n <= 5000 { (0..n).collect() } else {
        let mut v: Vec<usize> = (0..16).chain(n - 16..n).collect();
        let mut b = 4096;
        while b < n { for d in [b - 1, b, b + 1] { if d < n { v.push(d); } } b += 4096; }
        for _ in 0..64 { v.push(ctx.prng.gen_range(0..n)); }
        v.sort(); v.dedup();
        v
    };
    for i in positions {
        for &v in edge.iter() {
            if v == data[i] { continue; }
            let mut d2 = data.clone();
            d2[i] = v;
            ctx.evals += 1;
            if let Some((_, c3)) = hash(&d2, true) {
                if c3 == c1 {
                    ctx.count("raw-byte-replaced:CHALLENGE-UNCHANGED");
                    ctx.violation(&format!("replacing context byte {} ({:#04x} -> {:#04x}) leaves the challenge unchanged", i, data[i], v), json!({"class": "context-byte-not-bound", "position": i, "bytes": hex::encode(&data), "replaced": hex::encode(&d2)}));
                } else {
                    ctx.count("raw-byte-replaced:challenge-changed");
                }
            }
        }
    }
    // extension by one edge byte
    for &v in edge.iter() {
        let mut d2 = data.clone();
        d2.push(v);
        if let Some((_, c3)) = hash(&d2, true) {
            if c3 == c1 {
                ctx.violation(&format!("appending byte {:#04x} to the context leaves the challenge unchanged", v), json!({"class": "context-extension-not-bound", "bytes": hex::encode(&data)}));
            }
        }
    }
}

/// zkAbacus level: every non-response field of an establish proof, every public value, every context byte
fn establish_case(ctx: &mut Ctx, idx: usize, w: &World, w2: &World) {
    if !ctx.begin_case(idx, "bind-establish") {
        return;
    }
    let a = Agreed::random(ctx);
    let run = match establish_customer(ctx, w, &a) { Some(r) => r, None => return };
    let base = match initialize_check(ctx, w, &a, &run.d, Some(true), "honest") { Some(o) => o.challenge, None => return };
    if base != run.c {
        ctx.violation("merchant derives a different challenge than the customer for the same establish proof", json!({"class": "challenge-mismatch", "kind": "establish"}));
    }
    let mut check = |ctx: &mut Ctx, w: &World, a2: &Agreed, d: &EstD, what: &str, must_change: bool| {
        if let Some(o) = initialize_check(ctx, w, a2, d, if must_change { Some(false) } else { None }, &format!("bind-{}", what)) {
            let changed = o.challenge != base;
            ctx.count(&format!("establish-field:{}:{}", what, if changed { "challenge-changed" } else { "challenge-unchanged" }));
            if must_change && !changed {
                ctx.violation(
                    &format!("altering {} of an establish proof / its statement leaves the merchant's challenge unchanged", what),
                    json!({"class": "establish-field-not-bound", "field": what, "proof_bytes": hex::encode(d.bytes(&ctx.book))}),
                );
            }
        }
    };
    let one = Scalar::one();
    for (name, f) in [
        ("channel-id-commitment-scalar", Box::new(|d: &mut EstD| d.k0 += one) as Box<dyn Fn(&mut EstD)>),
        ("close-tag-commitment-scalar", Box::new(|d: &mut EstD| d.k1 += one)),
        ("customer-balance-commitment-scalar", Box::new(|d: &mut EstD| d.k3 += one)),
        ("merchant-balance-commitment-scalar", Box::new(|d: &mut EstD| d.k4 += one)),
        ("state-commitment", Box::new(|d: &mut EstD| d.st.c += one)),
        ("state-scalar-commitment", Box::new(|d: &mut EstD| d.st.t += one)),
        ("close-state-commitment", Box::new(|d: &mut EstD| d.cl.c += one)),
        ("close-state-scalar-commitment", Box::new(|d: &mut EstD| d.cl.t += one)),
    ] {
        let mut d = run.d.clone();
        f(&mut d);
        check(ctx, w, &a, &d, name, true);
    }
    // response scalars are not part of the first message: the challenge stays (and the proof is rejected)
    let mut d = run.d.clone();
    d.st.zs[1] += one;
    check(ctx, w, &a, &d, "a-response-scalar", false);
    // public values
    let mut a2 = a.clone();
    a2.cb = if a.cb > 0 { a.cb - 1 } else { 1 };
    check(ctx, w, &a2, &run.d, "agreed-customer-balance", true);
    let mut a2 = a.clone();
    a2.mb = if a.mb > 0 { a.mb - 1 } else { 1 };
    check(ctx, w, &a2, &run.d, "agreed-merchant-balance", true);
    let other = Agreed::random(ctx);
    let mut a2 = a.clone();
    a2.cid = other.cid;
    a2.cid_s = other.cid_s;
    check(ctx, w, &a2, &run.d, "agreed-channel-id", true);
    // every byte position of the context
    // (long contexts: both ends, around every 4096-byte boundary, and a random sample)
    let n = a.ctx_bytes.len();
    let positions: Vec<usize> = if n <= 200 { (0..n).collect() } else {
        let mut v: Vec<usize> = (0..8).chain(n - 8..n).collect();
        let mut b = 4096;
        while b < n { for d in [b - 1, b] { v.push(d); } b += 4096; }
        for _ in 0..16 { v.push(ctx.prng.gen_range(0..n)); }
        v.sort(); v.dedup();
        v
    };
    for i in positions {
        let mut a2 = a.clone();
        a2.ctx_bytes[i] ^= 1 << ctx.prng.gen_range(0..8);
        check(ctx, w, &a2, &run.d, "context-byte", true);
    }
    let mut a2 = a.clone();
    a2.ctx_bytes.push(0);
    check(ctx, w, &a2, &run.d, "context-extended", true);
    // another merchant key
    check(ctx, w2, &a, &run.d, "merchant-key", true);
}

pub fn run(ctx: &mut Ctx) {
    let kinds: Vec<(&'static str, Vec<usize>)> = vec![
        ("scalar", vec![1]), ("g1affine", vec![1]), ("g1projective", vec![1]), ("g2affine", vec![1]), ("g2projective", vec![1]),
        ("commitment-g1", vec![1]), ("commitment-g2", vec![1]), ("blinded-message", vec![1]), ("signature", vec![1]), ("blinded-signature", vec![1]),
        // tuple lengths: the ones zkAbacus uses and their neighbours; 17 and 65 lie beyond 16 and 64 (block / buffer sizes:
        // a PublicKey<65> is 9600 bytes of hashed material, a PedersenParameters<G2, 65> 6336)
        ("commitment-proof-g1", vec![1, 2, 3, 5, 17, 65]), ("commitment-proof-g2", vec![1, 2, 3, 5, 17, 65]), ("signature-request-proof", vec![1, 2, 3, 5, 17, 65]),
        ("signature-proof", vec![1, 2, 3, 5, 17, 65]), ("pedersen-g1", vec![1, 2, 3, 5, 17, 65]), ("pedersen-g2", vec![1, 2, 3, 5, 17, 65]),
        ("public-key", vec![1, 2, 3, 5, 17, 65]), ("range-params", vec![1]), ("range-constraint", vec![1]),
    ];
    let reps = if ctx.thorough() { 6 } else { 1 };
    let mut idx = 0;
    for _ in 0..reps {
        for (k, ns) in &kinds {
            for &n in ns {
                idx += 1;
                library_case(ctx, idx, k, n);
            }
        }
    }
    for (k, ns) in &kinds {
        for &n in ns {
            if ctx.thorough() || n == *ns.last().unwrap() {
                idx += 1;
                repeat_case(ctx, idx, k, n);
            }
        }
    }
    for _ in 0..(if ctx.thorough() { 200 } else { 48 }) {
        idx += 1;
        bytes_case(ctx, idx);
    }
    let w = match world(ctx, false) { Some(w) => w, None => return };
    let w2 = match world(ctx, false) { Some(w) => w, None => return };
    let n = if ctx.thorough() { 6 * ctx.nshards } else { ctx.nshards };
    for _ in 0..n {
        idx += 1;
        establish_case(ctx, idx, &w, &w2);
    }
    let _ = (G1Affine::identity(), G2Affine::identity(), PkD { g1: Scalar::zero(), y1s: vec![], g2: Scalar::zero(), x2: Scalar::zero(), y2s: vec![] }, hex_list(&[]), rp_decoded as fn(&mut Ctx) -> _, CpD { c: Scalar::zero(), t: Scalar::zero(), zbf: Scalar::zero(), zs: vec![] }, pk_args as fn(&PkD) -> String);
}
