//! C03 — a customer who has accepted the merchant's establish reply can always close: histories with
//! faulty merchant replies (fault alphabet incl. the identity reply of a zero randomiser), stop-and-close
//! probes after every step, each step compared with the model's customer state machine.
use crate::abacus::*;
use crate::history::*;
use crate::report::Ctx;
use rand::Rng;

pub fn run(ctx: &mut Ctx) {
    let n = if ctx.thorough() { 40 } else { 5 };
    let mut worlds = vec![];
    for _ in 0..2 { match world(ctx, false) { Some(w) => worlds.push(w), None => { ctx.broken("cannot build a world"); return; } } }
    for k in 0..n {
        let idx = k * ctx.nshards + ctx.shard;
        if !ctx.begin_case(idx, "history-with-faulty-replies") { continue; }
        let cfg = HistCfg { ping_pong: false, close_tag_draws: false, faults_max: 3, restore: false, payments: if ctx.thorough() { ctx.prng.gen_range(1..=8) } else { ctx.prng.gen_range(1..=3) }, boundary_balances: ctx.prng.gen_range(0..4) == 0, valid_bias: true };
        // the two merchants take turns as the channel's merchant: one thread serves histories (and close checks) under both
        let ok = run_history(ctx, &worlds[k % 2], &worlds[1 - k % 2], &cfg);
        ctx.count(if ok { "history:complete" } else { "history:stopped-early" });
        ctx.traces += 1;
    }
}
