use crate::report::Ctx;
pub mod c07;
pub mod c09;

pub fn lookup(name: &str) -> Option<fn(&mut Ctx)> {
    match name {
        "C07" => Some(c07::run),
        "C09" => Some(c09::run),
        _ => None,
    }
}
