use crate::report::Ctx;
pub mod c01;
pub mod c02;
pub mod c03;
pub mod c04;
pub mod c05;
pub mod c06;
pub mod c07;
pub mod c08;
pub mod c09;
pub mod c10;
pub mod c11;
pub mod c12;
pub mod c13;
pub mod c14;
pub mod c15;
pub mod c17;
pub mod c18;
pub mod c19;
pub mod c20;

pub fn lookup(name: &str) -> Option<fn(&mut Ctx)> {
    match name {
        "C01" => Some(c01::run),
        "C02" => Some(c02::run),
        "C03" => Some(c03::run),
        "C04" => Some(c04::run),
        "C05" => Some(c05::run),
        "C06" => Some(c06::run),
        "C07" => Some(c07::run),
        "C08" => Some(c08::run),
        "C09" => Some(c09::run),
        "C10" => Some(c10::run),
        "C11" => Some(c11::run),
        "C12" => Some(c12::run),
        "C13" => Some(c13::run),
        "C14" => Some(c14::run),
        "C15" => Some(c15::run),
        "C16" => Some(c15::run_c16),
        "C17" => Some(c17::run),
        "C18" => Some(c18::run),
        "C19" => Some(c19::run),
        "C20" => Some(c20::run),
        _ => None,
    }
}
