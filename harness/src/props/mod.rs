use crate::report::Ctx;
pub mod c09;

pub fn lookup(name: &str) -> Option<fn(&mut Ctx)> {
    match name {
        "C09" => Some(c09::run),
        _ => None,
    }
}
