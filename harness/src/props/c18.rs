//! C18 — pay tokens and closing signatures can never stand in for each other.
use crate::abacus::*;
use crate::dl::{hex_list, hex_s};
use crate::gen::*;
use crate::kit::*;
use crate::props::c07::verify_check;
use crate::report::{Ctx, Real};
use crate::rng::ScriptedRng;
use crate::session::*;
use crate::wire;
use bls12_381::Scalar;
use rand::Rng;
use serde_json::json;
use zkabacus_crypto::verif_hooks as vh;
use zkabacus_crypto::{ChannelId, CloseState, CloseStateSignature, CustomerBalance, CustomerRandomness, MerchantBalance, MerchantRandomness, Nonce, Verification, CLOSE_SCALAR};
use zkchannels_crypto::pointcheval_sanders::Signature;

fn nonce_case(ctx: &mut Ctx, idx: usize, k: usize) {
    if !ctx.begin_case(idx, "nonce-new") {
        return;
    }
    let book = ctx.book.clone();
    // a stream whose first k scalar draws are the close tag
    let forced = vec![CLOSE_SCALAR; k];
    let mut rng = ScriptedRng::new(ctx.prng.gen(), book.clone());
    rng.force_scalars(&forced);
    let n = zkabacus_crypto::internal::test_new_nonce(&mut rng);
    let ns = vh::nonce_as_scalar(&n);
    let stream = stream_arg(&book, &rng.log, &[]);
    let _ = ctx.expect(&format!("nonce-new {} {}", hex_s(&CLOSE_SCALAR), stream), &[Real::V("ok".into()), Real::S(ns), Real::N(0)]);
    ctx.count(&format!("nonce-new:close-draws={}:{}", k, if ns != CLOSE_SCALAR { "ok" } else { "CLOSE-TAG" }));
    if ns == CLOSE_SCALAR {
        ctx.violation(&format!("Nonce::new returned the close tag on a stream starting with {} close-tag draws", k), json!({"class": "generated-nonce-is-close-tag", "close_draws": k}));
    }
    // through State::new and apply_payment (first draw of each is the nonce)
    let mut rng = ScriptedRng::new(ctx.prng.gen(), book.clone());
    rng.force_scalars(&forced);
    let cid: ChannelId = wire::de(&[9u8; 32]).unwrap();
    let st = vh::State::new(&mut rng, cid, MerchantBalance::try_new(5).unwrap(), CustomerBalance::try_new(7).unwrap());
    let mut rng2 = ScriptedRng::new(ctx.prng.gen(), book.clone());
    rng2.force_scalars(&forced);
    let st2 = st.apply_payment(&mut rng2, amount_of(1)).ok();
    for (s, what) in [(Some(&st), "State::new"), (st2.as_ref(), "apply_payment")] {
        if let Some(s) = s {
            let m = vh::state_to_message(s);
            let cm = vh::close_state_to_message(&s.close_state());
            ctx.evals += 1;
            if m[1] == CLOSE_SCALAR || m[1] == cm[1] || cm[1] != CLOSE_SCALAR {
                ctx.violation(&format!("{}: state message and close-state message do not differ in the second slot", what), json!({"class": "state-nonce-is-close-tag", "close_draws": k}));
            }
            if (0..5).any(|i| i != 1 && m[i] != cm[i]) {
                ctx.violation(&format!("{}: close-state message differs from the state message outside the second slot", what), json!({"class": "close-state-message-shape"}));
            }
        }
    }
    // decoding
    for s in [CLOSE_SCALAR, CLOSE_SCALAR + Scalar::one(), CLOSE_SCALAR - Scalar::one(), Scalar::zero(), rand_scalar(&mut ctx.prng)] {
        let r = wire::de::<Nonce>(&wire::enc_s(&s));
        let _ = ctx.expect(&format!("nonce-ok {} {}", hex_s(&CLOSE_SCALAR), hex_s(&s)), &[Real::B(r.is_ok())]);
        if r.is_ok() == (s == CLOSE_SCALAR) {
            ctx.violation("nonce decoding accepts the close tag / rejects another scalar", json!({"class": "decoded-nonce-close-tag", "scalar": hex_s(&s)}));
        }
    }
}

/// 256-bit little-endian addition of `k·q` to a canonical scalar encoding (None on overflow)
fn plus_kq(b: &[u8; 32], k: u32) -> Option<[u8; 32]> {
    const Q: [u64; 4] = [0xffff_ffff_0000_0001, 0x53bd_a402_fffe_5bfe, 0x3339_d808_09a1_d805, 0x73ed_a753_299d_7d48];
    let mut l = [0u64; 4];
    for i in 0..4 { let mut a = [0u8; 8]; a.copy_from_slice(&b[8 * i..8 * i + 8]); l[i] = u64::from_le_bytes(a); }
    for _ in 0..k {
        let mut carry = 0u128;
        for i in 0..4 { let t = l[i] as u128 + Q[i] as u128 + carry; l[i] = t as u64; carry = t >> 64; }
        if carry != 0 { return None; }
    }
    let mut out = [0u8; 32];
    for i in 0..4 { out[8 * i..8 * i + 8].copy_from_slice(&l[i].to_le_bytes()); }
    Some(out)
}

/// byte strings that are *not* canonical scalar encodings, in the nonce position: every one must be refused —
/// in particular the ones congruent to the close tag mod q
fn noncanonical_nonce_case(ctx: &mut Ctx, idx: usize) {
    if !ctx.begin_case(idx, "nonce-noncanonical-encodings") {
        return;
    }
    let mut inputs: Vec<(&str, [u8; 32])> = vec![];
    for (what, s) in [("close-tag", CLOSE_SCALAR), ("close-tag+1", CLOSE_SCALAR + Scalar::one()), ("zero", Scalar::zero()), ("one", Scalar::one()), ("random", rand_scalar(&mut ctx.prng))] {
        for k in 1..=2u32 {
            if let Some(b) = plus_kq(&s.to_bytes(), k) { inputs.push((what, b)); }
        }
    }
    inputs.push(("all-ones", [0xff; 32]));
    for (what, b) in inputs {
        ctx.evals += 1;
        let r = wire::de::<Nonce>(&b);
        ctx.count(&format!("nonce-decode:noncanonical-{}:{}", what, if r.is_ok() { "ACCEPTED" } else { "refused" }));
        if let Ok(n) = r {
            let is_close = zkabacus_crypto::verif_hooks::nonce_as_scalar(&n) == CLOSE_SCALAR;
            ctx.violation(
                &format!("a non-canonical 32-byte string (congruent to {} mod q) decodes as a nonce{}", what, if is_close { " whose scalar IS the close tag: state and close-state messages coincide" } else { "" }),
                json!({"class": if is_close { "decoded-nonce-is-close-tag" } else { "noncanonical-nonce-accepted" }, "bytes": hex::encode(b)}),
            );
        }
    }
}

/// A merchant key whose slot-`i` generators are the identity gives slot `i` no weight: with `i` = the nonce /
/// close-tag slot, state and close-state messages would be indistinguishable to every signature.  Such a key
/// (every single slot, in G1, in G2, in both) must not decode.
fn identity_slot_key_case(ctx: &mut Ctx, idx: usize, w: &World) {
    if !ctx.begin_case(idx, "key-with-identity-slot") {
        return;
    }
    let book = ctx.book.clone();
    let honest = wire::pk_bytes(&book, &w.kpd.pk); // g1 48 | len 8 | y1s 5x48 | g2 96 | x2 96 | len 8 | y2s 5x96
    let (o1, o2) = (48 + 8, 48 + 8 + 5 * 48 + 96 + 96 + 8);
    for i in 0..5 {
        for which in 0..3 {
            let mut b = honest.clone();
            if which != 1 { b[o1 + 48 * i..o1 + 48 * (i + 1)].copy_from_slice(&{ let mut z = vec![0u8; 48]; z[0] = 0xc0; z }); }
            if which != 0 { b[o2 + 96 * i..o2 + 96 * (i + 1)].copy_from_slice(&{ let mut z = vec![0u8; 96]; z[0] = 0xc0; z }); }
            ctx.evals += 1;
            let ok = wire::de::<zkabacus_crypto::PublicKey>(&b).is_ok();
            ctx.count(&format!("key-decode:identity-in-slot:{}", if ok { "ACCEPTED" } else { "refused" }));
            if ok {
                ctx.violation(&format!("a public key whose slot-{} generator ({}) is the identity decodes: that slot of every signed message carries no weight{}", i + 1, ["G1", "G2", "G1 and G2"][which], if i == 1 { " — the nonce / close-tag slot: pay tokens and closing signatures become interchangeable" } else { "" }),
                    json!({"class": "key-with-identity-slot-decodes", "slot": i + 1, "bytes": hex::encode(&b)}));
            }
        }
    }
}

fn swap_case(ctx: &mut Ctx, idx: usize, w: &World) {
    if !ctx.begin_case(idx, "token-vs-closing-signature") {
        return;
    }
    let a = Agreed::random(ctx);
    let mut s = match open_session(ctx, w, &a) { Some(s) => s, None => return };
    let hist = ctx.prng.gen_range(0..2);
    for _ in 0..hist {
        let amt = crate::props::c02::valid_amount(ctx, s.cb, s.mb);
        if !honest_payment(ctx, &mut s, amt) { return; }
    }
    let ready = match s.ready.take() { Some(r) => r, None => return };
    let rb = wire::ser(&ready);
    let state: vh::State = wire::de(&rb[..145]).unwrap();
    let token: Signature = wire::de(&rb[145..241]).unwrap();
    let closing: Signature = wire::de(&rb[241..337]).unwrap();
    let msg = vh::state_to_message(&state).to_vec();
    let cmsg = vh::close_state_to_message(&state.close_state()).to_vec();
    let pk = w.customer.merchant_public_key();
    let _ = verify_check(ctx, pk, &w.kpd.pk, &token, &msg, Some(true), "pay-token-on-state");
    let _ = verify_check(ctx, pk, &w.kpd.pk, &token, &cmsg, Some(false), "pay-token-on-close-state");
    let _ = verify_check(ctx, pk, &w.kpd.pk, &closing, &cmsg, Some(true), "closing-signature-on-close-state");
    let _ = verify_check(ctx, pk, &w.kpd.pk, &closing, &msg, Some(false), "closing-signature-on-state");
    // through the merchant's close check
    let cs: CloseState = state.close_state();
    let as_close: CloseStateSignature = wire::de(&rb[145..241]).unwrap();
    let ok = matches!(w.merchant.check_close_signature(as_close, &cs), Verification::Verified);
    ctx.count(&format!("close-check:pay-token-as-closing-signature:{}", ok));
    if ok {
        ctx.violation("the merchant's close check accepts a pay token as closing signature", json!({"class": "pay-token-accepted-as-closing-signature"}));
    }
    let real_close: CloseStateSignature = wire::de(&rb[241..337]).unwrap();
    let ok = matches!(w.merchant.check_close_signature(real_close, &cs), Verification::Verified);
    if !ok {
        ctx.violation("the merchant's close check rejects the stored closing signature", json!({"class": "honest-close-rejected"}));
    }
}

fn channel_id_case(ctx: &mut Ctx, idx: usize, w: &World) {
    if !ctx.begin_case(idx, "channel-id") {
        return;
    }
    let rb = |ctx: &mut Ctx, n: usize| -> Vec<u8> { (0..n).map(|_| ctx.prng.gen()).collect() };
    let mr = rb(ctx, 32);
    let cr = rb(ctx, 32);
    // account-info lengths: short, around one byte / two bytes of length field, and beyond 64 KiB
    let lens = [0usize, 1, 7, 19, 255, 256, 257, 65535, 65536, 65537, 70000];
    let pickl = |ctx: &mut Ctx| -> usize { if ctx.prng.gen_range(0..3) == 0 { lens[ctx.prng.gen_range(0..lens.len())] } else { ctx.prng.gen_range(0..20) } };
    let (la, lb) = (pickl(ctx), pickl(ctx));
    let mut ma = rb(ctx, la);
    let mut ca = rb(ctx, lb);
    // account info is "text" to its users: in a third of the cases a string with the features text handling trips over
    // (byte-order mark, surrounding white space, line ends, NUL, mixed case, composed / decomposed accents)
    let textish = |ctx: &mut Ctx| -> Vec<u8> {
        let core = ["Alice", "tz1-Account_07", "caf\u{e9}", "cafe\u{301}", "", "0x00ff", "a b"][ctx.prng.gen_range(0..7)];
        let pre = ["", "\u{feff}", " ", "\t", "\u{feff}\u{feff}", "\0"][ctx.prng.gen_range(0..6)];
        let post = ["", "\n", "\r\n", " ", "\0", "\u{feff}"][ctx.prng.gen_range(0..6)];
        format!("{}{}{}", pre, core, post).into_bytes()
    };
    if ctx.prng.gen_range(0..3) == 0 { ma = textish(ctx); }
    if ctx.prng.gen_range(0..3) == 0 { ca = textish(ctx); }
    let pk = w.customer.merchant_public_key();
    // the key's bytes as they enter the channel id, assembled independently of the code under test:
    // g1 | Y_1..Y_5 | g~ | X~ | Y~_1..Y~_5 (compressed, no length prefixes)
    let pkb = {
        let k = &w.kpd.pk;
        let mut v = wire::enc_g1(&ctx.book, &k.g1);
        for y in &k.y1s { v.extend(wire::enc_g1(&ctx.book, y)); }
        v.extend(wire::enc_g2(&ctx.book, &k.g2));
        v.extend(wire::enc_g2(&ctx.book, &k.x2));
        for y in &k.y2s { v.extend(wire::enc_g2(&ctx.book, y)); }
        v
    };
    ctx.evals += 1;
    if pk.to_bytes() != pkb {
        ctx.count("public-key-to-bytes:MISMATCH");
        ctx.disagreements.push(json!({"kind": "model-vs-implementation", "case": ctx.case_id, "what": "PublicKey::to_bytes is not g1 | Y_1..Y_N | g~ | X~ | Y~_1..Y~_N"}));
    }
    let id = |mr: &[u8], cr: &[u8], ma: &[u8], ca: &[u8]| -> [u8; 32] {
        ChannelId::new(wire::de::<MerchantRandomness>(mr).unwrap(), wire::de::<CustomerRandomness>(cr).unwrap(), pk, ma, ca).to_bytes()
    };
    let base = id(&mr, &cr, &ma, &ca);
    let op = format!("channel-id-preimage {} {} {} {} {}", hex::encode(&mr), hex::encode(&cr), hex::encode(&pkb), if ma.is_empty() { "-".into() } else { hex::encode(&ma) }, if ca.is_empty() { "-".into() } else { hex::encode(&ca) });
    let toks = ctx.ask(&op);
    ctx.evals += 1;
    let pre = match toks.get(0) { Some(crate::model::Tok::X(b)) => b.clone(), _ => vec![] };
    let _ = crate::abacus::model_hash_matches(ctx, &pre, &base); // the model's executed SHA3 of its own preimage is the real id
    if sha3_256(&pre) != base {
        ctx.count("channel-id:MISMATCH");
        ctx.disagreements.push(json!({"kind": "model-vs-implementation", "case": ctx.case_id, "what": "ChannelId::new is not SHA3-256 of the model's preimage", "op": op}));
    } else {
        ctx.count("channel-id:match");
    }
    if id(&mr, &cr, &ma, &ca) != base {
        ctx.violation("ChannelId::new is not deterministic", json!({"class": "channel-id-not-deterministic"}));
    }
    // a change to any single input changes the id (same-length replacements and one-byte flips)
    // one bit flipped at a random position — or, half of the time, in the last byte (truncation at a length limit)
    let flip = |ctx: &mut Ctx, v: &[u8]| -> Option<Vec<u8>> { if v.is_empty() { None } else { let mut x = v.to_vec(); let i = if ctx.prng.gen_range(0..2) == 0 { x.len() - 1 } else { ctx.prng.gen_range(0..x.len()) }; x[i] ^= 1 << ctx.prng.gen_range(0..8); Some(x) } };
    let mut alts: Vec<(&str, [u8; 32])> = vec![];
    if let Some(x) = flip(ctx, &mr) { alts.push(("merchant-randomness", id(&x, &cr, &ma, &ca))); }
    if let Some(x) = flip(ctx, &cr) { alts.push(("customer-randomness", id(&mr, &x, &ma, &ca))); }
    if let Some(x) = flip(ctx, &ma) { alts.push(("merchant-account", id(&mr, &cr, &x, &ca))); }
    if let Some(x) = flip(ctx, &ca) { alts.push(("customer-account", id(&mr, &cr, &ma, &x))); }
    let mut ma2 = ma.clone(); ma2.push(0);
    alts.push(("merchant-account-extended", id(&mr, &cr, &ma2, &ca)));
    let mut ca2 = ca.clone(); ca2.push(0);
    alts.push(("customer-account-extended", id(&mr, &cr, &ma, &ca2)));
    // every other spelling of the "same text" is a different input: byte-order mark added / removed, trimmed, padded,
    // line end changed, case folded, accent composed / decomposed, trailing NUL dropped
    let spellings = |v: &[u8]| -> Vec<Vec<u8>> {
        let mut out: Vec<Vec<u8>> = vec![];
        let bom = b"\xEF\xBB\xBF";
        let mut x = bom.to_vec(); x.extend(v); out.push(x);
        if v.starts_with(bom) { out.push(v[3..].to_vec()); }
        if let Ok(t) = std::str::from_utf8(v) {
            for u in [t.trim().to_string(), t.trim_start_matches('\u{feff}').to_string(), t.trim_end_matches('\0').to_string(), t.to_lowercase(), t.to_uppercase(), t.replace("\r\n", "\n"), t.replace("\n", "\r\n"),
                      t.replace("e\u{301}", "\u{e9}"), t.replace("\u{e9}", "e\u{301}"), format!(" {}", t), format!("{}\n", t)] {
                out.push(u.into_bytes());
            }
        }
        out.retain(|x| x[..] != v[..]);
        out.sort(); out.dedup();
        out
    };
    for x in spellings(&ma) { alts.push(("merchant-account-respelled", id(&mr, &cr, &x, &ca))); }
    for x in spellings(&ca) { alts.push(("customer-account-respelled", id(&mr, &cr, &ma, &x))); }
    for (what, v) in alts {
        ctx.evals += 1;
        ctx.count(&format!("channel-id:{}:{}", what, if v != base { "changed" } else { "UNCHANGED" }));
        if v == base {
            ctx.violation(&format!("changing {} leaves the channel id unchanged", what), json!({"class": "channel-id-input-not-bound", "input": what}));
        }
    }
    let _ = (hex_list(&[]), pk_args as fn(&crate::wire::PkD) -> String);
}

fn key_input_case(ctx: &mut Ctx, idx: usize, w: &World, w2: &World) {
    if !ctx.begin_case(idx, "channel-id-key") {
        return;
    }
    let mr = [1u8; 32];
    let cr = [2u8; 32];
    let a = ChannelId::new(wire::de(&mr).unwrap(), wire::de(&cr).unwrap(), w.customer.merchant_public_key(), b"m", b"c").to_bytes();
    let b = ChannelId::new(wire::de(&mr).unwrap(), wire::de(&cr).unwrap(), w2.customer.merchant_public_key(), b"m", b"c").to_bytes();
    ctx.evals += 1;
    if a == b {
        ctx.violation("changing the merchant public key leaves the channel id unchanged", json!({"class": "channel-id-input-not-bound", "input": "public-key"}));
    }
    // keys differing from the original in a single element (each of the 13 in turn)
    let book = ctx.book.clone();
    let mut seen: Vec<(String, [u8; 32])> = vec![("original".into(), a), ("independent-key".into(), b)];
    for e in 0..13 {
        let mut k = w.kpd.pk.clone();
        let what = match e { 0 => { k.g1 += Scalar::one(); "g1".to_string() } 1..=5 => { k.y1s[e - 1] += Scalar::one(); format!("Y_{}", e) } 6 => { k.g2 += Scalar::one(); "g~".into() } 7 => { k.x2 += Scalar::one(); "X~".into() } _ => { k.y2s[e - 8] += Scalar::one(); format!("Y~_{}", e - 7) } };
        let pk2 = match wire::pubkey::<5>(&book, &k) { Ok(p) => p, Err(_) => continue };
        let c = ChannelId::new(wire::de(&mr).unwrap(), wire::de(&cr).unwrap(), &pk2, b"m", b"c").to_bytes();
        ctx.evals += 1;
        ctx.count(&format!("channel-id:key-element-replaced:{}", if c != a { "changed" } else { "UNCHANGED" }));
        if c == a {
            ctx.violation(&format!("replacing the element {} of the merchant public key leaves the channel id unchanged", what), json!({"class": "channel-id-key-element-not-bound", "element": what}));
        }
        // neighbour keys are evaluated back to back on one thread: all fifteen ids are pairwise different (a value
        // carried over from the previous call, keyed on part of the key, shows as two neighbours with one id)
        if let Some((prev, _)) = seen.iter().find(|(_, v)| *v == c) {
            ctx.violation(&format!("the keys with element {} replaced and with element {} replaced (all else equal) have the same channel id", prev, what), json!({"class": "channel-id-neighbour-keys-collide", "first": prev, "second": what}));
        }
        seen.push((what, c));
    }
    // … and the original key again, after its neighbours: the id it had before
    let a2 = ChannelId::new(wire::de(&mr).unwrap(), wire::de(&cr).unwrap(), w.customer.merchant_public_key(), b"m", b"c").to_bytes();
    ctx.evals += 1;
    ctx.count(&format!("channel-id:original-key-after-neighbours:{}", if a2 == a { "same" } else { "DIFFERENT" }));
    if a2 != a {
        ctx.violation("the channel id of a key changes after ids were derived for neighbouring keys", json!({"class": "channel-id-not-deterministic", "after": "neighbour-keys"}));
    }
}

pub fn run(ctx: &mut Ctx) {
    let mut idx = 0;
    for rep in 0..(if ctx.thorough() { 8 } else { 2 }) {
        for k in 0..5 {
            let _ = rep;
            idx += 1;
            nonce_case(ctx, idx, k);
        }
    }
    idx += 1; noncanonical_nonce_case(ctx, idx);
    let w = match world(ctx, false) { Some(w) => w, None => return };
    let w2 = match world(ctx, false) { Some(w) => w, None => return };
    let n = if ctx.thorough() { 12 * ctx.nshards } else { ctx.nshards };
    for _ in 0..n {
        idx += 1; swap_case(ctx, idx, &w);
        idx += 1; channel_id_case(ctx, idx, &w);
    }
    idx += 1; key_input_case(ctx, idx, &w, &w2);
    idx += 1; identity_slot_key_case(ctx, idx, &w);
}
