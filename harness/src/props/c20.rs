//! C20 — a customer restored from its stored form continues identically: at every step of a history
//! the state is written out and read back, and original and restored react to the same next input
//! (merchant reply, or start under the same randomness) byte-identically.
use crate::abacus::*;
use crate::history::*;
use crate::report::Ctx;
use crate::session::*;
use crate::wire;
use rand::Rng;
use serde_json::json;

/// The caller's randomness repeats itself between two calls (a generator re-created from the same seed, a VM snapshot
/// resumed twice): the payment's new state then carries the same nonce and revocation pair as the old one.  Such a
/// customer works in memory - every message it emits is accepted - so every state it holds must also be storable and
/// restorable: restore is checked at the Started and the Locked stage (binary and JSON), with byte-identical results.
fn repeating_stream_case(ctx: &mut Ctx, idx: usize, w: &World) {
    if !ctx.begin_case(idx, "restore-under-a-repeating-stream") { return; }
    let a = Agreed::random(ctx);
    let (n, s) = (crate::gen::nonzero(&mut ctx.prng), crate::gen::rand_scalar(&mut ctx.prng));
    ctx.forced_next = vec![n, s];
    let mut sess = match open_session(ctx, w, &a) { Some(x) => x, None => return };
    let ready = match sess.ready.take() { Some(r) => r, None => return };
    let amount = crate::props::c02::valid_amount(ctx, sess.cb, sess.mb);
    ctx.forced_next = vec![n, s];
    let run = match pay_start(ctx, w, &a, ready, amount) { StartOutcome::Started(r) => *r, _ => return };
    let sb = wire::ser(&run.started);
    let same_pair = sb[64..129] == sb[145 + 64..145 + 129];
    ctx.count(&format!("repeating-stream:old-and-new-revocation-pair-{}", if same_pair { "equal" } else { "differ" }));
    let check = |ctx: &mut Ctx, stage: Stage, what: &str| {
        let b = stage.bytes();
        ctx.evals += 1;
        match stage.restore() {
            Ok(r) if r.bytes() == b => ctx.count(&format!("repeating-stream:restore-{}:same", what)),
            Ok(_) => ctx.violation(&format!("a {} state held under a repeating stream restores to different bytes", what), json!({"class": "restore-differs", "stage": what, "bytes": hex::encode(&b)})),
            Err(e) => ctx.violation(&format!("a {} state the customer holds (old and new state share nonce and revocation pair because the caller's randomness repeated) cannot be restored: {}", what, e), json!({"class": "restore-fails", "stage": what, "bytes": hex::encode(&b), "error": e})),
        }
        match stage.restore_json() {
            Ok(j) if j == b => ctx.count(&format!("repeating-stream:restore-json-{}:same", what)),
            Ok(_) => ctx.violation(&format!("a {} state held under a repeating stream restores from JSON to different bytes", what), json!({"class": "restore-json-differs", "stage": what})),
            Err(e) => ctx.violation(&format!("a {} state held under a repeating stream cannot be restored from JSON: {}", what, e), json!({"class": "restore-json-fails", "stage": what, "error": e})),
        }
    };
    let started_copy: zkabacus_crypto::customer::Started = match wire::de(&sb) { Ok(x) => x, Err(e) => {
        ctx.violation(&format!("a Started state the customer holds (the caller's randomness repeated) cannot be restored: {}", e), json!({"class": "restore-fails", "stage": "started", "bytes": hex::encode(&sb), "error": e}));
        return;
    } };
    check(ctx, Stage::Started(started_copy), "started");
    // the merchant accepts the payment; the customer locks; the Locked state must restore as well
    if let Some(o) = allow_check(ctx, w, &run.nonce_s, amount, &a.ctx_bytes, &run.d, None, "repeating-stream") {
        if let Some((_un, closing)) = o.accepted {
            if let Ok((locked, _lm)) = run.started.lock(closing, &w.customer) {
                check(ctx, Stage::Locked(locked), "locked");
            }
        }
    }
}

pub fn run(ctx: &mut Ctx) {
    let n = if ctx.thorough() { 20 } else { 5 };
    let mut worlds = vec![];
    for _ in 0..2 { match world(ctx, false) { Some(w) => worlds.push(w), None => { ctx.broken("cannot build a world"); return; } } }
    for k in 0..n {
        let idx = k * ctx.nshards + ctx.shard;
        if !ctx.begin_case(idx, "history-with-restore") { continue; }
        let cfg = HistCfg { ping_pong: false, close_tag_draws: true, faults_max: 1, restore: true, payments: if ctx.thorough() { ctx.prng.gen_range(2..=10) } else { ctx.prng.gen_range(2..=4) }, boundary_balances: ctx.prng.gen_range(0..2) == 0, valid_bias: true };
        // the two merchants take turns as the channel's merchant: one thread serves histories (and close checks) under both
        let ok = run_history(ctx, &worlds[k % 2], &worlds[1 - k % 2], &cfg);
        ctx.count(if ok { "history:complete" } else { "history:stopped-early" });
        ctx.traces += 1;
    }
    for k in 0..(if ctx.thorough() { 4 } else { 1 }) {
        repeating_stream_case(ctx, (1000 + k) * ctx.nshards + ctx.shard, &worlds[k % 2]);
    }
}
