//! C20 — a customer restored from its stored form continues identically: at every step of a history
//! the state is written out and read back, and original and restored react to the same next input
//! (merchant reply, or start under the same randomness) byte-identically.
use crate::abacus::*;
use crate::history::*;
use crate::report::Ctx;
use rand::Rng;

pub fn run(ctx: &mut Ctx) {
    let n = if ctx.thorough() { 20 } else { 5 };
    let mut worlds = vec![];
    for _ in 0..2 { match world(ctx, false) { Some(w) => worlds.push(w), None => { ctx.broken("cannot build a world"); return; } } }
    for k in 0..n {
        let idx = k * ctx.nshards + ctx.shard;
        if !ctx.begin_case(idx, "history-with-restore") { continue; }
        let cfg = HistCfg { close_tag_draws: true, faults_max: 1, restore: true, payments: if ctx.thorough() { ctx.prng.gen_range(2..=10) } else { ctx.prng.gen_range(2..=4) }, boundary_balances: ctx.prng.gen_range(0..2) == 0, valid_bias: true };
        // the two merchants take turns as the channel's merchant: one thread serves histories (and close checks) under both
        let ok = run_history(ctx, &worlds[k % 2], &worlds[1 - k % 2], &cfg);
        ctx.count(if ok { "history:complete" } else { "history:stopped-early" });
        ctx.traces += 1;
    }
}
