//! C19 — generated keys and parameters are well-formed for every randomness stream.
use crate::dl::hex_s;
use crate::gen::*;
use crate::kit::*;
use crate::props::c07::verify_check;
use crate::props::c09::{params_dlogs, HG};
use crate::rangelab::*;
use crate::report::{Ctx, Real};
use crate::rng::{Draw, ScriptedRng};
use crate::wire;
use bls12_381::{pairing, G1Affine, G1Projective, G2Affine, G2Projective, Scalar};
use rand::Rng;
use serde_json::json;
use zkchannels_crypto::pedersen::PedersenParameters;
use zkchannels_crypto::pointcheval_sanders::KeyPair;

/// forced scalar draws: `offset` random non-zero scalars, then a window of `width` zeros
fn zero_window(ctx: &mut Ctx, offset: usize, width: usize) -> Vec<Scalar> {
    let mut v: Vec<Scalar> = (0..offset).map(|_| nonzero(&mut ctx.prng)).collect();
    v.extend(vec![Scalar::zero(); width]);
    v
}

fn keypair_oracle<const N: usize>(ctx: &mut Ctx, kp: &KeyPair<N>, what: &str) {
    let b = wire::ser(kp);
    let s_at = |o: usize| -> Scalar { let mut a = [0u8; 32]; a.copy_from_slice(&b[o..o + 32]); Scalar::from_bytes(&a).unwrap() };
    let g1_at = |o: usize| -> G1Affine { let mut a = [0u8; 48]; a.copy_from_slice(&b[o..o + 48]); G1Affine::from_compressed(&a).unwrap() };
    let g2_at = |o: usize| -> G2Affine { let mut a = [0u8; 96]; a.copy_from_slice(&b[o..o + 96]); G2Affine::from_compressed(&a).unwrap() };
    let mut bad = vec![];
    let x = s_at(0);
    if x == Scalar::zero() { bad.push("x is zero".to_string()); }
    let mut o = 40;
    for i in 0..N { if s_at(o) == Scalar::zero() { bad.push(format!("y[{}] is zero", i)); } o += 32; }
    let x1 = g1_at(o); o += 48;
    let g1 = g1_at(o); o += 48 + 8;
    let y1s: Vec<G1Affine> = (0..N).map(|i| g1_at(o + 48 * i)).collect(); o += 48 * N;
    let g2 = g2_at(o); o += 96;
    let x2 = g2_at(o); o += 96 + 8;
    let y2s: Vec<G2Affine> = (0..N).map(|i| g2_at(o + 96 * i)).collect();
    if bool::from(x1.is_identity()) || bool::from(g1.is_identity()) || bool::from(g2.is_identity()) || bool::from(x2.is_identity()) { bad.push("identity among x1, g1, g2, x2".into()); }
    for i in 0..N {
        if bool::from(y1s[i].is_identity()) || bool::from(y2s[i].is_identity()) { bad.push(format!("y1s[{}] or y2s[{}] is the identity", i, i)); }
        if pairing(&y1s[i], &g2) != pairing(&g1, &y2s[i]) { bad.push(format!("Y1[{}] and Y2[{}] do not share their discrete logarithm", i, i)); }
    }
    if pairing(&x1, &g2) != pairing(&g1, &x2) { bad.push("X1 and X2 do not share their discrete logarithm".into()); }
    if wire::de::<KeyPair<N>>(&b).is_err() { bad.push("generated key pair fails the library's own decode-time validation".into()); }
    ctx.count(&format!("keygen:{}:{}", what, if bad.is_empty() { "well-formed" } else { "MALFORMED" }));
    if !bad.is_empty() {
        ctx.violation(&format!("generated key pair is not well-formed: {}", bad.join("; ")), json!({"class": "keygen-malformed", "N": N, "stream": what, "keypair_bytes": hex::encode(&b)}));
    }
}

fn keygen_case<const N: usize>(ctx: &mut Ctx, idx: usize) {
    if !ctx.begin_case(idx, &format!("keygen-N{}", N)) {
        return;
    }
    // uniformly random stream
    let mut rng = ScriptedRng::new(ctx.prng.gen(), ctx.book.clone());
    let kp0 = KeyPair::<N>::new(&mut rng);
    keypair_oracle::<N>(ctx, &kp0, "random");
    if let Some((kp, kpd)) = gen_keypair::<N>(ctx, &[]) {
        keypair_oracle::<N>(ctx, &kp, "random");
        // signatures made with a generated key verify
        let ms = edge_vec(&mut ctx.prng, N);
        // a signing stream whose first scalar draws would be zero must still give a verifying signature
        {
            let mut rng0 = ScriptedRng::new(ctx.prng.gen(), ctx.book.clone());
            rng0.force_scalars(&[Scalar::zero(), Scalar::zero()]);
            let sig0 = wire::msg::<N>(&ms).sign(&mut rng0, &kp);
            ctx.evals += 1;
            let good = sig0.is_well_formed() && sig0.verify(kp.public_key(), &wire::msg::<N>(&ms));
            ctx.count(&format!("sign-under-zero-scalar-draws:{}", if good { "verifies" } else { "BROKEN" }));
            if !good {
                ctx.violation("a signature produced by sign() under a stream whose scalar draws start with zeros does not verify on its own message", json!({"class": "sign-degenerate-stream", "N": N}));
            }
        }
        let mut rng = ScriptedRng::new(ctx.prng.gen(), ctx.book.clone());
        let sig = wire::msg::<N>(&ms).sign(&mut rng, &kp);
        if let (Some(h), Some(_)) = (ctx.book.dlog_g1(&sig.sigma1()), Some(())) {
            let op = format!("ps-sign {} {} {} {}", hex_s(&kpd.x), crate::dl::hex_list(&kpd.ys), hex_s(&h), crate::dl::hex_list(&ms));
            if ctx.expect(&op, &[Real::G1(sig.sigma1()), Real::G1(sig.sigma2())]) {
                let _ = verify_check(ctx, kp.public_key(), &kpd.pk, &sig, &ms, Some(true), "generated-key-signature");
            }
        }
    }
    // all-zero windows at every offset / width aligned with a scalar draw
    // (long keys: the first and last offsets, the neighbourhood of 16 / 32 / 64 and a random sample)
    let offsets: Vec<usize> = if N <= 20 { (0..=N + 3).collect() } else {
        let mut v = vec![0, 1, 2, N - 1, N, N + 1, N + 2, N + 3];
        for b in [16usize, 32, 64] { for d in [b - 1, b, b + 1] { if d <= N + 3 { v.push(d); } } }
        for _ in 0..3 { v.push(ctx.prng.gen_range(0..=N + 3)); }
        v.sort(); v.dedup();
        v
    };
    for offset in offsets {
        for width in 1..=2 {
            let forced = zero_window(ctx, offset, width);
            // the unscripted comparison first (oracle only), then the model comparison
            let mut rng = ScriptedRng::new(ctx.prng.gen(), ctx.book.clone());
            rng.force_scalars(&forced);
            let kp = KeyPair::<N>::new(&mut rng);
            keypair_oracle::<N>(ctx, &kp, &format!("zero-window@{}x{}", offset, width));
            if let Some((kp, _)) = gen_keypair::<N>(ctx, &forced) {
                keypair_oracle::<N>(ctx, &kp, &format!("zero-window@{}x{}", offset, width));
            }
        }
    }
}

fn ped_case<G: HG, const N: usize>(ctx: &mut Ctx, idx: usize) {
    if !ctx.begin_case(idx, &format!("pedersen-new-{}-N{}", G::NAME, N)) {
        return;
    }
    let book = ctx.book.clone();
    let mut rng = ScriptedRng::new(ctx.prng.gen(), book.clone());
    let pp = PedersenParameters::<G, N>::new(&mut rng);
    let bytes = wire::ser(&pp);
    let stream = stream_arg(&book, &rng.log, &bytes);
    let mut reals = vec![Real::V("ok".into()), G::real_bytes(&bytes[..G::LEN]).unwrap(), Real::L(N)];
    for i in 0..N {
        reals.push(G::real_bytes(&bytes[G::LEN + 8 + i * G::LEN..G::LEN + 8 + (i + 1) * G::LEN]).unwrap());
    }
    reals.push(Real::N(0));
    let _ = ctx.expect(&format!("ped-gen{} {:x} {}", if G::NAME == "G1" { 1 } else { 2 }, N, stream), &reals);
    let ok = params_dlogs(&book, &pp).map(|(h, gs)| h != Scalar::zero() && gs.iter().all(|g| *g != Scalar::zero())).unwrap_or(false)
        && wire::de::<PedersenParameters<G, N>>(&bytes).is_ok();
    ctx.count(&format!("pedersen-new:{}", if ok { "non-identity" } else { "MALFORMED" }));
    if !ok {
        ctx.violation("generated Pedersen parameters contain the identity / fail decode-time validation", json!({"class": "pedersen-new-malformed", "group": G::NAME, "N": N}));
    }
}

fn range_params_case(ctx: &mut Ctx, idx: usize, offset: usize, width: usize) {
    if !ctx.begin_case(idx, "range-params-new") {
        return;
    }
    // width 99: a range key with x = -i·y, for which the signature on digit i has σ₂ = 1 (still a valid signature)
    let forced = if width == 0 { vec![] } else if width == 99 {
        let y = nonzero(&mut ctx.prng);
        let i = [1u64, 2, 64, 127][offset % 4];
        vec![-(Scalar::from(i) * y), y]
    } else { zero_window(ctx, offset, width) };
    if let Some((rp, rpd)) = rp_generated(ctx, &forced) {
        let valid = rp.validate().is_ok();
        let _ = ctx.expect(&format!("rp-validate {}", rpd.args()), &[Real::B(valid)]);
        let redecode = wire::de::<zkchannels_crypto::proofs::RangeConstraintParameters>(&wire::ser(&rp)).is_ok();
        // every digit signature verifies on its digit (independent of validate())
        let mut all = true;
        for (i, (s1, s2)) in rpd.sigs.iter().enumerate() {
            let sig = wire::sig(&ctx.book, s1, s2);
            all &= sig.map(|s| s.verify(rp.public_key(), &Scalar::from(i as u64).into())).unwrap_or(false);
        }
        ctx.count(&format!("range-params:zero-window@{}x{}:{}", offset, width, if valid && redecode && all { "valid" } else { "INVALID" }));
        if !(valid && redecode && all) {
            ctx.violation("generated range parameters are not valid (a digit signature does not verify / validate() fails / decode fails)", json!({"class": "range-params-invalid", "offset": offset, "width": width}));
        }
    }
}

fn merchant_config_case(ctx: &mut Ctx, idx: usize) {
    if !ctx.begin_case(idx, "merchant-config-new") {
        return;
    }
    let book = ctx.book.clone();
    let mut rng = ScriptedRng::new(ctx.prng.gen(), book.clone());
    let off = ctx.prng.gen_range(0..6);
    let forced = zero_window(ctx, off, 1);
    rng.force_scalars(&forced);
    let cfg = zkabacus_crypto::merchant::Config::new(&mut rng);
    if let Some(d) = rng.desync.clone() { ctx.broken(&format!("scripted RNG desync in merchant::Config::new: {}", d)); return; }
    let kpb = wire::ser(cfg.signing_keypair());
    let revb = wire::ser(cfg.revocation_commitment_parameters());
    let rpb = wire::ser(cfg.range_constraint_parameters());
    let hay = [kpb.clone(), revb.clone(), rpb.clone()].concat();
    let log: Vec<Draw> = rng.log.clone();
    // split the draws: key pair = up to the first G2 draw; Pedersen parameters = the next two G1 draws; the rest = range parameters
    let k_end = match log.iter().position(|d| matches!(d, Draw::G2(_))) { Some(p) => p + 1, None => { ctx.broken("no G2 draw in merchant::Config::new"); return; } };
    if log.len() < k_end + 2 { ctx.broken("too few draws in merchant::Config::new"); return; }
    let (seg_k, seg_p, seg_r) = (&log[..k_end], &log[k_end..k_end + 2], &log[k_end + 2..]);
    let (mut reals, _, _) = match keypair_reals::<5>(cfg.signing_keypair()) { Some(r) => r, None => return };
    reals.push(Real::N(0));
    let _ = ctx.expect(&format!("keygen 5 {}", stream_arg(&book, seg_k, &hay)), &reals);
    keypair_oracle::<5>(ctx, cfg.signing_keypair(), "merchant-config");
    let reals = vec![Real::V("ok".into()), G1Projective::real_bytes(&revb[..48]).unwrap(), Real::L(1), G1Projective::real_bytes(&revb[56..104]).unwrap(), Real::N(0)];
    let _ = ctx.expect(&format!("ped-gen1 1 {}", stream_arg(&book, seg_p, &hay)), &reals);
    if let Some(mut reals) = rp_reals(cfg.range_constraint_parameters()) {
        reals.push(Real::N(0));
        let _ = ctx.expect(&format!("rp-gen {}", stream_arg(&book, seg_r, &hay)), &reals);
    }
    let valid = cfg.range_constraint_parameters().validate().is_ok();
    ctx.count(&format!("merchant-config:range-params-valid:{}", valid));
    if !valid {
        ctx.violation("merchant::Config::new produced range parameters that do not validate", json!({"class": "merchant-config-range-params-invalid"}));
    }
}

fn keygen_1<const N: usize>(ctx: &mut Ctx, idx: usize) { keygen_case::<N>(ctx, idx) }
fn ped_g1<const N: usize>(ctx: &mut Ctx, idx: usize) { ped_case::<G1Projective, N>(ctx, idx) }
fn ped_g2<const N: usize>(ctx: &mut Ctx, idx: usize) { ped_case::<G2Projective, N>(ctx, idx) }

pub fn run(ctx: &mut Ctx) {
    let reps = if ctx.thorough() { 18 } else { 1 };
    let mut idx = 0;
    for _ in 0..reps {
        for &n in NS.iter() {
            crate::dispatch_n!(keygen_1, ctx, idx, n); idx += 1;
            crate::dispatch_n!(ped_g1, ctx, idx, n); idx += 1;
            crate::dispatch_n!(ped_g2, ctx, idx, n); idx += 1;
        }
        for (o, w) in [(0, 0), (0, 1), (1, 1), (0, 2), (1, 2), (2, 1), (3, 2), (0, 99), (1, 99), (2, 99), (3, 99)] {
            range_params_case(ctx, idx, o, w); idx += 1;
        }
    }
    for _ in 0..(if ctx.thorough() { 8 } else { 2 }) {
        merchant_config_case(ctx, idx); idx += 1;
    }
}
