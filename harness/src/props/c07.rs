//! C07 — signature verification accepts exactly the Pointcheval–Sanders relation.
use crate::dl::{hex_list, hex_s};
use crate::gen::*;
use crate::kit::*;
use crate::model::Tok;
use crate::report::{Ctx, Real};
use crate::rng::ScriptedRng;
use crate::wire::{self, KpD, PkD};
use bls12_381::{pairing, G1Affine, G2Affine, G2Projective, Scalar};
use ff::Field as _;
use rand::Rng;
use serde_json::json;
use zkchannels_crypto::pointcheval_sanders::{KeyPair, PublicKey, Signature};
use zkchannels_crypto::proofs::{ChallengeBuilder, SignatureRequestProofBuilder};

/// independent oracle: the PS relation evaluated with two pairings on the real elements
pub fn oracle<const N: usize>(pk: &PublicKey<N>, sig: &Signature, ms: &[Scalar]) -> bool {
    let mut acc = G2Projective::from(pk.x2());
    for (y, m) in pk.y2s().iter().zip(ms.iter()) {
        acc += G2Projective::from(y) * m;
    }
    !bool::from(sig.sigma1().is_identity())
        && pairing(&sig.sigma1(), &G2Affine::from(acc)) == pairing(&sig.sigma2(), &pk.g2())
}

/// verify on the real code, compare with model and oracle and (optionally) the expected verdict
pub fn verify_check<const N: usize>(
    ctx: &mut Ctx,
    pk: &PublicKey<N>,
    pkd: &PkD,
    sig: &Signature,
    ms: &[Scalar],
    expect: Option<bool>,
    what: &str,
) -> bool {
    let book = ctx.book.clone();
    let real = sig.verify(pk, &wire::msg::<N>(ms));
    let (s1, s2) = match (book.dlog_g1(&sig.sigma1()), book.dlog_g1(&sig.sigma2())) {
        (Some(a), Some(b)) => (a, b),
        _ => {
            ctx.broken("signature element with unknown discrete log");
            return real;
        }
    };
    let op = format!("ps-verify {} {} {} {}", pk_args(pkd), hex_s(&s1), hex_s(&s2), hex_list(ms));
    let _ = ctx.expect(&op, &[Real::B(real)]);
    ctx.count(&format!("verify:{}:{}", what, real));
    let o = oracle(pk, sig, ms);
    let detail = json!({"class": what, "N": N, "pk": pk_args(pkd), "sigma1": hex_s(&s1), "sigma2": hex_s(&s2), "ms": hex_list(ms),
        "pk_bytes": hex::encode(wire::ser(pk)), "sig_bytes": hex::encode(sig.as_bytes())});
    if o != real {
        ctx.violation(&format!("verify returned {} but the PS relation (two pairings) says {} [{}]", real, o, what), detail.clone());
    }
    if let Some(e) = expect {
        if real != e {
            ctx.violation(&format!("verify returned {} on {}, expected {}", real, what, e), detail);
        }
    }
    real
}

fn sig_reals(s: &Signature) -> Vec<Real> {
    vec![Real::G1(s.sigma1()), Real::G1(s.sigma2())]
}

pub fn pick_key<const N: usize>(ctx: &mut Ctx, idx: usize) -> Option<(KeyPair<N>, KpD)> {
    match idx % 3 {
        0 => {
            // generated, sometimes with leading zero scalars forced
            let z = ctx.prng.gen_range(0..4);
            let forced: Vec<Scalar> = if z == 3 { vec![Scalar::zero(); ctx.prng.gen_range(1..3)] } else { vec![] };
            ctx.count("key:generated");
            gen_keypair::<N>(ctx, &forced)
        }
        _ => {
            ctx.count("key:decoded");
            Some(des_keypair::<N>(ctx))
        }
    }
}

/// blind-sign path: request proof → VerifiedBlindedMessage → blind_sign → unblind(bf')
pub fn blind_sign_path<const N: usize>(
    ctx: &mut Ctx,
    kp: &KeyPair<N>,
    kpd: &KpD,
    ms: &[Scalar],
    wrong_bf: bool,
    u_forced: Option<Scalar>,
) -> Option<Signature> {
    let book = ctx.book.clone();
    let mut rng = ScriptedRng::new(ctx.prng.gen(), book.clone());
    let builder = SignatureRequestProofBuilder::<N>::generate_proof_commitments(&mut rng, wire::msg::<N>(ms), &[None; N], kp.public_key());
    let bf = builder.message_blinding_factor().as_scalar();
    let c = ChallengeBuilder::new().with(&builder).finish();
    let proof = builder.generate_proof_response(c);
    let vbm = match proof.verify_knowledge_of_opening(kp.public_key(), c) {
        Some(v) => v,
        None => {
            ctx.violation("honest signature request rejected", json!({"class": "honest-request-rejected", "N": N}));
            return None;
        }
    };
    // the commitment inside the request: first 48 bytes of the proof
    let pb = wire::ser(&proof);
    let mut cb = [0u8; 48];
    cb.copy_from_slice(&pb[..48]);
    let cpt: G1Affine = Option::from(G1Affine::from_compressed(&cb))?;
    let op = format!("blind-msg {} {} {} {}", hex_s(&kpd.pk.g1), hex_list(&kpd.pk.y1s), hex_s(&bf), hex_list(ms));
    let (ok, toks) = ctx.expect_toks(&op, &[Real::G1(cpt)]);
    if !ok {
        return None;
    }
    let cd = if let Tok::S(d) = toks[0] { d } else { return None };
    let mut rng2 = ScriptedRng::new(ctx.prng.gen(), book.clone());
    if let Some(u) = u_forced {
        rng2.force_scalars(&[u]);
    }
    let bsig = vbm.blind_sign(kp, &mut rng2);
    let us = rng2.scalars_in_log();
    if us.len() != 1 || rng2.log.len() != 1 {
        ctx.broken("blind_sign no longer draws exactly one scalar");
        return None;
    }
    let op = format!("ps-blindsign {} {} {} {}", hex_s(&kpd.pk.g1), hex_s(&kpd.x1), hex_s(&us[0]), hex_s(&cd));
    let (ok, toks) = ctx.expect_toks(&op, &[Real::G1(bsig.sigma1()), Real::G1(bsig.sigma2())]);
    if !ok {
        return None;
    }
    let (b1, b2) = match (&toks[0], &toks[1]) { (Tok::S(a), Tok::S(b)) => (*a, *b), _ => return None };
    let bf_used = if wrong_bf { perturb(&mut ctx.prng, &bf) } else { bf };
    let sig = bsig.unblind(wire::bf(&bf_used));
    let op = format!("ps-unblind {} {} {}", hex_s(&b1), hex_s(&b2), hex_s(&bf_used));
    if !ctx.expect(&op, &sig_reals(&sig)) {
        return None;
    }
    Some(sig)
}

fn one_case<const N: usize>(ctx: &mut Ctx, idx: usize) {
    if !ctx.begin_case(idx, &format!("ps-chain-N{}", N)) {
        return;
    }
    let book = ctx.book.clone();
    let (kp, kpd) = match pick_key::<N>(ctx, idx) {
        Some(k) => k,
        None => return,
    };
    let mut ms = edge_vec(&mut ctx.prng, N);
    // one case in four: a message chosen *in relation to the key* so that x + <y, m> = 0 — the signature is then
    // (h, 1) and X~·prod Y~_i^{m_i} = 1; the PS relation holds and verification must say so
    // (likewise x + <y, m> = 1: both halves of the signature are equal; = -1: they are negatives; = 2)
    if idx % 4 == 1 {
        let k = ctx.prng.gen_range(0..N);
        if kpd.ys[k] != Scalar::zero() {
            let (target, what) = [(Scalar::zero(), "message:annihilates-the-key"), (Scalar::one(), "message:exponent-one-equal-halves"), (-Scalar::one(), "message:exponent-minus-one"), (Scalar::from(2u64), "message:exponent-two")][(idx / 4) % 4];
            let mut acc = kpd.x;
            for i in 0..N { if i != k { acc += kpd.ys[i] * ms[i]; } }
            ms[k] = (target - acc) * kpd.ys[k].invert().unwrap();
            ctx.count(what);
        }
    }
    // sign
    let mut rng = ScriptedRng::new(ctx.prng.gen(), book.clone());
    let mut sig = wire::msg::<N>(&ms).sign(&mut rng, &kp);
    let h = match book.dlog_g1(&sig.sigma1()) {
        Some(h) => h,
        None => {
            ctx.broken("Signature::new: sigma1 is not the scripted G1 draw");
            return;
        }
    };
    let op = format!("ps-sign {} {} {} {}", hex_s(&kpd.x), hex_list(&kpd.ys), hex_s(&h), hex_list(&ms));
    if !ctx.expect(&op, &sig_reals(&sig)) {
        return;
    }
    let mut valid = true;
    let _ = verify_check(ctx, kp.public_key(), &kpd.pk, &sig, &ms, Some(true), "signed");
    let depth = ctx.prng.gen_range(0..7);
    for _ in 0..depth {
        let (s1, s2) = (book.dlog_g1(&sig.sigma1()).unwrap(), book.dlog_g1(&sig.sigma2()).unwrap());
        match ctx.prng.gen_range(0..4) {
            0 => {
                let mut rng = ScriptedRng::new(ctx.prng.gen(), book.clone());
                let zero = ctx.prng.gen_range(0..12) == 0;
                if zero {
                    rng.force_scalars(&[Scalar::zero()]);
                }
                sig.randomize(&mut rng);
                let rs = rng.scalars_in_log();
                if rs.len() != 1 {
                    ctx.broken("randomize no longer draws exactly one scalar");
                    return;
                }
                let op = format!("ps-rand {} {} {}", hex_s(&s1), hex_s(&s2), hex_s(&rs[0]));
                if !ctx.expect(&op, &sig_reals(&sig)) {
                    return;
                }
                if zero {
                    valid = false;
                }
                let _ = verify_check(ctx, kp.public_key(), &kpd.pk, &sig, &ms, Some(valid), if zero { "randomized-by-zero" } else { "randomized" });
            }
            1 => {
                let mut rng = ScriptedRng::new(ctx.prng.gen(), book.clone());
                let bf = edge_scalar(&mut ctx.prng);
                let bs = sig.blind_and_randomize(&mut rng, wire::bf(&bf));
                let rs = rng.scalars_in_log();
                if rs.len() != 1 {
                    ctx.broken("blind_and_randomize no longer draws exactly one scalar");
                    return;
                }
                let op = format!("ps-blindrand {} {} {} {}", hex_s(&s1), hex_s(&s2), hex_s(&rs[0]), hex_s(&bf));
                let (ok, toks) = ctx.expect_toks(&op, &[Real::G1(bs.sigma1()), Real::G1(bs.sigma2())]);
                if !ok {
                    return;
                }
                let (b1, b2) = match (&toks[0], &toks[1]) { (Tok::S(a), Tok::S(b)) => (*a, *b), _ => return };
                sig = bs.unblind(wire::bf(&bf));
                let op = format!("ps-unblind {} {} {}", hex_s(&b1), hex_s(&b2), hex_s(&bf));
                if !ctx.expect(&op, &sig_reals(&sig)) {
                    return;
                }
                if rs[0] == Scalar::zero() {
                    valid = false;
                }
                let _ = verify_check(ctx, kp.public_key(), &kpd.pk, &sig, &ms, Some(valid), "blind-randomized-unblinded");
            }
            2 => {
                let wrong = ctx.prng.gen_range(0..4) == 0;
                let u0 = ctx.prng.gen_range(0..10) == 0;
                match blind_sign_path::<N>(ctx, &kp, &kpd, &ms, wrong, if u0 { Some(Scalar::zero()) } else { None }) {
                    Some(s) => sig = s,
                    None => return,
                }
                valid = !wrong && !u0;
                let what = if u0 { "blind-signed-with-u-zero" } else if wrong { "blind-signed-unblinded-wrong-bf" } else { "blind-signed-unblinded" };
                let _ = verify_check(ctx, kp.public_key(), &kpd.pk, &sig, &ms, Some(valid), what);
            }
            _ => {
                // re-encode / decode round trip keeps the signature (only when decodable)
                if !bool::from(sig.sigma1().is_identity()) {
                    let s2: Signature = wire::de(&wire::ser(&sig)).expect("signature round trip");
                    sig = s2;
                    let _ = verify_check(ctx, kp.public_key(), &kpd.pk, &sig, &ms, Some(valid), "reencoded");
                }
            }
        }
    }
    if valid {
        for i in 0..N {
            let mut ms2 = ms.clone();
            ms2[i] = perturb(&mut ctx.prng, &ms[i]);
            let _ = verify_check(ctx, kp.public_key(), &kpd.pk, &sig, &ms2, Some(false), "coordinate-changed");
        }
        let (kp2, kpd2) = des_keypair::<N>(ctx);
        let _ = verify_check(ctx, kp2.public_key(), &kpd2.pk, &sig, &ms, Some(false), "other-key");
        // neighbour keys: keygen-shaped keys that share all but one ingredient with the signing key (same generators and
        // another x; another single y_i; another g1 only; another g2 only).  Verification must depend on the *whole* key:
        // anything keyed on part of it (a cache of prepared key material, a short fingerprint) shows up here, in both
        // orders — the old signature under the neighbour, then a fresh neighbour signature under both keys.
        let g1 = kpd.pk.g1; let g2 = kpd.pk.g2;
        for variant in 0..4usize {
            let (mut x, mut ys, mut h1, mut h2) = (kpd.x, kpd.ys.clone(), g1, g2);
            match variant {
                0 => x = nonzero(&mut ctx.prng),
                1 => { let i = ctx.prng.gen_range(0..N); ys[i] = nonzero(&mut ctx.prng); }
                2 => h1 = nonzero(&mut ctx.prng),
                _ => h2 = nonzero(&mut ctx.prng),
            }
            let d2 = wire::KpD::honest(x, ys, h1, h2);
            let kp2: KeyPair<N> = match wire::keypair::<N>(&ctx.book, &d2) { Ok(k) => k, Err(_) => continue };
            let what = ["neighbour-key-x", "neighbour-key-y", "neighbour-key-g1", "neighbour-key-g2"][variant];
            let _ = verify_check(ctx, kp2.public_key(), &d2.pk, &sig, &ms, None, what);
            let mut rng = ScriptedRng::new(ctx.prng.gen(), ctx.book.clone());
            let sig2 = wire::msg::<N>(&ms).sign(&mut rng, &kp2);
            let h2d = match ctx.book.dlog_g1(&sig2.sigma1()) { Some(h) => h, None => continue };
            let e2 = d2.ys.iter().zip(ms.iter()).fold(d2.x, |a, (y, m)| a + y * m);
            if !ctx.book.check_g1(&sig2.sigma2(), e2 * h2d) {
                ctx.violation("a signature made with a neighbour key is not (h, h^(x + <y, m>))", json!({"class": "neighbour-key-sign", "variant": what}));
                continue;
            }
            let _ = verify_check(ctx, kp2.public_key(), &d2.pk, &sig2, &ms, Some(true), what);
            let _ = verify_check(ctx, kp.public_key(), &kpd.pk, &sig2, &ms, None, what);
            let _ = verify_check(ctx, kp.public_key(), &kpd.pk, &sig, &ms, Some(true), what);
        }
    }
}

/// degenerate randomness forced deterministically: r = 0 in randomize and blind_and_randomize, u = 0
fn degenerate_case<const N: usize>(ctx: &mut Ctx, idx: usize) {
    if !ctx.begin_case(idx, &format!("ps-degenerate-N{}", N)) {
        return;
    }
    let book = ctx.book.clone();
    let (kp, kpd) = des_keypair::<N>(ctx);
    let ms = edge_vec(&mut ctx.prng, N);
    // "every signature produced by signing verifies" — also under a stream whose scalar draws start with zeros
    // (checked with the independent two-pairing oracle, before and independently of the model comparison)
    {
        let mut rng0 = ScriptedRng::new(ctx.prng.gen(), book.clone());
        rng0.force_scalars(&[Scalar::zero(), Scalar::zero()]);
        let sigz = wire::msg::<N>(&ms).sign(&mut rng0, &kp);
        ctx.evals += 1;
        let good = sigz.is_well_formed() && oracle(kp.public_key(), &sigz, &ms) && sigz.verify(kp.public_key(), &wire::msg::<N>(&ms));
        ctx.count(&format!("sign-under-zero-scalar-draws:{}", if good { "verifies" } else { "BROKEN" }));
        if !good {
            ctx.violation("a signature produced by sign() under a stream whose scalar draws start with zeros does not verify on its own message",
                serde_json::json!({"class": "sign-degenerate-stream", "N": N, "message": hex_list(&ms)}));
        }
    }
    let mut rng = ScriptedRng::new(ctx.prng.gen(), book.clone());
    let sig0 = wire::msg::<N>(&ms).sign(&mut rng, &kp);
    let h = match book.dlog_g1(&sig0.sigma1()) { Some(h) => h, None => { ctx.broken("sigma1 is not the scripted G1 draw"); return; } };
    let op = format!("ps-sign {} {} {} {}", hex_s(&kpd.x), hex_list(&kpd.ys), hex_s(&h), hex_list(&ms));
    if !ctx.expect(&op, &sig_reals(&sig0)) { return; }
    let (s1, s2) = (book.dlog_g1(&sig0.sigma1()).unwrap(), book.dlog_g1(&sig0.sigma2()).unwrap());
    // randomize with r = 0
    let mut sig = sig0;
    let mut rng = ScriptedRng::new(ctx.prng.gen(), book.clone());
    rng.force_scalars(&[Scalar::zero()]);
    sig.randomize(&mut rng);
    let op = format!("ps-rand {} {} 0", hex_s(&s1), hex_s(&s2));
    if !ctx.expect(&op, &sig_reals(&sig)) { return; }
    let _ = verify_check(ctx, kp.public_key(), &kpd.pk, &sig, &ms, Some(false), "randomized-by-zero");
    let other = edge_vec(&mut ctx.prng, N);
    let _ = verify_check(ctx, kp.public_key(), &kpd.pk, &sig, &other, Some(false), "randomized-by-zero-other-message");
    // blind_and_randomize with r = 0, then unblind
    let mut rng = ScriptedRng::new(ctx.prng.gen(), book.clone());
    rng.force_scalars(&[Scalar::zero()]);
    let bf = edge_scalar(&mut ctx.prng);
    let bs = sig0.blind_and_randomize(&mut rng, wire::bf(&bf));
    let sig = bs.unblind(wire::bf(&bf));
    let op = format!("ps-blindrand {} {} 0 {}", hex_s(&s1), hex_s(&s2), hex_s(&bf));
    if !ctx.expect(&op, &[Real::G1(bs.sigma1()), Real::G1(bs.sigma2())]) { return; }
    let _ = verify_check(ctx, kp.public_key(), &kpd.pk, &sig, &ms, Some(false), "blind-randomized-by-zero");
    // blind signing with u = 0
    if let Some(sig) = blind_sign_path::<N>(ctx, &kp, &kpd, &ms, false, Some(Scalar::zero())) {
        let _ = verify_check(ctx, kp.public_key(), &kpd.pk, &sig, &ms, Some(false), "blind-signed-with-u-zero");
    }
}

/// raw (σ1, σ2) pairs under arbitrary (not keygen-shaped) public keys
fn raw_case<const N: usize>(ctx: &mut Ctx, idx: usize) {
    if !ctx.begin_case(idx, &format!("ps-raw-N{}", N)) {
        return;
    }
    let (pk, pkd) = arbitrary_pk::<N>(ctx);
    let ms = edge_vec(&mut ctx.prng, N);
    let s1 = nonzero(&mut ctx.prng);
    let mut acc = pkd.x2;
    for (y, m) in pkd.y2s.iter().zip(ms.iter()) {
        acc += y * m;
    }
    let matching = s1 * acc * pkd.g2.invert().unwrap();
    for k in 0..3 {
        let s2 = match k { 0 => matching, 1 => matching + Scalar::one(), _ => rand_scalar(&mut ctx.prng) };
        let sig = wire::sig(&ctx.book, &s1, &s2).expect("signature decodes");
        let _ = verify_check(ctx, &pk, &pkd, &sig, &ms, Some(k == 0), if k == 0 { "raw-matching" } else { "raw-non-matching" });
    }
    // aliased halves: (P, P), (P, -P), (P, 2P) on the message above, on the all-zero message, on a message orthogonal to
    // the Y~ part of the key and on one for which X~ + <m, Y~> = g~ (where (P, P) is a valid signature)
    {
        let mut msgs: Vec<(&str, Vec<Scalar>)> = vec![("random-message", ms.clone()), ("zero-message", vec![Scalar::zero(); N])];
        let k = ctx.prng.gen_range(0..N);
        if pkd.y2s[k] != Scalar::zero() {
            for (what, target) in [("orthogonal-message", pkd.x2), ("exponent-one-message", pkd.g2), ("exponent-minus-one-message", -pkd.g2)] {
                // X~ + <m, Y~> = target
                let mut m = edge_vec(&mut ctx.prng, N);
                let mut acc = pkd.x2;
                for i in 0..N { if i != k { acc += pkd.y2s[i] * m[i]; } }
                m[k] = (target - acc) * pkd.y2s[k].invert().unwrap();
                msgs.push((what, m));
            }
        }
        for (mw, m) in msgs {
            let mut acc = pkd.x2;
            for (y, mi) in pkd.y2s.iter().zip(m.iter()) { acc += y * mi; }
            for (sw, s2) in [("equal-halves", s1), ("negated-halves", -s1), ("doubled-half", s1 + s1)] {
                let sig = wire::sig(&ctx.book, &s1, &s2).expect("signature decodes");
                let expect = s1 * acc == s2 * pkd.g2;
                ctx.count(&format!("raw-aliased:{}:{}:{}", sw, mw, expect));
                let _ = verify_check(ctx, &pk, &pkd, &sig, &m, Some(expect), &format!("raw-{}-{}", sw, mw));
            }
        }
    }
    // identity sigma1 cannot be decoded
    if wire::sig(&ctx.book, &Scalar::zero(), &matching).is_ok() {
        ctx.violation("a signature with identity sigma1 was decoded", json!({"class": "identity-sigma1-decoded"}));
    }
}

pub fn run(ctx: &mut Ctx) {
    let reps = if ctx.thorough() { 300 } else { 12 };
    let mut idx = 0;
    for _ in 0..reps {
        for &n in NS.iter() {
            crate::dispatch_n!(one_case, ctx, idx, n);
            idx += 1;
            crate::dispatch_n!(raw_case, ctx, idx, n);
            idx += 1;
            crate::dispatch_n!(degenerate_case, ctx, idx, n);
            idx += 1;
        }
    }
}
