//! C04 — balances follow the integer ledger: histories of boundary payments (incl. totals above 2^63-1)
//! with the ledger as oracle for refusal class and resulting balances; each step compared with the model.
use crate::abacus::*;
use crate::history::*;
use crate::report::Ctx;
use rand::Rng;

pub fn run(ctx: &mut Ctx) {
    let n = if ctx.thorough() { 10 } else { 5 };
    let mut worlds = vec![];
    for _ in 0..2 { match world(ctx, false) { Some(w) => worlds.push(w), None => { ctx.broken("cannot build a world"); return; } } }
    for k in 0..n {
        let idx = k * ctx.nshards + ctx.shard;
        if !ctx.begin_case(idx, "ledger-history") { continue; }
        let cfg = HistCfg { ping_pong: false, close_tag_draws: false, faults_max: 0, restore: false, payments: if ctx.thorough() { ctx.prng.gen_range(3..=12) } else { ctx.prng.gen_range(3..=6) }, boundary_balances: ctx.prng.gen_range(0..3) != 0, valid_bias: k % 2 == 0 };
        // the two merchants take turns as the channel's merchant: one thread serves histories (and close checks) under both
        // one history in five moves the whole capacity back and forth (customer -> merchant -> customer ...): gross flow far
        // above 2^64 while every balance stays in range — anything that accumulates over the history must not refuse these
        let cfg = if k % 5 == 4 { HistCfg { ping_pong: true, payments: if ctx.thorough() { 12 } else { 7 }, boundary_balances: false, valid_bias: false, ..cfg } } else { cfg };
        if cfg.ping_pong { ctx.count("history:ping-pong-at-capacity"); }
        let ok = run_history(ctx, &worlds[k % 2], &worlds[1 - k % 2], &cfg);
        ctx.count(if ok { "history:complete" } else { "history:stopped-early" });
        ctx.traces += 1;
    }
}
