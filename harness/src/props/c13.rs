//! C13 — range constraints accept exactly values in [0, 2^63) linked to the message.
use crate::dl::{hex_s};
use crate::gen::*;
use crate::kit::*;
use crate::model::Tok;
use crate::rangelab::*;
use crate::report::{Ctx, Real};
use crate::schnorr::*;
use crate::wire;
use bls12_381::Scalar;
use rand::Rng;
use serde_json::json;
use zkchannels_crypto::proofs::{RangeConstraint, RangeConstraintParameters};

pub fn boundary_values(ctx: &mut Ctx) -> Vec<i64> {
    let mut v: Vec<i64> = vec![0, 1, 127, 128, i64::MAX, i64::MAX - 1];
    for k in 2..9u32 {
        let p = 128i64.pow(k);
        v.push(p - 1);
        v.push(p);
        v.push(5 * (p / 128) * 128 + 77);
    }
    for _ in 0..6 {
        v.push((ctx.prng.gen::<u64>() >> 1) as i64);
        v.push((ctx.prng.gen::<u64>() >> ctx.prng.gen_range(1..64)) as i64);
    }
    v
}

/// one digit proof assembled by an attacker: claims digit value `d` (any scalar) using signature `sig`
fn forged_digit(ctx: &mut Ctx, rpd: &RpD, d: &Scalar, sig: &(Scalar, Scalar), c: &Scalar) -> Option<SpD> {
    forged_digit_with(ctx, rpd, d, sig, c, None)
}

/// … optionally with a prescribed re-randomiser and blinding factor (to make two digit proofs share them)
fn forged_digit_with(ctx: &mut Ctx, rpd: &RpD, d: &Scalar, sig: &(Scalar, Scalar), c: &Scalar, shared: Option<(Scalar, Scalar)>) -> Option<SpD> {
    let (mut bf, tbf, t, mut r) = (rand_scalar(&mut ctx.prng), rand_scalar(&mut ctx.prng), rand_scalar(&mut ctx.prng), nonzero(&mut ctx.prng));
    if let Some((r0, bf0)) = shared { r = r0; bf = bf0; }
    let op = format!("sp-prove {} {} {} {} {} {} {} {} {}", pk_args(&rpd.pk), hex_s(d), hex_s(&sig.0), hex_s(&sig.1), hex_s(&bf), hex_s(&tbf), hex_s(&t), hex_s(&r), hex_s(c));
    let toks = ctx.ask(&op);
    let s = |i: usize| if let Some(Tok::S(a)) = toks.get(i) { Some(*a) } else { None };
    Some(SpD { s1: s(0)?, s2: s(1)?, cp: CpD { c: s(2)?, t: s(3)?, zbf: s(4)?, zs: vec![s(6)?] } })
}

fn weighted(zs: &[Scalar]) -> Scalar {
    let mut acc = Scalar::zero();
    let mut p = Scalar::one();
    for z in zs {
        acc += p * z;
        p *= Scalar::from(128u64);
    }
    acc
}

fn honest_case(ctx: &mut Ctx, idx: usize, rp: &RangeConstraintParameters, rpd: &RpD, rp2: &RangeConstraintParameters, rpd2: &RpD, value: i64) {
    if !ctx.begin_case(idx, "range-honest") {
        return;
    }
    let run = match range_honest(ctx, rp, rpd, value, None) {
        Some(r) => r,
        None => return,
    };
    let expected = run.c * Scalar::from(value as u64) + run.commitment_scalar;
    let _ = range_verify_check(ctx, rp, rpd, &run.proofs, &run.c, &expected, Some(true), "honest-linked");
    // through the real object as produced (not re-decoded)
    let real = run.constraint.verify_range_constraint(rp, chal(&run.c), expected);
    if !real {
        ctx.violation(&format!("honest range constraint for {} rejected", value), json!({"class": "honest-range-rejected", "value": value}));
    }
    let _ = range_verify_check(ctx, rp, rpd, &run.proofs, &run.c, &(expected + Scalar::one()), Some(false), "other-link");
    let other = rand_scalar(&mut ctx.prng);
    let _ = range_verify_check(ctx, rp, rpd, &run.proofs, &run.c, &other, Some(false), "other-link");
    let c2 = perturb(&mut ctx.prng, &run.c);
    let _ = range_verify_check(ctx, rp, rpd, &run.proofs, &c2, &expected, Some(false), "other-challenge");
    let _ = range_verify_check(ctx, rp2, rpd2, &run.proofs, &run.c, &expected, Some(false), "other-parameters");
}

fn forged_case(ctx: &mut Ctx, idx: usize, rp: &RangeConstraintParameters, rpd: &RpD, kind: usize) {
    if !ctx.begin_case(idx, "range-assembled") {
        return;
    }
    let c = nonzero(&mut ctx.prng);
    // the position under attack cycles through all nine digits (kind / 8), so every digit proof — the most
    // significant one included — is the only defective one in some case
    let pos = (kind / 8) % 9;
    let kind = kind % 8;
    // digit values claimed and signature indices used
    let mut digits: Vec<Scalar> = (0..9).map(|_| Scalar::from(ctx.prng.gen_range(0..128u64))).collect();
    let mut sig_idx: Vec<usize> = vec![];
    let label;
    match kind {
        0 => { digits = vec![Scalar::from(127u64); 9]; label = "all-maximal-digits"; }
        1 => { label = "published-signatures-any-digits"; }
        2 => { digits[pos] = Scalar::from(if ctx.prng.gen_range(0..3) == 0 { 128 } else { ctx.prng.gen_range(128..100000u64) }); label = "digit-out-of-range"; }
        3 => { digits[pos] = -Scalar::from(ctx.prng.gen_range(1..1000u64)); label = "negative-digit"; }
        4 => { label = "signature-for-another-digit"; }
        5 => { label = "swapped-digits"; }
        6 => { label = "one-digit-response-shifted-link-adjusted"; }
        _ => { label = "one-digit-signature-altered"; }
    }
    for (j, d) in digits.iter().enumerate() {
        let b = d.to_bytes();
        let small = b[1..].iter().all(|x| *x == 0) && b[0] < 128;
        let mut i = if small { b[0] as usize } else { ctx.prng.gen_range(0..128) };
        if kind == 4 && j == pos {
            i = (i + 1 + ctx.prng.gen_range(0..126)) % 128;
        }
        sig_idx.push(i);
    }
    let mut proofs = vec![];
    let mut all_match = true;
    for (d, i) in digits.iter().zip(sig_idx.iter()) {
        if *d != Scalar::from(*i as u64) {
            all_match = false;
        }
        match forged_digit(ctx, rpd, d, &rpd.sigs[*i], &c) {
            Some(p) => proofs.push(p),
            None => { ctx.broken("model prover did not answer"); return; }
        }
    }
    if kind == 6 {
        // the digit's response scalar moved by c·d (as if the digit were larger), the link recomputed to match:
        // only that digit's own proof is now wrong
        let d = Scalar::from(1 + ctx.prng.gen_range(0..1000u64));
        proofs[pos].cp.zs[0] += c * d;
        all_match = false;
    }
    if kind == 7 {
        if ctx.prng.gen_range(0..2) == 0 { proofs[pos].s2 += Scalar::one(); } else { proofs[pos].cp.t += Scalar::one(); }
        all_match = false;
    }
    let zs: Vec<Scalar> = proofs.iter().map(|p| p.cp.zs[0]).collect();
    let expected = weighted(&zs);
    let _ = range_verify_check(ctx, rp, rpd, &proofs, &c, &expected, Some(all_match), &format!("{}{}", label, if matches!(kind, 2 | 3 | 4 | 6 | 7) { format!("@digit-{}", pos) } else { String::new() }));
    if kind == 5 {
        // swap two digit proofs: verifies only against the swapped weighted sum
        let mut sw = proofs.clone();
        sw.swap(0, 8);
        let zs2: Vec<Scalar> = sw.iter().map(|p| p.cp.zs[0]).collect();
        let e2 = weighted(&zs2);
        let _ = range_verify_check(ctx, rp, rpd, &sw, &c, &expected, Some(e2 == expected), "swapped-digits-old-link");
        let _ = range_verify_check(ctx, rp, rpd, &sw, &c, &e2, Some(all_match), "swapped-digits-new-link");
    }
}

fn validate_check(ctx: &mut Ctx, rpd: &RpD, expect: Option<bool>, what: &str) {
    let rp: RangeConstraintParameters = match wire::de(&rpd.bytes(&ctx.book)) {
        Ok(r) => r,
        Err(e) => { ctx.broken(&format!("range parameters do not decode: {}", e)); return; }
    };
    let real = rp.validate().is_ok();
    let _ = ctx.expect(&format!("rp-validate {}", rpd.args()), &[Real::B(real)]);
    ctx.count(&format!("validate:{}:{}", what, real));
    if let Some(e) = expect {
        if real != e {
            ctx.violation(&format!("validate returned {} on {}, expected {}", real, what, e), json!({"class": format!("validate-{}", what), "rp": rpd.args()}));
        }
    }
}

pub fn run(ctx: &mut Ctx) {
    // which digits carry a signature under a freshly generated range key (hypothesis DigitUnforgeable of range_sound_value)
    if ctx.shard == 0 && ctx.begin_case(100_000, "generated-range-parameters") {
        let mut rng = crate::rng::ScriptedRng::new(ctx.prng.gen(), ctx.book.clone());
        let rp = RangeConstraintParameters::new(&mut rng);
        let _ = published_digits_audit(ctx, &wire::ser(&rp));
    }
    let (rp, rpd, _x, _y) = rp_decoded(ctx);
    let (rp2, rpd2, _, _) = rp_decoded(ctx);
    let mut idx = 0usize;
    // honest prover whose blinding factor for one digit (draw 4j: bf, tbf, t, r per digit) is solved against the range
    // key: bf = -(x + y d_j) makes that digit's shown sigma2' the identity, bf = 1 - (x + y d_j) makes it equal sigma1'
    for (k, j) in [0usize, 4, 8, 3].iter().enumerate() {
        idx += 1;
        if !ctx.begin_case(200_000 + idx, "range-honest-solved-blinding-factor") { continue; }
        let value: i64 = (ctx.prng.gen::<u64>() >> 1) as i64;
        let d = Scalar::from(((value as u64) >> (7 * j)) & 127);
        let e = _x + _y * d;
        let mut f: Vec<Scalar> = (0..4 * j).map(|_| rand_scalar(&mut ctx.prng)).collect();
        f.push(if k % 2 == 0 { -e } else { Scalar::one() - e });
        ctx.forced_next = f;
        if let Some(run) = range_honest(ctx, &rp, &rpd, value, None) {
            let expected = run.c * Scalar::from(value as u64) + run.commitment_scalar;
            ctx.count("range-honest:solved-blinding-factor");
            let _ = range_verify_check(ctx, &rp, &rpd, &run.proofs, &run.c, &expected, Some(true), "honest-solved-blinding-factor");
            if !run.constraint.verify_range_constraint(&rp, chal(&run.c), expected) {
                ctx.violation(&format!("honest range constraint for {} rejected when digit {}'s blinding factor is solved against the range key", value, j), json!({"class": "honest-range-rejected-solved-bf", "value": value, "digit": j}));
            }
        }
        ctx.forced_next.clear();
    }
    // A/B: honest prover on boundary values and negatives
    let mut vals = boundary_values(ctx);
    if ctx.thorough() {
        for _ in 0..100 { vals.push((ctx.prng.gen::<u64>() >> 1) as i64); }
    }
    for &v in &vals.clone() {
        idx += 1;
        honest_case(ctx, idx, &rp, &rpd, &rp2, &rpd2, v);
    }
    for v in [-1i64, i64::MIN, i64::MIN + 1, -128, -(1 << 40)] {
        idx += 1;
        if ctx.begin_case(idx, "range-negative") {
            let _ = range_honest(ctx, &rp, &rpd, v, None);
        }
    }
    // generated parameters (scripted RNG) once per run
    idx += 1;
    if ctx.begin_case(idx, "range-generated-params") {
        if let Some((rpg, rpgd)) = rp_generated(ctx, &[]) {
            validate_check(ctx, &rpgd, Some(true), "generated");
            if let Some(run) = range_honest(ctx, &rpg, &rpgd, 0x123456789abcdef, None) {
                let expected = run.c * Scalar::from(0x123456789abcdefu64) + run.commitment_scalar;
                let _ = range_verify_check(ctx, &rpg, &rpgd, &run.proofs, &run.c, &expected, Some(true), "honest-linked-generated-params");
            }
        }
    }
    // C: attacker-assembled constraints
    let n = if ctx.thorough() { 4 * 72 } else { 72 };
    for k in 0..n {
        idx += 1;
        forged_case(ctx, idx, &rp, &rpd, k);
    }
    // C': two digit proofs defective in a way that cancels in any unweighted aggregate of the nine pairing / Schnorr
    // equations (same-role elements moved by +D and -D), on otherwise honest constraints; every role, every pair of positions
    idx += 1;
    if ctx.begin_case(idx, "range-compensating-pairs") {
        if let Some(run) = range_honest(ctx, &rp, &rpd, 0x0123_4567_89ab_cdefu64 as i64 & i64::MAX, None) {
            let expected = run.c * Scalar::from((0x0123_4567_89ab_cdefu64 as i64 & i64::MAX) as u64) + run.commitment_scalar;
            let mut p = 0usize;
            for role in 0..4 {
                for j in 0..9 {
                    for k in j + 1..9 {
                        p += 1;
                        if !ctx.thorough() && p % 3 != (ctx.seed as usize) % 3 { continue; }
                        let d = nonzero(&mut ctx.prng);
                        let mut ps = run.proofs.clone();
                        match role {
                            0 => { ps[j].s1 += d; ps[k].s1 -= d; if ps[j].s1 == Scalar::zero() || ps[k].s1 == Scalar::zero() { continue; } }
                            1 => { ps[j].s2 += d; ps[k].s2 -= d; }
                            2 => { ps[j].cp.c += d; ps[k].cp.c -= d; }
                            _ => { ps[j].cp.t += d; ps[k].cp.t -= d; }
                        }
                        let _ = range_verify_check(ctx, &rp, &rpd, &ps, &run.c, &expected, Some(false), &format!("compensating-pair-{}", ["sigma1", "sigma2", "commitment", "scalar-commitment"][role]));
                        // ... and in a way that cancels in a batch with deterministic public weights (one family per pair, rotating)
                        let fams = pair_weights(j, k, 9, Some(&run.c));
                        let (fam, wj, wk) = fams[p % fams.len()];
                        let mut ps = run.proofs.clone();
                        match role {
                            0 => { ps[j].s1 += wk * d; ps[k].s1 -= wj * d; if ps[j].s1 == Scalar::zero() || ps[k].s1 == Scalar::zero() { continue; } }
                            1 => { ps[j].s2 += wk * d; ps[k].s2 -= wj * d; }
                            2 => { ps[j].cp.c += wk * d; ps[k].cp.c -= wj * d; }
                            _ => { ps[j].cp.t += wk * d; ps[k].cp.t -= wj * d; }
                        }
                        ctx.count(&format!("weighted-compensating-pair:{}", fam));
                        let _ = range_verify_check(ctx, &rp, &rpd, &ps, &run.c, &expected, Some(false), &format!("weighted-compensating-pair-{}", ["sigma1", "sigma2", "commitment", "scalar-commitment"][role]));
                    }
                }
            }
            // aliasing: digit proof k shows a copy of digit proof j's blinded signature (alone, and with k's response
            // scalar then chosen freely and the expected link adjusted to it)
            for t in 0..(if ctx.thorough() { 36 } else { 6 }) {
                let (j, k) = if t == 0 { (0usize, 8usize) } else { let j = ctx.prng.gen_range(0..9); let mut k = ctx.prng.gen_range(0..9); if k == j { k = (j + 1) % 9; } (j, k) };
                let mut ps = run.proofs.clone();
                ps[k].s1 = ps[j].s1; ps[k].s2 = ps[j].s2;
                let _ = range_verify_check(ctx, &rp, &rpd, &ps, &run.c, &expected, Some(false), "digit-signature-copied-from-another-digit");
                let dz = nonzero(&mut ctx.prng);
                ps[k].cp.zs[0] += dz;
                let zs: Vec<Scalar> = ps.iter().map(|p| p.cp.zs[0]).collect();
                let _ = range_verify_check(ctx, &rp, &rpd, &ps, &run.c, &weighted(&zs), Some(false), "digit-signature-copied-and-response-chosen");
            }
            // two positions presenting the SAME published signature under the SAME re-randomiser, claiming d+e and d-e
            for t in 0..(if ctx.thorough() { 20 } else { 4 }) {
                let (j, k) = { let j = ctx.prng.gen_range(0..9); let mut k = ctx.prng.gen_range(0..9); if k == j { k = (j + 1) % 9; } (j, k) };
                let dg = [0u64, 1, 64, 127][t % 4];
                let e = Scalar::from(1 + ctx.prng.gen_range(0..50u64));
                let (r, bf) = (nonzero(&mut ctx.prng), rand_scalar(&mut ctx.prng));
                let c = run.c;
                let mut ps = run.proofs.clone();
                let mut okk = true;
                for (pos, m) in [(j, Scalar::from(dg) + e), (k, Scalar::from(dg) - e)] {
                    match forged_digit_with(ctx, &rpd, &m, &rpd.sigs[dg as usize], &c, Some((r, bf))) { Some(pf) => ps[pos] = pf, None => { okk = false; } }
                }
                if !okk { break; }
                let zs: Vec<Scalar> = ps.iter().map(|p| p.cp.zs[0]).collect();
                let exp2 = weighted(&zs);
                let _ = range_verify_check(ctx, &rp, &rpd, &ps, &c, &exp2, Some(false), "two-digits-same-signature-offsetting-messages");
            }
        }
    }
    // D: parameter validation
    idx += 1;
    if ctx.begin_case(idx, "validate-honest") {
        validate_check(ctx, &rpd, Some(true), "honest");
    }
    // quick: every 5th digit, the offset rotating with the seed, both ends always
    let positions: Vec<usize> = if ctx.thorough() { (0..128).collect() } else {
        let mut v: Vec<usize> = ((ctx.seed as usize % 5)..128).step_by(5).collect();
        for e in [0usize, 1, 126, 127] { if !v.contains(&e) { v.push(e); } }
        v
    };
    for &i in &positions {
        idx += 1;
        if !ctx.begin_case(idx, "validate-substitution") { continue; }
        let mut d = rpd.clone();
        let k = (i + 1 + ctx.prng.gen_range(0..126)) % 128;
        d.sigs[i] = rpd.sigs[k];
        validate_check(ctx, &d, Some(false), "signature-of-another-digit");
        let mut d = rpd.clone();
        d.sigs[i].1 += Scalar::one();
        validate_check(ctx, &d, Some(false), "sigma2-altered");
        // two invalid signatures whose deviations cancel in any unweighted batch
        let mut d = rpd.clone();
        let dev = nonzero(&mut ctx.prng);
        d.sigs[i].1 += dev;
        d.sigs[k].1 -= dev;
        validate_check(ctx, &d, Some(false), "cancelling-pair");
        // ... and whose deviations cancel in a batch with deterministic public weights (index-based, powers of 2 / 128)
        for (fam, wi, wk) in pair_weights(i, k, 128, None) {
            let mut d = rpd.clone();
            d.sigs[i].1 += wk * dev;
            d.sigs[k].1 -= wi * dev;
            ctx.count(&format!("validate:weighted-cancelling-pair:{}", fam));
            validate_check(ctx, &d, Some(false), "weighted-cancelling-pair");
        }
        // swapped neighbours
        let mut d = rpd.clone();
        d.sigs.swap(i, k);
        validate_check(ctx, &d, Some(false), "swapped-signatures");
    }
    // E: shapes
    idx += 1;
    if ctx.begin_case(idx, "constraint-shapes") {
        if let Some(run) = range_honest(ctx, &rp, &rpd, 77, None) {
            let b = constraint_bytes(&ctx.book, &run.proofs);
            // a digit proof carrying a point outside the prime-order subgroup (e.g. a small-order σ₁ with σ₂ = 1,
            // for which the pairing equation holds for any commitment) must not decode
            crate::codec::bad_point_decode_probe::<RangeConstraint>(ctx, "range-constraint", &crate::codec::rc(), &b);
            let eight = wire::de::<RangeConstraint>(&b[..8 * 360]).is_ok();
            ctx.count(&format!("decode:eight-digit-constraint:{}", eight));
            if eight {
                ctx.violation("an eight-digit range constraint was decoded", json!({"class": "eight-digit-constraint-decoded"}));
            }
        }
    }
}
