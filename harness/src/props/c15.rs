//! C15 — wire round-trips are lossless and decoded values satisfy every type invariant.
//! C16 — decoding untrusted bytes never panics, aborts or over-allocates (shares the samples).
use crate::abacus::*;
use crate::codec::*;
use crate::dl::hex_s;
use crate::gen::*;
use crate::kit::*;
use crate::props::c02::valid_amount;
use crate::rangelab::*;
use crate::report::Ctx;
use crate::rng::ScriptedRng;
use crate::schnorr::*;
use crate::session::*;
use crate::wire;
use bls12_381::{G1Affine, G2Affine, Scalar};
use rand::Rng;
use serde_json::json;
use zkabacus_crypto::CLOSE_SCALAR;

/// honest encodings of (almost) every serializable type, produced by the real code paths
pub fn samples(ctx: &mut Ctx) -> Vec<(&'static str, Vec<u8>)> {
    let book = ctx.book.clone();
    let mut out: Vec<(&'static str, Vec<u8>)> = vec![];
    let w = match world(ctx, false) { Some(w) => w, None => return out };
    out.push(("KeyPair<5>", wire::kp_bytes(&book, &w.kpd)));
    out.push(("PublicKey<5>", wire::pk_bytes(&book, &w.kpd.pk)));
    out.push(("PedersenParameters<G1,1>", wire::ser(w.merchant.revocation_commitment_parameters())));
    out.push(("RangeConstraintParameters", wire::ser(w.merchant.range_constraint_parameters())));
    out.push(("customer::Config", wire::ser(&w.customer)));
    let (_kp1, kpd1) = des_keypair::<1>(ctx);
    out.push(("KeyPair<1>", wire::kp_bytes(&book, &kpd1)));
    out.push(("PublicKey<1>", wire::pk_bytes(&book, &kpd1.pk)));
    let (h, gs) = (nonzero(&mut ctx.prng), nonzero_vec(&mut ctx.prng, 5));
    out.push(("PedersenParameters<G1,5>", wire::ser(&wire::ped_g1::<5>(&book, &h, &gs))));
    out.push(("PedersenParameters<G2,3>", wire::ser(&wire::ped_g2::<3>(&book, &h, &gs[..3]))));
    let s = rand_scalar(&mut ctx.prng);
    out.push(("BlindingFactor", wire::enc_s(&s)));
    out.push(("Commitment<G1>", wire::enc_g1(&book, &s)));
    out.push(("Commitment<G2>", wire::enc_g2(&book, &s)));
    out.push(("BlindedMessage", wire::enc_g1(&book, &s)));
    let cpd = |ctx: &mut Ctx, n: usize| CpD { c: rand_scalar(&mut ctx.prng), t: rand_scalar(&mut ctx.prng), zbf: rand_scalar(&mut ctx.prng), zs: rand_vec(&mut ctx.prng, n) };
    let c1 = cpd(ctx, 1); let c5 = cpd(ctx, 5); let c3 = cpd(ctx, 3);
    out.push(("CommitmentProof<G1,1>", c1.bytes::<bls12_381::G1Projective>(&book)));
    out.push(("CommitmentProof<G1,5>", c5.bytes::<bls12_381::G1Projective>(&book)));
    out.push(("SignatureRequestProof<5>", c5.bytes::<bls12_381::G1Projective>(&book)));
    out.push(("CommitmentProof<G2,3>", c3.bytes::<bls12_381::G2Projective>(&book)));
    let sp1 = SpD { s1: nonzero(&mut ctx.prng), s2: rand_scalar(&mut ctx.prng), cp: c1.clone() };
    let sp5 = SpD { s1: nonzero(&mut ctx.prng), s2: rand_scalar(&mut ctx.prng), cp: c5.clone() };
    out.push(("SignatureProof<1>", sp1.bytes(&book)));
    out.push(("SignatureProof<5>", sp5.bytes(&book)));
    out.push(("Signature", wire::cat(vec![wire::enc_g1(&book, &sp1.s1), wire::enc_g1(&book, &sp1.s2)])));
    out.push(("BlindedSignature", wire::cat(vec![wire::enc_g1(&book, &sp5.s1), wire::enc_g1(&book, &sp5.s2)])));
    out.push(("Vec<G1Affine>", wire::arr((0..4).map(|_| wire::enc_g1(&book, &rand_scalar(&mut ctx.prng))).collect())));
    out.push(("Vec<G2Projective>", wire::arr((0..2).map(|_| wire::enc_g2(&book, &rand_scalar(&mut ctx.prng))).collect())));
    out.push(("Vec<Scalar>", wire::arr((0..3).map(|_| wire::enc_s(&rand_scalar(&mut ctx.prng))).collect())));
    out.push(("Vec<Scalar>", wire::arr(vec![])));
    // a long vector (more elements than any up-front allocation cap)
    out.push(("Vec<Scalar>", wire::arr((0..4100u64).map(|i| wire::enc_s(&Scalar::from(i + 2))).collect())));
    out.push(("[Scalar;5]", wire::arr((0..5).map(|_| wire::enc_s(&edge_scalar(&mut ctx.prng))).collect())));
    out.push(("Box<[G1Projective;3]>", wire::arr((0..3).map(|_| wire::enc_g1(&book, &rand_scalar(&mut ctx.prng))).collect())));
    // a session: every protocol message and customer state
    let a = Agreed::random(ctx);
    out.push(("ChannelId", a.cid.to_bytes().to_vec()));
    out.push(("CustomerRandomness", a.cid.to_bytes().to_vec()));
    out.push(("MerchantBalance", a.mb.to_le_bytes().to_vec()));
    out.push(("CustomerBalance", a.cb.to_le_bytes().to_vec()));
    if let Some(run) = establish_customer(ctx, &w, &a) {
        out.push(("EstablishProof", wire::ser(&run.proof)));
        out.push(("customer::Requested", wire::ser(&run.requested)));
        let rb = wire::ser(&run.requested);
        out.push(("State", rb[..145].to_vec()));
        out.push(("Nonce", rb[32..64].to_vec()));
        out.push(("RevocationPair", rb[64..129].to_vec()));
        out.push(("RevocationLock", rb[64..96].to_vec()));
        out.push(("RevocationSecret", rb[96..129].to_vec()));
        if let Some(o) = initialize_check(ctx, &w, &a, &run.d, Some(true), "honest") {
            if let Some((closing, vbs)) = o.accepted {
                out.push(("ClosingSignature", wire::ser(&closing)));
                if let Ok(inactive) = run.requested.complete(closing, &w.customer) {
                    out.push(("customer::Inactive", wire::ser(&inactive)));
                    let mut rng = ScriptedRng::new(ctx.prng.gen(), book.clone());
                    let ib: zkabacus_crypto::customer::Inactive = wire::de(&wire::ser(&inactive)).unwrap();
                    out.push(("customer::ClosingMessage", wire::ser(&ib.close(&mut rng))));
                    let tok = w.merchant.activate(&mut rng, vbs);
                    out.push(("PayToken", wire::ser(&tok)));
                    let _ = inactive;
                }
            }
        }
    }
    if let Some(mut s) = open_session(ctx, &w, &a) {
        let ready = s.ready.take().unwrap();
        out.push(("customer::Ready", wire::ser(&ready)));
        let rb = wire::ser(&ready);
        out.push(("CloseStateSignature", rb[241..337].to_vec()));
        let amt = valid_amount(ctx, s.cb, s.mb);
        out.push(("PaymentAmount", amt.to_le_bytes().to_vec()));
        if let StartOutcome::Started(run) = pay_start(ctx, &w, &a, ready, amt) {
            out.push(("PayProof", wire::ser(&run.proof)));
            out.push(("customer::Started", wire::ser(&run.started)));
            out.push(("RangeConstraint", wire::ser(&run.proof)[64 + 488 + 168 + 592..64 + 488 + 168 + 592 + 3240].to_vec()));
            out.push(("RevocationLockBlindingFactor", wire::enc_s(&run.bf_rl)));
            out.push(("RevocationLockCommitment", wire::enc_g1(&book, &run.d.rl.c)));
            if let Some(o) = allow_check(ctx, &w, &run.nonce_s, amt, &a.ctx_bytes, &run.d, Some(true), "honest") {
                if let Some((_un, closing)) = o.accepted {
                    if let Ok((locked, _lm)) = run.started.lock(closing, &w.customer) {
                        out.push(("customer::Locked", wire::ser(&locked)));
                        let lb = wire::ser(&locked);
                        // close state: cid | lock | mb | cb from the state
                        let mut cs = lb[..32].to_vec(); cs.extend(&lb[64..96]); cs.extend(&lb[129..145]);
                        out.push(("CloseState", cs));
                    }
                }
            }
        }
    }
    out
}

pub struct Bad {
    pub g1_offcurve: Vec<u8>,
    pub g1_nosubgroup: Vec<u8>,
    pub g2_offcurve: Vec<u8>,
    pub g2_nosubgroup: Vec<u8>,
}

/// invalid element encodings: x not on the curve, point outside the prime-order subgroup
pub fn bad_points() -> Bad {
    let mut g1_off = None; let mut g1_sub = None;
    let mut k: u64 = 1;
    while g1_off.is_none() || g1_sub.is_none() {
        let mut b = [0u8; 48];
        b[40..].copy_from_slice(&k.to_be_bytes());
        b[0] |= 0x80;
        let unchecked: Option<G1Affine> = G1Affine::from_compressed_unchecked(&b).into();
        let checked: Option<G1Affine> = G1Affine::from_compressed(&b).into();
        match (unchecked, checked) { (None, _) => if g1_off.is_none() { g1_off = Some(b.to_vec()) }, (Some(_), None) => if g1_sub.is_none() { g1_sub = Some(b.to_vec()) }, _ => {} }
        k += 1;
    }
    let mut g2_off = None; let mut g2_sub = None;
    let mut k: u64 = 1;
    while g2_off.is_none() || g2_sub.is_none() {
        let mut b = [0u8; 96];
        b[88..].copy_from_slice(&k.to_be_bytes());
        b[0] |= 0x80;
        let unchecked: Option<G2Affine> = G2Affine::from_compressed_unchecked(&b).into();
        let checked: Option<G2Affine> = G2Affine::from_compressed(&b).into();
        match (unchecked, checked) { (None, _) => if g2_off.is_none() { g2_off = Some(b.to_vec()) }, (Some(_), None) => if g2_sub.is_none() { g2_sub = Some(b.to_vec()) }, _ => {} }
        k += 1;
    }
    Bad { g1_offcurve: g1_off.unwrap(), g1_nosubgroup: g1_sub.unwrap(), g2_offcurve: g2_off.unwrap(), g2_nosubgroup: g2_sub.unwrap() }
}

/// a point of the curve with no component in the prime-order subgroup: T = [q]R for a curve point R outside the subgroup
/// (the cofactor is coprime to q, so T != O and [q]T' = O only for T' in the subgroup).  Double-and-add over the bits of q
/// with the projective formulas, which are complete on the whole curve.
fn torsion_g1(bad: &Bad) -> bls12_381::G1Projective {
    use bls12_381::G1Projective;
    let r: G1Affine = Option::from(G1Affine::from_compressed_unchecked(&{ let mut a = [0u8; 48]; a.copy_from_slice(&bad.g1_nosubgroup); a })).expect("curve point");
    let r = G1Projective::from(r);
    let q = q_bytes();
    let mut acc = G1Projective::identity();
    for byte in q.iter().rev() { for bit in (0..8).rev() { acc = acc.double(); if (byte >> bit) & 1 == 1 { acc += r; } } }
    acc
}
fn torsion_g2(bad: &Bad) -> bls12_381::G2Projective {
    use bls12_381::G2Projective;
    let r: G2Affine = Option::from(G2Affine::from_compressed_unchecked(&{ let mut a = [0u8; 96]; a.copy_from_slice(&bad.g2_nosubgroup); a })).expect("curve point");
    let r = G2Projective::from(r);
    let q = q_bytes();
    let mut acc = G2Projective::identity();
    for byte in q.iter().rev() { for bit in (0..8).rev() { acc = acc.double(); if (byte >> bit) & 1 == 1 { acc += r; } } }
    acc
}
/// the element encoded in `chunk` (valid, possibly the identity) moved by +T / -T, re-encoded; None if `chunk` is not a valid element
fn shift_by_torsion(chunk: &[u8], bad: &Bad, minus: bool) -> Option<Vec<u8>> {
    if chunk.len() == 48 {
        let p: G1Affine = Option::from(G1Affine::from_compressed(&{ let mut a = [0u8; 48]; a.copy_from_slice(chunk); a }))?;
        let t = torsion_g1(bad);
        let s = bls12_381::G1Projective::from(p) + if minus { -t } else { t };
        Some(G1Affine::from(s).to_compressed().to_vec())
    } else {
        let p: G2Affine = Option::from(G2Affine::from_compressed(&{ let mut a = [0u8; 96]; a.copy_from_slice(chunk); a }))?;
        let t = torsion_g2(bad);
        let s = bls12_381::G2Projective::from(p) + if minus { -t } else { t };
        Some(G2Affine::from(s).to_compressed().to_vec())
    }
}

fn q_bytes() -> [u8; 32] {
    // q = -1 + 1 as bytes: (q - 1) little-endian, plus one
    let mut b = (-Scalar::one()).to_bytes();
    let mut i = 0;
    loop { if b[i] == 0xff { b[i] = 0; i += 1; } else { b[i] += 1; break; } }
    b
}

/// register the valid (lock, secret, index) triples of every revocation pair in `bytes`
pub fn put_revs(ctx: &mut Ctx, bytes: &[u8], atoms: &[(usize, usize, char)]) {
    let mut items = vec![];
    for w in atoms.windows(3) {
        if w[0].2 == 'S' && w[1].2 == 'S' && w[2].2 == 'b' && w[2].0 + 1 <= bytes.len() {
            let (l, s) = (&bytes[w[0].0..w[0].0 + 32], &bytes[w[1].0..w[1].0 + 32]);
            let idx = bytes[w[2].0];
            let mut pre = s.to_vec(); pre.push(idx);
            let d = sha3_256(&pre);
            if let (Some(ls), Some(ss)) = (s_at(l, 0), s_at(s, 0)) {
                if Option::<Scalar>::from(Scalar::from_bytes(&d)) == Some(ls) {
                    items.push(format!("{}:{}:{}", hex_s(&ls), hex_s(&ss), idx));
                }
            }
        }
    }
    if !items.is_empty() {
        let _ = ctx.model.raw(&format!("rev-put {}", items.join(" ")));
    }
}

/// decode on the real code and on the model, compare outcome class / consumed length;
/// returns (real outcome, largest allocation request of the real decode, model answer)
pub fn compare(ctx: &mut Ctx, e: &TyEntry, bytes: &[u8], atoms: &[(usize, usize, char)], what: &str) -> (Outc, usize, String) {
    let (real, maxalloc) = (e.dec)(bytes);
    let _ = ctx.model.raw("el-clear");
    put_revs(ctx, bytes, atoms);
    let ans = model_decode_keep(ctx, &e.expr, bytes, atoms);
    ctx.evals += 1;
    let _ = ctx.distinct.insert({ use std::hash::{Hash, Hasher}; let mut h = std::collections::hash_map::DefaultHasher::new(); (e.name, bytes).hash(&mut h); h.finish() });
    let model_class: String = ans.split_whitespace().take(match ans.split_whitespace().next() { Some("v:ok") => 2, _ => 1 }).collect::<Vec<_>>().join(" ");
    let real_class = outc_tokens(&real);
    ctx.count(&format!("decode:{}:{}", what, real_class.split(' ').next().unwrap()));
    if model_class != real_class {
        ctx.disagreements.push(json!({"kind": "model-vs-implementation", "case": ctx.case_id, "what": format!("decoding {} ({}): real {} vs model {}", e.name, what, real_class, ans),
            "type": e.name, "expr": e.expr, "bytes": hex::encode(bytes)}));
        // the model's verdict is the type invariant (proved: everything it accepts satisfies `wf`, everything satisfying
        // `wf` is accepted): a byte string the real decoder accepts although the invariant forbids it — or refuses
        // although it is the canonical encoding of a well-formed value — is a concrete failing input
        if matches!(real, Outc::Ok { .. }) && model_class == "v:err" {
            ctx.violation(&format!("the {} decoder accepts a byte string ({}) that violates the type's decode-time invariant", e.name, what),
                json!({"class": format!("decoder-accepts-invalid:{}", what.split('@').next().unwrap_or(what)), "type": e.name, "bytes": hex::encode(bytes)}));
        }
        if matches!(real, Outc::Err) && model_class.starts_with("v:ok") {
            ctx.violation(&format!("the {} decoder refuses a byte string ({}) that is the canonical encoding of a well-formed value", e.name, what),
                json!({"class": format!("decoder-refuses-valid:{}", what.split('@').next().unwrap_or(what)), "type": e.name, "bytes": hex::encode(bytes)}));
        }
    }
    (real, maxalloc, ans)
}

fn model_decode_keep(ctx: &mut Ctx, expr: &str, bytes: &[u8], atoms: &[(usize, usize, char)]) -> String {
    // like codec::model_decode but without clearing the revocation table just filled
    let mut items: Vec<String> = vec![];
    for (o, l, k) in atoms {
        if *o + *l <= bytes.len() {
            if *k == 'A' { items.push(format!("{}={}", hex::encode(&bytes[*o..*o + *l]), classify48(&bytes[*o..*o + *l]))); }
            if *k == 'B' { items.push(format!("{}={}", hex::encode(&bytes[*o..*o + *l]), classify96(&bytes[*o..*o + *l]))); }
        }
    }
    for ch in items.chunks(200) {
        let _ = ctx.model.raw(&format!("el-put {}", ch.join(" ")));
    }
    let hexb = if bytes.is_empty() { "-".to_string() } else { hex::encode(bytes) };
    let op = format!("decode {} 0 1 {}", expr, hexb);
    let mut ans = ctx.model.raw(&op);
    if ans == "v:need-classification" {
        let mut items: Vec<String> = vec![];
        for o in 0..bytes.len() {
            if bytes[o] & 0x80 != 0 {
                if o + 48 <= bytes.len() { items.push(format!("{}={}", hex::encode(&bytes[o..o + 48]), classify48(&bytes[o..o + 48]))); }
                if o + 96 <= bytes.len() { items.push(format!("{}={}", hex::encode(&bytes[o..o + 96]), classify96(&bytes[o..o + 96]))); }
            }
        }
        for ch in items.chunks(100) {
            let _ = ctx.model.raw(&format!("el-put {}", ch.join(" ")));
        }
        ctx.count("model-decode:slow-path");
        ans = ctx.model.raw(&format!("decode-final {} 0 1 {}", expr, hexb));
    }
    ctx.case_ops.push(format!("decode {} ({} bytes) => {}", expr, bytes.len(), ans));
    ans
}

pub fn run(ctx: &mut Ctx) {
    let reg = registry();
    let bad = bad_points();
    let sams = samples(ctx);
    channel_id_text_case(ctx, 8192 * ctx.nshards + ctx.shard, false);
    let mut seen: std::collections::BTreeSet<&str> = Default::default();
    for (i, (name, bytes)) in sams.iter().enumerate() {
        let e = match reg.iter().find(|e| e.name == *name) { Some(e) => e, None => { ctx.broken(&format!("type {} not in the registry", name)); continue; } };
        let _ = seen.insert(name);
        let mine = if ctx.thorough() { i % 4 == ctx.shard % 4 } else { i % ctx.nshards == ctx.shard };
        if !mine || !ctx.begin_case(i * ctx.nshards + ctx.shard, &format!("roundtrip-{}", name)) { continue; }
        let atoms = match layout(&e.expr, bytes) {
            Some(a) => a,
            None => { ctx.broken(&format!("wire schema of {} does not match its honest encoding ({} bytes)", name, bytes.len())); continue; }
        };
        // 1. honest value: lossless, canonical
        let (real, _, _) = compare(ctx, e, bytes, &atoms, "honest");
        match &real {
            Outc::Ok { consumed, reencodes } if *consumed == bytes.len() && *reencodes => {}
            _ => ctx.violation(&format!("honest {} does not round-trip: {:?}", name, real), json!({"class": "honest-roundtrip", "type": name, "bytes": hex::encode(bytes)})),
        }
        // 1b. … and through a self-describing format (field names recorded, sequence lengths not announced)
        ctx.evals += 1;
        match (e.json)(bytes) {
            Ok(true) => ctx.count("json-roundtrip:same"),
            Ok(false) => ctx.violation(&format!("honest {} written as JSON and read back re-encodes to different bytes", name), json!({"class": "json-roundtrip-differs", "type": name, "bytes": hex::encode(bytes)})),
            Err(err) => ctx.violation(&format!("honest {} does not survive a JSON round trip: {}", name, err), json!({"class": "json-roundtrip-fails", "type": name, "error": err, "bytes": hex::encode(bytes)})),
        }
        if bytes.len() > 20000 { continue; } // the long vector: honest round trip only
        // 2. each atom replaced by each invalid / boundary encoding
        let stride = if ctx.thorough() || atoms.len() <= 40 { 1 } else { atoms.len() / 40 + 1 };
        for (ai, (o, l, k)) in atoms.iter().enumerate() {
            if ai % stride != (i + ctx.shard) % stride { continue; }
            // thorough: the four shards working on a sample split its atoms between them
            if ctx.thorough() && ai % 4 != (ctx.shard / 4) % 4 { continue; }
            let mut alts: Vec<(&str, Vec<u8>, Option<bool>)> = vec![]; // (what, replacement, must the decode fail?)
            match k {
                'A' => {
                    let mut id = vec![0u8; 48]; id[0] = 0xc0;
                    alts.push(("g1-identity", id, None));
                    alts.push(("g1-x-not-on-curve", bad.g1_offcurve.clone(), Some(true)));
                    alts.push(("g1-outside-subgroup", bad.g1_nosubgroup.clone(), Some(true)));
                    let mut nf = bytes[*o..*o + 48].to_vec(); nf[0] &= 0x7f;
                    alts.push(("g1-no-compression-flag", nf, Some(true)));
                    let mut inf = bytes[*o..*o + 48].to_vec(); inf[0] |= 0x40;
                    alts.push(("g1-infinity-flag-with-x", inf, Some(true)));
                    alts.push(("g1-other-valid", wire::enc_g1(&ctx.book, &rand_scalar(&mut ctx.prng)), None));
                    // the inverse of the element just decoded (same x-coordinate, other sort flag): a valid, different
                    // element — must decode, and to itself (anything remembered about P must not answer for -P)
                    if bytes[*o] & 0x40 == 0 { let mut ng = bytes[*o..*o + 48].to_vec(); ng[0] ^= 0x20; alts.push(("g1-negated", ng, None)); }
                }
                'B' => {
                    let mut id = vec![0u8; 96]; id[0] = 0xc0;
                    alts.push(("g2-identity", id, None));
                    alts.push(("g2-x-not-on-curve", bad.g2_offcurve.clone(), Some(true)));
                    alts.push(("g2-outside-subgroup", bad.g2_nosubgroup.clone(), Some(true)));
                    let mut nf = bytes[*o..*o + 96].to_vec(); nf[0] &= 0x7f;
                    alts.push(("g2-no-compression-flag", nf, Some(true)));
                    if bytes[*o] & 0x40 == 0 { let mut ng = bytes[*o..*o + 96].to_vec(); ng[0] ^= 0x20; alts.push(("g2-negated", ng, None)); }
                }
                'S' => {
                    alts.push(("scalar-q", q_bytes().to_vec(), Some(true)));
                    alts.push(("scalar-2^256-1", vec![0xff; 32], Some(true)));
                    alts.push(("scalar-close-tag", CLOSE_SCALAR.to_bytes().to_vec(), None));
                    alts.push(("scalar-zero", vec![0; 32], None));
                    alts.push(("scalar-q-1", (-Scalar::one()).to_bytes().to_vec(), None));
                }
                'u' => {
                    alts.push(("u64-2^63", (1u64 << 63).to_le_bytes().to_vec(), None));
                    alts.push(("u64-2^64-1", u64::MAX.to_le_bytes().to_vec(), None));
                    alts.push(("u64-2^63-1", (i64::MAX as u64).to_le_bytes().to_vec(), None));
                    alts.push(("u64-0", 0u64.to_le_bytes().to_vec(), None));
                }
                'i' => { alts.push(("i64-min", i64::MIN.to_le_bytes().to_vec(), None)); }
                'b' => { alts.push(("u8-255", vec![255], None)); alts.push(("u8-other", vec![bytes[*o].wrapping_add(1)], None)); }
                'r' => { alts.push(("raw-random", (0..*l).map(|_| ctx.prng.gen()).collect(), None)); }
                'L' => {
                    // a length prefix other than the number of elements that follow is not canonical
                    let n = u64::from_le_bytes({ let mut a = [0u8; 8]; a.copy_from_slice(&bytes[*o..*o + 8]); a });
                    alts.push(("length-prefix-n+1", (n + 1).to_le_bytes().to_vec(), None));
                    alts.push(("length-prefix-2^63", (1u64 << 63).to_le_bytes().to_vec(), None));
                    alts.push(("length-prefix-2^64-1", u64::MAX.to_le_bytes().to_vec(), None));
                    if n > 0 { alts.push(("length-prefix-n-1", (n - 1).to_le_bytes().to_vec(), None)); }
                }
                _ => {}
            }
            for (what, rep, must_fail) in alts {
                if rep[..] == bytes[*o..*o + *l] { continue; }
                let mut b2 = bytes.clone();
                b2[*o..*o + *l].copy_from_slice(&rep);
                let (real, _, _) = compare(ctx, e, &b2, &atoms, what);
                if let Outc::Ok { consumed, reencodes } = &real {
                    if must_fail == Some(true) {
                        ctx.violation(&format!("{} decodes with {} at atom {}", name, what, ai), json!({"class": format!("decode-accepts-{}", what), "type": name, "atom": ai, "bytes": hex::encode(&b2)}));
                    }
                    if !reencodes {
                        ctx.violation(&format!("{} decoded from a non-canonical encoding ({} at atom {}): re-encoding differs", name, what, ai), json!({"class": "decode-noncanonical", "type": name, "bytes": hex::encode(&b2)}));
                    }
                    let _ = consumed;
                    // invariants named in the property, checked on the bytes that were accepted
                    let is_balance_pos = *k == 'u';
                    if is_balance_pos && (what == "u64-2^63" || what == "u64-2^64-1") {
                        ctx.violation(&format!("{} decodes with a balance above 2^63-1", name), json!({"class": "decode-accepts-balance-above-i64-max", "type": name, "bytes": hex::encode(&b2)}));
                    }
                }
            }
        }
        // 3. two element atoms set to the identity together (every pair; for long types a rotating sample): a
        // validator that combines per-element tests wrongly (xor for or, any for all) agrees with the invariant on
        // every single replacement and differs only on pairs
        {
            let els: Vec<(usize, usize)> = atoms.iter().filter(|(_, _, k)| *k == 'A' || *k == 'B').map(|(o, l, _)| (*o, *l)).collect();
            let npairs = els.len() * els.len().saturating_sub(1) / 2;
            let stride = if ctx.thorough() { 1.max(npairs / 400) } else { 1.max(npairs / 90) };
            let mut p = 0usize;
            for x in 0..els.len() {
                for y in x + 1..els.len() {
                    p += 1;
                    if p % stride != (i + ctx.shard) % stride { continue; }
                    let mut b2 = bytes.clone();
                    for (o, l) in [els[x], els[y]] { for z in b2[o..o + l].iter_mut() { *z = 0; } b2[o] = 0xc0; }
                    if b2 == *bytes { continue; }
                    let _ = compare(ctx, e, &b2, &atoms, "two-elements-identity");
                    // the same pair moved out of the prime-order subgroup by +T and -T (T a point of the curve with no
                    // subgroup component): each encoding is invalid on its own, the sum of the two elements is unchanged -
                    // a decoder that folds the per-element subgroup tests into one test of an aggregate accepts it
                    if els[x].1 == els[y].1 {
                        if let (Some(px), Some(py)) = (shift_by_torsion(&bytes[els[x].0..els[x].0 + els[x].1], &bad, false), shift_by_torsion(&bytes[els[y].0..els[y].0 + els[y].1], &bad, true)) {
                            let mut b3 = bytes.clone();
                            b3[els[x].0..els[x].0 + els[x].1].copy_from_slice(&px);
                            b3[els[y].0..els[y].0 + els[y].1].copy_from_slice(&py);
                            let (real, _, _) = compare(ctx, e, &b3, &atoms, "two-elements-outside-subgroup-cancelling");
                            ctx.count(&format!("torsion-pair:{}", outc_tokens(&real).split(' ').next().unwrap()));
                            if let Outc::Ok { .. } = real {
                                ctx.violation(&format!("{} decodes although two of its elements lie outside the prime-order subgroup (they differ from valid ones by +T and -T)", name), json!({"class": "decode-accepts-elements-outside-subgroup", "type": name, "bytes": hex::encode(&b3)}));
                            }
                        }
                    }
                }
            }
        }
    }
    ctx.notes.push(format!("types with honest samples on this worker: {}", seen.len()));
}


/// C16: length prefixes, truncations, extensions, random strings; outcome class and allocation
pub fn run_c16(ctx: &mut Ctx) {
    let reg = registry();
    let sams = samples(ctx);
    channel_id_text_case(ctx, 8192 * ctx.nshards + ctx.shard, true);
    for (i, (name, bytes)) in sams.iter().enumerate() {
        let e = match reg.iter().find(|e| e.name == *name) { Some(e) => e, None => continue };
        let mine = if ctx.thorough() { i % 4 == ctx.shard % 4 } else { i % ctx.nshards == ctx.shard };
        if !mine || !ctx.begin_case(i * ctx.nshards + ctx.shard, &format!("untrusted-{}", name)) { continue; }
        let atoms = match layout(&e.expr, bytes) { Some(a) => a, None => { ctx.broken(&format!("wire schema of {} does not match its honest encoding", name)); continue; } };
        let mut inputs: Vec<(String, Vec<u8>)> = vec![];
        // every length prefix set to {0, n-1, n+1, 2^32, 2^60, 2^64-1}; for n+1 also with a decodable surplus element inserted
        for (pi, (o, _, k)) in atoms.iter().enumerate() {
            if *k != 'L' { continue; }
            let n = u64::from_le_bytes({ let mut a = [0u8; 8]; a.copy_from_slice(&bytes[*o..*o + 8]); a });
            for v in [0u64, n.wrapping_sub(1), n + 1, 1 << 32, 1 << 60, u64::MAX] {
                if v == n { continue; }
                let mut b = bytes.clone();
                b[*o..*o + 8].copy_from_slice(&v.to_le_bytes());
                inputs.push((format!("length-prefix={}", if v == n + 1 { "n+1".to_string() } else if v.wrapping_add(1) == n { "n-1".to_string() } else { format!("{:#x}", v) }), b));
            }
            // surplus element: duplicate the element that follows the prefix (when there is one)
            if let Some((eo, el, _)) = atoms.get(pi + 1) {
                if *eo == *o + 8 && n > 0 {
                    let mut b = bytes[..*o].to_vec();
                    b.extend(&(n + 1).to_le_bytes());
                    b.extend(&bytes[*eo..*eo + *el]);
                    b.extend(&bytes[*eo..]);
                    inputs.push(("length-prefix=n+1-with-decodable-surplus-element".into(), b));
                    let mut b2 = bytes[..*o].to_vec();
                    b2.extend(&(n + 2).to_le_bytes());
                    b2.extend(&bytes[*eo..*eo + *el]);
                    b2.extend(&bytes[*eo..*eo + *el]);
                    b2.extend(&bytes[*eo..]);
                    inputs.push(("length-prefix=n+2-with-decodable-surplus-elements".into(), b2));
                }
            }
        }
        // truncation at every atom boundary (and one byte into the atom), extension
        // thorough: every boundary, except for the 4100-element vector (every ~14th)
        let stride = if atoms.len() <= 30 || (ctx.thorough() && atoms.len() <= 600) { 1 } else { atoms.len() / (if ctx.thorough() { 300 } else { 30 }) + 1 };
        for (ai, (o, _, _)) in atoms.iter().enumerate() {
            if ai % stride != 0 { continue; }
            if ctx.thorough() && ai % 4 != (ctx.shard / 4) % 4 { continue; }
            inputs.push(("truncated-at-atom".into(), bytes[..*o].to_vec()));
            if *o + 1 < bytes.len() { inputs.push(("truncated-inside-atom".into(), bytes[..*o + 1].to_vec())); }
        }
        let mut ext = bytes.clone(); ext.extend(vec![0xab; 17]);
        inputs.push(("extended".into(), ext));
        inputs.push(("empty".into(), vec![]));
        // every integer / scalar atom set to the extremes of its range (validators that negate, add or convert
        // a decoded number must survive them): i64::MIN / -1 / i64::MAX, u64 2^63 / 2^64-1, u8 255, scalar q-1 / q / 2^256-1
        {
            let stride = if bytes.len() > 20000 { atoms.len() / 3 + 1 } else if atoms.len() <= 60 || ctx.thorough() { 1 } else { atoms.len() / 60 + 1 };
            for (ai, (o, l, k)) in atoms.iter().enumerate() {
                if ai % stride != 0 && *k != 'i' && *k != 'u' { continue; }
                let vals: Vec<(&str, Vec<u8>)> = match k {
                    'i' | 'u' => vec![("int-min", i64::MIN.to_le_bytes().to_vec()), ("int-minus-one", (-1i64).to_le_bytes().to_vec()), ("int-max", i64::MAX.to_le_bytes().to_vec()), ("int-zero", vec![0u8; 8]), ("int-min-plus-one", (i64::MIN + 1).to_le_bytes().to_vec())],
                    'b' => vec![("byte-255", vec![255u8]), ("byte-0", vec![0u8])],
                    'S' => vec![("scalar-q-minus-1", dl_q_minus_1()), ("scalar-q", plus_q(&[0u8; 32])), ("scalar-all-ones", vec![0xffu8; 32]), ("scalar-zero", vec![0u8; 32])],
                    _ => vec![],
                };
                for (what, v) in vals {
                    let mut b = bytes.clone();
                    b[*o..*o + *l].copy_from_slice(&v);
                    inputs.push((format!("atom-extreme-{}", what), b));
                }
            }
        }
        for _ in 0..(if ctx.thorough() { 40 } else { 6 }) {
            let len = match ctx.prng.gen_range(0..3) { 0 => bytes.len(), 1 => ctx.prng.gen_range(0..=bytes.len().min(300)), _ => ctx.prng.gen_range(0..64) };
            inputs.push(("random".into(), (0..len).map(|_| ctx.prng.gen()).collect()));
            // random with a plausible structure: honest bytes with a few random bytes flipped
            let mut b = bytes.clone();
            for _ in 0..3 { if !b.is_empty() { let j = ctx.prng.gen_range(0..b.len()); b[j] = ctx.prng.gen(); } }
            inputs.push(("honest-with-random-bytes".into(), b));
        }
        for (what, b) in inputs {
            let risky = e.expr.contains('{'); // the pinned Vec visitor can abort the process: always isolate
            let (real, maxalloc, ans) = if risky { compare_isolated(ctx, e, &b, &atoms, &what) } else { compare(ctx, e, &b, &atoms, &what) };
            let bound = (2usize << 20) + 64 * b.len(); // constant cap (4096 elements up front) + proportional part
            let over = maxalloc > bound;
            let model_alloc: u128 = ans.split_whitespace().last().and_then(|t| t.strip_prefix("n:")).and_then(|t| t.parse().ok()).unwrap_or(0);
            let model_over = model_alloc > 65536;
            ctx.count(&format!("untrusted:{}:{}{}", what.split('=').next().unwrap(), outc_tokens(&real).split(' ').next().unwrap(), if over { ":OVER-ALLOCATION" } else { "" }));
            if let Outc::Panic(msg) = &real {
                ctx.violation(&format!("decoding {} ({}) panics: {}", name, what, msg), json!({"class": "decode-panics", "type": name, "input": what, "bytes": hex::encode(&b)}));
            }
            if over {
                ctx.violation(&format!("decoding {} ({}, {} bytes) requests {} bytes in one allocation", name, what, b.len(), maxalloc), json!({"class": "decode-over-allocates", "type": name, "input": what, "bytes": hex::encode(&b), "largest_request": maxalloc}));
            }
            if over != model_over {
                ctx.disagreements.push(json!({"kind": "model-vs-implementation", "case": ctx.case_id, "what": format!("allocation class differs for {} ({}): real largest request {} bytes, model {} elements", name, what, maxalloc, model_alloc)}));
            }
        }
    }
}

/// `ChannelId`'s text form (`Display` / `FromStr`, standard base64) — the one hand-written text codec of the two crates.
/// Oracle: the `base64` crate itself (`encode`, `decode`), which is not part of the code under test.
/// `robust = false` (C15): every id prints as base64 of its 32 bytes and parses back to itself.
/// `robust = true` (C16): every text - honest, truncated, extended, payloads of every length 0..=70 and long ones,
/// altered characters, other alphabets, missing / surplus padding, random - parses to a value or an error, never panics,
/// and is accepted exactly when it is base64 of 32 bytes.
fn channel_id_text_case(ctx: &mut Ctx, idx: usize, robust: bool) {
    if !ctx.begin_case(idx, if robust { "untrusted-ChannelId-text" } else { "roundtrip-ChannelId-text" }) {
        return;
    }
    use std::str::FromStr;
    use zkabacus_crypto::ChannelId;
    let mut ids: Vec<[u8; 32]> = vec![[0u8; 32], [0xff; 32], [0xfb; 32], [0x3e; 32]];
    for _ in 0..6 { let mut b = [0u8; 32]; ctx.prng.fill(&mut b); ids.push(b); }
    let mut texts: Vec<(String, String)> = vec![];
    for b in &ids {
        let id: ChannelId = wire::de(b).expect("channel id");
        let text = id.to_string();
        ctx.evals += 1;
        if text != base64::encode(b) {
            ctx.violation("a channel id does not print as the standard base64 of its 32 bytes", json!({"class": "channel-id-text-not-base64", "id": hex::encode(b), "text": text}));
        }
        // the Lean model of the text form (Model/Base64.lean, theorems C15.id_text_*)
        let _ = ctx.expect(&format!("b64-text-of-id {}", hex::encode(b)), &[crate::report::Real::V(hex::encode(text.as_bytes()))]);
        match std::panic::catch_unwind(|| ChannelId::from_str(&text)) {
            Ok(Ok(back)) if back.to_bytes() == *b => ctx.count("channel-id-text:roundtrip"),
            Ok(Ok(_)) => ctx.violation("a channel id's text parses to a different id", json!({"class": "channel-id-text-roundtrip", "id": hex::encode(b), "text": text})),
            Ok(Err(e)) => ctx.violation(&format!("a channel id's own text does not parse: {}", e), json!({"class": "channel-id-text-roundtrip", "id": hex::encode(b), "text": text})),
            Err(_) => ctx.violation("parsing a channel id's own text panics", json!({"class": "channel-id-text-panics", "text": text})),
        }
        if !robust { continue; }
        texts.push(("honest".into(), text.clone()));
        for cut in [0usize, 1, 2, 3, 4, 40, 42, 43] { texts.push((format!("truncated-to-{}", cut), text[..cut].to_string())); }
        texts.push(("honest-without-padding".into(), text.trim_end_matches('=').to_string()));
        texts.push(("honest-with-surplus-padding".into(), format!("{}=", text)));
        texts.push(("honest-then-more-base64".into(), format!("{}AAAA", text)));
        texts.push(("honest-unpadded-then-more-base64".into(), format!("{}AAAA", text.trim_end_matches('='))));
        texts.push(("honest-with-whitespace".into(), format!(" {}\n", text)));
        texts.push(("url-safe-alphabet".into(), text.replace('+', "-").replace('/', "_")));
        let pos = ctx.prng.gen_range(0..text.len());
        for c in ['=', '-', '_', ' ', '\0', '\u{e9}', 'A', '/'] {
            let mut t: Vec<char> = text.chars().collect();
            t[pos] = c;
            texts.push((format!("character-{}-replaced", pos), t.into_iter().collect()));
        }
    }
    if robust {
        // base64 of every payload length around 32, and long ones
        for n in (0usize..=70).chain([96, 255, 256, 1024, 65536]) {
            let payload: Vec<u8> = (0..n).map(|_| ctx.prng.gen()).collect();
            texts.push((format!("base64-of-{}-bytes", n), base64::encode(&payload)));
            if n % 3 != 0 { texts.push((format!("unpadded-base64-of-{}-bytes", n), base64::encode_config(&payload, base64::STANDARD_NO_PAD))); }
        }
        for _ in 0..40 {
            let n = ctx.prng.gen_range(0..90);
            let alphabet: Vec<char> = "ABCDEFGHIJKLMNOPQRSTUVWXYZabcdefghijklmnopqrstuvwxyz0123456789+/=".chars().collect();
            texts.push(("random-alphabet-text".into(), (0..n).map(|_| alphabet[ctx.prng.gen_range(0..alphabet.len())]).collect()));
        }
        texts.push(("empty".into(), String::new()));
    }
    for (what, text) in texts {
        ctx.evals += 1;
        let oracle: Option<[u8; 32]> = base64::decode(&text).ok().and_then(|v| if v.len() == 32 { let mut a = [0u8; 32]; a.copy_from_slice(&v); Some(a) } else { None });
        let t2 = text.clone();
        let real = std::panic::catch_unwind(move || ChannelId::from_str(&t2).map(|id| id.to_bytes()).map_err(|e| e.to_string()));
        let shown: String = if text.len() > 200 { format!("{}… ({} characters)", &text[..200], text.len()) } else { text.clone() };
        match real {
            Err(_) => {
                ctx.count(&format!("channel-id-text:{}:PANIC", what.split('-').next().unwrap()));
                ctx.violation(&format!("parsing a channel id from text ({}) panics", what), json!({"class": "decode-panics", "type": "ChannelId (text)", "input": what, "text": shown}));
            }
            Ok(r) => {
                ctx.count(&format!("channel-id-text:{}", if r.is_ok() { "parsed" } else { "error" }));
                // the model's verdict and value
                let arg = if text.is_empty() { "-".to_string() } else { hex::encode(text.as_bytes()) };
                let reals = match &r { Ok(id) => vec![crate::report::Real::V("some".into()), crate::report::Real::V(hex::encode(id))], Err(_) => vec![crate::report::Real::V("none".into())] };
                let _ = ctx.expect(&format!("b64-id-of-text {}", arg), &reals);
                if r.as_ref().ok() != oracle.as_ref() {
                    ctx.violation(&format!("parsing a channel id from text ({}) {} although the text {} base64 of 32 bytes", what, if r.is_ok() { "succeeds" } else { "fails" }, if oracle.is_some() { "is" } else { "is not" }),
                        json!({"class": "channel-id-text-acceptance", "input": what, "text": shown}));
                }
            }
        }
    }
}

fn dl_q_minus_1() -> Vec<u8> { crate::dl::q_minus_1().to_bytes().to_vec() }
/// the 256-bit little-endian integer `b + q` (wrapping)
fn plus_q(b: &[u8; 32]) -> Vec<u8> {
    const Q: [u64; 4] = [0xffff_ffff_0000_0001, 0x53bd_a402_fffe_5bfe, 0x3339_d808_09a1_d805, 0x73ed_a753_299d_7d48];
    let mut out = vec![0u8; 32];
    let mut carry = 0u128;
    for i in 0..4 {
        let mut a = [0u8; 8]; a.copy_from_slice(&b[8 * i..8 * i + 8]);
        let t = u64::from_le_bytes(a) as u128 + Q[i] as u128 + carry;
        out[8 * i..8 * i + 8].copy_from_slice(&(t as u64).to_le_bytes());
        carry = t >> 64;
    }
    out
}

/// decode in a child process (the pinned `Vec` visitor may abort the process on a huge length prefix)
fn compare_isolated(ctx: &mut Ctx, e: &TyEntry, bytes: &[u8], atoms: &[(usize, usize, char)], what: &str) -> (Outc, usize, String) {
    let exe = std::env::current_exe().expect("current exe");
    let run = || -> std::io::Result<std::process::Output> {
        use std::io::Write;
        let mut ch = std::process::Command::new(&exe).arg("--decode-one").arg(e.name).arg("-")
            .stdin(std::process::Stdio::piped()).stdout(std::process::Stdio::piped()).stderr(std::process::Stdio::null()).spawn()?;
        ch.stdin.take().unwrap().write_all(hex::encode(bytes).as_bytes())?;
        ch.wait_with_output()
    };
    // the binary may be momentarily absent while another check re-links it: retry the spawn for a few seconds
    let mut out = run();
    for _ in 0..40 {
        match &out { Err(err) if err.kind() == std::io::ErrorKind::NotFound || err.raw_os_error() == Some(26) => { std::thread::sleep(std::time::Duration::from_millis(250)); out = run(); } _ => break }
    }
    let (real, maxalloc) = match out {
        Ok(o) if o.status.success() => {
            let s = String::from_utf8_lossy(&o.stdout).to_string();
            let mut it = s.split_whitespace();
            let cls = it.next().unwrap_or("");
            let a: usize = it.next().and_then(|x| x.parse().ok()).unwrap_or(0);
            let c: usize = it.next().and_then(|x| x.parse().ok()).unwrap_or(0);
            (match cls { "ok" => Outc::Ok { consumed: c, reencodes: true }, "err" => Outc::Err, _ => Outc::Panic("panic in child".into()) }, a)
        }
        Ok(o) => (Outc::Panic(format!("process aborted: {:?}", o.status)), usize::MAX),
        Err(err) => { ctx.broken(&format!("cannot spawn decode worker: {}", err)); (Outc::Err, 0) }
    };
    let _ = ctx.model.raw("el-clear");
    put_revs(ctx, bytes, atoms);
    let ans = model_decode_keep(ctx, &e.expr, bytes, atoms);
    ctx.evals += 1;
    let model_class: String = ans.split_whitespace().take(match ans.split_whitespace().next() { Some("v:ok") => 2, _ => 1 }).collect::<Vec<_>>().join(" ");
    let real_class = outc_tokens(&real);
    ctx.count(&format!("decode:isolated:{}", real_class.split(' ').next().unwrap()));
    if model_class != real_class {
        ctx.disagreements.push(json!({"kind": "model-vs-implementation", "case": ctx.case_id, "what": format!("decoding {} ({}): real {} vs model {}", e.name, what, real_class, ans), "bytes": hex::encode(bytes)}));
    }
    (real, maxalloc, ans)
}

pub fn decode_one(name: &str, hexbytes: &str) {
    let reg = registry();
    let e = reg.iter().find(|e| e.name == name).expect("type");
    let mut input = hexbytes.to_string();
    if hexbytes == "-" {
        use std::io::Read;
        input.clear();
        std::io::stdin().read_to_string(&mut input).expect("stdin");
    }
    let bytes = hex::decode(input.trim()).expect("hex");
    let (o, m) = (e.dec)(&bytes);
    match o {
        Outc::Ok { consumed, .. } => println!("ok {} {}", m, consumed),
        Outc::Err => println!("err {} 0", m),
        Outc::Panic(_) => println!("panic {} 0", m),
    }
}
