//! C02 — merchant approves payments only for a correct, unspent, in-range state update.
use crate::abacus::*;
use crate::dl::{hex_list, hex_s};
use crate::gen::*;
use crate::kit::*;
use crate::model::Tok;
use crate::rangelab::*;
use crate::report::Ctx;
use crate::schnorr::*;
use crate::session::*;
use crate::wire;
use bls12_381::Scalar;
use ff::Field;
use rand::Rng;
use serde_json::json;
use zkabacus_crypto::customer::Ready;
use zkabacus_crypto::CLOSE_SCALAR;

#[derive(Clone)]
pub struct DigitF {
    pub d: Scalar,
    pub sig: usize,
    pub bf: Scalar,
    pub tbf: Scalar,
    pub t: Scalar,
    pub r: Scalar,
}

/// an attacker's complete witness for a pay proof: every sub-proof has its own message and
/// commitment scalars, so that any single relation can be violated while all Schnorr equations hold
#[derive(Clone)]
pub struct PayForge {
    pub old: Vec<Scalar>,
    pub ts_tok: Vec<Scalar>,
    pub tok: (Scalar, Scalar),
    pub bf_t: Scalar,
    pub tbf_t: Scalar,
    pub r_t: Scalar,
    pub rl_m: Scalar,
    pub rl_t: Scalar,
    pub bf_r: Scalar,
    pub tbf_r: Scalar,
    pub ms_s: Vec<Scalar>,
    pub ts_s: Vec<Scalar>,
    pub bf_s: Scalar,
    pub tbf_s: Scalar,
    pub ms_c: Vec<Scalar>,
    pub ts_c: Vec<Scalar>,
    pub bf_c: Scalar,
    pub tbf_c: Scalar,
    pub cb: Vec<DigitF>,
    pub mb: Vec<DigitF>,
    pub kn: Scalar,
    pub kc: Scalar,
}

fn weighted(xs: &[Scalar]) -> Scalar {
    let mut acc = Scalar::zero();
    let mut p = Scalar::one();
    for x in xs {
        acc += p * x;
        p *= Scalar::from(128u64);
    }
    acc
}

fn digits_f(ctx: &mut Ctx, v: u64) -> Vec<DigitF> {
    digits_of(v).into_iter().map(|d| DigitF { d: Scalar::from(d), sig: d as usize, bf: rand_scalar(&mut ctx.prng), tbf: rand_scalar(&mut ctx.prng), t: rand_scalar(&mut ctx.prng), r: nonzero(&mut ctx.prng) }).collect()
}

impl PayForge {
    /// the honest witness shape of `PayProof::new`
    pub fn honest(ctx: &mut Ctx, old: &[Scalar], new: &[Scalar], tok: (Scalar, Scalar), cbv: u64, mbv: u64) -> PayForge {
        let cb = digits_f(ctx, cbv);
        let mb = digits_f(ctx, mbv);
        let t_cb = weighted(&cb.iter().map(|x| x.t).collect::<Vec<_>>());
        let t_mb = weighted(&mb.iter().map(|x| x.t).collect::<Vec<_>>());
        let rl_t = rand_scalar(&mut ctx.prng);
        let ts_tok = vec![rand_scalar(&mut ctx.prng), rand_scalar(&mut ctx.prng), rl_t, t_cb, t_mb];
        let ts_s = vec![ts_tok[0], rand_scalar(&mut ctx.prng), rand_scalar(&mut ctx.prng), t_cb, t_mb];
        let ts_c = vec![ts_s[0], rand_scalar(&mut ctx.prng), ts_s[2], t_cb, t_mb];
        let mut ms_c = new.to_vec();
        ms_c[1] = CLOSE_SCALAR;
        PayForge {
            old: old.to_vec(), kn: ts_tok[1], kc: ts_c[1], ts_tok, tok, bf_t: rand_scalar(&mut ctx.prng), tbf_t: rand_scalar(&mut ctx.prng), r_t: nonzero(&mut ctx.prng),
            rl_m: old[2], rl_t, bf_r: rand_scalar(&mut ctx.prng), tbf_r: rand_scalar(&mut ctx.prng),
            ms_s: new.to_vec(), ts_s, bf_s: rand_scalar(&mut ctx.prng), tbf_s: rand_scalar(&mut ctx.prng),
            ms_c, ts_c, bf_c: rand_scalar(&mut ctx.prng), tbf_c: rand_scalar(&mut ctx.prng), cb, mb,
        }
    }

    /// proof atoms for challenge `c`, computed with the model's sub-provers
    pub fn atoms(&self, ctx: &mut Ctx, w: &World, c: &Scalar) -> Option<PayD> {
        let sc = |toks: &[Tok], i: usize| -> Option<Scalar> { if let Some(Tok::S(a)) = toks.get(i) { Some(*a) } else { None } };
        let op = format!("sp-prove {} {} {} {} {} {} {} {} {}", pk_args(&w.kpd.pk), hex_list(&self.old), hex_s(&self.tok.0), hex_s(&self.tok.1),
            hex_s(&self.bf_t), hex_s(&self.tbf_t), hex_list(&self.ts_tok), hex_s(&self.r_t), hex_s(c));
        let t = ctx.ask(&op);
        let tok = SpD { s1: sc(&t, 0)?, s2: sc(&t, 1)?, cp: CpD { c: sc(&t, 2)?, t: sc(&t, 3)?, zbf: sc(&t, 4)?, zs: (6..11).map(|i| sc(&t, i)).collect::<Option<Vec<_>>>()? } };
        let op = format!("cp-prove {} {} {} {} {} {} {}", hex_s(&w.rev_h), hex_s(&w.rev_g), hex_s(&self.rl_m), hex_s(&self.bf_r), hex_s(&self.tbf_r), hex_s(&self.rl_t), hex_s(c));
        let t = ctx.ask(&op);
        let rl = CpD { c: sc(&t, 0)?, t: sc(&t, 1)?, zbf: sc(&t, 2)?, zs: vec![sc(&t, 4)?] };
        let mut cps = vec![];
        for (ms, bf, tbf, ts) in [(&self.ms_s, &self.bf_s, &self.tbf_s, &self.ts_s), (&self.ms_c, &self.bf_c, &self.tbf_c, &self.ts_c)] {
            let op = format!("cp-prove {} {} {} {} {} {} {}", hex_s(&w.kpd.pk.g1), hex_list(&w.kpd.pk.y1s), hex_list(ms), hex_s(bf), hex_s(tbf), hex_list(ts), hex_s(c));
            let t = ctx.ask(&op);
            cps.push(CpD { c: sc(&t, 0)?, t: sc(&t, 1)?, zbf: sc(&t, 2)?, zs: (4..9).map(|i| sc(&t, i)).collect::<Option<Vec<_>>>()? });
        }
        let cl = cps.pop()?;
        let st = cps.pop()?;
        let mut ranges = vec![];
        for ds in [&self.cb, &self.mb] {
            let mut v = vec![];
            for x in ds.iter() {
                let sig = w.rpd.sigs[x.sig];
                let op = format!("sp-prove {} {} {} {} {} {} {} {} {}", pk_args(&w.rpd.pk), hex_s(&x.d), hex_s(&sig.0), hex_s(&sig.1), hex_s(&x.bf), hex_s(&x.tbf), hex_s(&x.t), hex_s(&x.r), hex_s(c));
                let t = ctx.ask(&op);
                v.push(SpD { s1: sc(&t, 0)?, s2: sc(&t, 1)?, cp: CpD { c: sc(&t, 2)?, t: sc(&t, 3)?, zbf: sc(&t, 4)?, zs: vec![sc(&t, 6)?] } });
            }
            ranges.push(v);
        }
        let mbr = ranges.pop()?;
        let cbr = ranges.pop()?;
        Some(PayD { kn: self.kn, kc: self.kc, tok, rl, st, cl, cbr, mbr })
    }
}

fn clone_ready(r: &Ready) -> Ready {
    wire::de(&wire::ser(r)).expect("customer state round trip")
}

/// a valid amount for the current balances (either sign, zero, boundary)
pub fn valid_amount(ctx: &mut Ctx, cb: u64, mb: u64) -> i64 {
    let max = i64::MAX as u64;
    let up = cb.min(max - mb); // largest positive amount
    let down = mb.min(max - cb); // largest magnitude of a negative amount
    match ctx.prng.gen_range(0..8) {
        0 => 0,
        1 => up as i64,
        2 => -(down as i64),
        3 => if up > 0 { 1 } else { 0 },
        4 => if down > 0 { -1 } else { 0 },
        5 | 6 => if up > 0 { ctx.prng.gen_range(0..=up) as i64 } else { 0 },
        _ => if down > 0 { -(ctx.prng.gen_range(0..=down) as i64) } else { 0 },
    }
}

fn one_case(ctx: &mut Ctx, idx: usize, w: &World, w2: &World) {
    if !ctx.begin_case(idx, "pay") {
        return;
    }
    let book = ctx.book.clone();
    let mut a = Agreed::random(ctx);
    // balances with room in both directions
    a.cb = match ctx.prng.gen_range(0..5) {
        0 => 0, 1 => i64::MAX as u64,
        // base-128 digit patterns: powers of 128 and their neighbours (digits 1,0,..,0 / 127,..,127 / 1,0,..,d)
        2 => { let p = 1u64 << (7 * ctx.prng.gen_range(1..9u32)); match ctx.prng.gen_range(0..3) { 0 => p, 1 => p - 1, _ => p + ctx.prng.gen_range(1..128u64) } }
        _ => ctx.prng.gen::<u64>() >> ctx.prng.gen_range(2..60),
    };
    a.mb = match ctx.prng.gen_range(0..4) { 0 => 0, _ => (ctx.prng.gen::<u64>() >> ctx.prng.gen_range(2..60)).min(i64::MAX as u64 - a.cb) };
    let mut s = match open_session(ctx, w, &a) { Some(s) => s, None => return };
    // a history of 0..3 honest payments leading to the pay token under test
    let hist = ctx.prng.gen_range(0..if ctx.thorough() { 4 } else { 2 });
    for _ in 0..hist {
        let amt = valid_amount(ctx, s.cb, s.mb);
        if !honest_payment(ctx, &mut s, amt) {
            ctx.violation("an in-range honest payment did not complete", json!({"class": "honest-payment-failed", "cb": s.cb, "mb": s.mb, "amount": amt}));
            return;
        }
        ctx.count("history:honest-payment");
    }
    let ready = match s.ready.take() { Some(r) => r, None => return };
    let spare = clone_ready(&ready);
    let amount = valid_amount(ctx, s.cb, s.mb);
    let run = match pay_start(ctx, w, &s.a, ready, amount) {
        StartOutcome::Started(r) => *r,
        _ => { ctx.violation("honest customer could not start an in-range payment", json!({"class": "honest-start-refused", "cb": s.cb, "mb": s.mb, "amount": amount})); return; }
    };
    let base = match allow_check(ctx, w, &run.nonce_s, amount, &s.a.ctx_bytes, &run.d, Some(true), "honest") { Some(o) => o.challenge, None => return };
    if base != run.c {
        ctx.violation("merchant derives a different challenge than the customer for the same pay proof", json!({"class": "challenge-mismatch", "kind": "pay"}));
    }
    // ---- false statements with the honest proof
    let n2 = perturb(&mut ctx.prng, &run.nonce_s);
    let _ = allow_check(ctx, w, &n2, amount, &s.a.ctx_bytes, &run.d, Some(false), "other-nonce");
    for da in [1i64, -1] {
        if let Some(a2) = amount.checked_add(da) {
            let _ = allow_check(ctx, w, &run.nonce_s, a2, &s.a.ctx_bytes, &run.d, Some(false), "other-amount");
        }
    }
    if amount != 0 && amount != i64::MIN {
        let _ = allow_check(ctx, w, &run.nonce_s, -amount, &s.a.ctx_bytes, &run.d, Some(false), "amount-negated");
    }
    let mut cx = s.a.ctx_bytes.clone();
    cx.push(7);
    let _ = allow_check(ctx, w, &run.nonce_s, amount, &cx, &run.d, Some(false), "other-context");
    let _ = allow_check(ctx, w2, &run.nonce_s, amount, &s.a.ctx_bytes, &run.d, Some(false), "other-merchant");
    // ---- every non-response atom altered: the challenge must change (C12) and the proof is refused
    let flat = run.d.flat();
    let resp: Vec<usize> = {
        let mut r: Vec<usize> = vec![6, 7, 8, 9, 10, 11, 14, 15, 18, 19, 20, 21, 22, 23, 26, 27, 28, 29, 30, 31];
        for j in 0..18 { r.push(32 + 6 * j + 4); r.push(32 + 6 * j + 5); }
        r
    };
    let positions: Vec<usize> = if ctx.thorough() { (0..140).collect() } else { (0..140).filter(|i| *i < 16 || i % 9 == idx % 9).collect() };
    for i in positions {
        let mut f2 = flat.clone();
        f2[i] += Scalar::one();
        if f2[i] == Scalar::zero() { continue; }
        let d2 = PayD::from_flat(&f2).unwrap();
        let is_resp = resp.contains(&i);
        if let Some(o) = allow_check(ctx, w, &run.nonce_s, amount, &s.a.ctx_bytes, &d2, Some(false), if is_resp { "response-atom-altered" } else { "first-message-atom-altered" }) {
            let changed = o.challenge != base;
            ctx.count(&format!("pay-atom:{}:{}", if is_resp { "response" } else { "non-response" }, if changed { "challenge-changed" } else { "challenge-unchanged" }));
            if !is_resp && !changed {
                ctx.violation(&format!("altering non-response atom {} of a pay proof leaves the merchant's challenge unchanged", i), json!({"class": "pay-field-not-bound", "atom": i}));
            }
        }
    }
    // ---- attacker-assembled proofs: one relation violated, all Schnorr equations valid under the merchant's challenge
    let rb = wire::ser(&spare);
    let tok = match (book.dlog_g1_bytes(&rb[145..193]), book.dlog_g1_bytes(&rb[193..241])) { (Some(x), Some(y)) => (x, y), _ => return };
    let old = run.old_ms.clone();
    let new = run.new_ms.clone();
    let (ncb, nmb) = ((s.cb as i128 - amount as i128) as u64, (s.mb as i128 + amount as i128) as u64);
    let amt_s = scalar_of_i64(amount);
    // ---- two same-role elements of two digit proofs moved by +D and -D *before* the challenge is derived, responses
    // honest for that challenge: each of the two digit proofs is wrong on its own, but every unweighted aggregate of the
    // eighteen pairing equations (and of the Schnorr equations, for the commitment roles) is unchanged — must be refused
    {
        let per_role = if ctx.thorough() { 12 } else { 2 };
        for role in 0..4usize {
            for _ in 0..per_role {
                let f = PayForge::honest(ctx, &old, &new, tok, ncb, nmb);
                let (a, mut b) = (ctx.prng.gen_range(0..18usize), ctx.prng.gen_range(0..18usize));
                if a == b { b = (a + 1) % 18; }
                let dlt = nonzero(&mut ctx.prng);
                let tweak = |d: &mut PayD| -> bool {
                    for (k, sg) in [(a, Scalar::one()), (b, -Scalar::one())] {
                        let p = if k < 9 { &mut d.cbr[k] } else { &mut d.mbr[k - 9] };
                        match role { 0 => p.s1 += sg * dlt, 1 => p.s2 += sg * dlt, 2 => p.cp.c += sg * dlt, _ => p.cp.t += sg * dlt }
                        if p.s1 == Scalar::zero() { return false; }
                    }
                    true
                };
                let mut draft = match f.atoms(ctx, w, &Scalar::zero()) { Some(d) => d, None => return };
                if !tweak(&mut draft) { continue; }
                let c1 = match allow_check(ctx, w, &old[1], amount, &s.a.ctx_bytes, &draft, None, "draft") { Some(o) => o.challenge, None => return };
                let mut d = match f.atoms(ctx, w, &c1) { Some(d) => d, None => return };
                if !tweak(&mut d) { continue; }
                let _ = allow_check(ctx, w, &old[1], amount, &s.a.ctx_bytes, &d, Some(false), &format!("compensating-pair-of-digit-{}", ["sigma1", "sigma2", "commitments", "scalar-commitments"][role]));
            }
        }
    }
    // ---- aliasing inside the proof: digit proof b shows a byte-copy of the blinded signature of digit proof a (fixed
    // before the challenge is derived; everything else honest).  Digit b's pairing equation then fails; a verifier that
    // identifies a digit proof by its signature, caches or de-duplicates would skip it
    {
        let n_alias = if ctx.thorough() { 12 } else { 3 };
        for t in 0..n_alias {
            let f = PayForge::honest(ctx, &old, &new, tok, ncb, nmb);
            let (a, mut b) = (ctx.prng.gen_range(0..18usize), ctx.prng.gen_range(0..18usize));
            if t == 0 { b = 8; } // the most significant customer digit copies another one
            if a == b { b = (a + 1) % 18; }
            let tweak = |d: &mut PayD| {
                let (s1, s2) = { let p = if a < 9 { &d.cbr[a] } else { &d.mbr[a - 9] }; (p.s1, p.s2) };
                let p = if b < 9 { &mut d.cbr[b] } else { &mut d.mbr[b - 9] };
                p.s1 = s1; p.s2 = s2;
            };
            let mut draft = match f.atoms(ctx, w, &Scalar::zero()) { Some(d) => d, None => return };
            tweak(&mut draft);
            let c1 = match allow_check(ctx, w, &old[1], amount, &s.a.ctx_bytes, &draft, None, "draft") { Some(o) => o.challenge, None => return };
            let mut d = match f.atoms(ctx, w, &c1) { Some(d) => d, None => return };
            tweak(&mut d);
            let _ = allow_check(ctx, w, &old[1], amount, &s.a.ctx_bytes, &d, Some(false), "digit-signature-copied-from-another-digit");
        }
    }
    let rels: Vec<&str> = vec!["all-relations-hold", "state-channel-id", "close-state-channel-id", "close-tag", "old-revocation-lock", "new-revocation-locks-differ",
        "claimed-nonce", "customer-balance-state-vs-close", "merchant-balance-state-vs-close", "customer-balance-update", "merchant-balance-update",
        "customer-range-link", "merchant-range-link", "customer-digit-signature", "token-tampered", "token-other-message", "customer-balance-negative", "merchant-balance-too-large", "customer-balance-too-large", "merchant-balance-negative",
        "new-states-on-another-channel", "balances-shifted-with-constant-total", "new-lock-equals-old-lock-everywhere", "close-tag-slot-swapped-with-nonce"];
    let pick: Vec<usize> = if ctx.thorough() { (0..rels.len()).collect() } else { (0..rels.len()).filter(|r| *r == 0 || r % 3 == idx % 3).collect() };
    for r in pick {
        let mut f = PayForge::honest(ctx, &old, &new, tok, ncb, nmb);
        let mut nonce = old[1];
        match rels[r] {
            "state-channel-id" => f.ms_s[0] += Scalar::one(),
            "close-state-channel-id" => { f.ms_c[0] += Scalar::one(); }
            // both new messages consistently on another channel id: only the comparison with the token's id fails
            "new-states-on-another-channel" => { let d = nonzero(&mut ctx.prng); f.ms_s[0] += d; f.ms_c[0] += d; }
            // both balance updates off by +1 / -1 (total conserved), range constraints consistent with the shifted values
            "balances-shifted-with-constant-total" => {
                if ncb < i64::MAX as u64 && nmb > 0 {
                    let g = PayForge::honest(ctx, &old, &new, tok, ncb + 1, nmb - 1);
                    f.cb = g.cb; f.mb = g.mb;
                    f.ts_tok[3] = g.ts_tok[3]; f.ts_s[3] = g.ts_s[3]; f.ts_c[3] = g.ts_c[3];
                    f.ts_tok[4] = g.ts_tok[4]; f.ts_s[4] = g.ts_s[4]; f.ts_c[4] = g.ts_c[4];
                    f.ms_s[3] += Scalar::one(); f.ms_c[3] += Scalar::one(); f.ms_s[4] -= Scalar::one(); f.ms_c[4] -= Scalar::one();
                } else { continue; }
            }
            // the new state re-uses the old revocation lock (in both new messages): every equality holds, but the
            // old lock is about to be revealed — the statement asks for a lock shared by state and close state only,
            // so this assembly is VALID for the verifier (no freshness check exists on the merchant side) — skipped
            "new-lock-equals-old-lock-everywhere" => { continue; }
            // close tag in the state's nonce slot and vice versa
            "close-tag-slot-swapped-with-nonce" => { let n = f.ms_s[1]; f.ms_s[1] = f.ms_c[1]; f.ms_c[1] = n; }
            "close-tag" => f.ms_c[1] = rand_scalar(&mut ctx.prng),
            "old-revocation-lock" => f.rl_m += Scalar::one(),
            "new-revocation-locks-differ" => f.ms_c[2] += Scalar::one(),
            "claimed-nonce" => nonce = perturb(&mut ctx.prng, &old[1]),
            "customer-balance-state-vs-close" => f.ms_c[3] += Scalar::one(),
            "merchant-balance-state-vs-close" => f.ms_c[4] -= Scalar::one(),
            "customer-balance-update" => {
                // new customer balance one more than old - amount, with a consistent range constraint
                if ncb < i64::MAX as u64 {
                    let g = PayForge::honest(ctx, &old, &new, tok, ncb + 1, nmb);
                    f.cb = g.cb; f.ts_tok[3] = g.ts_tok[3]; f.ts_s[3] = g.ts_s[3]; f.ts_c[3] = g.ts_c[3];
                    f.ms_s[3] += Scalar::one(); f.ms_c[3] += Scalar::one();
                } else { continue; }
            }
            "merchant-balance-update" => {
                if nmb > 0 {
                    let g = PayForge::honest(ctx, &old, &new, tok, ncb, nmb - 1);
                    f.mb = g.mb; f.ts_tok[4] = g.ts_tok[4]; f.ts_s[4] = g.ts_s[4]; f.ts_c[4] = g.ts_c[4];
                    f.ms_s[4] -= Scalar::one(); f.ms_c[4] -= Scalar::one();
                } else { continue; }
            }
            "customer-range-link" => { f.cb[0].t += Scalar::one(); }
            "merchant-range-link" => { let j = ctx.prng.gen_range(0..9); f.mb[j].d += Scalar::one(); f.mb[j].sig = (f.mb[j].sig + 1) % 128; if f.mb[j].d == Scalar::from(128u64) { continue; } }
            "customer-digit-signature" => { let j = ctx.prng.gen_range(0..9); f.cb[j].sig = (f.cb[j].sig + 1 + ctx.prng.gen_range(0..126)) % 128; }
            "token-tampered" => f.tok.1 += Scalar::one(),
            "token-other-message" => f.old[3] += Scalar::one(),
            "customer-balance-negative" => {
                // old customer balance - amount' < 0 for amount' = cb + 1: the new balance is -1 in the field; the
                // attacker links a range constraint for 0 and hopes the link is not checked
                f.ms_s[3] = -Scalar::one(); f.ms_c[3] = -Scalar::one();
                f.old[3] = f.ms_s[3] + amt_s;
                let g = PayForge::honest(ctx, &old, &new, tok, 0, nmb);
                f.cb = g.cb; f.ts_tok[3] = g.ts_tok[3]; f.ts_s[3] = g.ts_s[3]; f.ts_c[3] = g.ts_c[3];
            }
            "merchant-balance-too-large" => {
                // digits beyond 127 are needed for a value >= 2^63: claim digit 128 in the top position with the signature for 127
                let g = PayForge::honest(ctx, &old, &new, tok, ncb, i64::MAX as u64);
                f.mb = g.mb; f.mb[8].d = Scalar::from(128u64);
                f.ts_tok[4] = g.ts_tok[4]; f.ts_s[4] = g.ts_s[4]; f.ts_c[4] = g.ts_c[4];
                let v = Scalar::from(i64::MAX as u64) + Scalar::from(1u64 << 56);
                f.ms_s[4] = v; f.ms_c[4] = v; f.old[4] = v - amt_s;
            }
            "customer-balance-too-large" => {
                let g = PayForge::honest(ctx, &old, &new, tok, i64::MAX as u64, nmb);
                f.cb = g.cb; f.cb[8].d = Scalar::from(128u64);
                f.ts_tok[3] = g.ts_tok[3]; f.ts_s[3] = g.ts_s[3]; f.ts_c[3] = g.ts_c[3];
                let v = Scalar::from(i64::MAX as u64) + Scalar::from(1u64 << 56);
                f.ms_s[3] = v; f.ms_c[3] = v; f.old[3] = v + amt_s;
            }
            "merchant-balance-negative" => {
                f.ms_s[4] = -Scalar::one(); f.ms_c[4] = -Scalar::one();
                f.old[4] = f.ms_s[4] - amt_s;
                let g = PayForge::honest(ctx, &old, &new, tok, ncb, 0);
                f.mb = g.mb; f.ts_tok[4] = g.ts_tok[4]; f.ts_s[4] = g.ts_s[4]; f.ts_c[4] = g.ts_c[4];
            }
            _ => {}
        }
        let draft = match f.atoms(ctx, w, &Scalar::zero()) { Some(d) => d, None => { ctx.broken("model sub-provers did not answer"); return; } };
        let c1 = match allow_check(ctx, w, &nonce, amount, &s.a.ctx_bytes, &draft, None, "draft") { Some(o) => o.challenge, None => return };
        let d = match f.atoms(ctx, w, &c1) { Some(d) => d, None => return };
        // signatures on a message other than the token's are not valid signatures: expected refusals;
        // the all-valid assembly must be accepted
        let expect = r == 0;
        let _ = allow_check(ctx, w, &nonce, amount, &s.a.ctx_bytes, &d, Some(expect), &if r == 0 { "assembled-valid".to_string() } else { format!("violates-{}", rels[r]) });
        if r == 0 {
            // blinding-factor responses of two sub-proofs in G1 (revocation lock, state, close state) moved by
            // (w·D, -D) for weights the prover can compute from the challenge — see C01
            {
                let cinv = c1.invert().unwrap_or(Scalar::one());
                for (x, y) in [(0usize, 1usize), (0, 2), (1, 2), (2, 1)] {
                    let w8 = [Scalar::one(), c1, c1 * c1, cinv][ctx.prng.gen_range(0..4)];
                    let dl = nonzero(&mut ctx.prng);
                    let mut d2 = d.clone();
                    { let p = match x { 0 => &mut d2.rl, 1 => &mut d2.st, _ => &mut d2.cl }; p.zbf += w8 * dl; }
                    { let p = match y { 0 => &mut d2.rl, 1 => &mut d2.st, _ => &mut d2.cl }; p.zbf -= dl; }
                    let _ = allow_check(ctx, w, &nonce, amount, &s.a.ctx_bytes, &d2, Some(false), "challenge-weighted-compensating-responses");
                }
            }
            for (k, name) in ["token-proof", "revocation-lock-proof", "state-proof", "close-state-proof"].iter().enumerate() {
                let mut d2 = d.clone();
                match k { 0 => d2.tok.cp.zbf += Scalar::one(), 1 => d2.rl.zbf += Scalar::one(), 2 => d2.st.zbf += Scalar::one(), _ => d2.cl.zbf += Scalar::one() }
                let _ = allow_check(ctx, w, &nonce, amount, &s.a.ctx_bytes, &d2, Some(false), &format!("violates-schnorr-{}", name));
            }
        }
    }
    // ---- adaptive prover: revealed commitment scalars chosen after the challenge
    for which in 0..2 {
        let mut f = PayForge::honest(ctx, &old, &new, tok, ncb, nmb);
        let claimed = if which == 0 { perturb(&mut ctx.prng, &old[1]) } else { old[1] };
        if which == 1 {
            f.ms_c[1] = rand_scalar(&mut ctx.prng); // a nonce-like value in the close-tag slot
        }
        let draft = match f.atoms(ctx, w, &Scalar::zero()) { Some(d) => d, None => return };
        let c1 = match allow_check(ctx, w, &claimed, amount, &s.a.ctx_bytes, &draft, None, "draft") { Some(o) => o.challenge, None => return };
        let mut d = match f.atoms(ctx, w, &c1) { Some(d) => d, None => return };
        d.kn = d.tok.cp.zs[1] - c1 * claimed;
        d.kc = d.cl.zs[1] - c1 * CLOSE_SCALAR;
        let what = if which == 0 { "post-challenge-nonce-scalar" } else { "post-challenge-close-tag-scalar" };
        let _ = allow_check(ctx, w, &claimed, amount, &s.a.ctx_bytes, &d, Some(false), what);
    }
    // ---- simulated sub-proofs (scalar commitments chosen after the challenge)
    {
        let f = PayForge::honest(ctx, &old, &new, tok, ncb, nmb);
        let draft = match f.atoms(ctx, w, &Scalar::zero()) { Some(d) => d, None => return };
        let c1 = match allow_check(ctx, w, &old[1], amount, &s.a.ctx_bytes, &draft, None, "draft") { Some(o) => o.challenge, None => return };
        let mut d = match f.atoms(ctx, w, &c1) { Some(d) => d, None => return };
        // keep responses, move the state commitment to another opening and recompute T from the challenge
        let y = &w.kpd.pk.y1s;
        let com = |zbf: &Scalar, zs: &[Scalar]| -> Scalar { let mut t = w.kpd.pk.g1 * zbf; for (g, z) in y.iter().zip(zs) { t += g * z; } t };
        d.st.c += w.kpd.pk.y1s[3];
        d.st.t = com(&d.st.zbf, &d.st.zs) - c1 * d.st.c;
        let _ = allow_check(ctx, w, &old[1], amount, &s.a.ctx_bytes, &d, Some(false), "post-challenge-scalar-commitment");
    }
    let _ = (Field::is_zero(&Scalar::zero()), spare);
}

/// Witness-deviation sweep for pay proofs (see C01): 32 coordinates — the token's message, the new state and close-state
/// messages, the three vectors of commitment scalars, the revocation-lock message and its commitment scalar — moved in
/// pairs by (δ, δ) and (δ, -δ); all Schnorr equations hold for the deviated witness, the verifier's fifteen relations
/// decide, and the real verdict must be the model's.  quick: a quarter of the pairs (rotating with the seed).
fn sweep_case(ctx: &mut Ctx, idx: usize, w: &World) {
    if !ctx.begin_case(idx, "pay-witness-deviation-sweep") {
        return;
    }
    let book = ctx.book.clone();
    let a = Agreed::random(ctx);
    let mut s = match open_session(ctx, w, &a) { Some(s) => s, None => return };
    let amount = valid_amount(ctx, s.cb, s.mb);
    let ready = match s.ready.take() { Some(r) => r, None => return };
    let rb = wire::ser(&ready);
    let tok = match (book.dlog_g1_bytes(&rb[145..193]), book.dlog_g1_bytes(&rb[193..241])) { (Some(x), Some(y)) => (x, y), _ => return };
    let run = match pay_start(ctx, w, &a, ready, amount) { StartOutcome::Started(r) => *r, _ => return };
    let (old, new) = (run.old_ms.clone(), run.new_ms.clone());
    let (ncb, nmb) = ((s.cb as i128 - amount as i128) as u64, (s.mb as i128 + amount as i128) as u64);
    let coord = |f: &mut PayForge, k: usize, d: Scalar| {
        match k / 5 { 0 => f.old[k % 5] += d, 1 => f.ms_s[k % 5] += d, 2 => f.ms_c[k % 5] += d, 3 => f.ts_tok[k % 5] += d, 4 => f.ts_s[k % 5] += d, 5 => f.ts_c[k % 5] += d, _ => if k == 30 { f.rl_m += d } else { f.rl_t += d } }
    };
    let quarter = (ctx.seed as usize) % 4;
    let mut p = 0usize;
    for i in 0..32 {
        for j in i + 1..32 {
            for wgt in deviation_weights() {
                p += 1;
                if p % ctx.nshards != ctx.shard { continue; }
                if !ctx.thorough() && (p / ctx.nshards) % 4 != quarter { continue; }
                let mut f = PayForge::honest(ctx, &old, &new, tok, ncb, nmb);
                let d = Scalar::from(1 + ctx.prng.gen_range(0..1000u64));
                coord(&mut f, i, d);
                coord(&mut f, j, wgt * d);
                let draft = match f.atoms(ctx, w, &Scalar::zero()) { Some(d) => d, None => return };
                let c1 = match allow_check(ctx, w, &old[1], amount, &a.ctx_bytes, &draft, None, "draft") { Some(o) => o.challenge, None => return };
                let dd = match f.atoms(ctx, w, &c1) { Some(d) => d, None => return };
                let _ = allow_check(ctx, w, &old[1], amount, &a.ctx_bytes, &dd, None, "witness-deviation-pair");
            }
        }
    }
}

pub fn run(ctx: &mut Ctx) {
    // the digits that carry a signature under a freshly generated range key (hypothesis of pay_balances_in_range)
    if ctx.shard == 0 && ctx.begin_case(0, "generated-range-parameters") {
        let mut rng = crate::rng::ScriptedRng::new(ctx.prng.gen(), ctx.book.clone());
        let rp = zkabacus_crypto::RangeConstraintParameters::new(&mut rng);
        let _ = crate::rangelab::published_digits_audit(ctx, &wire::ser(&rp));
    }
    let w = match world(ctx, ctx.shard % 4 == 1) { Some(w) => w, None => return };
    let w2 = match world(ctx, false) { Some(w) => w, None => return };
    let n = if ctx.thorough() { 6 * ctx.nshards } else { ctx.nshards };
    for idx in 0..n {
        one_case(ctx, idx, &w, &w2);
    }
    sweep_case(ctx, 4096 * ctx.nshards + ctx.shard, &w);
}
