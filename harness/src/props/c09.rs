//! C09 — commitments are the exact Pedersen map and open only to what was committed.
use crate::dl::{hex_list, hex_s, Book};
use crate::gen::*;
use crate::report::{Ctx, Real};
use crate::rng::ScriptedRng;
use crate::wire;
use bls12_381::{G1Projective, G2Projective, Scalar};
use ff::Field;
use group::{Curve, Group};
use rand::Rng;
use serde_json::json;
use zkchannels_crypto::pedersen::{Commitment, PedersenParameters};

/// Group-generic view used by the Pedersen cases.
pub trait HG: Group<Scalar = Scalar> + zkchannels_crypto::SerializeElement + Copy {
    const NAME: &'static str;
    const LEN: usize;
    fn mat(book: &Book, d: &Scalar) -> Self;
    fn real(&self) -> Real;
    fn dlog_bytes(book: &Book, b: &[u8]) -> Option<Scalar>;
    fn commitment(&self) -> Commitment<Self>;
    fn real_bytes(b: &[u8]) -> Option<Real>;
    fn enc(book: &Book, d: &Scalar) -> Vec<u8>;
    fn real_bytes_pub(b: &[u8]) -> Option<Real> { Self::real_bytes(b) }
}
impl HG for G1Projective {
    const NAME: &'static str = "G1";
    const LEN: usize = 48;
    fn mat(book: &Book, d: &Scalar) -> Self { book.g1(*d) }
    fn real(&self) -> Real { Real::G1(self.to_affine()) }
    fn dlog_bytes(book: &Book, b: &[u8]) -> Option<Scalar> { book.dlog_g1_bytes(b) }
    fn commitment(&self) -> Commitment<Self> { wire::commitment_g1(&self.to_affine()) }
    fn real_bytes(b: &[u8]) -> Option<Real> {
        if b.len() != 48 { return None; }
        let mut a = [0u8; 48];
        a.copy_from_slice(b);
        Option::<bls12_381::G1Affine>::from(bls12_381::G1Affine::from_compressed(&a)).map(Real::G1)
    }
    fn enc(book: &Book, d: &Scalar) -> Vec<u8> { wire::enc_g1(book, d) }
}
impl HG for G2Projective {
    const NAME: &'static str = "G2";
    const LEN: usize = 96;
    fn mat(book: &Book, d: &Scalar) -> Self { book.g2(*d) }
    fn real(&self) -> Real { Real::G2(self.to_affine()) }
    fn dlog_bytes(book: &Book, b: &[u8]) -> Option<Scalar> { book.dlog_g2_bytes(b) }
    fn commitment(&self) -> Commitment<Self> { wire::commitment_g2(&self.to_affine()) }
    fn real_bytes(b: &[u8]) -> Option<Real> {
        if b.len() != 96 { return None; }
        let mut a = [0u8; 96];
        a.copy_from_slice(b);
        Option::<bls12_381::G2Affine>::from(bls12_381::G2Affine::from_compressed(&a)).map(Real::G2)
    }
    fn enc(book: &Book, d: &Scalar) -> Vec<u8> { wire::enc_g2(book, d) }
}

pub fn params_from<G: HG, const N: usize>(book: &Book, h: &Scalar, gs: &[Scalar]) -> PedersenParameters<G, N> {
    let mut a = [G::identity(); N];
    for (x, d) in a.iter_mut().zip(gs) {
        *x = G::mat(book, d);
    }
    PedersenParameters::from_generators(G::mat(book, h), a)
}

/// dlogs of real parameters (every generator must be in the book)
pub fn params_dlogs<G: HG, const N: usize>(book: &Book, pp: &PedersenParameters<G, N>) -> Option<(Scalar, Vec<Scalar>)> {
    let b = wire::ser(pp);
    let h = G::dlog_bytes(book, &b[..G::LEN])?;
    let mut gs = vec![];
    let mut o = G::LEN + 8;
    for _ in 0..N {
        gs.push(G::dlog_bytes(book, &b[o..o + G::LEN])?);
        o += G::LEN;
    }
    Some((h, gs))
}

fn one_case<G: HG, const N: usize>(ctx: &mut Ctx, idx: usize) {
    if !ctx.begin_case(idx, &format!("ped-{}-N{}", G::NAME, N)) {
        return;
    }
    let book = ctx.book.clone();
    // parameters: explicit generators (sometimes with an identity generator) or generated
    let generated = ctx.prng.gen_range(0..3) == 0;
    let (pp, h, gs): (PedersenParameters<G, N>, Scalar, Vec<Scalar>) = if generated {
        let mut rng = ScriptedRng::new(ctx.prng.gen(), book.clone());
        let pp = PedersenParameters::<G, N>::new(&mut rng);
        if let Some(d) = rng.desync.clone() {
            ctx.broken(&format!("scripted RNG desync in PedersenParameters::new: {}", d));
            return;
        }
        match params_dlogs(&book, &pp) {
            Some((h, gs)) => (pp, h, gs),
            None => {
                ctx.broken("PedersenParameters::new returned a generator that is not one of the scripted draws");
                return;
            }
        }
    } else {
        let h = if ctx.prng.gen_range(0..8) == 0 { Scalar::zero() } else { nonzero(&mut ctx.prng) };
        let mut gs: Vec<Scalar> = (0..N)
            .map(|_| if ctx.prng.gen_range(0..12) == 0 { Scalar::zero() } else { nonzero(&mut ctx.prng) })
            .collect();
        // parameter sets in which two generators coincide (h = g_i, g_i = g_j) or are negatives of each other:
        // the commitment is still the exact Pedersen map and verify_opening still accepts iff equal
        match ctx.prng.gen_range(0..8) {
            0 => { let i = ctx.prng.gen_range(0..N); gs[i] = h; ctx.count("params:h-equals-a-generator"); }
            1 if N >= 2 => { let (i, j) = (ctx.prng.gen_range(0..N), ctx.prng.gen_range(0..N)); gs[i] = gs[j]; ctx.count("params:two-generators-equal"); }
            2 => { let i = ctx.prng.gen_range(0..N); gs[i] = -h; ctx.count("params:generator-is-minus-h"); }
            _ => {}
        }
        (params_from::<G, N>(&book, &h, &gs), h, gs)
    };
    ctx.count(if generated { "params:generated" } else { "params:explicit" });
    ctx.count(&format!("group:{} N:{}", G::NAME, N));
    let mut ms = edge_vec(&mut ctx.prng, N);
    let mut bf = edge_scalar(&mut ctx.prng);
    // special shapes: all-zero opening; opening whose commitment is the identity (cancellation)
    match idx / 12 % 4 {
        1 => {
            ms = vec![Scalar::zero(); N];
            bf = Scalar::zero();
            ctx.count("shape:all-zero-opening");
        }
        2 if h != Scalar::zero() => {
            let mut acc = Scalar::zero();
            for (g, mi) in gs.iter().zip(ms.iter()) {
                acc += g * mi;
            }
            bf = -acc * h.invert().unwrap();
            ctx.count("shape:identity-commitment");
        }
        _ => ctx.count("shape:generic"),
    }
    let m = wire::msg::<N>(&ms);
    // commit
    let com = m.commit(&pp, wire::bf(&bf));
    let elem = com.to_element();
    let op = format!("commit {} {} {} {}", hex_s(&h), hex_list(&gs), hex_s(&bf), hex_list(&ms));
    let (_, toks) = ctx.expect_toks(&op, &[elem.real()]);
    // independent oracle: naive accumulation
    let mut acc = G::mat(&book, &h) * bf;
    for (g, mi) in gs.iter().zip(ms.iter()) {
        acc = acc + G::mat(&book, g) * mi;
    }
    if acc != elem {
        ctx.violation(
            "commitment differs from the Pedersen map h^r * prod g_i^m_i",
            json!({"group": G::NAME, "N": N, "h": hex_s(&h), "gs": hex_list(&gs), "bf": hex_s(&bf), "ms": hex_list(&ms)}),
        );
    }
    let cd = match toks.get(0) {
        Some(crate::model::Tok::S(d)) => *d,
        _ => return,
    };
    // opening of the original
    let open = |ctx: &mut Ctx, c: &G, cd: &Scalar, bf: &Scalar, ms: &[Scalar], expect: Option<bool>, what: &str| {
        let real = c.commitment().verify_opening(&pp, wire::bf(bf), &wire::msg::<N>(ms));
        let op = format!("open {} {} {} {} {}", hex_s(&h), hex_list(&gs), hex_s(cd), hex_s(bf), hex_list(ms));
        let _ = ctx.expect(&op, &[Real::B(real)]);
        ctx.count(&format!("open:{}:{}", what, real));
        if let Some(e) = expect {
            if real != e {
                ctx.violation(
                    &format!("verify_opening returned {} on {}", real, what),
                    json!({"group": G::NAME, "N": N, "h": hex_s(&h), "gs": hex_list(&gs), "c": hex_s(cd), "bf": hex_s(bf), "ms": hex_list(ms)}),
                );
            }
        }
    };
    open(ctx, &elem, &cd, &bf, &ms, Some(true), "original");
    // single-coordinate perturbations: must be rejected when the generator is not the identity
    // (long tuples: both ends, the neighbourhood of every power of two from 16 on, and a random sample)
    let positions: Vec<usize> = if N <= 40 { (0..N).collect() } else {
        let mut v = vec![0, 1, N - 2, N - 1];
        for b in [16usize, 32, 64, 128] { for d in [b - 1, b, b + 1] { if d < N { v.push(d); } } }
        for _ in 0..6 { v.push(ctx.prng.gen_range(0..N)); }
        v.sort(); v.dedup();
        v
    };
    for i in positions {
        let mut ms2 = ms.clone();
        ms2[i] = perturb(&mut ctx.prng, &ms[i]);
        let exp = if gs[i] != Scalar::zero() { Some(false) } else { Some(true) };
        open(ctx, &elem, &cd, &bf, &ms2, exp, if gs[i] != Scalar::zero() { "coordinate-changed" } else { "coordinate-changed-identity-generator" });
    }
    let bf2 = perturb(&mut ctx.prng, &bf);
    open(ctx, &elem, &cd, &bf2, &ms, if h != Scalar::zero() { Some(false) } else { Some(true) }, if h != Scalar::zero() { "bf-changed" } else { "bf-changed-identity-h" });
    // a different commitment value
    let cd2 = perturb(&mut ctx.prng, &cd);
    open(ctx, &G::mat(&book, &cd2), &cd2, &bf, &ms, Some(false), "commitment-changed");
    // homomorphism: sum of two commitments opens to the sums
    let ms_b = edge_vec(&mut ctx.prng, N);
    let bf_b = edge_scalar(&mut ctx.prng);
    let com_b = wire::msg::<N>(&ms_b).commit(&pp, wire::bf(&bf_b)).to_element();
    let op = format!("commit {} {} {} {}", hex_s(&h), hex_list(&gs), hex_s(&bf_b), hex_list(&ms_b));
    let (_, toks) = ctx.expect_toks(&op, &[com_b.real()]);
    if let Some(crate::model::Tok::S(cdb)) = toks.get(0) {
        let sum = elem + com_b;
        let ms_s: Vec<Scalar> = ms.iter().zip(ms_b.iter()).map(|(a, b)| a + b).collect();
        open(ctx, &sum, &(cd + cdb), &(bf + bf_b), &ms_s, Some(true), "homomorphic-sum");
    }
    // neighbour parameter sets: all but one ingredient shared with `pp` (another h; one other g_i; two generators
    // swapped), used back to back with `pp` on this thread.  The commitment and the opening check must depend on the
    // *whole* parameter set: anything keyed on part of it (a table of prepared generators looked up by h, a memo of the
    // last parameter set) shows here — every answer is compared with the model's exact one and with the naive oracle.
    if N <= 17 {
        for variant in 0..3usize {
            let (mut h2, mut gs2) = (h, gs.clone());
            let what = match variant {
                0 => { h2 = nonzero(&mut ctx.prng); "neighbour-params-h" }
                1 => { let i = ctx.prng.gen_range(0..N); gs2[i] = nonzero(&mut ctx.prng); "neighbour-params-g" }
                _ => { if N < 2 { continue; } let i = ctx.prng.gen_range(0..N - 1); gs2.swap(i, i + 1); "neighbour-params-swap" }
            };
            let pp2 = params_from::<G, N>(&book, &h2, &gs2);
            let e2 = wire::msg::<N>(&ms).commit(&pp2, wire::bf(&bf)).to_element();
            let _ = ctx.expect(&format!("commit {} {} {} {}", hex_s(&h2), hex_list(&gs2), hex_s(&bf), hex_list(&ms)), &[e2.real()]);
            let mut acc2 = G::mat(&book, &h2) * bf;
            for (g, mi) in gs2.iter().zip(ms.iter()) { acc2 = acc2 + G::mat(&book, g) * mi; }
            ctx.count(&format!("{}:{}", what, if acc2 == e2 { "pedersen-map" } else { "WRONG" }));
            if acc2 != e2 {
                ctx.violation("commitment under a neighbouring parameter set differs from the Pedersen map h^r * prod g_i^m_i",
                    json!({"class": "neighbour-params-commit", "variant": what, "group": G::NAME, "N": N, "h": hex_s(&h2), "gs": hex_list(&gs2), "bf": hex_s(&bf), "ms": hex_list(&ms), "after-h": hex_s(&h), "after-gs": hex_list(&gs)}));
            }
            // the original commitment opened under the neighbour: accepted iff the two maps agree on this opening
            let real = elem.commitment().verify_opening(&pp2, wire::bf(&bf), &wire::msg::<N>(&ms));
            let _ = ctx.expect(&format!("open {} {} {} {} {}", hex_s(&h2), hex_list(&gs2), hex_s(&cd), hex_s(&bf), hex_list(&ms)), &[Real::B(real)]);
            if real != (acc2 == elem) {
                ctx.violation(&format!("verify_opening under a neighbouring parameter set returned {} although the recomputed commitment is {}", real, if acc2 == elem { "equal" } else { "different" }),
                    json!({"class": "neighbour-params-open", "variant": what, "group": G::NAME, "N": N, "h": hex_s(&h2), "gs": hex_list(&gs2), "c": hex_s(&cd), "bf": hex_s(&bf), "ms": hex_list(&ms)}));
            }
            // … and the original parameter set again
            let e1 = wire::msg::<N>(&ms).commit(&pp, wire::bf(&bf)).to_element();
            if e1 != elem {
                ctx.violation("the commitment under a parameter set changes after a neighbouring parameter set was used", json!({"class": "neighbour-params-commit", "variant": what, "group": G::NAME, "N": N, "h": hex_s(&h), "gs": hex_list(&gs), "bf": hex_s(&bf), "ms": hex_list(&ms)}));
            }
            open(ctx, &elem, &cd, &bf, &ms, Some(true), "original-after-neighbour");
        }
    }
}

macro_rules! for_all_n {
    ($f:ident, $g:ty, $ctx:expr, $idx:expr, $n:expr) => {
        match $n {
            1 => $f::<$g, 1>($ctx, $idx),
            2 => $f::<$g, 2>($ctx, $idx),
            3 => $f::<$g, 3>($ctx, $idx),
            5 => $f::<$g, 5>($ctx, $idx),
            8 => $f::<$g, 8>($ctx, $idx),
            13 => $f::<$g, 13>($ctx, $idx),
            16 => $f::<$g, 16>($ctx, $idx),
            17 => $f::<$g, 17>($ctx, $idx),
            32 => $f::<$g, 32>($ctx, $idx),
            64 => $f::<$g, 64>($ctx, $idx),
            128 => $f::<$g, 128>($ctx, $idx),
            33 => $f::<$g, 33>($ctx, $idx),
            65 => $f::<$g, 65>($ctx, $idx),
            129 => $f::<$g, 129>($ctx, $idx),
            _ => unreachable!(),
        }
    };
}

pub fn run(ctx: &mut Ctx) {
    let reps = if ctx.thorough() { 300 } else { 8 };
    let ns = [1usize, 2, 3, 5, 8, 13, 16, 17, 32, 33, 64, 65, 128, 129];
    let mut idx = 0;
    for rep in 0..reps {
        for &n in ns.iter() {
            for g in 0..2 {
                let _ = rep;
                if g == 0 {
                    for_all_n!(one_case, G1Projective, ctx, idx, n);
                } else {
                    for_all_n!(one_case, G2Projective, ctx, idx, n);
                }
                idx += 1;
            }
        }
    }
}
