//! C06 — an accepted proof is rejected under any other statement, key or context.
use crate::abacus::*;
use crate::gen::*;
use crate::props::c02::valid_amount;
use crate::rangelab::rp_decoded;
use crate::report::Ctx;
use crate::rng::ScriptedRng;
use crate::session::*;
use crate::wire;
use bls12_381::Scalar;
use rand::Rng;
use serde_json::json;
use zkabacus_crypto::customer::{Inactive, Locked, Ready, Requested, Started};
use zkabacus_crypto::{CloseState, CloseStateSignature, Verification};

fn ctx_variants(ctx: &mut Ctx, c: &[u8]) -> Vec<(&'static str, Vec<u8>)> {
    let mut v = vec![];
    if !c.is_empty() {
        let mut x = c.to_vec();
        let i = ctx.prng.gen_range(0..x.len());
        x[i] ^= 1 << ctx.prng.gen_range(0..8);
        v.push(("context-one-byte", x));
        // the two ends: a context read in blocks, or only up to some length, differs there
        let mut x = c.to_vec();
        let l = x.len() - 1;
        x[l] ^= 1 << ctx.prng.gen_range(0..8);
        v.push(("context-last-byte", x));
        let mut x = c.to_vec();
        x[0] ^= 1 << ctx.prng.gen_range(0..8);
        v.push(("context-first-byte", x));
        let mut x = c.to_vec();
        x.pop();
        v.push(("context-truncated", x));
    }
    let mut x = c.to_vec();
    x.push(b'\n');
    v.push(("context-extended", x));
    v.push(("context-is-digest-of-context", sha3_256(c).to_vec()));
    // the concatenated digests of the context's chunks (a two-level hash of a long context must not equal the
    // one-level hash of that short string)
    for chunk in [136usize, 4096, 8192, 65536, 1 << 20] {
        if c.len() > chunk {
            let mut x = vec![];
            for part in c.chunks(chunk) { x.extend(sha3_256(part)); }
            v.push(("context-is-digests-of-chunks", x));
        }
    }
    if c.len() != 0 { v.push(("context-empty", vec![])); }
    v
}

fn establish_case(ctx: &mut Ctx, idx: usize, w: &World, w2: &World) {
    if !ctx.begin_case(idx, "establish-substitution") {
        return;
    }
    let mut a = Agreed::random(ctx);
    if (idx / 4) % 4 == 1 { a = a.with_long_context(ctx); }
    let run = match establish_customer(ctx, w, &a) { Some(r) => r, None => return };
    if initialize_check(ctx, w, &a, &run.d, Some(true), "honest").is_none() { return; }
    let _ = initialize_check(ctx, w2, &a, &run.d, Some(false), "other-merchant-key");
    let other = Agreed::random(ctx);
    let mut a2 = a.clone(); a2.cid = other.cid; a2.cid_s = other.cid_s;
    let _ = initialize_check(ctx, w, &a2, &run.d, Some(false), "other-channel-id");
    for (what, b) in near_cids(&a.cid.to_bytes()) {
        let a2 = a.with_cid(&b);
        let _ = initialize_check(ctx, w, &a2, &run.d, Some(false), &format!("channel-id-{}-flipped", what));
    }
    for (what, d) in [("customer-balance", 0), ("merchant-balance", 1)] {
        for delta in [1i128, -1, 0] {
            let cur = if d == 0 { a.cb } else { a.mb } as i128;
            let v = if delta == 0 { other.cb as i128 } else { cur + delta };
            if v < 0 || v > i64::MAX as i128 || v == cur { continue; }
            let mut a2 = a.clone();
            if d == 0 { a2.cb = v as u64 } else { a2.mb = v as u64 }
            let _ = initialize_check(ctx, w, &a2, &run.d, Some(false), &format!("other-{}", what));
        }
    }
    if a.cb != a.mb {
        let mut a2 = a.clone(); std::mem::swap(&mut a2.cb, &mut a2.mb);
        let _ = initialize_check(ctx, w, &a2, &run.d, Some(false), "balances-swapped");
    }
    for (what, c) in ctx_variants(ctx, &a.ctx_bytes) {
        let mut a2 = a.clone(); a2.ctx_bytes = c;
        let _ = initialize_check(ctx, w, &a2, &run.d, Some(false), what);
    }
}

fn pay_case(ctx: &mut Ctx, idx: usize, w: &World, w2: &World, w_rp: &World, w_rev: &World) {
    if !ctx.begin_case(idx, "pay-substitution") {
        return;
    }
    let mut a = Agreed::random(ctx);
    if (idx / 4) % 4 == 2 { a = a.with_long_context(ctx); }
    let mut s = match open_session(ctx, w, &a) { Some(s) => s, None => return };
    if ctx.prng.gen_range(0..2) == 0 {
        let amt = valid_amount(ctx, s.cb, s.mb);
        if !honest_payment(ctx, &mut s, amt) { return; }
    }
    let amount = valid_amount(ctx, s.cb, s.mb);
    let ready = match s.ready.take() { Some(r) => r, None => return };
    let run = match pay_start(ctx, w, &a, ready, amount) { StartOutcome::Started(r) => *r, _ => return };
    if allow_check(ctx, w, &run.nonce_s, amount, &a.ctx_bytes, &run.d, Some(true), "honest").is_none() { return; }
    let _ = allow_check(ctx, w2, &run.nonce_s, amount, &a.ctx_bytes, &run.d, Some(false), "other-merchant-key");
    let _ = allow_check(ctx, w_rp, &run.nonce_s, amount, &a.ctx_bytes, &run.d, Some(false), "other-range-parameters");
    let _ = allow_check(ctx, w_rev, &run.nonce_s, amount, &a.ctx_bytes, &run.d, Some(false), "other-revocation-parameters");
    // range parameters differing from the original in a single element of a single digit signature
    for (which, what) in [(1usize, "range-parameters-one-sigma2-replaced"), (0usize, "range-parameters-one-sigma1-replaced")] {
        let k = [0usize, 1, 127, ctx.prng.gen_range(0..128)][ctx.prng.gen_range(0..4)];
        let mut rpd2 = w.rpd.clone();
        let r = nonzero(&mut ctx.prng);
        if which == 1 { rpd2.sigs[k].1 += r } else { rpd2.sigs[k].0 += r }
        if which == 0 && rpd2.sigs[k].0 == Scalar::zero() { continue; }
        if let Some(w3) = world_from(ctx, &w.kpd, w.rev_h, w.rev_g, &rpd2) {
            let _ = allow_check(ctx, &w3, &run.nonce_s, amount, &a.ctx_bytes, &run.d, Some(false), what);
        }
    }
    // the merchant key with a single element replaced (same secret key otherwise)
    {
        let mut kpd2 = w.kpd.clone();
        let j = ctx.prng.gen_range(0..5);
        if ctx.prng.gen_range(0..2) == 0 { kpd2.pk.y2s[j] += Scalar::one(); } else { kpd2.pk.y1s[j] += Scalar::one(); }
        if let Some(w3) = world_from(ctx, &kpd2, w.rev_h, w.rev_g, &w.rpd) {
            let _ = allow_check(ctx, &w3, &run.nonce_s, amount, &a.ctx_bytes, &run.d, Some(false), "merchant-key-one-element-replaced");
        }
    }
    let n2 = rand_scalar(&mut ctx.prng);
    let _ = allow_check(ctx, w, &n2, amount, &a.ctx_bytes, &run.d, Some(false), "other-nonce");
    let _ = allow_check(ctx, w, &(run.nonce_s + Scalar::one()), amount, &a.ctx_bytes, &run.d, Some(false), "other-nonce");
    for da in [1i64, -1] {
        if let Some(a2) = amount.checked_add(da) {
            let _ = allow_check(ctx, w, &run.nonce_s, a2, &a.ctx_bytes, &run.d, Some(false), "other-amount");
        }
    }
    let fresh: i64 = ctx.prng.gen::<i64>() >> ctx.prng.gen_range(0..60);
    if fresh != amount {
        let _ = allow_check(ctx, w, &run.nonce_s, fresh, &a.ctx_bytes, &run.d, Some(false), "other-amount");
    }
    for (what, c) in ctx_variants(ctx, &a.ctx_bytes) {
        let _ = allow_check(ctx, w, &run.nonce_s, amount, &c, &run.d, Some(false), what);
    }
}

fn ser_eq<T: serde::Serialize>(a: &T, b: &[u8]) -> bool { wire::ser(a) == b }

/// messages recorded in session A presented in session B (other channel / other merchant)
fn replay_case(ctx: &mut Ctx, idx: usize, w: &World, w2: &World) {
    if !ctx.begin_case(idx, "session-replay") {
        return;
    }
    let book = ctx.book.clone();
    for (src_world, what) in [(w, "other-channel"), (w2, "other-merchant")] {
        // session A: collect one of each merchant message
        let aa = Agreed::random(ctx);
        let run_a = match establish_customer(ctx, src_world, &aa) { Some(r) => r, None => return };
        let out = match initialize_check(ctx, src_world, &aa, &run_a.d, Some(true), "honest") { Some(o) => o, None => return };
        let (closing_a, vbs_a) = match out.accepted { Some(x) => x, None => return };
        let closing_a_bytes = wire::ser(&closing_a);
        let mut rng = ScriptedRng::new(ctx.prng.gen(), book.clone());
        let token_a = src_world.merchant.activate(&mut rng, vbs_a);
        let token_a_bytes = wire::ser(&token_a);
        // session B on world w
        let ab = Agreed::random(ctx);
        let run_b = match establish_customer(ctx, w, &ab) { Some(r) => r, None => return };
        let req_bytes = wire::ser(&run_b.requested);
        // B.complete(closing signature of A) must be refused, state unchanged
        match run_b.requested.complete(wire::de(&closing_a_bytes).unwrap(), &w.customer) {
            Ok(_) => { ctx.count(&format!("replay:{}:closing-signature-at-complete:ACCEPTED", what)); ctx.violation("a closing signature recorded in another session was accepted by Requested::complete", json!({"class": "replayed-closing-signature-accepted", "source": what})); return; }
            Err(r) => {
                ctx.count(&format!("replay:{}:closing-signature-at-complete:refused", what));
                if !ser_eq(&r, &req_bytes) { ctx.violation("a refused reply changed the customer state", json!({"class": "refused-reply-changed-state", "stage": "requested"})); }
                // continue B honestly
                let out = match initialize_check(ctx, w, &ab, &run_b.d, Some(true), "honest") { Some(o) => o, None => return };
                let (closing_b, vbs_b) = match out.accepted { Some(x) => x, None => return };
                let inactive: Inactive = match r.complete(closing_b, &w.customer) { Ok(i) => i, Err(_) => { ctx.violation("honest closing signature refused after a refused replay", json!({"class": "honest-complete-refused"})); return; } };
                let ib = wire::ser(&inactive);
                match inactive.activate(wire::de(&token_a_bytes).unwrap(), &w.customer) {
                    Ok(_) => { ctx.count(&format!("replay:{}:pay-token-at-activate:ACCEPTED", what)); ctx.violation("a pay token recorded in another session was accepted by Inactive::activate", json!({"class": "replayed-pay-token-accepted", "source": what})); return; }
                    Err(i) => {
                        ctx.count(&format!("replay:{}:pay-token-at-activate:refused", what));
                        if !ser_eq(&i, &ib) { ctx.violation("a refused reply changed the customer state", json!({"class": "refused-reply-changed-state", "stage": "inactive"})); }
                        // the closing signature (wrong message type) as pay token
                        match i.activate(wire::de(&closing_a_bytes).unwrap(), &w.customer) {
                            Ok(_) => { ctx.violation("a closing signature was accepted as pay token", json!({"class": "closing-signature-accepted-as-pay-token"})); return; }
                            Err(i) => {
                                ctx.count(&format!("replay:{}:closing-signature-at-activate:refused", what));
                                let mut rng = ScriptedRng::new(ctx.prng.gen(), book.clone());
                                let token_b = w.merchant.activate(&mut rng, vbs_b);
                                if i.activate(token_b, &w.customer).is_err() { ctx.violation("honest pay token refused after refused replays", json!({"class": "honest-activate-refused"})); }
                            }
                        }
                    }
                }
            }
        }
    }
}

/// closing messages from every stage with one field replaced by a value from another state / channel
fn closing_case(ctx: &mut Ctx, idx: usize, w: &World, w2: &World) {
    if !ctx.begin_case(idx, "closing-message-substitution") {
        return;
    }
    let book = ctx.book.clone();
    let a = Agreed::random(ctx);
    let other = Agreed::random(ctx);
    let run = match establish_customer(ctx, w, &a) { Some(r) => r, None => return };
    let out = match initialize_check(ctx, w, &a, &run.d, Some(true), "honest") { Some(o) => o, None => return };
    let (closing, vbs) = match out.accepted { Some(x) => x, None => return };
    let inactive = match run.requested.complete(closing, &w.customer) { Ok(i) => i, Err(_) => return };
    let mut messages: Vec<(&str, Vec<u8>)> = vec![];
    let clone_inactive: Inactive = wire::de(&wire::ser(&inactive)).unwrap();
    let mut rng = ScriptedRng::new(ctx.prng.gen(), book.clone());
    messages.push(("inactive", wire::ser(&clone_inactive.close(&mut rng))));
    let _ = vbs;
    let a = Agreed::random(ctx);
    let mut sess = match open_session(ctx, w, &a) { Some(s) => s, None => return };
    let ready: Ready = match sess.ready.take() { Some(r) => r, None => return };
    let clone_ready: Ready = wire::de(&wire::ser(&ready)).unwrap();
    messages.push(("ready", wire::ser(&clone_ready.close(&mut rng))));
    let (cb, mb) = (a.cb, a.mb);
    let amount = valid_amount(ctx, cb, mb);
    if let StartOutcome::Started(r) = pay_start(ctx, w, &a, ready, amount) {
        let run = *r;
        let clone_started: Started = wire::de(&wire::ser(&run.started)).unwrap();
        messages.push(("started", wire::ser(&clone_started.close(&mut rng))));
        if let Some(o) = allow_check(ctx, w, &run.nonce_s, amount, &a.ctx_bytes, &run.d, Some(true), "honest") {
            if let Some((_un, closing)) = o.accepted {
                if let Ok((locked, _lm)) = run.started.lock(closing, &w.customer) {
                    let clone_locked: Locked = wire::de(&wire::ser(&locked)).unwrap();
                    messages.push(("locked", wire::ser(&clone_locked.close(&mut rng))));
                }
            }
        }
    }
    // ClosingMessage = signature 96 | cid 32 | lock 32 | mb 8 | cb 8
    let locks: Vec<Vec<u8>> = messages.iter().map(|(_, m)| m[128..160].to_vec()).collect();
    for (stage, m) in messages.iter() {
        let check = |cs_bytes: &[u8]| -> bool {
            let sig: CloseStateSignature = wire::de(&m[..96]).unwrap();
            match wire::de::<CloseState>(cs_bytes) { Ok(cs) => matches!(w.merchant.check_close_signature(sig, &cs), Verification::Verified), Err(_) => false }
        };
        let ok = check(&m[96..176]);
        ctx.evals += 1;
        ctx.count(&format!("close-check:{}:unaltered:{}", stage, ok));
        if !ok {
            ctx.violation(&format!("the merchant's close check rejects the closing message of stage {}", stage), json!({"class": "honest-close-rejected", "stage": stage}));
            continue;
        }
        // the unaltered message under another merchant's close check (on the same thread, after this merchant's check)
        {
            let sig: CloseStateSignature = wire::de(&m[..96]).unwrap();
            let cs: CloseState = wire::de(&m[96..176]).unwrap();
            let other_ok = matches!(w2.merchant.check_close_signature(sig, &cs), Verification::Verified);
            ctx.evals += 1;
            ctx.count(&format!("close-check:{}:other-merchant:{}", stage, other_ok));
            if other_ok {
                ctx.violation(&format!("another merchant's close check accepts the closing message ({}) of this merchant's channel", stage), json!({"class": "close-check-accepts-other-merchant", "stage": stage, "message": hex::encode(m)}));
            }
        }
        let mut alts: Vec<(&str, Vec<u8>)> = vec![];
        let base = m[96..176].to_vec();
        let mut x = base.clone(); x[..32].copy_from_slice(&other.cid.to_bytes()); alts.push(("channel-id-of-another-channel", x));
        { let mut cidb = [0u8; 32]; cidb.copy_from_slice(&base[..32]);
          for (_what, b) in near_cids(&cidb) { let mut x = base.clone(); x[..32].copy_from_slice(&b); alts.push(("channel-id-one-bit-flipped", x)); } }
        for l in locks.iter() { if l[..] != base[32..64] { let mut x = base.clone(); x[32..64].copy_from_slice(l); alts.push(("lock-of-another-state", x)); } }
        let mut x = base.clone(); x[32..64].copy_from_slice(&wire::enc_s(&rand_scalar(&mut ctx.prng))); alts.push(("random-lock", x));
        for (off, name) in [(64usize, "merchant-balance"), (72usize, "customer-balance")] {
            let cur = u64::from_le_bytes({ let mut q = [0u8; 8]; q.copy_from_slice(&base[off..off + 8]); q });
            for v in [cur.wrapping_add(1), cur.wrapping_sub(1), other.cb] {
                if v == cur || v > i64::MAX as u64 { continue; }
                let mut x = base.clone(); x[off..off + 8].copy_from_slice(&v.to_le_bytes());
                alts.push((if name == "merchant-balance" { "merchant-balance-altered" } else { "customer-balance-altered" }, x));
            }
        }
        let mut x = base.clone(); let t: Vec<u8> = x[64..72].to_vec(); let u: Vec<u8> = x[72..80].to_vec();
        if t != u { x[64..72].copy_from_slice(&u); x[72..80].copy_from_slice(&t); alts.push(("balances-swapped", x)); }
        for (what, bytes) in alts {
            let ok = check(&bytes);
            ctx.evals += 1;
            ctx.count(&format!("close-check:{}:{}", what, ok));
            if ok {
                ctx.violation(&format!("the merchant's close check accepts a closing message ({}) with {}", stage, what), json!({"class": format!("close-check-accepts-{}", what), "stage": stage, "message": hex::encode(m), "close_state": hex::encode(&bytes)}));
            }
        }
    }
    let _ = (Requested::customer_balance, );
}

pub fn run(ctx: &mut Ctx) {
    let w = match world(ctx, false) { Some(w) => w, None => return };
    let w2 = match world(ctx, false) { Some(w) => w, None => return };
    let (_, rpd2, _, _) = rp_decoded(ctx);
    let w_rp = match world_from(ctx, &w.kpd, w.rev_h, w.rev_g, &rpd2) { Some(w) => w, None => return };
    let (h2, g2) = (nonzero(&mut ctx.prng), nonzero(&mut ctx.prng));
    let w_rev = match world_from(ctx, &w.kpd, h2, g2, &w.rpd) { Some(w) => w, None => return };
    let reps = if ctx.thorough() { 5 } else { 1 };
    let mut idx = 0;
    for _ in 0..reps {
        for _ in 0..ctx.nshards {
            idx += 1; establish_case(ctx, idx, &w, &w2);
            idx += 1; pay_case(ctx, idx, &w, &w2, &w_rp, &w_rev);
            idx += 1; replay_case(ctx, idx, &w, &w2);
            idx += 1; if (idx / 4) % 2 == 0 { closing_case(ctx, idx, &w, &w2); } else { closing_case(ctx, idx, &w2, &w); }
        }
    }
}
