//! Range-constraint lab shared by C10, C13, C19, C02.
use crate::dl::{hex_list, hex_s};
use crate::gen::*;
use crate::kit::*;
use crate::model::Tok;
use crate::props::c09::HG;
use crate::report::{Ctx, Real};
use crate::rng::ScriptedRng;
use crate::schnorr::*;
use crate::wire::{self, PkD};
use bls12_381::{G1Affine, G1Projective, G2Affine, G2Projective, Scalar};
use rand::Rng;
use serde_json::json;
use zkchannels_crypto::proofs::{ChallengeBuilder, RangeConstraint, RangeConstraintBuilder, RangeConstraintParameters};

#[derive(Clone, Debug)]
pub struct RpD {
    pub sigs: Vec<(Scalar, Scalar)>,
    pub pk: PkD,
}

impl RpD {
    pub fn args(&self) -> String {
        let flat: Vec<Scalar> = self.sigs.iter().flat_map(|(a, b)| vec![*a, *b]).collect();
        format!("{} {} {} {} {} {}", hex_list(&flat), hex_s(&self.pk.g1), hex_s(&self.pk.y1s[0]), hex_s(&self.pk.g2), hex_s(&self.pk.x2), hex_s(&self.pk.y2s[0]))
    }
    pub fn bytes(&self, book: &crate::dl::Book) -> Vec<u8> {
        let mut v = vec![];
        for (a, b) in &self.sigs {
            v.extend(wire::enc_g1(book, a));
            v.extend(wire::enc_g1(book, b));
        }
        v.extend(wire::pk_bytes(book, &self.pk));
        v
    }
}

/// range parameters with chosen dlogs through `Deserialize`; returns the secret key (x, y) too
pub fn rp_decoded(ctx: &mut Ctx) -> (RangeConstraintParameters, RpD, Scalar, Scalar) {
    let (x, y, g1, g2) = (nonzero(&mut ctx.prng), nonzero(&mut ctx.prng), nonzero(&mut ctx.prng), nonzero(&mut ctx.prng));
    let kp = wire::KpD::honest(x, vec![y], g1, g2);
    let sigs: Vec<(Scalar, Scalar)> = (0..128u64)
        .map(|i| {
            let h = nonzero(&mut ctx.prng);
            (h, h * (x + y * Scalar::from(i)))
        })
        .collect();
    let d = RpD { sigs, pk: kp.pk };
    let rp: RangeConstraintParameters = wire::de(&d.bytes(&ctx.book)).expect("range parameters decode");
    (rp, d, x, y)
}

pub fn rp_reals(rp: &RangeConstraintParameters) -> Option<Vec<Real>> {
    let b = wire::ser(rp);
    if b.len() != 128 * 96 + 400 {
        return None;
    }
    let g1 = |o: usize| -> Option<Real> { G1Projective::real_bytes_pub(&b[o..o + 48]) };
    let g2 = |o: usize| -> Option<Real> { G2Projective::real_bytes_pub(&b[o..o + 96]) };
    let mut v = vec![Real::V("ok".into()), Real::L(256)];
    for i in 0..256 {
        v.push(g1(i * 48)?);
    }
    let o = 128 * 96;
    v.push(g1(o)?);
    v.push(Real::L(1));
    v.push(g1(o + 48 + 8)?);
    v.push(g2(o + 104)?);
    v.push(g2(o + 200)?);
    v.push(Real::L(1));
    v.push(g2(o + 296 + 8)?);
    Some(v)
}

/// What a generated parameter set publishes, read off its serialization independently of the model:
/// signatures `σ_0 … σ_{n-1}` followed by the range key (400 bytes).  Soundness of every range
/// constraint rests on exactly the digits `0..127` carrying a signature (C13 `DigitUnforgeable`,
/// C02 `pay_balances_in_range`): a published valid signature on a value `≥ 128`, or a missing digit,
/// is a concrete failing parameter set.
pub fn published_digits_audit(ctx: &mut Ctx, bytes: &[u8]) -> bool {
    use zkchannels_crypto::pointcheval_sanders::{PublicKey, Signature};
    use zkchannels_crypto::Message;
    const PK1: usize = 400;
    ctx.evals += 1;
    if bytes.len() < PK1 || (bytes.len() - PK1) % 96 != 0 {
        ctx.broken("range parameters do not serialize as signatures followed by a 400-byte key");
        return false;
    }
    let n = (bytes.len() - PK1) / 96;
    let pk: PublicKey<1> = match wire::de(&bytes[n * 96..]) { Ok(p) => p, Err(_) => { ctx.broken("range key does not decode"); return false; } };
    let mut ok = true;
    for i in 0..n {
        let sig: Signature = match wire::de(&bytes[96 * i..96 * i + 96]) {
            Ok(s) => s,
            Err(e) => {
                ctx.violation(&format!("published digit signature #{} is not a well-formed signature ({}): the digit {} cannot be proven / the parameters do not validate", i, e, i),
                    json!({"class": "range-parameters-digit-signature-malformed", "index": i, "signature": hex::encode(&bytes[96 * i..96 * i + 96])}));
                ok = false;
                continue;
            }
        };
        let on = |v: u64| sig.verify(&pk, &Message::<1>::from(Scalar::from(v)));
        if i >= 128 {
            // which value does the surplus signature sign?
            let signed = (0..=512u64).find(|v| on(*v));
            ctx.violation(
                &format!("RangeConstraintParameters::new publishes {} digit signatures; signature #{} is valid on the value {:?} — a digit outside 0..127 makes values >= 2^63 provable in range", n, i, signed),
                json!({"class": "range-parameters-sign-digit-out-of-range", "published": n, "index": i, "signed_value": signed, "parameters": hex::encode(bytes)}),
            );
            ok = false;
        } else if !on(i as u64) {
            ctx.violation(&format!("published digit signature #{} is not a valid signature on {}", i, i), json!({"class": "range-parameters-digit-signature-invalid", "index": i}));
            ok = false;
        }
    }
    if n < 128 {
        ctx.violation(&format!("RangeConstraintParameters::new publishes only {} digit signatures: digits {}..127 cannot be proven", n, n), json!({"class": "range-parameters-digits-missing", "published": n}));
        ok = false;
    }
    ctx.count(&format!("published-digits:{}:{}", n, ok));
    ok
}

/// `RangeConstraintParameters::new` under the scripted generator, compared with the model's generator
pub fn rp_generated(ctx: &mut Ctx, forced: &[Scalar]) -> Option<(RangeConstraintParameters, RpD)> {
    let book = ctx.book.clone();
    let mut rng = ScriptedRng::new(ctx.prng.gen(), book.clone());
    rng.force_scalars(forced);
    let rp = RangeConstraintParameters::new(&mut rng);
    if let Some(d) = rng.desync.clone() {
        ctx.broken(&format!("scripted RNG desync in RangeConstraintParameters::new: {}", d));
        return None;
    }
    let bytes = wire::ser(&rp);
    if !published_digits_audit(ctx, &bytes) { return None; }
    let stream = stream_arg(&book, &rng.log, &bytes);
    let mut reals = rp_reals(&rp)?;
    reals.push(Real::N(0));
    let (ok, toks) = ctx.expect_toks(&format!("rp-gen {}", stream), &reals);
    if !ok {
        return None;
    }
    let s = |i: usize| if let Tok::S(a) = &toks[i] { *a } else { Scalar::zero() };
    let sigs: Vec<(Scalar, Scalar)> = (0..128).map(|i| (s(2 + 2 * i), s(3 + 2 * i))).collect();
    let o = 2 + 256;
    let pk = PkD { g1: s(o), y1s: vec![s(o + 2)], g2: s(o + 3), x2: s(o + 4), y2s: vec![s(o + 6)] };
    Some((rp, RpD { sigs, pk }))
}

pub fn digits_of(v: u64) -> Vec<u64> {
    let mut v = v;
    (0..9).map(|_| { let d = v % 128; v /= 128; d }).collect()
}

pub fn flat_proofs(ps: &[SpD]) -> String {
    let flat: Vec<Scalar> = ps.iter().flat_map(|p| vec![p.s1, p.s2, p.cp.c, p.cp.t, p.cp.zbf, p.cp.zs[0]]).collect();
    hex_list(&flat)
}

pub fn constraint_bytes(book: &crate::dl::Book, ps: &[SpD]) -> Vec<u8> {
    ps.iter().flat_map(|p| p.bytes(book)).collect()
}

pub struct RangeRun {
    pub constraint: RangeConstraint,
    pub proofs: Vec<SpD>,
    pub commitment_scalar: Scalar,
    pub c: Scalar,
}

/// The real range prover on `value`, with an externally supplied challenge derivation:
/// `mk_challenge` receives the builder (to hash it together with other builders).
pub fn range_honest(
    ctx: &mut Ctx,
    rp: &RangeConstraintParameters,
    rpd: &RpD,
    value: i64,
    fixed_c: Option<Scalar>,
) -> Option<RangeRun> {
    let book = ctx.book.clone();
    let mut rng = ScriptedRng::new(ctx.prng.gen(), book.clone());
    if !ctx.forced_next.is_empty() {
        // caller-prescribed first draws (a digit's blinding factor solved against the range key)
        let f = std::mem::take(&mut ctx.forced_next);
        rng.force_scalars(&f);
    }
    let builder = match RangeConstraintBuilder::generate_constraint_commitments(value, rp, &mut rng) {
        Ok(b) => b,
        Err(_) => {
            let _ = ctx.expect(&format!("range-prove {} {:x} - 1", rpd.args(), value as u64), &[Real::V("none".into())]);
            ctx.count("range-prove:refused");
            if value >= 0 {
                ctx.violation(&format!("range prover refused the non-negative value {}", value), json!({"class": "range-refuses-nonnegative", "value": value}));
            }
            return None;
        }
    };
    if value < 0 {
        ctx.violation(&format!("range prover accepted the negative value {}", value), json!({"class": "range-accepts-negative", "value": value}));
        return None;
    }
    let cs = builder.commitment_scalar();
    let drawn = rng.scalars_in_log();
    let (challenge, c) = match fixed_c {
        Some(s) => (chal(&s), s),
        None => {
            let ch = ChallengeBuilder::new().with(&builder).finish();
            (ch, ch.to_scalar())
        }
    };
    let constraint = builder.generate_constraint_response(challenge);
    if fixed_c.is_none() {
        let c2 = ChallengeBuilder::new().with(&constraint).finish().to_scalar();
        ctx.count("challenge:builder-vs-proof");
        if c2 != c {
            ctx.violation("challenge derived from the finished range constraint differs from the builder's", json!({"class": "challenge-mismatch", "kind": "range-constraint"}));
        }
    }
    // completeness on the real object, before any model comparison
    if !constraint.verify_range_constraint(rp, chal(&c), c * Scalar::from(value as u64) + cs) {
        ctx.violation(
            &format!("honest range constraint for {} does not verify against the linked response scalar c*v + commitment_scalar", value),
            json!({"class": "honest-range-rejected", "value": value}),
        );
    }
    let pb = wire::ser(&constraint);
    if pb.len() != 9 * 360 {
        ctx.broken("range constraint is not 9 x 360 bytes");
        return None;
    }
    let digits = digits_of(value as u64);
    let mut draws: Vec<Scalar> = vec![];
    let mut reals: Vec<Real> = vec![Real::V("ok".into()), Real::S(cs), Real::L(9)];
    for j in 0..9 {
        let b = &pb[j * 360..(j + 1) * 360];
        let (cb, tb, zbf, zs) = split_cp(&b[96..], 96, 1)?;
        let d = Scalar::from(digits[j]);
        let (sig1, _sig2) = rpd.sigs[digits[j] as usize];
        let real_c: G2Affine = Option::from(G2Affine::from_compressed(&{ let mut a = [0u8; 96]; a.copy_from_slice(&cb); a }))?;
        let real_s1: G1Affine = Option::from(G1Affine::from_compressed(&{ let mut a = [0u8; 48]; a.copy_from_slice(&b[..48]); a }))?;
        let base = rpd.pk.y2s[0] * d;
        let bf = drawn.iter().cloned().find(|s| G2Projective::from(real_c) == book.g2(s * rpd.pk.g2 + base));
        let r = drawn.iter().cloned().find(|s| G1Projective::from(real_s1) == book.g1(s * sig1));
        let (bf, r) = match (bf, r) {
            (Some(a), Some(b)) => (a, b),
            _ => {
                ctx.broken("range builder: cannot identify blinding factor / re-randomiser of a digit proof among the drawn scalars");
                return None;
            }
        };
        draws.extend(vec![bf, zbf - c * bf, zs[0] - c * d, r]);
        reals.push(G1Projective::real_bytes_pub(&b[..48])?);
        reals.push(G1Projective::real_bytes_pub(&b[48..96])?);
        reals.push(G2Projective::real_bytes_pub(&cb)?);
        reals.push(G2Projective::real_bytes_pub(&tb)?);
        reals.push(Real::S(zbf));
        reals.push(Real::L(1));
        reals.push(Real::S(zs[0]));
    }
    let op = format!("range-prove {} {:x} {} {}", rpd.args(), value as u64, hex_list(&draws), hex_s(&c));
    let (ok, toks) = ctx.expect_toks(&op, &reals);
    if !ok {
        return None;
    }
    let s = |i: usize| if let Tok::S(a) = &toks[i] { *a } else { Scalar::zero() };
    let proofs: Vec<SpD> = (0..9)
        .map(|j| {
            let o = 3 + j * 7;
            SpD { s1: s(o), s2: s(o + 1), cp: CpD { c: s(o + 2), t: s(o + 3), zbf: s(o + 4), zs: vec![s(o + 6)] } }
        })
        .collect();
    ctx.count("range-prove:ok");
    Some(RangeRun { constraint, proofs, commitment_scalar: cs, c })
}

/// verify a (possibly attacker-assembled) constraint given as atoms: real (from bytes), model, expectation
pub fn range_verify_check(
    ctx: &mut Ctx,
    rp: &RangeConstraintParameters,
    rpd: &RpD,
    proofs: &[SpD],
    c: &Scalar,
    expected: &Scalar,
    expect: Option<bool>,
    what: &str,
) -> Option<bool> {
    let book = ctx.book.clone();
    let constraint: RangeConstraint = match wire::de(&constraint_bytes(&book, proofs)) {
        Ok(c) => c,
        Err(e) => {
            ctx.broken(&format!("range constraint does not decode: {}", e));
            return None;
        }
    };
    let real = constraint.verify_range_constraint(rp, chal(c), *expected);
    let op = format!("range-verify {} {} {} {}", rpd.args(), flat_proofs(proofs), hex_s(c), hex_s(expected));
    let _ = ctx.expect(&op, &[Real::B(real)]);
    ctx.count(&format!("range-verify:{}:{}", what, real));
    if let Some(e) = expect {
        if real != e {
            ctx.violation(
                &format!("range constraint verification returned {} on {}, expected {}", real, what, e),
                json!({"class": what, "rp": rpd.args(), "proofs": flat_proofs(proofs), "c": hex_s(c), "expected": hex_s(expected)}),
            );
        }
    }
    Some(real)
}
