//! Schnorr-proof lab shared by C08, C10, C11, C12: run the real provers with witness recovery,
//! rebuild (possibly tampered) proofs from wire atoms, verify on real code / model / oracle.
use crate::dl::{hex_list, hex_s, Book};
use crate::kit::*;
use crate::model::Tok;
use crate::props::c09::HG;
use crate::report::{Ctx, Real};
use crate::rng::ScriptedRng;
use crate::wire::{self, PkD};
use bls12_381::{pairing, G1Affine, G1Projective, G2Affine, G2Projective, Scalar};
use group::Curve;
use rand::Rng;
use serde_json::json;
use zkchannels_crypto::pedersen::PedersenParameters;
use zkchannels_crypto::pointcheval_sanders::{PublicKey, Signature};
use zkchannels_crypto::proofs::{
    verif_hooks, Challenge, ChallengeBuilder, CommitmentProof, CommitmentProofBuilder, SignatureProof,
    SignatureProofBuilder, SignatureRequestProof, SignatureRequestProofBuilder,
};

pub fn chal(s: &Scalar) -> Challenge {
    verif_hooks::challenge_from_scalar(*s)
}

/// wire atoms of a commitment proof, as discrete logs / scalars
#[derive(Clone, Debug)]
pub struct CpD {
    pub c: Scalar,
    pub t: Scalar,
    pub zbf: Scalar,
    pub zs: Vec<Scalar>,
}
impl CpD {
    pub fn args(&self) -> String {
        format!("{} {} {} {}", hex_s(&self.c), hex_s(&self.t), hex_s(&self.zbf), hex_list(&self.zs))
    }
    pub fn bytes<G: HG>(&self, book: &Book) -> Vec<u8> {
        wire::cat(vec![
            G::enc(book, &self.c),
            G::enc(book, &self.t),
            wire::enc_s(&self.zbf),
            wire::arr(self.zs.iter().map(wire::enc_s).collect()),
        ])
    }
}
#[derive(Clone, Debug)]
pub struct SpD {
    pub s1: Scalar,
    pub s2: Scalar,
    pub cp: CpD,
}
impl SpD {
    pub fn args(&self) -> String {
        format!("{} {} {}", hex_s(&self.s1), hex_s(&self.s2), self.cp.args())
    }
    pub fn bytes(&self, book: &Book) -> Vec<u8> {
        wire::cat(vec![wire::enc_g1(book, &self.s1), wire::enc_g1(book, &self.s2), self.cp.bytes::<G2Projective>(book)])
    }
}

#[derive(Clone, Debug)]
pub struct Witness {
    pub ms: Vec<Scalar>,
    pub bf: Scalar,
    pub tbf: Scalar,
    pub ts: Vec<Scalar>,
}

/// split real commitment-proof bytes into (C bytes, T bytes, zbf, zs)
pub fn split_cp(b: &[u8], elen: usize, n: usize) -> Option<(Vec<u8>, Vec<u8>, Scalar, Vec<Scalar>)> {
    let s_at = |o: usize| -> Option<Scalar> {
        let mut a = [0u8; 32];
        a.copy_from_slice(&b[o..o + 32]);
        Scalar::from_bytes(&a).into()
    };
    let zbf = s_at(2 * elen)?;
    let mut zs = vec![];
    let mut o = 2 * elen + 32 + 8;
    for _ in 0..n {
        zs.push(s_at(o)?);
        o += 32;
    }
    Some((b[..elen].to_vec(), b[elen..2 * elen].to_vec(), zbf, zs))
}

pub fn opts_arg(opts: &[Option<Scalar>]) -> String {
    opts.iter().map(|o| match o { Some(s) => hex_s(s), None => "_".to_string() }).collect::<Vec<_>>().join(",")
}

/// How the challenge of an honest run is chosen.
#[derive(Clone, Copy)]
pub enum ChalMode {
    /// derived from the builder with `ChallengeBuilder`; must equal the one derived from the proof
    Derived,
    /// a chosen scalar (through the verif-hooks constructor)
    Fixed(Scalar),
}

/// Honest commitment proof through the real builder; all atoms compared with the model's prover
/// run on the recovered witness.  Returns the proof atoms, the witness and the challenge.
pub fn cp_honest<G: HG, const N: usize>(
    ctx: &mut Ctx,
    pp: &PedersenParameters<G, N>,
    h: &Scalar,
    gs: &[Scalar],
    ms: &[Scalar],
    opts: &[Option<Scalar>; N],
    mode: ChalMode,
) -> Option<(CommitmentProof<G, N>, CpD, Witness, Scalar)>
where
    G: group::GroupEncoding,
{
    let book = ctx.book.clone();
    let mut rng = ScriptedRng::new(ctx.prng.gen(), book.clone());
    let builder = CommitmentProofBuilder::<G, N>::generate_proof_commitments(&mut rng, wire::msg::<N>(ms), opts, pp);
    let bf = builder.message_blinding_factor().as_scalar();
    let ts = builder.conjunction_commitment_scalars().to_vec();
    for (o, t) in opts.iter().zip(ts.iter()) {
        if let Some(s) = o {
            if s != t {
                ctx.violation("caller-chosen commitment scalar not used by the builder", json!({"class": "commitment-scalar-ignored"}));
            }
        }
    }
    let (challenge, c) = match mode {
        ChalMode::Derived => {
            let ch = ChallengeBuilder::new().with(&builder).finish();
            (ch, ch.to_scalar())
        }
        ChalMode::Fixed(s) => (chal(&s), s),
    };
    let proof = builder.generate_proof_response(challenge);
    if let ChalMode::Derived = mode {
        let c2 = ChallengeBuilder::new().with(&proof).finish().to_scalar();
        ctx.count("challenge:builder-vs-proof");
        if c2 != c {
            ctx.violation("challenge derived from the finished proof differs from the builder's", json!({"class": "challenge-mismatch", "kind": "commitment-proof", "N": N}));
        }
    }
    let pb = wire::ser(&proof);
    let (cb, tb, zbf, zs) = split_cp(&pb, G::LEN, N)?;
    let tbf = zbf - c * bf;
    let op = format!("cp-prove {} {} {} {} {} {} {}", hex_s(h), hex_list(gs), hex_list(ms), hex_s(&bf), hex_s(&tbf), hex_list(&ts), hex_s(&c));
    let mut reals = vec![G::real_bytes(&cb)?, G::real_bytes(&tb)?, Real::S(zbf)];
    reals.extend(real_list_s(&zs));
    let (ok, toks) = ctx.expect_toks(&op, &reals);
    if !ok {
        return None;
    }
    let (cd, td) = match (&toks[0], &toks[1]) { (Tok::S(a), Tok::S(b)) => (*a, *b), _ => return None };
    Some((proof, CpD { c: cd, t: td, zbf, zs }, Witness { ms: ms.to_vec(), bf, tbf, ts }, c))
}

/// Verify commitment-proof atoms on the real code (rebuilt from bytes), the model and an
/// independent evaluation of `Com(z) = T + c·C` in the real group.
pub fn cp_verify_check<G: HG, const N: usize>(
    ctx: &mut Ctx,
    pp: &PedersenParameters<G, N>,
    h: &Scalar,
    gs: &[Scalar],
    p: &CpD,
    c: &Scalar,
    expect: Option<bool>,
    what: &str,
) -> Option<bool> {
    let book = ctx.book.clone();
    let proof: CommitmentProof<G, N> = match wire::de(&p.bytes::<G>(&book)) {
        Ok(p) => p,
        Err(e) => {
            ctx.broken(&format!("commitment proof does not decode: {}", e));
            return None;
        }
    };
    let real = proof.verify_knowledge_of_opening(pp, chal(c));
    let op = format!("cp-verify {} {} {} {}", hex_s(h), hex_list(gs), p.args(), hex_s(c));
    let _ = ctx.expect(&op, &[Real::B(real)]);
    ctx.count(&format!("cp-verify:{}:{}:{}", G::NAME, what, real));
    let mut lhs = G::mat(&book, h) * p.zbf;
    for (g, z) in gs.iter().zip(p.zs.iter()) {
        lhs = lhs + G::mat(&book, g) * z;
    }
    let oracle = lhs == G::mat(&book, &p.t) + G::mat(&book, &p.c) * c;
    let detail = json!({"class": what, "group": G::NAME, "N": N, "h": hex_s(h), "gs": hex_list(gs), "proof": p.args(), "c": hex_s(c)});
    if oracle != real {
        ctx.violation(&format!("commitment-proof verification returned {} but Com(z) = T + c*C is {} [{}]", real, oracle, what), detail.clone());
    }
    if let Some(e) = expect {
        if real != e {
            ctx.violation(&format!("commitment-proof verification returned {} on {}, expected {}", real, what, e), detail);
        }
    }
    Some(real)
}

/// Honest signature-request proof (real builder, witness recovery, model comparison).
pub fn srp_honest<const N: usize>(
    ctx: &mut Ctx,
    pk: &PublicKey<N>,
    pkd: &PkD,
    ms: &[Scalar],
    opts: &[Option<Scalar>; N],
    mode: ChalMode,
) -> Option<(SignatureRequestProof<N>, CpD, Witness, Scalar)> {
    let book = ctx.book.clone();
    let mut rng = ScriptedRng::new(ctx.prng.gen(), book.clone());
    let builder = SignatureRequestProofBuilder::<N>::generate_proof_commitments(&mut rng, wire::msg::<N>(ms), opts, pk);
    let bf = builder.message_blinding_factor().as_scalar();
    let ts = builder.conjunction_commitment_scalars().to_vec();
    for (i, (o, t)) in opts.iter().zip(ts.iter()).enumerate() {
        if let Some(s) = o {
            if s != t {
                ctx.violation(&format!("caller-chosen commitment scalar (slot {}, value {}) not used by the signature-request builder", i, hex_s(s)), json!({"class": "commitment-scalar-ignored", "kind": "signature-request-proof", "N": N, "slot": i}));
            }
        }
    }
    let (challenge, c) = match mode {
        ChalMode::Derived => {
            let ch = ChallengeBuilder::new().with(&builder).finish();
            (ch, ch.to_scalar())
        }
        ChalMode::Fixed(s) => (chal(&s), s),
    };
    let proof = builder.generate_proof_response(challenge);
    if let ChalMode::Derived = mode {
        let c2 = ChallengeBuilder::new().with(&proof).finish().to_scalar();
        ctx.count("challenge:builder-vs-proof");
        if c2 != c {
            ctx.violation("challenge derived from the finished proof differs from the builder's", json!({"class": "challenge-mismatch", "kind": "signature-request-proof", "N": N}));
        }
    }
    let pb = wire::ser(&proof);
    let (cb, tb, zbf, zs) = split_cp(&pb, 48, N)?;
    let tbf = zbf - c * bf;
    let op = format!("cp-prove {} {} {} {} {} {} {}", hex_s(&pkd.g1), hex_list(&pkd.y1s), hex_list(ms), hex_s(&bf), hex_s(&tbf), hex_list(&ts), hex_s(&c));
    let mut reals = vec![G1Projective::real_bytes(&cb)?, G1Projective::real_bytes(&tb)?, Real::S(zbf)];
    reals.extend(real_list_s(&zs));
    let (ok, toks) = ctx.expect_toks(&op, &reals);
    if !ok {
        return None;
    }
    let (cd, td) = match (&toks[0], &toks[1]) { (Tok::S(a), Tok::S(b)) => (*a, *b), _ => return None };
    Some((proof, CpD { c: cd, t: td, zbf, zs }, Witness { ms: ms.to_vec(), bf, tbf, ts }, c))
}

/// Verify signature-request atoms: real (`Option<VerifiedBlindedMessage>`), model, oracle.
/// Returns the real verified value's element when accepted.
pub fn srp_verify_check<const N: usize>(
    ctx: &mut Ctx,
    pk: &PublicKey<N>,
    pkd: &PkD,
    p: &CpD,
    c: &Scalar,
    expect: Option<bool>,
    what: &str,
) -> Option<Option<zkchannels_crypto::pointcheval_sanders::VerifiedBlindedMessage>> {
    let book = ctx.book.clone();
    let proof: SignatureRequestProof<N> = match wire::de(&p.bytes::<G1Projective>(&book)) {
        Ok(p) => p,
        Err(e) => {
            ctx.broken(&format!("signature request proof does not decode: {}", e));
            return None;
        }
    };
    let real = proof.verify_knowledge_of_opening(pk, chal(c));
    let op = format!("srp-verify {} {} {} {}", hex_s(&pkd.g1), hex_list(&pkd.y1s), p.args(), hex_s(c));
    let reals = match &real {
        // the verified value is opaque; its element is checked by blind-signing it (see C08 cases)
        Some(_) => vec![Real::V("some".into()), Real::G1(book.g1a(p.c))],
        None => vec![Real::V("none".into())],
    };
    let _ = ctx.expect(&op, &reals);
    ctx.count(&format!("srp-verify:{}:{}", what, real.is_some()));
    let mut lhs = book.g1(pkd.g1) * p.zbf;
    for (g, z) in pkd.y1s.iter().zip(p.zs.iter()) {
        lhs += book.g1(*g) * z;
    }
    let oracle = lhs == book.g1(p.t) + book.g1(p.c) * c;
    let detail = json!({"class": what, "N": N, "pk": pk_args(pkd), "proof": p.args(), "c": hex_s(c)});
    if oracle != real.is_some() {
        ctx.violation(&format!("signature-request verification returned {} but Com(z) = T + c*C is {} [{}]", real.is_some(), oracle, what), detail.clone());
    }
    if let Some(e) = expect {
        if real.is_some() != e {
            ctx.violation(&format!("signature-request verification returned {} on {}, expected {}", real.is_some(), what, e), detail);
        }
    }
    Some(real)
}

/// Honest signature proof (real builder; witness recovered without assuming the order of draws).
pub fn sp_honest<const N: usize>(
    ctx: &mut Ctx,
    pk: &PublicKey<N>,
    pkd: &PkD,
    ms: &[Scalar],
    sig: &Signature,
    opts: &[Option<Scalar>; N],
    mode: ChalMode,
    force_r: Option<Scalar>,
) -> Option<(SignatureProof<N>, SpD, Witness, Scalar, Scalar)> {
    let book = ctx.book.clone();
    let (s1, s2) = (book.dlog_g1(&sig.sigma1())?, book.dlog_g1(&sig.sigma2())?);
    let mut rng = ScriptedRng::new(ctx.prng.gen(), book.clone());
    if let Some(r) = force_r {
        // draws: bf, tbf, one per None, then the re-randomiser (draw order of the pinned code);
        // if the order ever changes the role search below still finds the right assignment or reports
        let nones = opts.iter().filter(|o| o.is_none()).count();
        let mut f: Vec<Scalar> = (0..nones + 2).map(|_| crate::gen::rand_scalar(&mut ctx.prng)).collect();
        f.push(r);
        rng.force_scalars(&f);
    } else if !ctx.forced_next.is_empty() {
        // caller-prescribed first draws (e.g. a blinding factor solved against the secret key)
        let f = std::mem::take(&mut ctx.forced_next);
        rng.force_scalars(&f);
    }
    let builder = SignatureProofBuilder::<N>::generate_proof_commitments(&mut rng, wire::msg::<N>(ms), *sig, opts, pk);
    let ts = builder.conjunction_commitment_scalars().to_vec();
    for (i, (o, t)) in opts.iter().zip(ts.iter()).enumerate() {
        if let Some(s) = o {
            if s != t {
                ctx.violation(&format!("caller-chosen commitment scalar (slot {}, value {}) not used by the signature-proof builder", i, crate::dl::hex_s(s)), json!({"class": "commitment-scalar-ignored", "kind": "signature-proof", "N": N, "slot": i}));
            }
        }
    }
    let drawn = rng.scalars_in_log();
    let (challenge, c) = match mode {
        ChalMode::Derived => {
            let ch = ChallengeBuilder::new().with(&builder).finish();
            (ch, ch.to_scalar())
        }
        ChalMode::Fixed(s) => (chal(&s), s),
    };
    let proof = builder.generate_proof_response(challenge);
    if let ChalMode::Derived = mode {
        let c2 = ChallengeBuilder::new().with(&proof).finish().to_scalar();
        ctx.count("challenge:builder-vs-proof");
        if c2 != c {
            ctx.violation("challenge derived from the finished proof differs from the builder's", json!({"class": "challenge-mismatch", "kind": "signature-proof", "N": N}));
        }
    }
    let pb = wire::ser(&proof);
    let (cb, tb, zbf, zs) = split_cp(&pb[96..], 96, N)?;
    let sig_b = (G1Projective::real_bytes(&pb[..48])?, G1Projective::real_bytes(&pb[48..96])?);
    // role recovery: bf is the drawn scalar that explains C; r the drawn scalar that explains sigma1'
    let real_c: G2Affine = Option::from(G2Affine::from_compressed(&{ let mut a = [0u8; 96]; a.copy_from_slice(&cb); a }))?;
    let real_s1: G1Affine = Option::from(G1Affine::from_compressed(&{ let mut a = [0u8; 48]; a.copy_from_slice(&pb[..48]); a }))?;
    let mut base = Scalar::zero();
    for (y, m) in pkd.y2s.iter().zip(ms.iter()) {
        base += y * m;
    }
    let bf = drawn.iter().cloned().find(|s| G2Projective::from(real_c) == book.g2(s * pkd.g2 + base));
    let r = drawn.iter().cloned().find(|s| G1Projective::from(real_s1) == book.g1(s * s1));
    let (bf, r) = match (bf, r) {
        (Some(a), Some(b)) => (a, b),
        _ => {
            ctx.broken("signature proof builder: cannot identify blinding factor / re-randomiser among the drawn scalars");
            return None;
        }
    };
    let tbf = zbf - c * bf;
    let op = format!(
        "sp-prove {} {} {} {} {} {} {} {} {}",
        pk_args(pkd), hex_list(ms), hex_s(&s1), hex_s(&s2), hex_s(&bf), hex_s(&tbf), hex_list(&ts), hex_s(&r), hex_s(&c)
    );
    let mut reals = vec![sig_b.0, sig_b.1, G2Projective::real_bytes(&cb)?, G2Projective::real_bytes(&tb)?, Real::S(zbf)];
    reals.extend(real_list_s(&zs));
    let (ok, toks) = ctx.expect_toks(&op, &reals);
    if !ok {
        return None;
    }
    let d = |i: usize| if let Tok::S(a) = &toks[i] { *a } else { Scalar::zero() };
    Some((proof, SpD { s1: d(0), s2: d(1), cp: CpD { c: d(2), t: d(3), zbf, zs } }, Witness { ms: ms.to_vec(), bf, tbf, ts }, c, r))
}

pub fn sp_verify_check<const N: usize>(
    ctx: &mut Ctx,
    pk: &PublicKey<N>,
    pkd: &PkD,
    p: &SpD,
    c: &Scalar,
    expect: Option<bool>,
    what: &str,
) -> Option<bool> {
    let book = ctx.book.clone();
    if p.s1 == Scalar::zero() {
        // an identity sigma1' cannot be put on the wire (decoder rejects it); covered through the API
        ctx.count("sp-verify:identity-sigma1-not-encodable");
        return None;
    }
    let proof: SignatureProof<N> = match wire::de(&p.bytes(&book)) {
        Ok(p) => p,
        Err(e) => {
            ctx.broken(&format!("signature proof does not decode: {}", e));
            return None;
        }
    };
    sp_verify_real(ctx, pk, pkd, &proof, p, c, expect, what)
}

pub fn sp_verify_real<const N: usize>(
    ctx: &mut Ctx,
    pk: &PublicKey<N>,
    pkd: &PkD,
    proof: &SignatureProof<N>,
    p: &SpD,
    c: &Scalar,
    expect: Option<bool>,
    what: &str,
) -> Option<bool> {
    let book = ctx.book.clone();
    let real = proof.verify_knowledge_of_signature(pk, chal(c));
    let op = format!("sp-verify {} {} {}", pk_args(pkd), p.args(), hex_s(c));
    let _ = ctx.expect(&op, &[Real::B(real)]);
    ctx.count(&format!("sp-verify:{}:{}", what, real));
    let mut lhs = book.g2(pkd.g2) * p.cp.zbf;
    for (g, z) in pkd.y2s.iter().zip(p.cp.zs.iter()) {
        lhs += book.g2(*g) * z;
    }
    let schnorr = lhs == book.g2(p.cp.t) + book.g2(p.cp.c) * c;
    let pair = pairing(&book.g1a(p.s1), &(book.g2(pkd.x2) + book.g2(p.cp.c)).to_affine()) == pairing(&book.g1a(p.s2), &book.g2a(pkd.g2));
    let oracle = p.s1 != Scalar::zero() && schnorr && pair;
    let detail = json!({"class": what, "N": N, "pk": pk_args(pkd), "proof": p.args(), "c": hex_s(c)});
    if oracle != real {
        ctx.violation(&format!("signature-proof verification returned {} but the relations say {} (schnorr {}, pairing {}) [{}]", real, oracle, schnorr, pair, what), detail.clone());
    }
    if let Some(e) = expect {
        if real != e {
            ctx.violation(&format!("signature-proof verification returned {} on {}, expected {}", real, what, e), detail);
        }
    }
    Some(real)
}
