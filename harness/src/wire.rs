//! Wire assembly: build real-code values with chosen discrete logs through their public
//! `Deserialize` implementations (bincode, fixed-int encoding), and take real values apart.
//!
//! Layouts (checked against real encodings on every run by `selfcheck`):
//! `Scalar` 32 LE | `G1` 48 compressed | `G2` 96 compressed | `[T; N]` written by serde.rs = u64 len ‖ items.
use crate::dl::Book;
use bls12_381::{G1Affine, G1Projective, G2Affine, G2Projective, Scalar};
use group::Curve;
use serde::de::DeserializeOwned;
use zkchannels_crypto::{
    pedersen::{Commitment, PedersenParameters},
    pointcheval_sanders::{KeyPair, PublicKey, Signature},
    BlindingFactor, Message,
};

pub fn enc_s(s: &Scalar) -> Vec<u8> {
    s.to_bytes().to_vec()
}
pub fn enc_g1(book: &Book, d: &Scalar) -> Vec<u8> {
    book.g1a(*d).to_compressed().to_vec()
}
pub fn enc_g2(book: &Book, d: &Scalar) -> Vec<u8> {
    book.g2a(*d).to_compressed().to_vec()
}
pub fn arr(items: Vec<Vec<u8>>) -> Vec<u8> {
    let mut v = (items.len() as u64).to_le_bytes().to_vec();
    for i in items {
        v.extend(i);
    }
    v
}
pub fn cat(parts: Vec<Vec<u8>>) -> Vec<u8> {
    parts.into_iter().flatten().collect()
}
pub fn de<T: DeserializeOwned>(bytes: &[u8]) -> Result<T, String> {
    bincode::deserialize::<T>(bytes).map_err(|e| e.to_string())
}
pub fn ser<T: serde::Serialize>(t: &T) -> Vec<u8> {
    bincode::serialize(t).expect("serialize")
}

pub fn bf(s: &Scalar) -> BlindingFactor {
    de(&enc_s(s)).expect("blinding factor")
}
pub fn msg<const N: usize>(ms: &[Scalar]) -> Message<N> {
    let mut a = [Scalar::zero(); N];
    a.copy_from_slice(ms);
    Message::new(a)
}
pub fn commitment_g1(p: &G1Affine) -> Commitment<G1Projective> {
    de(&p.to_compressed()).expect("commitment g1")
}
pub fn commitment_g2(p: &G2Affine) -> Commitment<G2Projective> {
    de(&p.to_compressed()).expect("commitment g2")
}

/// dlogs of a public key: (g1, y1s, g2, x2, y2s)
#[derive(Clone, Debug)]
pub struct PkD {
    pub g1: Scalar,
    pub y1s: Vec<Scalar>,
    pub g2: Scalar,
    pub x2: Scalar,
    pub y2s: Vec<Scalar>,
}
#[derive(Clone, Debug)]
pub struct KpD {
    pub x: Scalar,
    pub ys: Vec<Scalar>,
    pub x1: Scalar,
    pub pk: PkD,
}

impl KpD {
    /// a key pair shaped like keygen's output
    pub fn honest(x: Scalar, ys: Vec<Scalar>, g1: Scalar, g2: Scalar) -> KpD {
        KpD {
            x,
            x1: x * g1,
            pk: PkD {
                g1,
                y1s: ys.iter().map(|y| y * g1).collect(),
                g2,
                x2: x * g2,
                y2s: ys.iter().map(|y| y * g2).collect(),
            },
            ys,
        }
    }
}

pub fn pk_bytes(book: &Book, pk: &PkD) -> Vec<u8> {
    cat(vec![
        enc_g1(book, &pk.g1),
        arr(pk.y1s.iter().map(|d| enc_g1(book, d)).collect()),
        enc_g2(book, &pk.g2),
        enc_g2(book, &pk.x2),
        arr(pk.y2s.iter().map(|d| enc_g2(book, d)).collect()),
    ])
}
pub fn kp_bytes(book: &Book, kp: &KpD) -> Vec<u8> {
    cat(vec![
        enc_s(&kp.x),
        arr(kp.ys.iter().map(enc_s).collect()),
        enc_g1(book, &kp.x1),
        pk_bytes(book, &kp.pk),
    ])
}
pub fn pubkey<const N: usize>(book: &Book, pk: &PkD) -> Result<PublicKey<N>, String> {
    de(&pk_bytes(book, pk))
}
pub fn keypair<const N: usize>(book: &Book, kp: &KpD) -> Result<KeyPair<N>, String> {
    de(&kp_bytes(book, kp))
}
pub fn sig(book: &Book, s1: &Scalar, s2: &Scalar) -> Result<Signature, String> {
    de(&cat(vec![enc_g1(book, s1), enc_g1(book, s2)]))
}

/// Take a real public key apart into dlogs (every element must be in the book).
pub fn pk_dlogs<const N: usize>(book: &Book, pk: &PublicKey<N>) -> Option<PkD> {
    let b = ser(pk);
    let mut o = 0usize;
    let g1 = book.dlog_g1_bytes(&b[o..o + 48])?;
    o += 48 + 8;
    let mut y1s = vec![];
    for _ in 0..N {
        y1s.push(book.dlog_g1_bytes(&b[o..o + 48])?);
        o += 48;
    }
    let g2 = book.dlog_g2_bytes(&b[o..o + 96])?;
    o += 96;
    let x2 = book.dlog_g2_bytes(&b[o..o + 96])?;
    o += 96 + 8;
    let mut y2s = vec![];
    for _ in 0..N {
        y2s.push(book.dlog_g2_bytes(&b[o..o + 96])?);
        o += 96;
    }
    Some(PkD { g1, y1s, g2, x2, y2s })
}

pub fn ped_g1<const N: usize>(book: &Book, h: &Scalar, gs: &[Scalar]) -> PedersenParameters<G1Projective, N> {
    let mut a = [G1Projective::identity(); N];
    for (x, d) in a.iter_mut().zip(gs) {
        *x = book.g1(*d);
    }
    PedersenParameters::from_generators(book.g1(*h), a)
}
pub fn ped_g2<const N: usize>(book: &Book, h: &Scalar, gs: &[Scalar]) -> PedersenParameters<G2Projective, N> {
    let mut a = [G2Projective::identity(); N];
    for (x, d) in a.iter_mut().zip(gs) {
        *x = book.g2(*d);
    }
    PedersenParameters::from_generators(book.g2(*h), a)
}

pub fn g1_of(p: &G1Projective) -> G1Affine {
    p.to_affine()
}
pub fn g2_of(p: &G2Projective) -> G2Affine {
    p.to_affine()
}


/// a reader that hands its input out a few bytes at a time (a file or socket, not a slice: nothing can be borrowed)
pub struct Dribble<'a> { data: &'a [u8], pos: usize }
impl<'a> Dribble<'a> { pub fn new(data: &'a [u8]) -> Self { Dribble { data, pos: 0 } } }
impl<'a> std::io::Read for Dribble<'a> {
    fn read(&mut self, buf: &mut [u8]) -> std::io::Result<usize> {
        let n = buf.len().min(self.data.len() - self.pos).min(1 + self.pos % 7);
        buf[..n].copy_from_slice(&self.data[self.pos..self.pos + n]);
        self.pos += n;
        Ok(n)
    }
}

/// JSON text with every character inside a string literal written as a \uXXXX escape (still the same document;
/// a deserializer cannot borrow such a string from the input)
pub fn json_escape_all(js: &[u8]) -> Vec<u8> {
    let text = String::from_utf8_lossy(js).to_string();
    let mut out = String::new();
    let mut in_str = false;
    let mut chars = text.chars();
    while let Some(c) = chars.next() {
        if !in_str {
            if c == '"' { in_str = true; }
            out.push(c);
        } else if c == '\\' {
            out.push(c);
            if let Some(d) = chars.next() { out.push(d); if d == 'u' { for _ in 0..4 { if let Some(h) = chars.next() { out.push(h); } } } }
        } else if c == '"' {
            in_str = false;
            out.push(c);
        } else {
            let mut b = [0u16; 2];
            for u in c.encode_utf16(&mut b) { out.push_str(&format!("\\u{:04x}", u)); }
        }
    }
    out.into_bytes()
}

/// Write a value as JSON and read it back through every front-end of the format: the slice and string parsers,
/// a reader (the way a file is read), an intermediate `serde_json::Value` (the value as one field of a larger document),
/// pretty-printed text and fully escaped text.  All must give back the same value (compared by bincode bytes).
pub fn json_roundtrip_all<T: serde::Serialize + DeserializeOwned>(x: &T) -> Result<Vec<u8>, String> {
    let js = serde_json::to_vec(x).map_err(|e| format!("to JSON: {}", e))?;
    let first: T = serde_json::from_slice(&js).map_err(|e| format!("from JSON (from_slice): {}", e))?;
    let bytes = ser(&first);
    let text = String::from_utf8(js.clone()).map_err(|e| format!("JSON text is not UTF-8: {}", e))?;
    let pretty = serde_json::to_string_pretty(x).map_err(|e| format!("to pretty JSON: {}", e))?;
    let escaped = json_escape_all(&js);
    let others: Vec<(&str, Result<T, serde_json::Error>)> = vec![
        ("from_str", serde_json::from_str(&text)),
        ("from_reader", serde_json::from_reader(Dribble { data: &js, pos: 0 })),
        ("from_value", serde_json::from_slice::<serde_json::Value>(&js).and_then(serde_json::from_value)),
        ("to_value/from_value", serde_json::to_value(x).and_then(serde_json::from_value)),
        ("pretty from_str", serde_json::from_str(&pretty)),
        ("escaped from_slice", serde_json::from_slice(&escaped)),
    ];
    for (what, r) in others {
        match r {
            Ok(v) => if ser(&v) != bytes { return Err(format!("from JSON ({}) gives a different value than from_slice", what)); },
            Err(e) => return Err(format!("from JSON ({}): {} (from_slice reads the same document)", what, e)),
        }
    }
    // number tokens respelled: an integer field written as a float (`7` -> `7.0`, `7.5`, `-7.0`) is either refused or read
    // as exactly the integer it denotes - never truncated, rounded or saturated into some other value
    let toks = json_int_tokens(&text);
    let pick: Vec<usize> = if toks.len() <= 10 { (0..toks.len()).collect() } else { let mut v: Vec<usize> = (0..4).chain(toks.len() - 4..toks.len()).collect(); v.push(toks.len() / 2); v.push(toks.len() / 3); v };
    for ti in pick {
        let (a, b) = toks[ti];
        let tok = &text[a..b];
        for (what, spelled, same_value) in [("written as a float", format!("{}.0", tok), true), ("with a fraction", format!("{}.5", tok), false), ("with a negative fraction", format!("-{}.5", tok.trim_start_matches('-')), false), ("in exponent form", format!("{}e0", tok), true), ("divided by ten in exponent form", format!("{}e-1", tok), tok.ends_with('0') && tok != "0" && false)] {
            let doc = format!("{}{}{}", &text[..a], spelled, &text[b..]);
            if let Ok(v) = serde_json::from_str::<T>(&doc) {
                if !same_value || ser(&v) != bytes {
                    return Err(format!("from JSON: the integer {} {} (`{}`) is accepted and read as {} value", tok, what, spelled, if ser(&v) == bytes { "the same" } else { "a different" }));
                }
            }
        }
    }
    Ok(bytes)
}

/// byte ranges of the integer literals (`-?[0-9]+`, not followed by a fraction or exponent) of a JSON text, outside strings
pub fn json_int_tokens(text: &str) -> Vec<(usize, usize)> {
    let b = text.as_bytes();
    let mut out = vec![];
    let mut i = 0;
    let mut in_str = false;
    while i < b.len() {
        let c = b[i];
        if in_str {
            if c == b'\\' { i += 2; continue; }
            if c == b'"' { in_str = false; }
            i += 1;
        } else if c == b'"' {
            in_str = true; i += 1;
        } else if c == b'-' || c.is_ascii_digit() {
            let start = i;
            i += 1;
            while i < b.len() && (b[i].is_ascii_digit() || b[i] == b'.' || b[i] == b'e' || b[i] == b'E' || b[i] == b'+' || b[i] == b'-') { i += 1; }
            let tok = &text[start..i];
            if tok.trim_start_matches('-').bytes().all(|x| x.is_ascii_digit()) && tok != "-" { out.push((start, i)); }
        } else { i += 1; }
    }
    out
}
